package main

// Further property registrations (kept apart from props.go so each batch of rules lands with its claim).

func addRules(id string, extra ...string) {
	p := properties[id]
	if p == nil {
		return
	}
	for _, r := range extra {
		dup := false
		for _, x := range p.Rules {
			if x == r {
				dup = true
			}
		}
		if !dup {
			p.Rules = append(p.Rules, r)
		}
	}
}

func init() {
	all := append(append([]string{}, commonAssumptions...), compAssumptions...)
	prop("C02", "Decides the panic classes whose absence is visible in the shape of the code, for every program and input: compiled code cannot underflow the VM stack or desynchronise ip (R-STACK, R-ARITY); recursion is bounded by a dominating depth test and unwound on every path (R-DEPTH); every explicit panic is a typed error converted by a recover, or sits in the default clause of a switch proved exhaustive, or is tabled with its invariant; every Must* call with a run-time argument and every unchecked type assertion is tabled with its validity argument (R-PANIC, R-EXH); every float->integer conversion is range-guarded, saturating or tabled as any-result-benign (R-F2I); the record-state aliasing and native-function table clauses are decided by R-RECSTATE and R-KIND. Not decided: general absence of index/slice/nil-dereference panics (only the enumerated classes), memory exhaustion, panics inside regexp/fmt/reflect.",
		all, "R-PANIC", "R-EXH", "R-F2I", "R-DEPTH", "R-STACK", "R-ARITY")
	prop("C03", "Decides: every explicit panic reachable from ParseProgram carries a *ast.PositionError (or *compileError inside Compile) that the API-boundary recover converts, or is proved unreachable by exhaustiveness (R-PANIC, R-EXH); every caller of the panicking resolver API runs under a recover; the lexer's cursor/position fields have a single owner (next()), other code may only restore a whole-state snapshot, so a reported position is always the true line/column of a byte that was scanned (R-LEXPOS); the CLI indexes the source by the reported position only after a bounds test. Not decided: implicit runtime panics (index, nil) in lexer/parser, Go stack depth for deeply nested input.",
		commonAssumptions, "R-PANIC", "R-EXH", "R-LEXPOS")
	prop("C15", "Decides the structural clauses of cancellation: the context poll dominates every handler of the dispatch loop and lies on its cycle; the counter is an interpreter field shared by nested execute calls, compared with a constant <= 1000; checkContextNow polls the done channel and returns ctx.Err(); every error return of executeAll after execute/execActions prefers the context's error; child processes are created with CommandContext exactly when a cancellable context is in force; system() prefers the context error after a failed wait; ExecuteContext assigns and Execute clears the context state before executeAll; closeAll is deferred so earlier output is delivered. Not decided: wall-clock latency, interruption of blocking reads, loops that execute no VM instruction.",
		commonAssumptions, "R-CTX")
	addRules("C01", "R-F2I", "R-EXH", "R-SIBLING", "R-VALCONS")
	prop("C05", "Decides the structural clauses of the value model: the six comparison handlers and their fused-jump siblings apply the operator their AWK token names to (left,right), choose the string branch exactly when either operand is a true string, and the two polarities of a fused condition are complements (R-CMP); Global/Local handler siblings agree (R-SIBLING); input-derived text becomes a numeric-string value at exactly the producers the property lists (fields, getline targets, split, ARGV, ENVIRON, Vars, FILENAME) and nowhere else; number->string conversion uses CONVFMT everywhere except print's OFMT; isTrueStr and boolean share one whole-string recogniser and num() uses the prefix parser (R-VALCONS); the integer special case of number->string is guarded by the round-trip test (R-F2I); the whole-string and prefix recognisers agree on their whitespace class and on out-of-range input (R-NUMPARSE). Not decided: the numeric value of any conversion, CONVFMT/OFMT results, strconv behaviour.",
		commonAssumptions, "R-CMP", "R-SIBLING", "R-VALCONS", "R-F2I")
}
