package main

// Further property registrations (kept apart from props.go so each batch of rules lands with its claim).

func addRules(id string, extra ...string) {
	p := properties[id]
	if p == nil {
		return
	}
	for _, r := range extra {
		dup := false
		for _, x := range p.Rules {
			if x == r {
				dup = true
			}
		}
		if !dup {
			p.Rules = append(p.Rules, r)
		}
	}
}

func init() {
	all := append(append([]string{}, commonAssumptions...), compAssumptions...)
	prop("C02", "Decides the panic classes whose absence is visible in the shape of the code, for every program and input: compiled code cannot underflow the VM stack or desynchronise ip (R-STACK, R-ARITY); recursion is bounded by a dominating depth test and unwound on every path (R-DEPTH); every explicit panic is a typed error converted by a recover, or sits in the default clause of a switch proved exhaustive, or is tabled with its invariant; every Must* call with a run-time argument and every unchecked type assertion is tabled with its validity argument (R-PANIC, R-EXH); every float->integer conversion is range-guarded, saturating or tabled as any-result-benign (R-F2I); the record-state aliasing and native-function table clauses are decided by R-RECSTATE and R-KIND. Not decided: general absence of index/slice/nil-dereference panics (only the enumerated classes), memory exhaustion, panics inside regexp/fmt/reflect.",
		all, "R-PANIC", "R-EXH", "R-F2I", "R-DEPTH", "R-STACK", "R-ARITY")
	prop("C03", "Decides: every explicit panic reachable from ParseProgram carries a *ast.PositionError (or *compileError inside Compile) that the API-boundary recover converts, or is proved unreachable by exhaustiveness (R-PANIC, R-EXH); every caller of the panicking resolver API runs under a recover; the lexer's cursor/position fields have a single owner (next()), other code may only restore a whole-state snapshot, so a reported position is always the true line/column of a byte that was scanned (R-LEXPOS); the CLI indexes the source by the reported position only after a bounds test. Not decided: implicit runtime panics (index, nil) in lexer/parser, Go stack depth for deeply nested input.",
		commonAssumptions, "R-PANIC", "R-EXH", "R-LEXPOS")
	prop("C15", "Decides the structural clauses of cancellation: the context poll dominates every handler of the dispatch loop and lies on its cycle; the counter is an interpreter field shared by nested execute calls, compared with a constant <= 1000; checkContextNow polls the done channel and returns ctx.Err(); every error return of executeAll after execute/execActions prefers the context's error; child processes are created with CommandContext exactly when a cancellable context is in force; system() prefers the context error after a failed wait; ExecuteContext assigns and Execute clears the context state before executeAll; closeAll is deferred so earlier output is delivered. Not decided: wall-clock latency, interruption of blocking reads, loops that execute no VM instruction.",
		commonAssumptions, "R-CTX")
	prop("C07", "Decides the protocol clauses that make record reading independent of how bytes arrive, for all four bufio.SplitFunc splitters (newline via the stdlib, single byte, blank-line, regex): no persistent state is committed on a path that can still answer 'need more data'; a record is delivered only after the terminator search ran (the final unterminated record only after the search failed); a maximal-munch terminator (regex match, newline run) is committed only after comparing its end with len(data), with the need-more return reachable from that test; offsets are used only in the coordinate system of the slice they index (R-SPLIT); NR/FNR are written only by the successful-scan path of nextLine (R-COUNTERS). These are necessary, not sufficient: a regex alternation can still prefer a longer match that starts inside a committed one; the reconstruction equations, bufio's own buffer management and 64 KiB edge behaviour are not decided.",
		commonAssumptions, "R-SPLIT")
	prop("C08", "Decides, for the CSV/TSV record scanner, the Scanner-protocol clauses (no persistent state such as the BOM flag, row counter, header callback or the fields pointer is touched on a path that can still answer 'need more data'; the record is delivered only after the line search ran) and the coordinate clause (the record text $0 is sliced from the original data with offsets that count from its start, so it can never contain bytes of a neighbouring record) (R-SPLIT); that no long-lived alias of the current record's field slice is handed to scanners of other streams (R-RECSTATE); separator/comment validation dominates every construction of a splitter or CSV writer (R-CSVCONF). Not decided: RFC 4180 conformance of the field scanner itself, the write-then-read round trip at value level.",
		commonAssumptions, "R-SPLIT")
	prop("C06", "Decides the structural clauses of record-state consistency: the NF cache is only ever assigned the length of the field slice; the field- and NF-assignment paths rebuild $0 from the fields before every successful return that follows a store into the field slices; no address of a record-group field is handed to an object that outlives the call (so reads from other streams cannot overwrite the current record's fields); reading a field or special variable reaches no store outside the lazily computed members; setLine invalidates the split and saves FS together with its compiled form, and the lazy splitter consults only the saved FS; the field slices are only re-sliced downwards; the FS/RS 'compile a regex' conditions are the complements of the splitter-selection conditions (R-RECSTATE); trimming/splitting library calls and scanner token limits follow the tabled conventions (R-IOCONV); field-index conversions saturate (R-F2I). Not decided: the splitting results themselves (FS semantics at value level), equivalence of lazy and eager splitting.",
		commonAssumptions, "R-RECSTATE", "R-IOCONV", "R-F2I")
	addRules("C07", "R-IOCONV")
	addRules("C08", "R-IOCONV", "R-RECSTATE:alias,census")
	addRules("C01", "R-F2I", "R-EXH", "R-SIBLING", "R-VALCONS")
	prop("C05", "Decides the structural clauses of the value model: the six comparison handlers and their fused-jump siblings apply the operator their AWK token names to (left,right), choose the string branch exactly when either operand is a true string, and the two polarities of a fused condition are complements (R-CMP); Global/Local handler siblings agree (R-SIBLING); input-derived text becomes a numeric-string value at exactly the producers the property lists (fields, getline targets, split, ARGV, ENVIRON, Vars, FILENAME) and nowhere else; number->string conversion uses CONVFMT everywhere except print's OFMT; isTrueStr and boolean share one whole-string recogniser and num() uses the prefix parser (R-VALCONS); the integer special case of number->string is guarded by the round-trip test (R-F2I); the whole-string and prefix recognisers agree on their whitespace class and on out-of-range input (R-NUMPARSE). Not decided: the numeric value of any conversion, CONVFMT/OFMT results, strconv behaviour.",
		commonAssumptions, "R-CMP", "R-SIBLING", "R-VALCONS", "R-F2I")
}
