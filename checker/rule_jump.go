package main

import (
	"go/ast"
	"go/token"
	"go/types"
	"sort"
	"strconv"
)

// R-JUMP (C01, C02): jump offsets mean the same thing to the compiler and to the VM.
//
// Convention, read off both sides and compared: a jump instruction's offset is its LAST
// operand and is relative to the address just after the instruction.
//   VM:        on the taken path ip ends at (first operand address + number of operands + offset),
//              with the offset read from operand index (number of operands - 1)   [from the VM model];
//              ForIn runs code[end : end+offset] as the body and continues at end+offset.
//   compiler:  jumpForward emits op, args, placeholder and returns the address after them ("mark");
//              patchForward(mark) stores len(code)-mark at code[mark-1]  => target = len(code) at patch time;
//              jumpBackward(label, op, args) emits op, args, label-(len(code)+len(args)+2) => target = label;
//              labelBackward returns len(code).
// The compiler helpers are interpreted symbolically (linear forms over L = len(c.code) on entry,
// A = len(args), and the int parameters); an off-by-one in any of them changes a coefficient or
// constant and is reported.

func init() {
	register("R-JUMP", "jump arithmetic: in every VM handler that adds an operand to ip, that operand is the handler's last operand, is added exactly once, and every path of the handler advances ip by the same static amount (so the target is the address after the instruction plus the offset); ForIn executes code[ip:ip+offset] and continues at ip+offset; on the compiler side, by linear arithmetic over len(c.code), len(args) and the parameters: jumpForward's result is the address after the instruction it emitted and its placeholder is the last opcode emitted; patchForward stores len(c.code)-mark at index mark-1; jumpBackward's offset is label minus the address after the instruction it emits and is the last opcode emitted; labelBackward returns len(c.code)", ruleJump)
}

type jEnv struct {
	vars map[string]Lin
	L    Lin // current len(c.code)
}

func ruleJump(c *Ctx) {
	// ---- VM side, from the VM model
	m := buildVMModel(c)
	if m == nil || len(m.ops) == 0 {
		c.undecided("anchor:vm-model", token.NoPos, "VM model not available")
		return
	}
	var opNames []string
	for n := range m.ops {
		opNames = append(opNames, n)
	}
	sort.Strings(opNames)
	nJ := 0
	for _, name := range opNames {
		s := m.ops[name]
		if s == nil || len(s.Jumps) == 0 {
			continue
		}
		nJ++
		key := "jump:vm:" + name
		switch {
		case len(s.Issues) > 0:
			c.bad(key, s.Pos, "handler %s: %v", name, s.Issues)
		case len(s.Jumps) != 1 || s.Jumps[0] != s.NOper-1:
			c.bad(key, s.Pos, "handler %s adds operand(s) %v to ip but has %d operands: the jump offset must be the last operand (the compiler patches the last opcode of the instruction)", name, s.Jumps, s.NOper)
		default:
			c.ok(key, s.Pos, "target = address after the instruction (%d operands) + operand %d", s.NOper, s.Jumps[0])
		}
	}
	c.atLeast("VM handlers that jump", nJ, 10)
	// ForIn body slice
	if ex := c.funcDecl("interp", "interp.execute"); ex != nil {
		found, good := false, false
		ast.Inspect(ex.Body, func(n ast.Node) bool {
			cc, ok := n.(*ast.CaseClause)
			if !ok || len(cc.List) != 1 || selName(cc.List[0]) != "ForIn" {
				return true
			}
			found = true
			ast.Inspect(cc, func(x ast.Node) bool {
				sl, ok := x.(*ast.SliceExpr)
				if !ok || !isIdent(sl.X, "code") || sl.Low == nil || sl.High == nil {
					return true
				}
				lo, hi := types.ExprString(sl.Low), types.ExprString(sl.High)
				if lo == "ip" && (hi == "ip+int(offset)" || hi == "ip + int(offset)" || hi == "int(offset)+ip" || hi == "int(offset) + ip") {
					good = true
				}
				return true
			})
			return false
		})
		if !found {
			c.undecided("jump:vm:ForIn-body", ex.Pos(), "ForIn handler not found")
		} else {
			c.check(good, "jump:vm:ForIn-body", ex.Pos(), "the loop body is code[ip : ip+offset] after the operands", "the ForIn handler does not execute code[ip : ip+offset] as the loop body: the body boundaries disagree with the offset the compiler patches")
		}
	}

	// ---- compiler side
	info := c.pkg("internal/compiler").TypesInfo
	helper := func(name string) *ast.FuncDecl { return c.funcDecl("internal/compiler", "compiler."+name) }
	// add appends exactly its arguments
	if fd := helper("add"); fd != nil {
		ok := len(fd.Body.List) == 1 && types.ExprString(fd.Body.List[0].(*ast.AssignStmt).Rhs[0]) == "append(c.code, ops...)"
		c.check(ok, "jump:compiler:add", fd.Pos(), "add appends exactly the given opcodes", "compiler.add is no longer `c.code = append(c.code, ops...)`: the address arithmetic of the jump helpers assumes it appends exactly its arguments")
	} else {
		c.undecided("anchor:compiler.add", token.NoPos, "compiler.add not found")
		return
	}
	_ = info
	type emitted struct {
		count  Lin
		last   Lin // value of the last opcode of this emission
		lastOK bool
	}
	// run interprets a helper by linear arithmetic; other methods of the compiler it calls are entered with
	// their integer parameters bound to the argument values and their slice parameters to the argument's
	// length. It returns the final len(c.code), the emissions, the returned value and the stores into c.code.
	type store struct{ idx, val Lin }
	type runState struct {
		L      Lin
		emits  []emitted
		stores []store
		ok     bool
	}
	var exec func(fd *ast.FuncDecl, rs *runState, vars, lens map[string]Lin, depth int) *Lin
	exec = func(fd *ast.FuncDecl, rs *runState, vars, lens map[string]Lin, depth int) *Lin {
		recv := fd.Recv.List[0].Names[0].Name
		var lin func(e ast.Expr) (Lin, bool)
		lin = func(e ast.Expr) (Lin, bool) {
			switch v := e.(type) {
			case *ast.ParenExpr:
				return lin(v.X)
			case *ast.BasicLit:
				if n, err := strconv.Atoi(v.Value); err == nil {
					return linC(n), true
				}
			case *ast.Ident:
				if l, okv := vars[v.Name]; okv {
					return l, true
				}
			case *ast.CallExpr:
				if isIdent(v.Fun, "len") && len(v.Args) == 1 {
					if isSel(v.Args[0], recv, "code") {
						return rs.L, true
					}
					if id, isId := v.Args[0].(*ast.Ident); isId {
						if l, okl := lens[id.Name]; okl {
							return l, true
						}
					}
				}
				if isIdent(v.Fun, "opcodeInt") && len(v.Args) == 1 {
					return lin(v.Args[0])
				}
				if tv, okt := info.Types[v.Fun]; okt && tv.IsType() && len(v.Args) == 1 {
					return lin(v.Args[0])
				}
			case *ast.BinaryExpr:
				a, ok1 := lin(v.X)
				b, ok2 := lin(v.Y)
				if ok1 && ok2 {
					switch v.Op {
					case token.ADD:
						return a.Add(b), true
					case token.SUB:
						return a.Sub(b), true
					}
				}
			}
			return Lin{}, false
		}
		var ret *Lin
		for _, st := range fd.Body.List {
			switch s := st.(type) {
			case *ast.AssignStmt:
				if len(s.Lhs) != 1 || len(s.Rhs) != 1 {
					rs.ok = false
					continue
				}
				if ix, isIx := s.Lhs[0].(*ast.IndexExpr); isIx && isSel(ix.X, recv, "code") {
					i, ok1 := lin(ix.Index)
					v, ok2 := lin(s.Rhs[0])
					if ok1 && ok2 {
						rs.stores = append(rs.stores, store{i, v})
					} else {
						rs.ok = false
					}
					continue
				}
				if id, isId := s.Lhs[0].(*ast.Ident); isId {
					if v, okv := lin(s.Rhs[0]); okv {
						vars[id.Name] = v
						continue
					}
				}
				rs.ok = false
			case *ast.ExprStmt:
				call, isCall := s.X.(*ast.CallExpr)
				if !isCall {
					rs.ok = false
					continue
				}
				se, isSe := call.Fun.(*ast.SelectorExpr)
				if !isSe || !isIdent(se.X, recv) {
					rs.ok = false
					continue
				}
				if se.Sel.Name == "add" {
					em := emitted{count: linC(len(call.Args))}
					if len(call.Args) > 0 {
						em.last, em.lastOK = lin(call.Args[len(call.Args)-1])
					}
					if call.Ellipsis.IsValid() {
						em.lastOK = false
						if id, isId := call.Args[len(call.Args)-1].(*ast.Ident); isId && len(call.Args) == 1 {
							if l, okl := lens[id.Name]; okl {
								em.count = l
							} else {
								rs.ok = false
							}
						} else {
							rs.ok = false
						}
					}
					rs.emits = append(rs.emits, em)
					rs.L = rs.L.Add(em.count)
					continue
				}
				// another method of the compiler: entered
				callee := helper(se.Sel.Name)
				if callee == nil || callee.Body == nil || depth >= 3 {
					rs.ok = false
					continue
				}
				cvars, clens := map[string]Lin{}, map[string]Lin{}
				i := 0
				for _, f := range callee.Type.Params.List {
					for _, nm := range f.Names {
						if i >= len(call.Args) {
							break
						}
						arg := call.Args[i]
						t := info.TypeOf(f.Type)
						if _, isEll := f.Type.(*ast.Ellipsis); isEll {
							t = types.NewSlice(info.TypeOf(f.Type.(*ast.Ellipsis).Elt))
						}
						if b, okb := t.Underlying().(*types.Basic); okb && b.Info()&types.IsInteger != 0 {
							if v, okv := lin(arg); okv {
								cvars[nm.Name] = v
							}
						} else if _, isSl := t.Underlying().(*types.Slice); isSl {
							if id, isId := arg.(*ast.Ident); isId {
								if l, okl := lens[id.Name]; okl {
									clens[nm.Name] = l
								}
							}
						}
						i++
					}
				}
				exec(callee, rs, cvars, clens, depth+1)
			case *ast.ReturnStmt:
				if len(s.Results) == 1 {
					if v, okv := lin(s.Results[0]); okv {
						ret = &v
					} else {
						rs.ok = false
					}
				}
			default:
				rs.ok = false
			}
		}
		return ret
	}
	run := func(fd *ast.FuncDecl) (L Lin, emits []emitted, ret *Lin, stores []store, ok bool) {
		rs := &runState{L: linAtom("L"), ok: true}
		vars, lens := map[string]Lin{}, map[string]Lin{}
		for _, f := range fd.Type.Params.List {
			for _, nm := range f.Names {
				if _, isEll := f.Type.(*ast.Ellipsis); isEll {
					lens[nm.Name] = linAtom("A")
					continue
				}
				if b, okb := info.TypeOf(f.Type).Underlying().(*types.Basic); okb && b.Info()&types.IsInteger != 0 {
					vars[nm.Name] = linAtom("P_" + nm.Name)
				}
			}
		}
		ret = exec(fd, rs, vars, lens, 0)
		return rs.L, rs.emits, ret, rs.stores, rs.ok
	}
	L0 := linAtom("L")
	A := linAtom("A")
	endAddr := L0.Add(A).Add(linC(2)) // op + args + offset
	// jumpForward
	if fd := helper("jumpForward"); fd != nil {
		L, emits, ret, _, ok := run(fd)
		good := ok && ret != nil && ret.Eq(L) && L.Eq(endAddr) && len(emits) == 3
		if good {
			good = emits[2].lastOK && emits[2].count.Eq(linC(1)) && emits[2].last.IsZero()
		}
		c.check(good, "jump:compiler:jumpForward", fd.Pos(), "emits op, args and a zero placeholder last; returns the address after them",
			"jumpForward does not emit <op, args..., placeholder> and return the address just after the placeholder: patchForward would patch the wrong opcode or compute the offset from the wrong base")
	} else {
		c.undecided("anchor:jumpForward", token.NoPos, "compiler.jumpForward not found")
	}
	// patchForward
	if fd := helper("patchForward"); fd != nil {
		L, emits, _, stores, ok := run(fd)
		mark := linAtom("P_" + fd.Type.Params.List[0].Names[0].Name)
		good := ok && len(emits) == 0 && len(stores) == 1 && stores[0].idx.Eq(mark.Sub(linC(1))) && stores[0].val.Eq(L.Sub(mark))
		c.check(good, "jump:compiler:patchForward", fd.Pos(), "stores len(code)-mark into the opcode before mark: target = len(code) at patch time",
			"patchForward does not store len(c.code)-mark at index mark-1: forward jumps (if/else, loop exits, && || ?:) land one instruction off")
	} else {
		c.undecided("anchor:patchForward", token.NoPos, "compiler.patchForward not found")
	}
	// jumpBackward
	if fd := helper("jumpBackward"); fd != nil {
		L, emits, _, _, ok := run(fd)
		label := linAtom("P_" + fd.Type.Params.List[0].Names[0].Name)
		good := ok && len(emits) == 3 && L.Eq(endAddr)
		if good {
			good = emits[2].lastOK && emits[2].count.Eq(linC(1)) && emits[2].last.Eq(label.Sub(endAddr))
		}
		c.check(good, "jump:compiler:jumpBackward", fd.Pos(), "emits op, args and label-(address after the instruction) last: target = label",
			"jumpBackward's offset is not label minus the address just after the instruction it emits (or is not the last opcode emitted): loops jump back to the wrong instruction")
	} else {
		c.undecided("anchor:jumpBackward", token.NoPos, "compiler.jumpBackward not found")
	}
	// labelBackward
	if fd := helper("labelBackward"); fd != nil {
		_, emits, ret, _, ok := run(fd)
		c.check(ok && len(emits) == 0 && ret != nil && ret.Eq(L0), "jump:compiler:labelBackward", fd.Pos(), "returns len(code)", "labelBackward does not return len(c.code)")
	} else {
		c.undecided("anchor:labelBackward", token.NoPos, "compiler.labelBackward not found")
	}
}
