package main

import (
	"fmt"
	"go/ast"
	"go/constant"
	"go/token"
	"go/types"
	"sort"
	"strings"

	"golang.org/x/tools/go/ssa"
)

// R-IOCONV (C06, C07, C08): conventions of the input layer that keep records and fields lossless.

func init() {
	register("R-IOCONV", "input-layer conventions: (TRIM) Unicode-aware trimming/splitting functions (strings/bytes TrimSpace, Trim*, Fields) are called in package interp only at the tabled places where AWK semantics ask for blank-splitting (FS=\" \" field splitting, split() with \" \", mode-string parsing); anywhere else they would silently drop bytes of fields or records; (SCANBUF) every bufio.Scanner that reads script-visible input gets its token limit raised with Buffer(..., maxRecordLength) before it is used, otherwise records above 64 KiB are lost; (OWNER) each reusable scratch buffer of the interpreter is referenced by exactly one function, so two live scanners never share a buffer; (TERMINATOR) every record delivered by nextLine is preceded by resetting RT to RS", ruleIOConv)
}

var trimTable = map[string]string{
	"interp.ensureFields:strings.Fields":     "FS=\" \": fields are runs of non-blanks (the AWK default field splitting)",
	"interp.split:strings.Fields":            "split(s, a, \" \"): same blank-splitting as FS=\" \"",
	"parseInputMode:strings.Fields":          "parsing the INPUTMODE option string",
	"parseOutputMode:strings.Fields":         "parsing the OUTPUTMODE option string",
	"parseFloat:strings.TrimSpace":           "whole-string number recogniser (whitespace class discussed under R-NUMPARSE)",
	"interp.ensureFields:strings.TrimSuffix": "RS=\"\" with single-char FS: a trailing CR of each line is dropped (CRLF input)",
	"interp.ensureFields:strings.Split":      "single-character FS / newline splitting in paragraph mode",
}

func ruleIOConv(c *Ctx) {
	recordsAreCopies(c)
	p := c.pkg("interp")
	info := p.TypesInfo
	// TRIM
	nTrim := 0
	for _, fd := range c.allFuncDecls("interp") {
		if fd.Body == nil {
			continue
		}
		fname := declName(fd)
		ast.Inspect(fd.Body, func(n ast.Node) bool {
			call, ok := n.(*ast.CallExpr)
			if !ok {
				return true
			}
			f := calleeOf(info, call)
			if f == nil || f.Pkg() == nil || (f.Pkg().Path() != "strings" && f.Pkg().Path() != "bytes") {
				return true
			}
			nm := f.Name()
			if !(strings.HasPrefix(nm, "Trim") || nm == "Fields" || nm == "FieldsFunc") {
				return true
			}
			nTrim++
			key := "trim:" + fname + ":" + f.Pkg().Path() + "." + nm
			// (a) a fixed ASCII prefix/suffix/cutset is not class-based: nothing Unicode-aware about it
			if nm == "TrimSuffix" || nm == "TrimPrefix" || nm == "TrimLeft" || nm == "TrimRight" || nm == "Trim" {
				if len(call.Args) == 2 {
					if tv, ok := info.Types[call.Args[1]]; ok && tv.Value != nil {
						ascii := true
						for _, b := range []byte(tv.Value.ExactString()) {
							if b >= 0x80 {
								ascii = false
							}
						}
						if ascii {
							c.trivial("trim-fixed:"+f.Pkg().Path()+"."+nm+":"+tv.Value.ExactString(), call.Pos(), "fixed ASCII cutset %s: removes exactly those bytes", tv.Value.ExactString())
							return true
						}
					}
				}
			}
			// (b) blank-splitting where AWK asks for it: the call is reached only when a separator equals " "
			if nm == "Fields" {
				if file := fileOf(c, "interp", fd); file != nil {
					blank := false
					for _, pc := range pathConds(file, call) {
						if b, ok := pc.e.(*ast.BinaryExpr); ok && pc.sense && b.Op == token.EQL {
							for _, side := range []ast.Expr{b.X, b.Y} {
								if tv, ok := info.Types[side]; ok && tv.Value != nil && tv.Value.ExactString() == `" "` {
									blank = true
								}
							}
						}
					}
					if blank {
						c.ok("trim-blank-split:"+f.Pkg().Path()+"."+nm, call.Pos(), "reached only when the separator is \" \": runs of blanks separate fields (the AWK default splitting)")
						return true
					}
				}
			}
			if why, ok := trimTable[fname+":"+f.Pkg().Path()+"."+nm]; ok {
				c.ok(key, call.Pos(), "tabled: %s", why)
			} else {
				c.bad(key, call.Pos(), "%s calls %s.%s, a Unicode-aware trim/split, outside the tabled places: applied to field or record text it silently removes bytes (blanks, non-ASCII spaces) that must be preserved", fname, f.Pkg().Path(), nm)
			}
			return true
		})
	}
	c.atLeast("trim/fields call sites", nTrim, 4)

	// SCANBUF
	nScan := 0
	for _, fn := range c.srcFuncs("interp") {
		fn := fn
		allInstrs(fn, func(in ssa.Instruction) {
			call, ok := in.(*ssa.Call)
			if !ok || call.Call.StaticCallee() == nil || call.Call.StaticCallee().String() != "bufio.NewScanner" {
				return
			}
			nScan++
			key := "scanbuf:" + fnKey(fn)
			// reader argument: an empty strings.NewReader("") is exempt
			if len(call.Call.Args) == 1 {
				if mi, ok := call.Call.Args[0].(*ssa.MakeInterface); ok {
					if rc, ok := mi.X.(*ssa.Call); ok && rc.Call.StaticCallee() != nil && rc.Call.StaticCallee().String() == "strings.NewReader" {
						if k, ok := rc.Call.Args[0].(*ssa.Const); ok && k.Value != nil && k.Value.ExactString() == `""` {
							c.ok(key+":empty", in.Pos(), "scanner over an empty reader (failed command): never yields a record")
							return
						}
					}
				}
			}
			has := false
			var sizeOK bool
			for _, r := range *call.Referrers() {
				if c2, ok := r.(*ssa.Call); ok && c2.Call.StaticCallee() != nil && c2.Call.StaticCallee().String() == "(*bufio.Scanner).Buffer" {
					has = true
					if len(c2.Call.Args) == 3 {
						if k, ok := c2.Call.Args[2].(*ssa.Const); ok && k.Value != nil {
							if v := constInts(k, 0); len(v) == 1 && v[0] >= 1<<20 {
								sizeOK = true
							}
						}
					}
				}
			}
			// scanner stored in a local cell and re-loaded
			if !has {
				for _, r := range *call.Referrers() {
					if st, ok := r.(*ssa.Store); ok {
						if cell, ok := st.Addr.(*ssa.Alloc); ok {
							for _, r2 := range *cell.Referrers() {
								if ld, ok := r2.(*ssa.UnOp); ok {
									for _, r3 := range *ld.Referrers() {
										if c2, ok := r3.(*ssa.Call); ok && c2.Call.StaticCallee() != nil && c2.Call.StaticCallee().String() == "(*bufio.Scanner).Buffer" {
											has, sizeOK = true, true
										}
									}
								}
							}
						}
					}
				}
			}
			c.check(has && sizeOK, key, in.Pos(), "token limit raised with Buffer(..., maxRecordLength)", fnKey(fn)+" creates a bufio.Scanner without raising its token limit: records longer than 64 KiB make Scan fail and are lost (e.g. NF becomes 0)")
		})
	}
	c.atLeast("bufio.NewScanner sites", nScan, 3)

	// OWNER: scratch buffers referenced by one function
	_, st := c.structType("interp", "interp")
	for _, bf := range []string{"inputBuffer", "splitBuffer", "csvOutput", "csvJoinFieldsBuf"} {
		fv := fieldByName(st, bf)
		if fv == nil {
			c.undecided("owner:"+bf, token.NoPos, "scratch buffer field %s not found", bf)
			continue
		}
		users := map[string]bool{}
		for _, fd := range c.allFuncDecls("interp") {
			if fd.Body == nil {
				continue
			}
			ast.Inspect(fd.Body, func(n ast.Node) bool {
				if se, ok := n.(*ast.SelectorExpr); ok && info.Uses[se.Sel] == types.Object(fv) {
					users[declName(fd)] = true
				}
				return true
			})
		}
		us := keys(users)
		sort.Strings(us)
		c.check(len(us) == 1, "owner:"+bf, fv.Pos(), fmt.Sprintf("scratch buffer %s is used only by %v", bf, us), fmt.Sprintf("scratch buffer %s is used by %v: two live users would overwrite each other's buffered data", bf, us))
	}

	// TERMINATOR: in nextLine the Scan() call is dominated by the reset of recordTerminator
	nl := c.ssaFunc("interp", "interp.nextLine")
	if nl == nil {
		c.undecided("anchor:nextLine", token.NoPos, "nextLine not found")
		return
	}
	var scanCall ssa.Instruction
	allInstrs(nl, func(in ssa.Instruction) {
		if call, ok := in.(*ssa.Call); ok && call.Call.StaticCallee() != nil && call.Call.StaticCallee().String() == "(*bufio.Scanner).Scan" {
			scanCall = in
		}
	})
	if scanCall == nil {
		c.undecided("rt-reset", nl.Pos(), "no Scanner.Scan call in nextLine")
		return
	}
	okRT := false
	for _, in := range scanCall.Block().Instrs {
		if in == scanCall {
			break
		}
		if name, val := interpFieldStore(in); name == "recordTerminator" {
			if interpFieldLoad(val) == "recordSep" {
				okRT = true
			}
		}
	}
	c.check(okRT, "rt-reset", scanCall.Pos(), "RT is reset to RS immediately before each Scan (splitters that know better overwrite it)", "RT is not reset to RS before each Scan: with a single-character RS, RT keeps the value of an earlier record or stream")
	csvWriterConfig(c)
}

// csvWriterConfig: (CSVW) every record written through encoding/csv is written with the separator and
// line ending that are in force now: each call of (*csv.Writer).Write in package interp is reached only
// through stores of the writer's Comma (from the output configuration) and UseCRLF in the same function
// (OUTPUTMODE can change between two records, and an Interpreter can be reused with another separator);
// and (EMPTY) a record consisting of one empty field does not reach Write at all (encoding/csv writes it
// as an empty line, which CSV readers skip), but is written quoted.
// csvWriterReuse: encoding/csv buffers what it writes in a bufio.Writer of its own unless it is handed a
// *bufio.Writer (large enough), which it then uses directly; a record written without Flush on the csv.Writer is
// only delivered in the second case. Every value passed to csv.NewWriter whose csv.Writer is not flushed must
// therefore be known to be a *bufio.Writer: built from one, or reached only through a successful assertion to it.
func csvWriterReuse(c *Ctx) {
	n := 0
	for _, fn := range c.srcFuncs("interp") {
		fn := fn
		allInstrs(fn, func(in ssa.Instruction) {
			call, ok := in.(*ssa.Call)
			if !ok {
				return
			}
			if f := calleeObj(call); f == nil || funcFullName(f) != "encoding/csv.NewWriter" || len(call.Call.Args) != 1 {
				return
			}
			n++
			key := "csv-writer:reuse:" + fnKey(fn)
			// is the csv.Writer flushed in this function? then any destination is fine
			flushed := false
			if refs := call.Referrers(); refs != nil {
				for _, r := range *refs {
					if c2, ok := r.(ssa.CallInstruction); ok {
						if f2 := calleeObj(c2); f2 != nil && funcFullName(f2) == "(*encoding/csv.Writer).Flush" {
							flushed = true
						}
					}
				}
			}
			if flushed {
				c.ok(key, posOr(in.Pos(), fn.Pos()), "the csv.Writer is flushed after use")
				return
			}
			isBufio := func(t types.Type) bool { return types.TypeString(t, nil) == "*bufio.Writer" }
			var okVal func(v ssa.Value, at *ssa.BasicBlock, depth int) bool
			okVal = func(v ssa.Value, at *ssa.BasicBlock, depth int) bool {
				if depth > 4 {
					return false
				}
				switch x := v.(type) {
				case *ssa.MakeInterface:
					return isBufio(x.X.Type())
				case *ssa.ChangeInterface:
					return okVal(x.X, at, depth+1)
				case *ssa.Phi:
					for i, e := range x.Edges {
						if !okVal(e, x.Block().Preds[i], depth+1) {
							return false
						}
					}
					return true
				}
				if isBufio(v.Type()) {
					return true
				}
				// a parameter: the same must hold for the argument at every call site of this function
				if prm, ok := v.(*ssa.Parameter); ok && depth < 3 {
					pf := prm.Parent()
					idx := -1
					for i, q := range pf.Params {
						if q == prm {
							idx = i
						}
					}
					sites, good := 0, 0
					for _, g := range c.srcFuncs("interp") {
						for _, gb := range g.Blocks {
							for _, gi := range gb.Instrs {
								if call, ok := gi.(ssa.CallInstruction); ok && call.Common().StaticCallee() == pf && idx >= 0 && idx < len(call.Common().Args) {
									sites++
									if okVal(call.Common().Args[idx], gb, depth+1) {
										good++
									}
								}
							}
						}
					}
					if sites > 0 && sites == good {
						return true
					}
				}
				// an interface value: some successful assertion of it to *bufio.Writer holds on every path to `at`
				refs := v.Referrers()
				if refs == nil {
					return false
				}
				for _, r := range *refs {
					ta, ok := r.(*ssa.TypeAssert)
					if !ok || !isBufio(ta.AssertedType) {
						continue
					}
					if !ta.CommaOk {
						if ta.Block().Dominates(at) {
							return true
						}
						continue
					}
					for _, r2 := range *ta.Referrers() {
						ex, ok := r2.(*ssa.Extract)
						if !ok || ex.Index != 1 {
							continue
						}
						// the tests of the assertion's ok: the If on it, or on a value that is true only when it is
						// (a phi of ok and constant false: `ok && <more>` written with an assignment)
						var okTests []ssa.Instruction
						for _, r3 := range *ex.Referrers() {
							okTests = append(okTests, r3)
							if ph, isPhi := r3.(*ssa.Phi); isPhi && ph.Referrers() != nil {
								only := true
								for _, e := range ph.Edges {
									if e == ssa.Value(ex) {
										continue
									}
									if k, isK := e.(*ssa.Const); isK && k.Value != nil && k.Value.ExactString() == "false" {
										continue
									}
									only = false
								}
								if only {
									okTests = append(okTests, *ph.Referrers()...)
								}
							}
						}
						for _, r3 := range okTests {
							iff, ok := r3.(*ssa.If)
							if !ok {
								continue
							}
							d := iff.Block()
							if d == at && len(d.Succs) == 2 {
								// the value flows along this block's own true edge (phi operand): accepted when the phi
								// sits in the true successor
								return true
							}
							if d.Dominates(at) && !reachableAvoiding(d.Succs[1], d)[at] {
								return true
							}
						}
					}
				}
				return false
			}
			arg := call.Call.Args[0]
			good := okVal(arg, in.Block(), 0)
			// a phi operand arriving straight from the asserting block must come along its true edge
			if ph, ok := arg.(*ssa.Phi); ok && good {
				for i, e := range ph.Edges {
					pred := ph.Block().Preds[i]
					if _, isMI := e.(*ssa.MakeInterface); isMI {
						continue
					}
					if len(pred.Instrs) > 0 {
						if iff, ok := pred.Instrs[len(pred.Instrs)-1].(*ssa.If); ok {
							cnd := iff.Cond
							if cp, isPhi := cnd.(*ssa.Phi); isPhi {
								for _, ce := range cp.Edges {
									if cex, isEx := ce.(*ssa.Extract); isEx {
										cnd = cex
									}
								}
							}
							if ex, ok := cnd.(*ssa.Extract); ok {
								if ta, ok := ex.Tuple.(*ssa.TypeAssert); ok && isBufio(ta.AssertedType) && ta.X == e && pred.Succs[0] != ph.Block() {
									good = false
								}
							}
						}
					}
				}
			}
			c.check(good, key, posOr(in.Pos(), fn.Pos()), "the destination handed to csv.NewWriter is known to be a *bufio.Writer on every path (so the record lands in that buffer)", fnKey(fn)+" hands csv.NewWriter a destination that is not known to be a *bufio.Writer and never flushes the csv.Writer: for such a destination encoding/csv buffers the record in a writer of its own, and the record is never delivered")
		})
	}
	c.atLeast("csv.NewWriter calls", n, 1)
}

func csvWriterConfig(c *Ctx) {
	csvWriterReuse(c)
	csvWriterReuseSize(c)
	tmpWriterFlushed(c)
	csvSoleWriter(c)
	nW := 0
	for _, fn := range c.srcFuncs("interp") {
		var writes []*ssa.Call
		stores := map[string][]*ssa.BasicBlock{}
		for _, b := range fn.Blocks {
			for _, in := range b.Instrs {
				switch x := in.(type) {
				case *ssa.Call:
					if f := calleeObj(x); f != nil && funcFullName(f) == "(*encoding/csv.Writer).Write" {
						writes = append(writes, x)
					}
				case *ssa.Store:
					if f, base := fieldOfAddr(x.Addr); f != nil && isNamed(deref(base.Type()), "encoding/csv", "Writer") {
						stores[f.Name()] = append(stores[f.Name()], b)
					}
				}
			}
		}
		for i, w := range writes {
			nW++
			key := "csv-writer:" + fnKey(fn)
			if i > 0 {
				key += "#" + itoa(int64(i+1))
			}
			var missing []string
			for _, field := range []string{"Comma", "UseCRLF"} {
				avoid := map[*ssa.BasicBlock]bool{}
				for _, b := range stores[field] {
					avoid[b] = true
				}
				// is the Write block reachable from the entry without passing a store block?
				if avoid[w.Block()] {
					// a store in the same block: it must come before the call
					before := false
					for _, in := range w.Block().Instrs {
						if in == ssa.Instruction(w) {
							break
						}
						if st, ok := in.(*ssa.Store); ok {
							if f, _ := fieldOfAddr(st.Addr); f != nil && f.Name() == field {
								before = true
							}
						}
					}
					if before {
						continue
					}
				}
				seen := map[*ssa.BasicBlock]bool{fn.Blocks[0]: true}
				work := []*ssa.BasicBlock{fn.Blocks[0]}
				reached := false
				for len(work) > 0 {
					cur := work[len(work)-1]
					work = work[:len(work)-1]
					if cur == w.Block() {
						reached = true
						break
					}
					if avoid[cur] {
						continue
					}
					for _, s := range cur.Succs {
						if !seen[s] {
							seen[s] = true
							work = append(work, s)
						}
					}
				}
				if reached {
					missing = append(missing, field)
				}
			}
			c.check(len(missing) == 0, key, w.Pos(), "the writer's Comma and UseCRLF are set on every path to the write",
				fnKey(fn)+" can call csv.Writer.Write without having set "+strings.Join(missing, " and ")+" on that path (a cached writer keeps the values of its creation): after OUTPUTMODE or the Interpreter's configuration changes the separator, records are still joined and quoted with the old one and do not read back")
			// EMPTY: a guard len(fields)==1 && fields[0]=="" keeps the single empty field away from Write
			guard := false
			for _, b := range fn.Blocks {
				if len(b.Instrs) == 0 {
					continue
				}
				iff, ok := b.Instrs[len(b.Instrs)-1].(*ssa.If)
				if !ok {
					continue
				}
				cmp, ok := iff.Cond.(*ssa.BinOp)
				if !ok || cmp.Op != token.EQL {
					continue
				}
				// fields[0] == ""
				isEmptyCmp := false
				for _, side := range [][2]ssa.Value{{cmp.X, cmp.Y}, {cmp.Y, cmp.X}} {
					if k, ok := side[1].(*ssa.Const); ok && k.Value != nil && k.Value.ExactString() == `""` {
						if u, ok := side[0].(*ssa.UnOp); ok {
							if _, ok := u.X.(*ssa.IndexAddr); ok {
								isEmptyCmp = true
							}
						}
					}
				}
				if isEmptyCmp && !reachableFrom(b.Succs[0])[w.Block()] && b.Succs[0] != w.Block() {
					guard = true
				}
			}
			c.check(guard, key+":single-empty-field", w.Pos(), "a record of one empty field is kept away from csv.Writer.Write (written quoted instead)",
				fnKey(fn)+" passes a record consisting of one empty field to csv.Writer.Write, which writes it as an empty line: CSV readers, the CSV input mode included, skip empty lines, so the record does not read back")
		}
	}
	c.atLeast("csv.Writer.Write call sites", nW, 1)
}

// tmpWriterFlushed: a function that wraps the destination it is handed (an io.Writer parameter) in a buffered writer of
// its own (bufio.NewWriter*/Reset on a scratch writer) and does not hand that writer out must flush it on every path
// that can report success: what stays in the scratch buffer is dropped by the next Reset, or never written at all.
// Paths are enumerated with the phi edges taken, so `flush = w.Flush` bound on the wrapping branch and
// `if flush != nil { return flush() }` at the end is followed exactly.
func tmpWriterFlushed(c *Ctx) {
	n := 0
	for _, fn := range c.srcFuncs("interp") {
		fn := fn
		// results: only errors (the writer does not leave through the result)
		res := fn.Signature.Results()
		onlyErr := res.Len() > 0
		for i := 0; i < res.Len(); i++ {
			if types.TypeString(res.At(i).Type(), nil) != "error" {
				onlyErr = false
			}
		}
		if !onlyErr {
			continue
		}
		isWriterParam := func(v ssa.Value) bool {
			for d := 0; d < 3; d++ {
				switch x := v.(type) {
				case *ssa.ChangeInterface:
					v = x.X
					continue
				case *ssa.Parameter:
					_, isIface := x.Type().Underlying().(*types.Interface)
					return isIface
				}
				break
			}
			return false
		}
		wraps := map[ssa.Instruction]bool{}
		allInstrs(fn, func(in ssa.Instruction) {
			call, ok := in.(*ssa.Call)
			if !ok {
				return
			}
			f := calleeObj(call)
			if f == nil {
				return
			}
			switch funcFullName(f) {
			case "bufio.NewWriter", "bufio.NewWriterSize":
				if len(call.Call.Args) > 0 && isWriterParam(call.Call.Args[0]) {
					wraps[in] = true
				}
			case "(*bufio.Writer).Reset":
				if len(call.Call.Args) > 1 && isWriterParam(call.Call.Args[1]) {
					wraps[in] = true
				}
			}
		})
		if len(wraps) == 0 {
			continue
		}
		n++
		key := "csv-writer:tmp-flush:" + fnKey(fn)
		isFlushFn := func(v ssa.Value) bool {
			switch x := v.(type) {
			case *ssa.MakeClosure:
				if f, ok := x.Fn.(*ssa.Function); ok {
					return strings.HasPrefix(f.Name(), "Flush$bound") || f.Name() == "Flush$bound"
				}
			case *ssa.Function:
				return x.Name() == "Flush"
			}
			return false
		}
		type pstate struct {
			wrapped, flushed bool
		}
		bad := token.NoPos
		paths := 0
		var walk func(b, from *ssa.BasicBlock, phis map[*ssa.Phi]ssa.Value, st pstate, visits map[*ssa.BasicBlock]int)
		resolve := func(v ssa.Value, phis map[*ssa.Phi]ssa.Value) ssa.Value {
			for d := 0; d < 4; d++ {
				if ph, ok := v.(*ssa.Phi); ok {
					if r, ok := phis[ph]; ok {
						v = r
						continue
					}
				}
				break
			}
			return v
		}
		walk = func(b, from *ssa.BasicBlock, phis map[*ssa.Phi]ssa.Value, st pstate, visits map[*ssa.BasicBlock]int) {
			if paths > 20000 || visits[b] >= 2 {
				return
			}
			visits[b]++
			defer func() { visits[b]-- }()
			np := phis
			copied := false
			for _, in := range b.Instrs {
				switch x := in.(type) {
				case *ssa.Phi:
					if !copied {
						np = map[*ssa.Phi]ssa.Value{}
						for k, v := range phis {
							np[k] = v
						}
						copied = true
					}
					for i, p := range b.Preds {
						if p == from {
							np[x] = resolve(x.Edges[i], phis)
						}
					}
				case *ssa.Call:
					if wraps[in] {
						st.wrapped = true
					}
					if f := calleeObj(x); f != nil && funcFullName(f) == "(*bufio.Writer).Flush" {
						st.flushed = true
					} else if x.Call.StaticCallee() == nil && !x.Call.IsInvoke() && isFlushFn(resolve(x.Call.Value, np)) {
						st.flushed = true
					}
				case *ssa.Return:
					paths++
					if !st.wrapped || st.flushed {
						return
					}
					// an error return: the value is known to be non-nil here (the block is the non-nil edge of a test of it), or is built as an error
					for _, r := range x.Results {
						if types.TypeString(r.Type(), nil) != "error" {
							continue
						}
						isErr := false
						if _, isMk := r.(*ssa.MakeInterface); isMk {
							isErr = true
						}
						if call, isCall := r.(*ssa.Call); isCall {
							if cal := call.Call.StaticCallee(); cal != nil && (cal.Name() == "newError" || cal.Name() == "Errorf" || cal.Name() == "New") {
								isErr = true
							}
						}
						if from != nil && len(from.Instrs) > 0 {
							if iff, ok := from.Instrs[len(from.Instrs)-1].(*ssa.If); ok {
								if bo, ok := iff.Cond.(*ssa.BinOp); ok {
									other := ssa.Value(nil)
									if bo.X == r || resolve(bo.X, np) == resolve(r, np) {
										other = bo.Y
									} else if bo.Y == r {
										other = bo.X
									}
									if k, isC := other.(*ssa.Const); isC && k.Value == nil {
										if (bo.Op == token.NEQ && from.Succs[0] == b) || (bo.Op == token.EQL && from.Succs[1] == b) {
											isErr = true
										}
									}
								}
							}
						}
						if !isErr && bad == token.NoPos {
							bad = posOr(x.Pos(), fn.Pos())
						}
					}
					return
				case *ssa.If:
					// a test of a function value against nil with the phi edges taken is decided
					if bo, ok := x.Cond.(*ssa.BinOp); ok && (bo.Op == token.NEQ || bo.Op == token.EQL) {
						v := resolve(bo.X, np)
						o := bo.Y
						if k, isC := o.(*ssa.Const); isC && k.Value == nil {
							known, isNil := false, false
							if isFlushFn(v) {
								known, isNil = true, false
							} else if kc, isC2 := v.(*ssa.Const); isC2 && kc.Value == nil {
								known, isNil = true, true
							}
							if known {
								takeTrue := (bo.Op == token.NEQ) != isNil
								if takeTrue {
									walk(b.Succs[0], b, np, st, visits)
								} else {
									walk(b.Succs[1], b, np, st, visits)
								}
								return
							}
						}
					}
				}
			}
			for _, s := range b.Succs {
				walk(s, b, np, st, visits)
			}
		}
		walk(fn.Blocks[0], nil, map[*ssa.Phi]ssa.Value{}, pstate{}, map[*ssa.BasicBlock]int{})
		if paths == 0 || paths > 20000 {
			c.undecided(key, fn.Pos(), "the paths of %s could not be enumerated (%d)", fnKey(fn), paths)
			continue
		}
		c.check(bad == token.NoPos, key, posOr(bad, fn.Pos()), fmt.Sprintf("the scratch buffered writer around the destination is flushed on every one of the %d paths that can report success", paths),
			fnKey(fn)+" wraps the destination it is given in a buffered writer of its own and can return success without flushing it: the record stays in the scratch buffer and is dropped by the next Reset (or never written), so output to a file or command loses that record")
	}
	c.atLeast("functions that wrap their destination in a scratch buffered writer", n, 1)
}

// csvSoleWriter: in CSV/TSV output mode every record text is produced by the one CSV writer function: a function
// that consults the output mode and calls writeCSV has no way out of its CSV/TSV branch that bypasses the call
// (a shortcut that joins the fields itself loses the quoting rules - and the special case of the record made of one
// empty field, which must be written as "" to be read back as a record at all).
func csvSoleWriter(c *Ctx) {
	ip := c.pkg("interp")
	if ip == nil {
		return
	}
	modeVals := map[int64]string{}
	for _, nm := range []string{"CSVMode", "TSVMode"} {
		if k, ok := ip.Types.Scope().Lookup(nm).(*types.Const); ok {
			if v, ok := constant.Int64Val(k.Val()); ok {
				modeVals[v] = nm
			}
		}
	}
	if len(modeVals) != 2 {
		c.undecided("anchor:CSVMode", token.NoPos, "constants CSVMode/TSVMode not found in package interp")
		return
	}
	n := 0
	for _, fn := range c.srcFuncs("interp") {
		fn := fn
		var writeBlocks = map[*ssa.BasicBlock]bool{}
		var entries []*ssa.BasicBlock
		for _, b := range fn.Blocks {
			for _, in := range b.Instrs {
				if callsNamed(in, "writeCSV") {
					writeBlocks[b] = true
				}
				// a helper of the package that reaches the writer on every path through it
				if call, ok := in.(ssa.CallInstruction); ok {
					if g := call.Common().StaticCallee(); g != nil && g.Pkg == fn.Pkg && g != fn && len(g.Blocks) > 0 {
						if _, calls := mustEffects(g, 0); calls["writeCSV"] {
							writeBlocks[b] = true
						}
					}
				}
			}
			if len(b.Instrs) == 0 {
				continue
			}
			iff, ok := b.Instrs[len(b.Instrs)-1].(*ssa.If)
			if !ok {
				continue
			}
			bo, ok := iff.Cond.(*ssa.BinOp)
			if !ok || (bo.Op != token.EQL && bo.Op != token.NEQ) {
				continue
			}
			var k *ssa.Const
			var other ssa.Value
			if kc, isC := bo.Y.(*ssa.Const); isC {
				k, other = kc, bo.X
			} else if kc, isC := bo.X.(*ssa.Const); isC {
				k, other = kc, bo.Y
			}
			if k == nil || k.Value == nil || k.Value.Kind() != constant.Int {
				continue
			}
			if f, _ := loadedField(other); f == nil || f.Name() != "outputMode" {
				continue
			}
			if _, isMode := modeVals[k.Int64()]; !isMode {
				continue
			}
			if bo.Op == token.EQL {
				entries = append(entries, b.Succs[0])
			} else {
				entries = append(entries, b.Succs[1])
			}
		}
		if len(entries) == 0 || len(writeBlocks) == 0 {
			continue
		}
		n++
		bad := token.NoPos
		seen := map[*ssa.BasicBlock]bool{}
		var walk func(b *ssa.BasicBlock)
		walk = func(b *ssa.BasicBlock) {
			if seen[b] || writeBlocks[b] {
				return
			}
			seen[b] = true
			// another test of the mode (the switch's next case) is not a way out
			if len(b.Instrs) > 0 {
				if r, ok := b.Instrs[len(b.Instrs)-1].(*ssa.Return); ok {
					plain := false
					for _, v := range r.Results {
						if types.TypeString(v.Type(), nil) != "error" {
							plain = true
						} else if k, isC := v.(*ssa.Const); isC && k.Value == nil {
							plain = true
						}
					}
					if (plain || len(r.Results) == 0) && bad == token.NoPos {
						bad = posOr(r.Pos(), fn.Pos())
					}
					return
				}
			}
			for _, s := range b.Succs {
				walk(s)
			}
		}
		for _, e := range entries {
			walk(e)
		}
		c.check(bad == token.NoPos, "csv-writer:sole:"+fnKey(fn), posOr(bad, fn.Pos()), "in CSV/TSV output mode every way out passes the CSV writer function",
			fnKey(fn)+" has a way out of its CSV/TSV branch that does not pass writeCSV: the record text is produced by other means there, without the writer's quoting rules and without the \"\" it writes for a record made of one empty field - such a record is rebuilt or printed as an empty line, which the CSV reader skips, so it is not read back")
	}
	c.atLeast("functions that hand CSV/TSV-mode output to the CSV writer", n, 1)
}

// csvWriterReuseSize: csv.NewWriter uses the *bufio.Writer it is handed directly only when that writer's buffer has at
// least 4096 bytes; a smaller one is wrapped in a buffered writer of csv.Writer's own, which nothing flushes. A
// function that passes on a destination because an assertion to *bufio.Writer succeeded (and does not flush the
// csv.Writer) therefore also compares that writer's Size() with a constant of at least 4096; a buffered writer it
// builds itself for the purpose is built with at least that size.
func csvWriterReuseSize(c *Ctx) {
	isBufio := func(t types.Type) bool { return types.TypeString(t, nil) == "*bufio.Writer" }
	n := 0
	for _, fn := range c.srcFuncs("interp") {
		fn := fn
		hasUnflushedCSV := false
		allInstrs(fn, func(in ssa.Instruction) {
			call, ok := in.(*ssa.Call)
			if !ok {
				return
			}
			if f := calleeObj(call); f == nil || funcFullName(f) != "encoding/csv.NewWriter" {
				return
			}
			flushed := false
			if refs := call.Referrers(); refs != nil {
				for _, r := range *refs {
					if c2, ok := r.(ssa.CallInstruction); ok {
						if f2 := calleeObj(c2); f2 != nil && funcFullName(f2) == "(*encoding/csv.Writer).Flush" {
							flushed = true
						}
					}
				}
			}
			if !flushed {
				hasUnflushedCSV = true
			}
		})
		if !hasUnflushedCSV {
			continue
		}
		// assertions of a foreign writer to *bufio.Writer, and the size tests on their result
		allInstrs(fn, func(in ssa.Instruction) {
			ta, ok := in.(*ssa.TypeAssert)
			if !ok || !isBufio(ta.AssertedType) {
				return
			}
			n++
			sized := false
			var val ssa.Value = ta
			if ta.CommaOk && ta.Referrers() != nil {
				for _, r := range *ta.Referrers() {
					if ex, ok := r.(*ssa.Extract); ok && ex.Index == 0 {
						val = ex
					}
				}
			}
			if refs := val.Referrers(); refs != nil {
				for _, r := range *refs {
					call, ok := r.(*ssa.Call)
					if !ok {
						continue
					}
					if f := calleeObj(call); f == nil || funcFullName(f) != "(*bufio.Writer).Size" {
						continue
					}
					if cr := call.Referrers(); cr != nil {
						for _, u := range *cr {
							if bo, ok := u.(*ssa.BinOp); ok {
								for _, side := range []ssa.Value{bo.X, bo.Y} {
									if k, ok := side.(*ssa.Const); ok && k.Value != nil && k.Int64() >= 4096 {
										sized = true
									}
								}
							}
						}
					}
				}
			}
			c.check(sized, "csv-writer:reuse-size:"+fnKey(fn), in.Pos(), "a destination passed on as a *bufio.Writer has had its buffer size compared with 4096",
				fnKey(fn)+" hands csv.NewWriter any *bufio.Writer it is given without looking at its size: bufio.NewWriter returns the writer itself only for buffers of at least 4096 bytes, a smaller one (Config.Output: bufio.NewWriterSize(w, 1024)) is wrapped in a buffer of csv.Writer's own that nothing flushes - every record printed in CSV/TSV output mode is lost")
		})
		allInstrs(fn, func(in ssa.Instruction) {
			call, ok := in.(*ssa.Call)
			if !ok {
				return
			}
			f := calleeObj(call)
			if f == nil || funcFullName(f) != "bufio.NewWriterSize" || len(call.Call.Args) != 2 {
				return
			}
			n++
			k, isK := call.Call.Args[1].(*ssa.Const)
			c.check(isK && k.Value != nil && k.Int64() >= 4096, "csv-writer:reuse-size:"+fnKey(fn)+":own", in.Pos(), "the buffered writer built for the CSV writer has at least 4096 bytes",
				fnKey(fn)+" builds the buffered writer it hands to csv.NewWriter with fewer than 4096 bytes (or a size that is not a constant): csv.NewWriter then wraps it in a buffer of its own, and the flush of the smaller one delivers nothing")
		})
	}
	if n == 0 {
		// no csv.Writer is left unflushed (or none is handed a foreign buffered writer): nothing depends on a size
		c.ok("csv-writer:reuse-size:none", token.NoPos, "no unflushed csv.Writer is handed a buffered writer whose size would matter")
	}
}

// recordsAreCopies (part of R-IOCONV, C07): what nextLine hands out outlives the scanner's buffer, which bufio.Scanner
// shifts, refills and grows: a record is a copy (Scanner.Text(), string(...)), never a view of the buffer. The only
// way to make such a view is package unsafe, which package interp does not use at all.
func recordsAreCopies(c *Ctx) {
	p := c.pkg("interp")
	if p == nil {
		return
	}
	bad := token.NoPos
	n := 0
	for _, f := range p.Syntax {
		n++
		for _, imp := range f.Imports {
			if imp.Path != nil && imp.Path.Value == "\"unsafe\"" {
				bad = imp.Pos()
			}
		}
	}
	c.check(bad == token.NoPos, "record-copy:no-unsafe", bad, "package interp makes no string that shares memory with a read buffer (it does not import unsafe)",
		"package interp imports unsafe: a record (or field) built as a view of the scanner's buffer changes under the program when the buffer is shifted or refilled - a record kept in a variable (first = $0, a[NR] = $0) reads back as other input once more than a buffer's worth has been read, depending on where the reads fell")
	c.atLeast("files of package interp scanned for unsafe", n, 5)
}
