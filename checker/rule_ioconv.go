package main

import (
	"fmt"
	"go/ast"
	"go/token"
	"go/types"
	"sort"
	"strings"

	"golang.org/x/tools/go/ssa"
)

// R-IOCONV (C06, C07, C08): conventions of the input layer that keep records and fields lossless.

func init() {
	register("R-IOCONV", "input-layer conventions: (TRIM) Unicode-aware trimming/splitting functions (strings/bytes TrimSpace, Trim*, Fields) are called in package interp only at the tabled places where AWK semantics ask for blank-splitting (FS=\" \" field splitting, split() with \" \", mode-string parsing); anywhere else they would silently drop bytes of fields or records; (SCANBUF) every bufio.Scanner that reads script-visible input gets its token limit raised with Buffer(..., maxRecordLength) before it is used, otherwise records above 64 KiB are lost; (OWNER) each reusable scratch buffer of the interpreter is referenced by exactly one function, so two live scanners never share a buffer; (TERMINATOR) every record delivered by nextLine is preceded by resetting RT to RS", ruleIOConv)
}

var trimTable = map[string]string{
	"interp.ensureFields:strings.Fields":     "FS=\" \": fields are runs of non-blanks (the AWK default field splitting)",
	"interp.split:strings.Fields":            "split(s, a, \" \"): same blank-splitting as FS=\" \"",
	"parseInputMode:strings.Fields":          "parsing the INPUTMODE option string",
	"parseOutputMode:strings.Fields":         "parsing the OUTPUTMODE option string",
	"parseFloat:strings.TrimSpace":           "whole-string number recogniser (whitespace class discussed under R-NUMPARSE)",
	"interp.ensureFields:strings.TrimSuffix": "RS=\"\" with single-char FS: a trailing CR of each line is dropped (CRLF input)",
	"interp.ensureFields:strings.Split":      "single-character FS / newline splitting in paragraph mode",
}

func ruleIOConv(c *Ctx) {
	p := c.pkg("interp")
	info := p.TypesInfo
	// TRIM
	nTrim := 0
	for _, fd := range c.allFuncDecls("interp") {
		if fd.Body == nil {
			continue
		}
		fname := declName(fd)
		ast.Inspect(fd.Body, func(n ast.Node) bool {
			call, ok := n.(*ast.CallExpr)
			if !ok {
				return true
			}
			f := calleeOf(info, call)
			if f == nil || f.Pkg() == nil || (f.Pkg().Path() != "strings" && f.Pkg().Path() != "bytes") {
				return true
			}
			nm := f.Name()
			if !(strings.HasPrefix(nm, "Trim") || nm == "Fields" || nm == "FieldsFunc") {
				return true
			}
			nTrim++
			key := "trim:" + fname + ":" + f.Pkg().Path() + "." + nm
			// (a) a fixed ASCII prefix/suffix/cutset is not class-based: nothing Unicode-aware about it
			if nm == "TrimSuffix" || nm == "TrimPrefix" || nm == "TrimLeft" || nm == "TrimRight" || nm == "Trim" {
				if len(call.Args) == 2 {
					if tv, ok := info.Types[call.Args[1]]; ok && tv.Value != nil {
						ascii := true
						for _, b := range []byte(tv.Value.ExactString()) {
							if b >= 0x80 {
								ascii = false
							}
						}
						if ascii {
							c.trivial("trim-fixed:"+f.Pkg().Path()+"."+nm+":"+tv.Value.ExactString(), call.Pos(), "fixed ASCII cutset %s: removes exactly those bytes", tv.Value.ExactString())
							return true
						}
					}
				}
			}
			// (b) blank-splitting where AWK asks for it: the call is reached only when a separator equals " "
			if nm == "Fields" {
				if file := fileOf(c, "interp", fd); file != nil {
					blank := false
					for _, pc := range pathConds(file, call) {
						if b, ok := pc.e.(*ast.BinaryExpr); ok && pc.sense && b.Op == token.EQL {
							for _, side := range []ast.Expr{b.X, b.Y} {
								if tv, ok := info.Types[side]; ok && tv.Value != nil && tv.Value.ExactString() == `" "` {
									blank = true
								}
							}
						}
					}
					if blank {
						c.ok("trim-blank-split:"+f.Pkg().Path()+"."+nm, call.Pos(), "reached only when the separator is \" \": runs of blanks separate fields (the AWK default splitting)")
						return true
					}
				}
			}
			if why, ok := trimTable[fname+":"+f.Pkg().Path()+"."+nm]; ok {
				c.ok(key, call.Pos(), "tabled: %s", why)
			} else {
				c.bad(key, call.Pos(), "%s calls %s.%s, a Unicode-aware trim/split, outside the tabled places: applied to field or record text it silently removes bytes (blanks, non-ASCII spaces) that must be preserved", fname, f.Pkg().Path(), nm)
			}
			return true
		})
	}
	c.atLeast("trim/fields call sites", nTrim, 4)

	// SCANBUF
	nScan := 0
	for _, fn := range c.srcFuncs("interp") {
		fn := fn
		allInstrs(fn, func(in ssa.Instruction) {
			call, ok := in.(*ssa.Call)
			if !ok || call.Call.StaticCallee() == nil || call.Call.StaticCallee().String() != "bufio.NewScanner" {
				return
			}
			nScan++
			key := "scanbuf:" + fnKey(fn)
			// reader argument: an empty strings.NewReader("") is exempt
			if len(call.Call.Args) == 1 {
				if mi, ok := call.Call.Args[0].(*ssa.MakeInterface); ok {
					if rc, ok := mi.X.(*ssa.Call); ok && rc.Call.StaticCallee() != nil && rc.Call.StaticCallee().String() == "strings.NewReader" {
						if k, ok := rc.Call.Args[0].(*ssa.Const); ok && k.Value != nil && k.Value.ExactString() == `""` {
							c.ok(key+":empty", in.Pos(), "scanner over an empty reader (failed command): never yields a record")
							return
						}
					}
				}
			}
			has := false
			var sizeOK bool
			for _, r := range *call.Referrers() {
				if c2, ok := r.(*ssa.Call); ok && c2.Call.StaticCallee() != nil && c2.Call.StaticCallee().String() == "(*bufio.Scanner).Buffer" {
					has = true
					if len(c2.Call.Args) == 3 {
						if k, ok := c2.Call.Args[2].(*ssa.Const); ok && k.Value != nil {
							if v := constInts(k, 0); len(v) == 1 && v[0] >= 1<<20 {
								sizeOK = true
							}
						}
					}
				}
			}
			// scanner stored in a local cell and re-loaded
			if !has {
				for _, r := range *call.Referrers() {
					if st, ok := r.(*ssa.Store); ok {
						if cell, ok := st.Addr.(*ssa.Alloc); ok {
							for _, r2 := range *cell.Referrers() {
								if ld, ok := r2.(*ssa.UnOp); ok {
									for _, r3 := range *ld.Referrers() {
										if c2, ok := r3.(*ssa.Call); ok && c2.Call.StaticCallee() != nil && c2.Call.StaticCallee().String() == "(*bufio.Scanner).Buffer" {
											has, sizeOK = true, true
										}
									}
								}
							}
						}
					}
				}
			}
			c.check(has && sizeOK, key, in.Pos(), "token limit raised with Buffer(..., maxRecordLength)", fnKey(fn)+" creates a bufio.Scanner without raising its token limit: records longer than 64 KiB make Scan fail and are lost (e.g. NF becomes 0)")
		})
	}
	c.atLeast("bufio.NewScanner sites", nScan, 3)

	// OWNER: scratch buffers referenced by one function
	_, st := c.structType("interp", "interp")
	for _, bf := range []string{"inputBuffer", "splitBuffer", "csvOutput", "csvJoinFieldsBuf"} {
		fv := fieldByName(st, bf)
		if fv == nil {
			c.undecided("owner:"+bf, token.NoPos, "scratch buffer field %s not found", bf)
			continue
		}
		users := map[string]bool{}
		for _, fd := range c.allFuncDecls("interp") {
			if fd.Body == nil {
				continue
			}
			ast.Inspect(fd.Body, func(n ast.Node) bool {
				if se, ok := n.(*ast.SelectorExpr); ok && info.Uses[se.Sel] == types.Object(fv) {
					users[declName(fd)] = true
				}
				return true
			})
		}
		us := keys(users)
		sort.Strings(us)
		c.check(len(us) == 1, "owner:"+bf, fv.Pos(), fmt.Sprintf("scratch buffer %s is used only by %v", bf, us), fmt.Sprintf("scratch buffer %s is used by %v: two live users would overwrite each other's buffered data", bf, us))
	}

	// TERMINATOR: in nextLine the Scan() call is dominated by the reset of recordTerminator
	nl := c.ssaFunc("interp", "interp.nextLine")
	if nl == nil {
		c.undecided("anchor:nextLine", token.NoPos, "nextLine not found")
		return
	}
	var scanCall ssa.Instruction
	allInstrs(nl, func(in ssa.Instruction) {
		if call, ok := in.(*ssa.Call); ok && call.Call.StaticCallee() != nil && call.Call.StaticCallee().String() == "(*bufio.Scanner).Scan" {
			scanCall = in
		}
	})
	if scanCall == nil {
		c.undecided("rt-reset", nl.Pos(), "no Scanner.Scan call in nextLine")
		return
	}
	okRT := false
	for _, in := range scanCall.Block().Instrs {
		if in == scanCall {
			break
		}
		if name, val := interpFieldStore(in); name == "recordTerminator" {
			if interpFieldLoad(val) == "recordSep" {
				okRT = true
			}
		}
	}
	c.check(okRT, "rt-reset", scanCall.Pos(), "RT is reset to RS immediately before each Scan (splitters that know better overwrite it)", "RT is not reset to RS before each Scan: with a single-character RS, RT keeps the value of an earlier record or stream")
	csvWriterConfig(c)
}

// csvWriterConfig: (CSVW) every record written through encoding/csv is written with the separator and
// line ending that are in force now: each call of (*csv.Writer).Write in package interp is reached only
// through stores of the writer's Comma (from the output configuration) and UseCRLF in the same function
// (OUTPUTMODE can change between two records, and an Interpreter can be reused with another separator);
// and (EMPTY) a record consisting of one empty field does not reach Write at all (encoding/csv writes it
// as an empty line, which CSV readers skip), but is written quoted.
// csvWriterReuse: encoding/csv buffers what it writes in a bufio.Writer of its own unless it is handed a
// *bufio.Writer (large enough), which it then uses directly; a record written without Flush on the csv.Writer is
// only delivered in the second case. Every value passed to csv.NewWriter whose csv.Writer is not flushed must
// therefore be known to be a *bufio.Writer: built from one, or reached only through a successful assertion to it.
func csvWriterReuse(c *Ctx) {
	n := 0
	for _, fn := range c.srcFuncs("interp") {
		fn := fn
		allInstrs(fn, func(in ssa.Instruction) {
			call, ok := in.(*ssa.Call)
			if !ok {
				return
			}
			if f := calleeObj(call); f == nil || funcFullName(f) != "encoding/csv.NewWriter" || len(call.Call.Args) != 1 {
				return
			}
			n++
			key := "csv-writer:reuse:" + fnKey(fn)
			// is the csv.Writer flushed in this function? then any destination is fine
			flushed := false
			if refs := call.Referrers(); refs != nil {
				for _, r := range *refs {
					if c2, ok := r.(ssa.CallInstruction); ok {
						if f2 := calleeObj(c2); f2 != nil && funcFullName(f2) == "(*encoding/csv.Writer).Flush" {
							flushed = true
						}
					}
				}
			}
			if flushed {
				c.ok(key, posOr(in.Pos(), fn.Pos()), "the csv.Writer is flushed after use")
				return
			}
			isBufio := func(t types.Type) bool { return types.TypeString(t, nil) == "*bufio.Writer" }
			var okVal func(v ssa.Value, at *ssa.BasicBlock, depth int) bool
			okVal = func(v ssa.Value, at *ssa.BasicBlock, depth int) bool {
				if depth > 4 {
					return false
				}
				switch x := v.(type) {
				case *ssa.MakeInterface:
					return isBufio(x.X.Type())
				case *ssa.ChangeInterface:
					return okVal(x.X, at, depth+1)
				case *ssa.Phi:
					for i, e := range x.Edges {
						if !okVal(e, x.Block().Preds[i], depth+1) {
							return false
						}
					}
					return true
				}
				if isBufio(v.Type()) {
					return true
				}
				// a parameter: the same must hold for the argument at every call site of this function
				if prm, ok := v.(*ssa.Parameter); ok && depth < 3 {
					pf := prm.Parent()
					idx := -1
					for i, q := range pf.Params {
						if q == prm {
							idx = i
						}
					}
					sites, good := 0, 0
					for _, g := range c.srcFuncs("interp") {
						for _, gb := range g.Blocks {
							for _, gi := range gb.Instrs {
								if call, ok := gi.(ssa.CallInstruction); ok && call.Common().StaticCallee() == pf && idx >= 0 && idx < len(call.Common().Args) {
									sites++
									if okVal(call.Common().Args[idx], gb, depth+1) {
										good++
									}
								}
							}
						}
					}
					if sites > 0 && sites == good {
						return true
					}
				}
				// an interface value: some successful assertion of it to *bufio.Writer holds on every path to `at`
				refs := v.Referrers()
				if refs == nil {
					return false
				}
				for _, r := range *refs {
					ta, ok := r.(*ssa.TypeAssert)
					if !ok || !isBufio(ta.AssertedType) {
						continue
					}
					if !ta.CommaOk {
						if ta.Block().Dominates(at) {
							return true
						}
						continue
					}
					for _, r2 := range *ta.Referrers() {
						ex, ok := r2.(*ssa.Extract)
						if !ok || ex.Index != 1 {
							continue
						}
						for _, r3 := range *ex.Referrers() {
							iff, ok := r3.(*ssa.If)
							if !ok {
								continue
							}
							d := iff.Block()
							if d == at && len(d.Succs) == 2 {
								// the value flows along this block's own true edge (phi operand): accepted when the phi
								// sits in the true successor
								return true
							}
							if d.Dominates(at) && !reachableAvoiding(d.Succs[1], d)[at] {
								return true
							}
						}
					}
				}
				return false
			}
			arg := call.Call.Args[0]
			good := okVal(arg, in.Block(), 0)
			// a phi operand arriving straight from the asserting block must come along its true edge
			if ph, ok := arg.(*ssa.Phi); ok && good {
				for i, e := range ph.Edges {
					pred := ph.Block().Preds[i]
					if _, isMI := e.(*ssa.MakeInterface); isMI {
						continue
					}
					if len(pred.Instrs) > 0 {
						if iff, ok := pred.Instrs[len(pred.Instrs)-1].(*ssa.If); ok {
							if ex, ok := iff.Cond.(*ssa.Extract); ok {
								if ta, ok := ex.Tuple.(*ssa.TypeAssert); ok && isBufio(ta.AssertedType) && ta.X == e && pred.Succs[0] != ph.Block() {
									good = false
								}
							}
						}
					}
				}
			}
			c.check(good, key, posOr(in.Pos(), fn.Pos()), "the destination handed to csv.NewWriter is known to be a *bufio.Writer on every path (so the record lands in that buffer)", fnKey(fn)+" hands csv.NewWriter a destination that is not known to be a *bufio.Writer and never flushes the csv.Writer: for such a destination encoding/csv buffers the record in a writer of its own, and the record is never delivered")
		})
	}
	c.atLeast("csv.NewWriter calls", n, 1)
}

func csvWriterConfig(c *Ctx) {
	csvWriterReuse(c)
	nW := 0
	for _, fn := range c.srcFuncs("interp") {
		var writes []*ssa.Call
		stores := map[string][]*ssa.BasicBlock{}
		for _, b := range fn.Blocks {
			for _, in := range b.Instrs {
				switch x := in.(type) {
				case *ssa.Call:
					if f := calleeObj(x); f != nil && funcFullName(f) == "(*encoding/csv.Writer).Write" {
						writes = append(writes, x)
					}
				case *ssa.Store:
					if f, base := fieldOfAddr(x.Addr); f != nil && isNamed(deref(base.Type()), "encoding/csv", "Writer") {
						stores[f.Name()] = append(stores[f.Name()], b)
					}
				}
			}
		}
		for i, w := range writes {
			nW++
			key := "csv-writer:" + fnKey(fn)
			if i > 0 {
				key += "#" + itoa(int64(i+1))
			}
			var missing []string
			for _, field := range []string{"Comma", "UseCRLF"} {
				avoid := map[*ssa.BasicBlock]bool{}
				for _, b := range stores[field] {
					avoid[b] = true
				}
				// is the Write block reachable from the entry without passing a store block?
				if avoid[w.Block()] {
					// a store in the same block: it must come before the call
					before := false
					for _, in := range w.Block().Instrs {
						if in == ssa.Instruction(w) {
							break
						}
						if st, ok := in.(*ssa.Store); ok {
							if f, _ := fieldOfAddr(st.Addr); f != nil && f.Name() == field {
								before = true
							}
						}
					}
					if before {
						continue
					}
				}
				seen := map[*ssa.BasicBlock]bool{fn.Blocks[0]: true}
				work := []*ssa.BasicBlock{fn.Blocks[0]}
				reached := false
				for len(work) > 0 {
					cur := work[len(work)-1]
					work = work[:len(work)-1]
					if cur == w.Block() {
						reached = true
						break
					}
					if avoid[cur] {
						continue
					}
					for _, s := range cur.Succs {
						if !seen[s] {
							seen[s] = true
							work = append(work, s)
						}
					}
				}
				if reached {
					missing = append(missing, field)
				}
			}
			c.check(len(missing) == 0, key, w.Pos(), "the writer's Comma and UseCRLF are set on every path to the write",
				fnKey(fn)+" can call csv.Writer.Write without having set "+strings.Join(missing, " and ")+" on that path (a cached writer keeps the values of its creation): after OUTPUTMODE or the Interpreter's configuration changes the separator, records are still joined and quoted with the old one and do not read back")
			// EMPTY: a guard len(fields)==1 && fields[0]=="" keeps the single empty field away from Write
			guard := false
			for _, b := range fn.Blocks {
				if len(b.Instrs) == 0 {
					continue
				}
				iff, ok := b.Instrs[len(b.Instrs)-1].(*ssa.If)
				if !ok {
					continue
				}
				cmp, ok := iff.Cond.(*ssa.BinOp)
				if !ok || cmp.Op != token.EQL {
					continue
				}
				// fields[0] == ""
				isEmptyCmp := false
				for _, side := range [][2]ssa.Value{{cmp.X, cmp.Y}, {cmp.Y, cmp.X}} {
					if k, ok := side[1].(*ssa.Const); ok && k.Value != nil && k.Value.ExactString() == `""` {
						if u, ok := side[0].(*ssa.UnOp); ok {
							if _, ok := u.X.(*ssa.IndexAddr); ok {
								isEmptyCmp = true
							}
						}
					}
				}
				if isEmptyCmp && !reachableFrom(b.Succs[0])[w.Block()] && b.Succs[0] != w.Block() {
					guard = true
				}
			}
			c.check(guard, key+":single-empty-field", w.Pos(), "a record of one empty field is kept away from csv.Writer.Write (written quoted instead)",
				fnKey(fn)+" passes a record consisting of one empty field to csv.Writer.Write, which writes it as an empty line: CSV readers, the CSV input mode included, skip empty lines, so the record does not read back")
		}
	}
	c.atLeast("csv.Writer.Write call sites", nW, 1)
}
