package main

import (
	"go/constant"
	"go/token"

	"golang.org/x/tools/go/ssa"
)

// groupingPrinted (part of R-PRINT group, C20): the parentheses the source had are printed back unconditionally: every
// value GroupingExpr.String returns is a concatenation that begins with "(" and ends with ")". A printer that drops
// them "where they are not needed" changes which neighbouring token captures the operand: `(a)++b` becomes `a ++b`,
// which reads back as `a++ b`.
func groupingPrinted(c *Ctx) {
	fn := c.ssaFunc("internal/ast", "GroupingExpr.String")
	if fn == nil {
		c.undecided("group:printed", token.NoPos, "GroupingExpr.String not found")
		return
	}
	isLit := func(v ssa.Value, s string) bool {
		k, ok := v.(*ssa.Const)
		return ok && k.Value != nil && k.Value.Kind() == constant.String && constant.StringVal(k.Value) == s
	}
	var leftmost, rightmost func(v ssa.Value, d int) ssa.Value
	leftmost = func(v ssa.Value, d int) ssa.Value {
		if bo, ok := v.(*ssa.BinOp); ok && bo.Op == token.ADD && d < 8 {
			return leftmost(bo.X, d+1)
		}
		return v
	}
	rightmost = func(v ssa.Value, d int) ssa.Value {
		if bo, ok := v.(*ssa.BinOp); ok && bo.Op == token.ADD && d < 8 {
			return rightmost(bo.Y, d+1)
		}
		return v
	}
	bad := token.NoPos
	n := 0
	allInstrs(fn, func(in ssa.Instruction) {
		r, ok := in.(*ssa.Return)
		if !ok || len(r.Results) != 1 {
			return
		}
		n++
		v := r.Results[0]
		if !isLit(leftmost(v, 0), "(") || !isLit(rightmost(v, 0), ")") {
			bad = posOr(r.Pos(), fn.Pos())
		}
	})
	c.check(bad == token.NoPos && n > 0, "group:printed", posOr(bad, fn.Pos()), "a grouping node is printed with its parentheses on every path",
		"GroupingExpr.String can return its operand without the parentheses: the neighbouring tokens then capture the bare operand differently - `c = (a)++b` prints as `c = a ++b`, which reads back as `a++ b`, and `getline (x)` as `getline x` - so the printed program parses to a different tree")
}
