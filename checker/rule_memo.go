package main

import (
	"go/token"
	"go/types"
	"strings"

	"golang.org/x/tools/go/ssa"
)

// R-MEMO (C09, C10): a memo cache returns what the computation returns.
//
// The interpreter memoises two pure computations per key: the translation of a printf format
// (formatCache) and the compilation of a dynamic regex (regexCache). The first use of a key
// takes the computing path, every later use the cached one; they agree only if the value put
// into the cache is the very value the computing path goes on to return. A store made before
// the last transformation of the result (for example before the default precision is inserted
// into a %g verb) makes the second and later uses of the same key behave differently from the
// first - something no single-shot test sees.

func init() {
	register("R-MEMO", "memo caches are coherent: for every store into the interpreter's memo maps (formatCache, regexCache) the stored value - or, for a struct, each of its components - is the same SSA value the function returns in its non-error results on every return reachable from the store, so a cached answer can never differ from a freshly computed one", ruleMemo)
}

var memoFields = map[string]bool{"formatCache": true, "regexCache": true}

func ruleMemo(c *Ctx) {
	n := 0
	for _, fn := range c.srcFuncs("interp") {
		for _, b := range fn.Blocks {
			for _, in := range b.Instrs {
				mu, ok := in.(*ssa.MapUpdate)
				if !ok {
					continue
				}
				ld, ok := mu.Map.(*ssa.UnOp)
				if !ok {
					continue
				}
				f, x := fieldOfAddr(ld.X)
				if f == nil || !memoFields[f.Name()] || (!isInterp(x.Type()) && !isInterp(deref(x.Type()))) {
					continue
				}
				n++
				key := "memo:" + fnKey(fn) + ":" + f.Name()
				// components of the stored value
				comps := []ssa.Value{mu.Value}
				if u, ok := mu.Value.(*ssa.UnOp); ok && u.Op == token.MUL {
					if al, ok := u.X.(*ssa.Alloc); ok {
						comps = nil
						if refs := al.Referrers(); refs != nil {
							for _, r := range *refs {
								fa, ok := r.(*ssa.FieldAddr)
								if !ok {
									continue
								}
								if frefs := fa.Referrers(); frefs != nil {
									for _, fr := range *frefs {
										if st, ok := fr.(*ssa.Store); ok && st.Addr == ssa.Value(fa) {
											comps = append(comps, st.Val)
										}
									}
								}
							}
						}
					}
				}
				if len(comps) == 0 {
					c.undecided(key, in.Pos(), "the value stored into %s could not be taken apart", f.Name())
					continue
				}
				// returns reachable from the store
				bad := ""
				nRet := 0
				reach := reachableFrom(b)
				reach[b] = true
				for rb := range reach {
					if len(rb.Instrs) == 0 {
						continue
					}
					ret, ok := rb.Instrs[len(rb.Instrs)-1].(*ssa.Return)
					if !ok {
						continue
					}
					nRet++
					rr := retResults(ret)
					var vals []ssa.Value
					for _, r := range rr {
						if !isErrorType(r.Type()) {
							vals = append(vals, r)
						}
					}
					for vi, v := range vals {
						// a result that merges several paths (a phi): only the edges that can come from the
						// store matter - on the other paths (a cache hit) nothing was stored
						if ph, ok := v.(*ssa.Phi); ok {
							var onPath []ssa.Value
							for i, e := range ph.Edges {
								pred := ph.Block().Preds[i]
								if pred == b || reach[pred] {
									onPath = append(onPath, e)
								}
							}
							allSame := len(onPath) > 0
							for _, e := range onPath {
								if !memoSame(e, comps) {
									allSame = false
								}
							}
							if allSame {
								vals[vi] = onPath[0]
								continue
							}
						}
						if !memoSame(v, comps) {
							bad = "result " + v.Name() + " of the return at " + c.relPos(ret.Pos()) + " is not the value that was cached"
						}
					}
					for _, cv := range comps {
						if !memoSame(cv, vals) {
							bad = "cached component " + cv.Name() + " is not among the results of the return at " + c.relPos(ret.Pos())
						}
					}
				}
				c.check(bad == "" && nRet > 0, key, in.Pos(),
					"the value cached is the value returned ("+itoa(int64(len(comps)))+" component(s), "+itoa(int64(nRet))+" return(s))",
					fnKey(fn)+" stores into "+f.Name()+" something other than what it then returns ("+bad+"): the first use of a key and every later (cached) use give different answers")
			}
		}
	}
	c.atLeast("memo cache stores", n, 2)
	memoPairs(c)

	// KEY: the caches live as long as the Interpreter, across Execute calls with different configurations. A
	// function that fills one must therefore not let the cached value depend on per-run configuration (any field
	// that setExecuteConfig or resetCore re-establish): the entry computed under the first run's setting would be
	// served to later runs
	perRun := map[string]bool{}
	for _, name := range []string{"interp.setExecuteConfig", "interp.resetCore"} {
		if f := c.ssaFunc("interp", name); f != nil {
			for k := range mustStoreAtSuccess(f) {
				perRun[k] = true
			}
		}
	}
	nKey := 0
	for _, fn := range c.srcFuncs("interp") {
		fills := false
		allInstrs(fn, func(in ssa.Instruction) {
			if mu, ok := in.(*ssa.MapUpdate); ok {
				if ld, ok := mu.Map.(*ssa.UnOp); ok {
					if f, _ := fieldOfAddr(ld.X); f != nil && memoFields[f.Name()] {
						fills = true
					}
				}
			}
		})
		if !fills {
			continue
		}
		nKey++
		var deps []string
		seen := map[string]bool{}
		allInstrs(fn, func(in ssa.Instruction) {
			ld, ok := in.(*ssa.UnOp)
			if !ok || ld.Op != token.MUL {
				return
			}
			f, x := fieldOfAddr(ld.X)
			if f == nil || (!isInterp(x.Type()) && !isInterp(deref(x.Type()))) {
				return
			}
			if memoFields[f.Name()] || !perRun[f.Name()] || seen[f.Name()] {
				return
			}
			seen[f.Name()] = true
			deps = append(deps, f.Name())
		})
		c.check(len(deps) == 0, "memo-key:"+fnKey(fn), fn.Pos(), "the cached value depends on the key only (no per-run configuration is read while computing it)", fnKey(fn)+" reads per-run configuration ("+strings.Join(deps, ", ")+") while computing a value it caches for the lifetime of the Interpreter: a later Execute with a different configuration is served the entry computed under the earlier one")
	}
	c.atLeast("functions that fill a memo cache", nKey, 2)
}

// memoPairs: one-entry memos. A function that answers from a field V of the interpreter when its argument equals a
// field K (`if arg == p.K { return p.V }`) makes (K, V) a key/value pair: wherever V is stored, K must be stored for the
// same computation on every path that goes on to return - otherwise a later call with the old key is answered with
// the new value.
func memoPairs(c *Ctx) {
	type pair struct{ k, v *types.Var }
	var pairs []pair
	seenPair := map[pair]bool{}
	fns := c.srcFuncs("interp")
	for _, fn := range fns {
		for _, b := range fn.Blocks {
			if len(b.Instrs) == 0 {
				continue
			}
			ret, ok := b.Instrs[len(b.Instrs)-1].(*ssa.Return)
			if !ok {
				continue
			}
			for _, r := range retResults(ret) {
				if isErrorType(r.Type()) {
					continue
				}
				vf, vx := loadedField(r)
				if vf == nil || vx == nil || !isInterp(vx.Type()) {
					continue
				}
				// a dominating test `param == p.K` whose true edge leads here
				for _, g := range fn.Blocks {
					if len(g.Instrs) == 0 || !g.Dominates(b) || g == b {
						continue
					}
					ifi, ok := g.Instrs[len(g.Instrs)-1].(*ssa.If)
					if !ok {
						continue
					}
					bo, ok := ifi.Cond.(*ssa.BinOp)
					if !ok || bo.Op != token.EQL || reachableAvoiding(g.Succs[1], g)[b] {
						continue
					}
					for _, sides := range [][2]ssa.Value{{bo.X, bo.Y}, {bo.Y, bo.X}} {
						if _, isParam := sides[0].(*ssa.Parameter); !isParam {
							continue
						}
						kf, kx := loadedField(sides[1])
						if kf == nil || kx == nil || !isInterp(kx.Type()) || kf == vf {
							continue
						}
						p := pair{kf, vf}
						if !seenPair[p] {
							seenPair[p] = true
							pairs = append(pairs, p)
						}
					}
				}
			}
		}
	}
	if len(pairs) == 0 {
		c.ok("memo-pair", token.NoPos, "no function of the interpreter answers from a field when its argument equals another field (no one-entry memo)")
		return
	}
	for _, p := range pairs {
		for _, role := range []struct{ a, b *types.Var }{{p.v, p.k}, {p.k, p.v}} {
			for _, fn := range fns {
				for _, b := range fn.Blocks {
					for _, in := range b.Instrs {
						st, ok := in.(*ssa.Store)
						if !ok {
							continue
						}
						f, x := fieldOfAddr(st.Addr)
						if f != role.a || x == nil || !isInterp(x.Type()) {
							continue
						}
						if isNilConst(st.Val) {
							continue // clearing the memo
						}
						if k, ok := st.Val.(*ssa.Const); ok && k.Value != nil && k.Value.ExactString() == `""` {
							continue
						}
						stores := func(blk *ssa.BasicBlock) bool {
							for _, i2 := range blk.Instrs {
								if s2, ok := i2.(*ssa.Store); ok {
									if f2, x2 := fieldOfAddr(s2.Addr); f2 == role.b && x2 != nil && isInterp(x2.Type()) {
										return true
									}
								}
							}
							return false
						}
						okPair := stores(b)
						if !okPair {
							// stored earlier on every path to here
							for _, d := range fn.Blocks {
								if d != b && d.Dominates(b) && stores(d) {
									okPair = true
								}
							}
						}
						if !okPair {
							// every path from here to a return passes a store of the partner
							seen := map[*ssa.BasicBlock]bool{}
							escaped := false
							var walk func(x *ssa.BasicBlock)
							walk = func(x *ssa.BasicBlock) {
								if seen[x] || escaped {
									return
								}
								seen[x] = true
								if stores(x) {
									return
								}
								if len(x.Instrs) > 0 {
									if _, isRet := x.Instrs[len(x.Instrs)-1].(*ssa.Return); isRet {
										escaped = true
										return
									}
								}
								for _, su := range x.Succs {
									walk(su)
								}
							}
							for _, su := range b.Succs {
								walk(su)
							}
							if len(b.Succs) == 0 {
								escaped = true
							}
							okPair = !escaped
						}
						key := "memo-pair:" + fnKey(fn) + ":" + role.a.Name() + "/" + role.b.Name()
						c.check(okPair, key, in.Pos(), "p."+role.a.Name()+" is stored together with p."+role.b.Name()+" on every path",
							fnKey(fn)+" stores p."+role.a.Name()+" on a path that returns without storing p."+role.b.Name()+": the one-entry memo (answer p."+p.v.Name()+" when the argument equals p."+p.k.Name()+") then pairs a key with a value computed for a different key, so a later call with the old key gets the wrong answer")
					}
				}
			}
		}
	}
}

func memoSame(v ssa.Value, set []ssa.Value) bool {
	strip := func(x ssa.Value) ssa.Value {
		for {
			switch y := x.(type) {
			case *ssa.ChangeType:
				x = y.X
				continue
			case *ssa.MakeInterface:
				x = y.X
				continue
			}
			return x
		}
	}
	v = strip(v)
	for _, s := range set {
		if strip(s) == v {
			return true
		}
		// a phi whose every edge is v (or v a phi over the same)
		if ph, ok := strip(s).(*ssa.Phi); ok {
			all := true
			for _, e := range ph.Edges {
				if strip(e) != v {
					all = false
				}
			}
			if all {
				return true
			}
		}
	}
	_ = types.Typ
	return false
}
