package main

import (
	"go/token"
	"go/types"
	"strings"

	"golang.org/x/tools/go/ssa"
)

// R-MEMO (C09, C10): a memo cache returns what the computation returns.
//
// The interpreter memoises two pure computations per key: the translation of a printf format
// (formatCache) and the compilation of a dynamic regex (regexCache). The first use of a key
// takes the computing path, every later use the cached one; they agree only if the value put
// into the cache is the very value the computing path goes on to return. A store made before
// the last transformation of the result (for example before the default precision is inserted
// into a %g verb) makes the second and later uses of the same key behave differently from the
// first - something no single-shot test sees.

func init() {
	register("R-MEMO", "memo caches are coherent: for every store into the interpreter's memo maps (formatCache, regexCache) the stored value - or, for a struct, each of its components - is the same SSA value the function returns in its non-error results on every return reachable from the store, so a cached answer can never differ from a freshly computed one", ruleMemo)
}

var memoFields = map[string]bool{"formatCache": true, "regexCache": true}

func ruleMemo(c *Ctx) {
	n := 0
	for _, fn := range c.srcFuncs("interp") {
		for _, b := range fn.Blocks {
			for _, in := range b.Instrs {
				mu, ok := in.(*ssa.MapUpdate)
				if !ok {
					continue
				}
				ld, ok := mu.Map.(*ssa.UnOp)
				if !ok {
					continue
				}
				f, x := fieldOfAddr(ld.X)
				if f == nil || !memoFields[f.Name()] || (!isInterp(x.Type()) && !isInterp(deref(x.Type()))) {
					continue
				}
				n++
				key := "memo:" + fnKey(fn) + ":" + f.Name()
				// components of the stored value
				comps := []ssa.Value{mu.Value}
				if u, ok := mu.Value.(*ssa.UnOp); ok && u.Op == token.MUL {
					if al, ok := u.X.(*ssa.Alloc); ok {
						comps = nil
						if refs := al.Referrers(); refs != nil {
							for _, r := range *refs {
								fa, ok := r.(*ssa.FieldAddr)
								if !ok {
									continue
								}
								if frefs := fa.Referrers(); frefs != nil {
									for _, fr := range *frefs {
										if st, ok := fr.(*ssa.Store); ok && st.Addr == ssa.Value(fa) {
											comps = append(comps, st.Val)
										}
									}
								}
							}
						}
					}
				}
				if len(comps) == 0 {
					c.undecided(key, in.Pos(), "the value stored into %s could not be taken apart", f.Name())
					continue
				}
				// returns reachable from the store
				bad := ""
				nRet := 0
				reach := reachableFrom(b)
				reach[b] = true
				for rb := range reach {
					if len(rb.Instrs) == 0 {
						continue
					}
					ret, ok := rb.Instrs[len(rb.Instrs)-1].(*ssa.Return)
					if !ok {
						continue
					}
					nRet++
					rr := retResults(ret)
					var vals []ssa.Value
					for _, r := range rr {
						if !isErrorType(r.Type()) {
							vals = append(vals, r)
						}
					}
					for vi, v := range vals {
						// a result that merges several paths (a phi): only the edges that can come from the
						// store matter - on the other paths (a cache hit) nothing was stored
						if ph, ok := v.(*ssa.Phi); ok {
							var onPath []ssa.Value
							for i, e := range ph.Edges {
								pred := ph.Block().Preds[i]
								if pred == b || reach[pred] {
									onPath = append(onPath, e)
								}
							}
							allSame := len(onPath) > 0
							for _, e := range onPath {
								if !memoSame(e, comps) {
									allSame = false
								}
							}
							if allSame {
								vals[vi] = onPath[0]
								continue
							}
						}
						if !memoSame(v, comps) {
							bad = "result " + v.Name() + " of the return at " + c.relPos(ret.Pos()) + " is not the value that was cached"
						}
					}
					for _, cv := range comps {
						if !memoSame(cv, vals) {
							bad = "cached component " + cv.Name() + " is not among the results of the return at " + c.relPos(ret.Pos())
						}
					}
				}
				c.check(bad == "" && nRet > 0, key, in.Pos(),
					"the value cached is the value returned ("+itoa(int64(len(comps)))+" component(s), "+itoa(int64(nRet))+" return(s))",
					fnKey(fn)+" stores into "+f.Name()+" something other than what it then returns ("+bad+"): the first use of a key and every later (cached) use give different answers")
			}
		}
	}
	c.atLeast("memo cache stores", n, 2)

	// KEY: the caches live as long as the Interpreter, across Execute calls with different configurations. A
	// function that fills one must therefore not let the cached value depend on per-run configuration (any field
	// that setExecuteConfig or resetCore re-establish): the entry computed under the first run's setting would be
	// served to later runs
	perRun := map[string]bool{}
	for _, name := range []string{"interp.setExecuteConfig", "interp.resetCore"} {
		if f := c.ssaFunc("interp", name); f != nil {
			for k := range mustStoreAtSuccess(f) {
				perRun[k] = true
			}
		}
	}
	nKey := 0
	for _, fn := range c.srcFuncs("interp") {
		fills := false
		allInstrs(fn, func(in ssa.Instruction) {
			if mu, ok := in.(*ssa.MapUpdate); ok {
				if ld, ok := mu.Map.(*ssa.UnOp); ok {
					if f, _ := fieldOfAddr(ld.X); f != nil && memoFields[f.Name()] {
						fills = true
					}
				}
			}
		})
		if !fills {
			continue
		}
		nKey++
		var deps []string
		seen := map[string]bool{}
		allInstrs(fn, func(in ssa.Instruction) {
			ld, ok := in.(*ssa.UnOp)
			if !ok || ld.Op != token.MUL {
				return
			}
			f, x := fieldOfAddr(ld.X)
			if f == nil || (!isInterp(x.Type()) && !isInterp(deref(x.Type()))) {
				return
			}
			if memoFields[f.Name()] || !perRun[f.Name()] || seen[f.Name()] {
				return
			}
			seen[f.Name()] = true
			deps = append(deps, f.Name())
		})
		c.check(len(deps) == 0, "memo-key:"+fnKey(fn), fn.Pos(), "the cached value depends on the key only (no per-run configuration is read while computing it)", fnKey(fn)+" reads per-run configuration ("+strings.Join(deps, ", ")+") while computing a value it caches for the lifetime of the Interpreter: a later Execute with a different configuration is served the entry computed under the earlier one")
	}
	c.atLeast("functions that fill a memo cache", nKey, 2)
}

func memoSame(v ssa.Value, set []ssa.Value) bool {
	strip := func(x ssa.Value) ssa.Value {
		for {
			switch y := x.(type) {
			case *ssa.ChangeType:
				x = y.X
				continue
			case *ssa.MakeInterface:
				x = y.X
				continue
			}
			return x
		}
	}
	v = strip(v)
	for _, s := range set {
		if strip(s) == v {
			return true
		}
		// a phi whose every edge is v (or v a phi over the same)
		if ph, ok := strip(s).(*ssa.Phi); ok {
			all := true
			for _, e := range ph.Edges {
				if strip(e) != v {
					all = false
				}
			}
			if all {
				return true
			}
		}
	}
	_ = types.Typ
	return false
}
