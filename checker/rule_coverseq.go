package main

import (
	"fmt"
	"go/ast"
	"go/token"
	"go/types"
	"sort"
	"strings"
)

// coverSeq: the PRESERVE, NESTED and ONCE clauses of R-COVER, decided by abstract execution of the statement-list
// annotator over a small algebra of sequences instead of by matching the shape of its source.
//
// The annotator (the method of Cover that maps ast.Stmts to ast.Stmts) is executed path by path over the
// syntax tree; helpers of the package are entered at their call sites. Values are sequence terms built from
// sequence variables, "the element of this iteration", counters track(X) and concatenation; conditions on
// len(x) and x == nil split a path and record what they establish; a type switch or a comma-ok type
// assertion on the element splits the path per statement type. The loop over the input is summarised by one
// symbolic iteration from an arbitrary state (R, P):
//
//	ONCE      on every path through the body the accumulated result becomes R ++ [track(X1)] ++ X1 ++ ... ++
//	          [track(Xk)] ++ Xk and the pending block becomes Y, with X1 ++ ... ++ Xk ++ Y = P ++ [element] and
//	          every Xi provably non-empty; both start empty; after the loop the value returned is R followed by
//	          such groups whose blocks concatenate to P.
//	NESTED    on every path on which the element may be a statement type T that has a field F of type ast.Stmts,
//	          the path knows it is T and stores annotate(element.F) into element.F exactly once; nothing else is
//	          stored into the element.
//	PRESERVE  every path on which the input may be empty returns the input itself (or nil when it is known to be
//	          nil, or a non-nil empty list when it is known to be non-nil): the loop is only entered with a
//	          non-empty input.
//
// Anything the executor does not model (goto, closures, loops other than the one over the input, a store it
// cannot place) makes the clause undecided, which fails the check.

type seqItem struct {
	kind byte // 'v' sequence variable, 'e' the element of this iteration, 't' counter for sub, 'o' unknown element
	name string
	sub  []seqItem
}

func itemsStr(items []seqItem) string {
	var parts []string
	for _, it := range items {
		switch it.kind {
		case 'v':
			parts = append(parts, it.name)
		case 'e':
			parts = append(parts, "[stmt]")
		case 't':
			parts = append(parts, "[track("+itemsStr(it.sub)+")]")
		default:
			parts = append(parts, "[?"+it.name+"]")
		}
	}
	if len(parts) == 0 {
		return "[]"
	}
	return strings.Join(parts, "++")
}

func itemsEq(a, b []seqItem) bool { return itemsStr(a) == itemsStr(b) }

type svKind int

const (
	svOpaque svKind = iota
	svSeq
	svElem  // the element of this iteration
	svItem  // one list element that is not the iteration's element (a counter, or unknown)
	svBool  // b: 1 true, 0 false
	svField // element.F (of type ast.Stmts)
	svAnnot // annotate(element.F)
	svNil
	svTuple
)

type sval struct {
	k      svKind
	seq    []seqItem
	nilSeq bool // the nil slice literally (var x T, or nil)
	item   seqItem
	b      int
	T, F   string
	tuple  []sval
}

func opaque() sval { return sval{k: svOpaque} }

type seqEvent struct {
	T, F string
	val  sval
	pos  token.Pos
}

type seqState struct {
	scopes    []map[string]sval
	empty     map[string]int // sequence variable -> 1 empty, 2 non-empty
	isnil     map[string]int // 1 nil, 2 non-nil
	pos       string         // element's statement type when known
	neg       map[string]bool
	events    []seqEvent
	afterLoop bool
}

func (s *seqState) clone() *seqState {
	n := &seqState{empty: map[string]int{}, isnil: map[string]int{}, neg: map[string]bool{}, pos: s.pos, afterLoop: s.afterLoop}
	for _, sc := range s.scopes {
		m := make(map[string]sval, len(sc))
		for k, v := range sc {
			m[k] = v
		}
		n.scopes = append(n.scopes, m)
	}
	for k, v := range s.empty {
		n.empty[k] = v
	}
	for k, v := range s.isnil {
		n.isnil[k] = v
	}
	for k, v := range s.neg {
		n.neg[k] = v
	}
	n.events = append([]seqEvent(nil), s.events...)
	return n
}

func (s *seqState) push() { s.scopes = append(s.scopes, map[string]sval{}) }
func (s *seqState) pop()  { s.scopes = s.scopes[:len(s.scopes)-1] }
func (s *seqState) lookup(name string) (sval, bool) {
	for i := len(s.scopes) - 1; i >= 0; i-- {
		if v, ok := s.scopes[i][name]; ok {
			return v, true
		}
	}
	return sval{}, false
}
func (s *seqState) define(name string, v sval) { s.scopes[len(s.scopes)-1][name] = v }
func (s *seqState) assign(name string, v sval) bool {
	for i := len(s.scopes) - 1; i >= 0; i-- {
		if _, ok := s.scopes[i][name]; ok {
			s.scopes[i][name] = v
			return true
		}
	}
	return false
}

// norm drops sequence variables known to be empty.
func (s *seqState) norm(items []seqItem) []seqItem {
	var out []seqItem
	for _, it := range items {
		if it.kind == 'v' && s.empty[it.name] == 1 {
			continue
		}
		if it.kind == 't' {
			it = seqItem{kind: 't', sub: s.norm(it.sub)}
		}
		out = append(out, it)
	}
	return out
}

func (s *seqState) minLen(items []seqItem) int {
	n := 0
	for _, it := range items {
		if it.kind != 'v' || s.empty[it.name] == 2 {
			n++
		}
	}
	return n
}

func (s *seqState) maxLenKnown(items []seqItem) (int, bool) {
	n := 0
	for _, it := range items {
		if it.kind == 'v' {
			if s.empty[it.name] != 1 {
				return 0, false
			}
			continue
		}
		n++
	}
	return n, true
}

type seqFrame struct {
	onReturn   func(*seqState, sval)
	onContinue func(*seqState)
	onBreak    func(*seqState)
	fd         *ast.FuncDecl
}

type seqExec struct {
	c        *Ctx
	info     *types.Info
	pkg      *types.Package
	decls    map[*types.Func]*ast.FuncDecl
	top      *ast.FuncDecl
	topObj   *types.Func
	trackFn  map[*types.Func]bool
	inParam  string
	stmtsT   types.Type
	stmtIf   *types.Interface
	nested   map[string][]string
	paths    int
	problems []string // unmodelled constructs: the clause is undecided
	probPos  token.Pos
	depth    int
	loops    int
	// results of the loop summary
	loopPos           token.Pos
	initBad           string
	iterBad           string
	iterPaths         int
	nestedBad         map[string]string
	nestedSeen        map[string]int
	preserveAtLoop    bool
	accName, pendName string
}

func (x *seqExec) problem(pos token.Pos, format string, args ...interface{}) {
	if len(x.problems) < 5 {
		x.problems = append(x.problems, fmt.Sprintf(format, args...))
	}
	if x.probPos == token.NoPos {
		x.probPos = pos
	}
}

func (x *seqExec) isSeqType(t types.Type) bool {
	if t == nil {
		return false
	}
	sl, ok := t.Underlying().(*types.Slice)
	return ok && isStmtIface(sl.Elem(), x.stmtIf)
}

func (x *seqExec) zero(t types.Type) sval {
	if x.isSeqType(t) {
		return sval{k: svSeq, nilSeq: true}
	}
	if b, ok := t.Underlying().(*types.Basic); ok && b.Kind() == types.Bool {
		return sval{k: svBool, b: 0}
	}
	return opaque()
}

func (x *seqExec) calleeOf(call *ast.CallExpr) *types.Func {
	var id *ast.Ident
	switch f := call.Fun.(type) {
	case *ast.Ident:
		id = f
	case *ast.SelectorExpr:
		id = f.Sel
	}
	if id == nil {
		return nil
	}
	fn, _ := x.info.Uses[id].(*types.Func)
	return fn
}

func (x *seqExec) typeNameOf(e ast.Expr) string {
	if t := x.info.TypeOf(e); t != nil {
		if nm := named(deref(t)); nm != nil {
			return nm.Obj().Name()
		}
	}
	return ""
}

// ---- expressions

func (x *seqExec) evalExpr(e ast.Expr, st *seqState, fr *seqFrame, k func(*seqState, sval)) {
	switch v := e.(type) {
	case *ast.ParenExpr:
		x.evalExpr(v.X, st, fr, k)
		return
	case *ast.Ident:
		switch v.Name {
		case "nil":
			k(st, sval{k: svNil})
			return
		case "true":
			k(st, sval{k: svBool, b: 1})
			return
		case "false":
			k(st, sval{k: svBool, b: 0})
			return
		}
		if val, ok := st.lookup(v.Name); ok {
			k(st, val)
			return
		}
		k(st, opaque())
		return
	case *ast.BasicLit:
		k(st, opaque())
		return
	case *ast.CompositeLit:
		if t := x.info.TypeOf(v); x.isSeqType(t) {
			x.evalList(v.Elts, st, fr, func(st *seqState, vals []sval) {
				var items []seqItem
				for _, a := range vals {
					items = append(items, x.asItem(a))
				}
				k(st, sval{k: svSeq, seq: items})
			})
			return
		}
		k(st, opaque())
		return
	case *ast.SliceExpr:
		if v.Low == nil && v.High != nil && isZeroLit(v.High) {
			x.evalExpr(v.X, st, fr, func(st *seqState, a sval) {
				if a.k == svSeq {
					k(st, sval{k: svSeq})
				} else {
					k(st, opaque())
				}
			})
			return
		}
		x.evalExpr(v.X, st, fr, func(st *seqState, a sval) {
			if a.k == svSeq {
				x.problem(v.Pos(), "slice expression on a statement list")
			}
			k(st, opaque())
		})
		return
	case *ast.SelectorExpr:
		if _, isPkg := x.info.Uses[exprIdent(v.X)].(*types.PkgName); isPkg {
			k(st, opaque())
			return
		}
		x.evalExpr(v.X, st, fr, func(st *seqState, a sval) {
			if a.k == svElem && st.pos != "" && x.isSeqType(x.info.TypeOf(v)) {
				k(st, sval{k: svField, T: st.pos, F: v.Sel.Name})
				return
			}
			k(st, opaque())
		})
		return
	case *ast.TypeAssertExpr:
		x.evalExpr(v.X, st, fr, func(st *seqState, a sval) {
			if a.k == svElem && v.Type != nil {
				tn := x.typeNameOf(v.Type)
				if st.pos == "" && !st.neg[tn] {
					st.pos = tn
				}
				k(st, a)
				return
			}
			k(st, opaque())
		})
		return
	case *ast.IndexExpr:
		x.evalExpr(v.X, st, fr, func(st *seqState, a sval) {
			if a.k == svSeq && len(a.seq) == 1 && a.seq[0].kind == 'v' && a.seq[0].name == x.inParam {
				if kv, ok := st.lookup(exprName(v.Index)); ok && kv.k == svOpaque && kv.T == "loopkey" {
					k(st, sval{k: svElem})
					return
				}
			}
			if a.k == svSeq {
				x.problem(v.Pos(), "a statement list is indexed")
			}
			k(st, opaque())
		})
		return
	case *ast.UnaryExpr:
		if v.Op == token.NOT {
			x.evalCond(e, st, fr, func(st *seqState, b bool) { k(st, boolVal(b)) })
			return
		}
		if v.Op == token.AND {
			if id := exprIdent(v.X); id != nil {
				if val, ok := st.lookup(id.Name); ok && val.k == svSeq {
					x.problem(v.Pos(), "the address of a statement-list variable is taken")
				}
			}
		}
		k(st, opaque())
		return
	case *ast.BinaryExpr:
		switch v.Op {
		case token.LAND, token.LOR, token.EQL, token.NEQ, token.LSS, token.LEQ, token.GTR, token.GEQ:
			x.evalCond(e, st, fr, func(st *seqState, b bool) { k(st, boolVal(b)) })
			return
		}
		k(st, opaque())
		return
	case *ast.FuncLit:
		x.problem(v.Pos(), "function literal")
		k(st, opaque())
		return
	case *ast.CallExpr:
		x.evalCall(v, st, fr, k)
		return
	}
	k(st, opaque())
}

func exprIdent(e ast.Expr) *ast.Ident {
	id, _ := e.(*ast.Ident)
	return id
}

func boolVal(b bool) sval {
	if b {
		return sval{k: svBool, b: 1}
	}
	return sval{k: svBool, b: 0}
}

func (x *seqExec) asItem(a sval) seqItem {
	switch a.k {
	case svElem:
		return seqItem{kind: 'e'}
	case svItem:
		return a.item
	}
	return seqItem{kind: 'o'}
}

func (x *seqExec) evalList(es []ast.Expr, st *seqState, fr *seqFrame, k func(*seqState, []sval)) {
	var rec func(i int, st *seqState, acc []sval)
	rec = func(i int, st *seqState, acc []sval) {
		if i == len(es) {
			k(st, acc)
			return
		}
		x.evalExpr(es[i], st, fr, func(st *seqState, v sval) {
			rec(i+1, st, append(append([]sval(nil), acc...), v))
		})
	}
	rec(0, st, nil)
}

func (x *seqExec) evalCall(call *ast.CallExpr, st *seqState, fr *seqFrame, k func(*seqState, sval)) {
	// conversions
	if tv, ok := x.info.Types[call.Fun]; ok && tv.IsType() && len(call.Args) == 1 {
		x.evalExpr(call.Args[0], st, fr, func(st *seqState, a sval) {
			if a.k == svNil && x.isSeqType(tv.Type) {
				a = sval{k: svSeq, nilSeq: true}
			}
			k(st, a)
		})
		return
	}
	if id := exprIdent(call.Fun); id != nil {
		if _, isBuiltin := x.info.Uses[id].(*types.Builtin); isBuiltin {
			switch id.Name {
			case "append":
				x.evalList(call.Args, st, fr, func(st *seqState, vals []sval) {
					base := vals[0]
					if base.k == svNil {
						base = sval{k: svSeq, nilSeq: true}
					}
					if base.k != svSeq {
						k(st, opaque())
						return
					}
					items := append([]seqItem(nil), base.seq...)
					if call.Ellipsis.IsValid() {
						if len(vals) != 2 || vals[1].k != svSeq {
							x.problem(call.Pos(), "append of an unmodelled list")
							k(st, opaque())
							return
						}
						items = append(items, vals[1].seq...)
					} else {
						for _, a := range vals[1:] {
							items = append(items, x.asItem(a))
						}
					}
					k(st, sval{k: svSeq, seq: items})
				})
				return
			case "len", "cap":
				k(st, opaque())
				return
			case "make":
				if t := x.info.TypeOf(call); x.isSeqType(t) {
					if len(call.Args) >= 2 && isZeroLit(call.Args[1]) {
						k(st, sval{k: svSeq})
						return
					}
					x.problem(call.Pos(), "make of a statement list with a non-zero length")
				}
				k(st, opaque())
				return
			case "copy":
				x.problem(call.Pos(), "copy into a statement list")
				k(st, opaque())
				return
			}
			k(st, opaque())
			return
		}
	}
	fn := x.calleeOf(call)
	if fn == nil || fn.Pkg() != x.pkg {
		// a function outside the package: evaluated for its arguments' effects only
		x.evalList(call.Args, st, fr, func(st *seqState, vals []sval) { k(st, opaque()) })
		return
	}
	x.evalList(call.Args, st, fr, func(st *seqState, vals []sval) {
		switch {
		case x.trackFn[fn]:
			// the counter constructor: one element that counts the list it is given
			for _, a := range vals {
				if a.k == svSeq {
					k(st, sval{k: svItem, item: seqItem{kind: 't', sub: append([]seqItem(nil), a.seq...)}})
					return
				}
			}
			k(st, sval{k: svItem, item: seqItem{kind: 'o', name: "track"}})
			return
		case fn == x.topObj:
			if len(vals) == 1 && vals[0].k == svField {
				k(st, sval{k: svAnnot, T: vals[0].T, F: vals[0].F})
				return
			}
			// applied to something else: the result is unknown; every store the clauses require is checked
			// positively, so nothing is assumed about this one
			k(st, opaque())
			return
		}
		callee := x.decls[fn]
		if callee == nil || callee.Body == nil || x.depth > 5 {
			k(st, opaque())
			return
		}
		// enter the helper
		saved := st.scopes
		st.scopes = []map[string]sval{{}}
		if callee.Recv != nil && len(callee.Recv.List[0].Names) == 1 {
			st.define(callee.Recv.List[0].Names[0].Name, opaque())
		}
		i := 0
		for _, f := range callee.Type.Params.List {
			for _, nm := range f.Names {
				if i < len(vals) {
					st.define(nm.Name, vals[i])
				}
				i++
			}
		}
		if callee.Type.Results != nil {
			for _, f := range callee.Type.Results.List {
				for _, nm := range f.Names {
					st.define(nm.Name, x.zero(x.info.TypeOf(f.Type)))
				}
			}
		}
		x.depth++
		done := func(st *seqState, v sval) {
			st.scopes = nil
			for _, sc := range saved {
				m := make(map[string]sval, len(sc))
				for k, v := range sc {
					m[k] = v
				}
				st.scopes = append(st.scopes, m)
			}
			d := x.depth
			x.depth--
			k(st, v)
			x.depth = d
		}
		nfr := &seqFrame{fd: callee}
		nfr.onReturn = func(st *seqState, v sval) { done(st, v) }
		nfr.onContinue = func(st *seqState) { x.problem(callee.Pos(), "continue outside a loop") }
		nfr.onBreak = nfr.onContinue
		x.execList(callee.Body.List, st, nfr, func(st *seqState) {
			// fell off the end: named results
			done(st, x.namedResults(callee, st))
		})
		x.depth--
	})
}

func (x *seqExec) namedResults(fd *ast.FuncDecl, st *seqState) sval {
	if fd.Type.Results == nil {
		return opaque()
	}
	var vals []sval
	for _, f := range fd.Type.Results.List {
		for _, nm := range f.Names {
			v, _ := st.lookup(nm.Name)
			vals = append(vals, v)
		}
	}
	if len(vals) == 1 {
		return vals[0]
	}
	if len(vals) > 1 {
		return sval{k: svTuple, tuple: vals}
	}
	return opaque()
}

// ---- conditions

func (x *seqExec) evalCond(e ast.Expr, st *seqState, fr *seqFrame, k func(*seqState, bool)) {
	x.paths++
	if x.paths > 20000 {
		x.problem(e.Pos(), "too many paths")
		return
	}
	switch v := e.(type) {
	case *ast.ParenExpr:
		x.evalCond(v.X, st, fr, k)
		return
	case *ast.UnaryExpr:
		if v.Op == token.NOT {
			x.evalCond(v.X, st, fr, func(st *seqState, b bool) { k(st, !b) })
			return
		}
	case *ast.BinaryExpr:
		switch v.Op {
		case token.LAND:
			x.evalCond(v.X, st, fr, func(st *seqState, b bool) {
				if !b {
					k(st, false)
					return
				}
				x.evalCond(v.Y, st, fr, k)
			})
			return
		case token.LOR:
			x.evalCond(v.X, st, fr, func(st *seqState, b bool) {
				if b {
					k(st, true)
					return
				}
				x.evalCond(v.Y, st, fr, k)
			})
			return
		case token.EQL, token.NEQ, token.LSS, token.LEQ, token.GTR, token.GEQ:
			// len(E) op const
			lenArg, lit, op := ast.Expr(nil), "", v.Op
			if call, ok := v.X.(*ast.CallExpr); ok && isIdent(call.Fun, "len") && len(call.Args) == 1 {
				if b, ok := v.Y.(*ast.BasicLit); ok && b.Kind == token.INT {
					lenArg, lit = call.Args[0], b.Value
				}
			} else if call, ok := v.Y.(*ast.CallExpr); ok && isIdent(call.Fun, "len") && len(call.Args) == 1 {
				if b, ok := v.X.(*ast.BasicLit); ok && b.Kind == token.INT {
					lenArg, lit = call.Args[0], b.Value
					op = flipOp(op)
				}
			}
			if lenArg != nil && (lit == "0" || lit == "1" || lit == "2") {
				cst := int(lit[0] - '0')
				x.evalExpr(lenArg, st, fr, func(st *seqState, a sval) {
					if a.k != svSeq {
						x.forkBoth(st, k)
						return
					}
					pred := func(n int) bool { return cmpInt(n, op, cst) }
					lo := st.minLen(a.seq)
					if hi, ok := st.maxLenKnown(a.seq); ok && hi == lo {
						k(st, pred(lo))
						return
					}
					// is the predicate constant from lo upwards?
					if pred(lo) == pred(lo+1) && pred(lo+1) == pred(lo+2) && pred(lo+2) == pred(lo+3) {
						k(st, pred(lo))
						return
					}
					// an emptiness test of a single variable
					if len(a.seq) == 1 && a.seq[0].kind == 'v' && st.empty[a.seq[0].name] == 0 && pred(1) == pred(2) && pred(2) == pred(3) && pred(0) != pred(1) {
						name := a.seq[0].name
						s1 := st.clone()
						s1.empty[name] = 1
						k(s1, pred(0))
						s2 := st.clone()
						s2.empty[name] = 2
						s2.isnil[name] = 2
						k(s2, pred(1))
						return
					}
					x.forkBoth(st, k)
				})
				return
			}
			// E == nil
			if v.Op == token.EQL || v.Op == token.NEQ {
				var other ast.Expr
				if isIdent(v.Y, "nil") {
					other = v.X
				} else if isIdent(v.X, "nil") {
					other = v.Y
				}
				if other != nil {
					x.evalExpr(other, st, fr, func(st *seqState, a sval) {
						eq := v.Op == token.EQL
						if a.k != svSeq {
							x.forkBoth(st, k)
							return
						}
						if a.nilSeq && len(a.seq) == 0 {
							k(st, eq)
							return
						}
						if st.minLen(a.seq) > 0 {
							k(st, !eq)
							return
						}
						if len(a.seq) == 1 && a.seq[0].kind == 'v' {
							name := a.seq[0].name
							switch st.isnil[name] {
							case 1:
								k(st, eq)
								return
							case 2:
								k(st, !eq)
								return
							}
							if st.empty[name] != 2 {
								s1 := st.clone()
								s1.isnil[name] = 1
								s1.empty[name] = 1
								k(s1, eq)
							}
							s2 := st.clone()
							s2.isnil[name] = 2
							k(s2, !eq)
							return
						}
						if len(a.seq) == 0 {
							// an empty non-nil literal
							k(st, !eq)
							return
						}
						x.forkBoth(st, k)
					})
					return
				}
			}
		}
	}
	x.evalExpr(e, st, fr, func(st *seqState, a sval) {
		if a.k == svBool {
			k(st, a.b == 1)
			return
		}
		x.forkBoth(st, k)
	})
}

func (x *seqExec) forkBoth(st *seqState, k func(*seqState, bool)) {
	k(st.clone(), true)
	k(st.clone(), false)
}

func flipOp(op token.Token) token.Token {
	switch op {
	case token.LSS:
		return token.GTR
	case token.GTR:
		return token.LSS
	case token.LEQ:
		return token.GEQ
	case token.GEQ:
		return token.LEQ
	}
	return op
}

func cmpInt(a int, op token.Token, b int) bool {
	switch op {
	case token.EQL:
		return a == b
	case token.NEQ:
		return a != b
	case token.LSS:
		return a < b
	case token.LEQ:
		return a <= b
	case token.GTR:
		return a > b
	case token.GEQ:
		return a >= b
	}
	return false
}

// ---- statements

func (x *seqExec) execList(list []ast.Stmt, st *seqState, fr *seqFrame, k func(*seqState)) {
	if len(list) == 0 {
		k(st)
		return
	}
	x.execStmt(list[0], st, fr, func(st *seqState) { x.execList(list[1:], st, fr, k) })
}

func (x *seqExec) execBlock(list []ast.Stmt, st *seqState, fr *seqFrame, k func(*seqState)) {
	st.push()
	depth := len(st.scopes)
	restore := func(f func(*seqState)) func(*seqState) {
		return func(st *seqState) {
			if len(st.scopes) >= depth {
				st.scopes = st.scopes[:depth-1]
			}
			f(st)
		}
	}
	nfr := &seqFrame{fd: fr.fd, onReturn: fr.onReturn, onContinue: restore(fr.onContinue), onBreak: restore(fr.onBreak)}
	x.execList(list, st, nfr, restore(k))
}

func (x *seqExec) execStmt(s ast.Stmt, st *seqState, fr *seqFrame, k func(*seqState)) {
	switch v := s.(type) {
	case *ast.EmptyStmt:
		k(st)
	case *ast.BlockStmt:
		x.execBlock(v.List, st, fr, k)
	case *ast.LabeledStmt:
		x.execStmt(v.Stmt, st, fr, k)
	case *ast.DeclStmt:
		gd, ok := v.Decl.(*ast.GenDecl)
		if !ok || gd.Tok != token.VAR {
			k(st)
			return
		}
		var specs []*ast.ValueSpec
		for _, sp := range gd.Specs {
			specs = append(specs, sp.(*ast.ValueSpec))
		}
		var rec func(i int, st *seqState)
		rec = func(i int, st *seqState) {
			if i == len(specs) {
				k(st)
				return
			}
			vs := specs[i]
			if len(vs.Values) == 0 {
				for _, nm := range vs.Names {
					st.define(nm.Name, x.zero(x.info.TypeOf(nm)))
				}
				rec(i+1, st)
				return
			}
			x.evalList(vs.Values, st, fr, func(st *seqState, vals []sval) {
				for j, nm := range vs.Names {
					if j < len(vals) {
						val := vals[j]
						if val.k == svNil && x.isSeqType(x.info.TypeOf(nm)) {
							val = sval{k: svSeq, nilSeq: true}
						}
						st.define(nm.Name, val)
					} else {
						st.define(nm.Name, opaque())
					}
				}
				rec(i+1, st)
			})
		}
		rec(0, st)
	case *ast.ExprStmt:
		x.evalExpr(v.X, st, fr, func(st *seqState, _ sval) { k(st) })
	case *ast.IncDecStmt:
		k(st)
	case *ast.AssignStmt:
		x.execAssign(v, st, fr, k)
	case *ast.ReturnStmt:
		if len(v.Results) == 0 {
			fr.onReturn(st, x.namedResults(fr.fd, st))
			return
		}
		x.evalList(v.Results, st, fr, func(st *seqState, vals []sval) {
			if len(vals) == 1 {
				fr.onReturn(st, vals[0])
			} else {
				fr.onReturn(st, sval{k: svTuple, tuple: vals})
			}
		})
	case *ast.BranchStmt:
		switch v.Tok {
		case token.CONTINUE:
			if v.Label != nil {
				x.problem(v.Pos(), "labelled continue")
			}
			fr.onContinue(st)
		case token.BREAK:
			if v.Label != nil {
				x.problem(v.Pos(), "labelled break")
			}
			fr.onBreak(st)
		default:
			x.problem(v.Pos(), "%s statement", v.Tok)
		}
	case *ast.IfStmt:
		st.push()
		depth := len(st.scopes)
		after := func(st *seqState) {
			if len(st.scopes) >= depth {
				st.scopes = st.scopes[:depth-1]
			}
			k(st)
		}
		nfr := &seqFrame{fd: fr.fd, onReturn: fr.onReturn,
			onContinue: func(st *seqState) {
				if len(st.scopes) >= depth {
					st.scopes = st.scopes[:depth-1]
				}
				fr.onContinue(st)
			},
			onBreak: func(st *seqState) {
				if len(st.scopes) >= depth {
					st.scopes = st.scopes[:depth-1]
				}
				fr.onBreak(st)
			}}
		body := func(st *seqState) {
			x.evalCond(v.Cond, st, nfr, func(st *seqState, b bool) {
				switch {
				case b:
					x.execBlock(v.Body.List, st, nfr, after)
				case v.Else != nil:
					x.execStmt(v.Else, st, nfr, after)
				default:
					after(st)
				}
			})
		}
		if v.Init != nil {
			x.execInit(v.Init, st, nfr, body)
		} else {
			body(st)
		}
	case *ast.TypeSwitchStmt:
		x.execTypeSwitch(v, st, fr, k)
	case *ast.SwitchStmt:
		x.execSwitch(v, st, fr, k)
	case *ast.RangeStmt:
		x.execRange(v, st, fr, k)
	case *ast.ForStmt:
		x.problem(v.Pos(), "for loop (only a range over the input list is modelled)")
		k(st)
	default:
		x.problem(s.Pos(), "%T is not modelled", s)
		k(st)
	}
}

// execInit: the init statement of an if; a comma-ok type assertion on the element splits the path.
func (x *seqExec) execInit(s ast.Stmt, st *seqState, fr *seqFrame, k func(*seqState)) {
	x.execStmt(s, st, fr, k)
}

func (x *seqExec) execAssign(v *ast.AssignStmt, st *seqState, fr *seqFrame, k func(*seqState)) {
	set := func(st *seqState, lhs ast.Expr, val sval, k func(*seqState)) {
		switch l := lhs.(type) {
		case *ast.Ident:
			if l.Name == "_" {
				k(st)
				return
			}
			if val.k == svNil && x.isSeqType(x.info.TypeOf(l)) {
				val = sval{k: svSeq, nilSeq: true}
			}
			if v.Tok == token.DEFINE {
				if _, isNew := x.info.Defs[l]; isNew && x.info.Defs[l] != nil {
					st.define(l.Name, val)
					k(st)
					return
				}
			}
			if !st.assign(l.Name, val) {
				st.define(l.Name, val)
			}
			k(st)
		case *ast.SelectorExpr:
			x.evalExpr(l.X, st, fr, func(st *seqState, base sval) {
				if base.k == svElem {
					st.events = append(st.events, seqEvent{T: st.pos, F: l.Sel.Name, val: val, pos: v.Pos()})
				}
				k(st)
			})
		case *ast.IndexExpr:
			x.evalExpr(l.X, st, fr, func(st *seqState, base sval) {
				if base.k == svSeq {
					x.problem(v.Pos(), "an element of a statement list is overwritten")
				}
				k(st)
			})
		case *ast.StarExpr:
			x.problem(v.Pos(), "store through a pointer")
			k(st)
		default:
			k(st)
		}
	}
	if v.Tok != token.ASSIGN && v.Tok != token.DEFINE {
		// op-assign: never on lists
		k(st)
		return
	}
	// comma-ok type assertion on the element
	if len(v.Lhs) == 2 && len(v.Rhs) == 1 {
		if ta, ok := v.Rhs[0].(*ast.TypeAssertExpr); ok && ta.Type != nil {
			x.evalExpr(ta.X, st, fr, func(st *seqState, a sval) {
				if a.k != svElem {
					s1 := st.clone()
					set(s1, v.Lhs[0], opaque(), func(st *seqState) { set(st, v.Lhs[1], boolVal(true), k) })
					s2 := st.clone()
					set(s2, v.Lhs[0], opaque(), func(st *seqState) { set(st, v.Lhs[1], boolVal(false), k) })
					return
				}
				tn := x.typeNameOf(ta.Type)
				canBe := (st.pos == "" && !st.neg[tn]) || st.pos == tn
				canNot := st.pos != tn
				if _, isIface := x.info.TypeOf(ta.Type).Underlying().(*types.Interface); isIface {
					// an interface assertion says nothing about the concrete type
					s1 := st.clone()
					set(s1, v.Lhs[0], a, func(st *seqState) { set(st, v.Lhs[1], boolVal(true), k) })
					s2 := st.clone()
					set(s2, v.Lhs[0], opaque(), func(st *seqState) { set(st, v.Lhs[1], boolVal(false), k) })
					return
				}
				if canBe {
					s1 := st.clone()
					s1.pos = tn
					set(s1, v.Lhs[0], a, func(st *seqState) { set(st, v.Lhs[1], boolVal(true), k) })
				}
				if canNot {
					s2 := st.clone()
					if s2.pos == "" {
						s2.neg[tn] = true
					}
					set(s2, v.Lhs[0], opaque(), func(st *seqState) { set(st, v.Lhs[1], boolVal(false), k) })
				}
			})
			return
		}
	}
	if len(v.Lhs) == len(v.Rhs) {
		x.evalList(v.Rhs, st, fr, func(st *seqState, vals []sval) {
			var rec func(i int, st *seqState)
			rec = func(i int, st *seqState) {
				if i == len(v.Lhs) {
					k(st)
					return
				}
				set(st, v.Lhs[i], vals[i], func(st *seqState) { rec(i+1, st) })
			}
			rec(0, st)
		})
		return
	}
	if len(v.Rhs) == 1 {
		x.evalExpr(v.Rhs[0], st, fr, func(st *seqState, val sval) {
			var rec func(i int, st *seqState)
			rec = func(i int, st *seqState) {
				if i == len(v.Lhs) {
					k(st)
					return
				}
				item := opaque()
				if val.k == svTuple && i < len(val.tuple) {
					item = val.tuple[i]
				}
				set(st, v.Lhs[i], item, func(st *seqState) { rec(i+1, st) })
			}
			rec(0, st)
		})
		return
	}
	k(st)
}

func (x *seqExec) execTypeSwitch(v *ast.TypeSwitchStmt, st *seqState, fr *seqFrame, k func(*seqState)) {
	var bind string
	var subject ast.Expr
	switch a := v.Assign.(type) {
	case *ast.AssignStmt:
		bind = exprName(a.Lhs[0])
		subject = a.Rhs[0].(*ast.TypeAssertExpr).X
	case *ast.ExprStmt:
		subject = a.X.(*ast.TypeAssertExpr).X
	}
	run := func(st *seqState) {
		x.evalExpr(subject, st, fr, func(st *seqState, a sval) {
			brk := func(st *seqState) { k(st) }
			clauseFrame := func(depth int) *seqFrame {
				fix := func(f func(*seqState)) func(*seqState) {
					return func(st *seqState) {
						if len(st.scopes) >= depth {
							st.scopes = st.scopes[:depth-1]
						}
						f(st)
					}
				}
				return &seqFrame{fd: fr.fd, onReturn: fr.onReturn, onContinue: fix(fr.onContinue), onBreak: fix(brk)}
			}
			runClause := func(st *seqState, cc *ast.CaseClause, val sval) {
				st.push()
				depth := len(st.scopes)
				if bind != "" {
					st.define(bind, val)
				}
				x.execList(cc.Body, st, clauseFrame(depth), func(st *seqState) {
					if len(st.scopes) >= depth {
						st.scopes = st.scopes[:depth-1]
					}
					k(st)
				})
			}
			if a.k != svElem {
				// not the element: every clause may run
				for _, cs := range v.Body.List {
					runClause(st.clone(), cs.(*ast.CaseClause), opaque())
				}
				hasDefault := false
				for _, cs := range v.Body.List {
					if cs.(*ast.CaseClause).List == nil {
						hasDefault = true
					}
				}
				if !hasDefault {
					k(st.clone())
				}
				return
			}
			listed := map[string]bool{}
			taken := false
			var def *ast.CaseClause
			for _, cs := range v.Body.List {
				cc := cs.(*ast.CaseClause)
				if cc.List == nil {
					def = cc
					continue
				}
				for _, te := range cc.List {
					if isIdent(te, "nil") {
						continue
					}
					tn := x.typeNameOf(te)
					if _, isIface := x.info.TypeOf(te).Underlying().(*types.Interface); isIface {
						x.problem(te.Pos(), "interface case in a type switch on the element")
						continue
					}
					if listed[tn] {
						continue
					}
					listed[tn] = true
					if st.pos == tn || (st.pos == "" && !st.neg[tn]) {
						s1 := st.clone()
						s1.pos = tn
						runClause(s1, cc, a)
						if st.pos == tn {
							taken = true
						}
					}
				}
			}
			if taken {
				return
			}
			// no listed type: default clause or fall out of the switch
			if st.pos != "" && listed[st.pos] {
				return
			}
			s2 := st.clone()
			if s2.pos == "" {
				for tn := range listed {
					s2.neg[tn] = true
				}
			}
			if def != nil {
				runClause(s2, def, a)
			} else {
				k(s2)
			}
		})
	}
	if v.Init != nil {
		x.execStmt(v.Init, st, fr, run)
	} else {
		run(st)
	}
}

func (x *seqExec) execSwitch(v *ast.SwitchStmt, st *seqState, fr *seqFrame, k func(*seqState)) {
	run := func(st *seqState) {
		var clauses []*ast.CaseClause
		var def *ast.CaseClause
		for _, cs := range v.Body.List {
			cc := cs.(*ast.CaseClause)
			if cc.List == nil {
				def = cc
			} else {
				clauses = append(clauses, cc)
			}
			for _, b := range cc.Body {
				if br, ok := b.(*ast.BranchStmt); ok && br.Tok == token.FALLTHROUGH {
					x.problem(br.Pos(), "fallthrough")
				}
			}
		}
		brk := func(st *seqState) { k(st) }
		runBody := func(st *seqState, cc *ast.CaseClause) {
			st.push()
			depth := len(st.scopes)
			fix := func(f func(*seqState)) func(*seqState) {
				return func(st *seqState) {
					if len(st.scopes) >= depth {
						st.scopes = st.scopes[:depth-1]
					}
					f(st)
				}
			}
			nfr := &seqFrame{fd: fr.fd, onReturn: fr.onReturn, onContinue: fix(fr.onContinue), onBreak: fix(brk)}
			x.execList(cc.Body, st, nfr, fix(k))
		}
		var try func(ci, li int, st *seqState)
		try = func(ci, li int, st *seqState) {
			if ci == len(clauses) {
				if def != nil {
					runBody(st, def)
				} else {
					k(st)
				}
				return
			}
			cc := clauses[ci]
			if li == len(cc.List) {
				try(ci+1, 0, st)
				return
			}
			var cond ast.Expr = cc.List[li]
			if v.Tag != nil {
				cond = &ast.BinaryExpr{X: v.Tag, Op: token.EQL, Y: cc.List[li]}
			}
			x.evalCond(cond, st, fr, func(st *seqState, b bool) {
				if b {
					runBody(st, cc)
				} else {
					try(ci, li+1, st)
				}
			})
		}
		try(0, 0, st)
	}
	if v.Init != nil {
		x.execStmt(v.Init, st, fr, run)
	} else {
		run(st)
	}
}

// execRange: the loop over the input list, summarised by one symbolic iteration.
func (x *seqExec) execRange(v *ast.RangeStmt, st *seqState, fr *seqFrame, k func(*seqState)) {
	x.evalExpr(v.X, st, fr, func(st *seqState, over sval) {
		isInput := over.k == svSeq && len(over.seq) == 1 && over.seq[0].kind == 'v' && over.seq[0].name == x.inParam
		if !isInput || x.depth != 0 || st.afterLoop {
			x.problem(v.Pos(), "a loop other than the one range over the annotator's input")
			k(st)
			return
		}
		x.loops++ // reached once per path that gets here; each is summarised
		x.loopPos = v.Pos()
		if st.empty[x.inParam] != 2 {
			x.preserveAtLoop = false
		}
		// variables carried around the loop: assigned in the body, declared outside it
		carried := map[string]bool{}
		ast.Inspect(v.Body, func(n ast.Node) bool {
			switch a := n.(type) {
			case *ast.AssignStmt:
				for _, l := range a.Lhs {
					if id, ok := l.(*ast.Ident); ok && id.Name != "_" {
						if a.Tok == token.DEFINE && x.info.Defs[id] != nil {
							continue
						}
						if _, outside := st.lookup(id.Name); outside {
							carried[id.Name] = true
						}
					}
				}
			case *ast.IncDecStmt:
				if id, ok := a.X.(*ast.Ident); ok {
					if _, outside := st.lookup(id.Name); outside {
						carried[id.Name] = true
					}
				}
			}
			return true
		})
		var seqVars []string
		for name := range carried {
			val, _ := st.lookup(name)
			if val.k == svSeq {
				seqVars = append(seqVars, name)
				if len(st.norm(val.seq)) != 0 && x.initBad == "" {
					x.initBad = name + " is " + itemsStr(val.seq) + " when the loop is entered"
				}
			}
		}
		sort.Strings(seqVars)
		// one symbolic iteration
		body := st.clone()
		for name := range carried {
			val, _ := body.lookup(name)
			if val.k == svSeq {
				body.assign(name, sval{k: svSeq, seq: []seqItem{{kind: 'v', name: "$" + name}}})
			} else {
				body.assign(name, opaque())
			}
		}
		body.push()
		if v.Value != nil && exprName(v.Value) != "_" {
			body.define(exprName(v.Value), sval{k: svElem})
		}
		if v.Key != nil && exprName(v.Key) != "_" {
			body.define(exprName(v.Key), sval{k: svOpaque, T: "loopkey"})
		}
		body.pos, body.neg, body.events = "", map[string]bool{}, nil
		type endState struct {
			st   *seqState
			vals map[string][]seqItem
		}
		var ends []endState
		finish := func(st *seqState) {
			e := endState{st: st, vals: map[string][]seqItem{}}
			for _, name := range seqVars {
				val, _ := st.lookup(name)
				if val.k != svSeq {
					x.problem(v.Pos(), "the list %s has an unmodelled value at the end of an iteration", name)
					return
				}
				e.vals[name] = val.seq
			}
			ends = append(ends, e)
		}
		bfr := &seqFrame{fd: fr.fd}
		bfr.onContinue = finish
		bfr.onBreak = func(st *seqState) {
			if x.iterBad == "" {
				x.iterBad = "a path leaves the loop by break: the statements after it are dropped"
			}
		}
		bfr.onReturn = func(st *seqState, _ sval) {
			if x.iterBad == "" {
				x.iterBad = "a path returns from inside the loop: the statements after it are dropped"
			}
		}
		x.execList(v.Body.List, body, bfr, finish)
		x.iterPaths += len(ends)
		// which list accumulates (never reset: every path keeps its old value as a prefix), which is pending
		acc, pend := "", ""
		for _, name := range seqVars {
			isAcc := true
			for _, e := range ends {
				val := e.vals[name]
				if len(val) == 0 || val[0].kind != 'v' || val[0].name != "$"+name {
					isAcc = false
				}
			}
			if isAcc && len(ends) > 0 {
				// both lists keep their prefix on a path that only appends: the accumulator is the one that
				// receives counters
				hasTrack := false
				for _, e := range ends {
					for _, it := range e.vals[name] {
						if it.kind == 't' {
							hasTrack = true
						}
					}
				}
				if hasTrack || len(seqVars) == 1 {
					if acc != "" {
						x.problem(v.Pos(), "two lists receive counters (%s, %s)", acc, name)
					}
					acc = name
					continue
				}
			}
			if pend != "" {
				x.problem(v.Pos(), "more than one pending list (%s, %s)", pend, name)
			}
			pend = name
		}
		if acc == "" || pend == "" {
			if x.iterBad == "" {
				x.iterBad = "the loop does not keep one accumulated result (receiving counters) and one pending block (lists carried: " + strings.Join(seqVars, ",") + ")"
			}
		} else {
			x.accName, x.pendName = acc, pend
			for _, e := range ends {
				if msg := x.checkGroups(e.st, e.vals[acc], "$"+acc, e.vals[pend], []seqItem{{kind: 'v', name: "$" + pend}, {kind: 'e'}}); msg != "" && x.iterBad == "" {
					x.iterBad = "on a path through the loop body (element type " + orAny(e.st.pos) + ") " + msg
				}
			}
		}
		// NESTED, per path
		for _, e := range ends {
			var tns []string
			for tn := range x.nested {
				tns = append(tns, tn)
			}
			sort.Strings(tns)
			for _, tn := range tns {
				possible := e.st.pos == tn || (e.st.pos == "" && !e.st.neg[tn])
				if !possible {
					continue
				}
				for _, f := range x.nested[tn] {
					key := tn + "." + f
					x.nestedSeen[key]++
					if e.st.pos != tn {
						if x.nestedBad[key] == "" {
							x.nestedBad[key] = "a path through the loop body on which the element may be *ast." + tn + " never finds out that it is: statements nested in its " + f + " are never counted"
						}
						continue
					}
					cnt := 0
					for _, ev := range e.st.events {
						if ev.F == f {
							cnt++
							if !(ev.val.k == svAnnot && ev.val.T == tn && ev.val.F == f) && x.nestedBad[key] == "" {
								x.nestedBad[key] = "*ast." + tn + "." + f + " is assigned something other than the annotation of itself"
							}
						}
					}
					if cnt != 1 && x.nestedBad[key] == "" {
						x.nestedBad[key] = "on a path through the loop body with element type *ast." + tn + ", " + f + " is replaced by its annotation " + itoa(int64(cnt)) + " times, not exactly once: on some shape of the program the statements in that body get no counter of their own (or are counted twice)"
					}
				}
			}
			// stores into other fields of the element
			for _, ev := range e.st.events {
				known := false
				for _, f := range x.nested[ev.T] {
					if f == ev.F {
						known = true
					}
				}
				if !known {
					key := "extra-store"
					if x.nestedBad[key] == "" {
						x.nestedBad[key] = "the annotator stores into " + orAny(ev.T) + "." + ev.F + " of a statement, which is not one of its nested statement lists: the program that runs is no longer the one given"
					}
				}
			}
		}
		// after the loop
		post := st.clone()
		post.afterLoop = true
		for name := range carried {
			val, _ := post.lookup(name)
			if val.k == svSeq {
				post.assign(name, sval{k: svSeq, seq: []seqItem{{kind: 'v', name: "$" + name}}})
				delete(post.empty, "$"+name)
			} else {
				post.assign(name, opaque())
			}
		}
		k(post)
	})
}

func orAny(s string) string {
	if s == "" {
		return "any other"
	}
	return "*ast." + s
}

// checkGroups: val = [prefix] ++ [track(X1)] ++ X1 ++ ... ; X1 ++ ... ++ rest == whole (modulo lists known empty).
func (x *seqExec) checkGroups(st *seqState, val []seqItem, prefix string, rest []seqItem, whole []seqItem) string {
	val = st.norm(val)
	if len(val) == 0 || val[0].kind != 'v' || val[0].name != prefix {
		return "the accumulated result becomes " + itemsStr(val) + ", which does not extend what was accumulated before"
	}
	val = val[1:]
	var blocks []seqItem
	for len(val) > 0 {
		if val[0].kind != 't' {
			return "the accumulated result receives " + itemsStr(val) + " where a counter was expected: statements are emitted without a counter in front of them"
		}
		sub := st.norm(val[0].sub)
		if st.minLen(sub) == 0 {
			return "a counter is emitted for the block " + itemsStr(sub) + ", which may be empty"
		}
		if len(val)-1 < len(sub) || !itemsEq(val[1:1+len(sub)], sub) {
			return "the counter for " + itemsStr(sub) + " is followed by " + itemsStr(val[1:]) + ", not by exactly the statements it counts"
		}
		blocks = append(blocks, sub...)
		val = val[1+len(sub):]
	}
	got := append(blocks, st.norm(rest)...)
	if !itemsEq(got, st.norm(whole)) {
		return "the blocks emitted plus the pending block are " + itemsStr(got) + ", expected " + itemsStr(st.norm(whole)) + ": a statement is dropped, duplicated or reordered"
	}
	return ""
}

func coverSeq(c *Ctx) int {
	cp := c.pkg("internal/cover")
	astPkg := c.pkg("internal/ast")
	if cp == nil || astPkg == nil {
		c.undecided("anchor:cover", token.NoPos, "packages internal/cover / internal/ast not loaded")
		return 0
	}
	info := cp.TypesInfo
	x := &seqExec{c: c, info: info, pkg: cp.Types, decls: map[*types.Func]*ast.FuncDecl{}, trackFn: map[*types.Func]bool{},
		nested: map[string][]string{}, nestedBad: map[string]string{}, nestedSeen: map[string]int{}, preserveAtLoop: true}
	if o := astPkg.Types.Scope().Lookup("Stmt"); o != nil {
		x.stmtIf, _ = o.Type().Underlying().(*types.Interface)
	}
	if o := astPkg.Types.Scope().Lookup("Stmts"); o != nil {
		x.stmtsT = o.Type()
	}
	if x.stmtIf == nil || x.stmtsT == nil {
		c.undecided("anchor:ast.Stmt", token.NoPos, "ast.Stmt / ast.Stmts not found")
		return 0
	}
	n := 0
	// statement types with nested statement lists
	for _, name := range astPkg.Types.Scope().Names() {
		tn, ok := astPkg.Types.Scope().Lookup(name).(*types.TypeName)
		if !ok {
			continue
		}
		stt, ok := tn.Type().Underlying().(*types.Struct)
		if !ok || !types.Implements(types.NewPointer(tn.Type()), x.stmtIf) {
			continue
		}
		for i := 0; i < stt.NumFields(); i++ {
			f := stt.Field(i)
			switch {
			case types.Identical(f.Type(), x.stmtsT):
				x.nested[name] = append(x.nested[name], f.Name())
			case isStmtIface(f.Type(), x.stmtIf):
				c.trivial("nested:"+name+"."+f.Name(), tn.Pos(), "header statement, counted with the %s it belongs to", name)
			case containsStmt(f.Type(), x.stmtIf, x.stmtsT):
				c.undecided("nested:"+name+"."+f.Name(), tn.Pos(), "statement type %s holds nested statements in field %s of type %s, a shape the rule does not know", name, f.Name(), f.Type())
			}
		}
	}
	for _, fd := range c.allFuncDecls("internal/cover") {
		if fn, ok := info.Defs[fd.Name].(*types.Func); ok {
			x.decls[fn] = fd
		}
	}
	// the annotator: the method of Cover from ast.Stmts to ast.Stmts
	for fn, fd := range x.decls {
		sig := fn.Type().(*types.Signature)
		if sig.Recv() == nil || sig.Params().Len() != 1 || sig.Results().Len() != 1 {
			continue
		}
		if types.Identical(sig.Params().At(0).Type(), x.stmtsT) && types.Identical(sig.Results().At(0).Type(), x.stmtsT) {
			if x.top != nil {
				c.undecided("anchor:annotateStmts", fd.Pos(), "two methods map ast.Stmts to ast.Stmts (%s, %s)", x.top.Name.Name, fd.Name.Name)
				return n
			}
			x.top, x.topObj = fd, fn
		}
	}
	if x.top == nil || x.top.Body == nil || len(x.top.Type.Params.List[0].Names) != 1 {
		c.undecided("anchor:annotateStmts", token.NoPos, "no method of Cover maps ast.Stmts to ast.Stmts")
		return n
	}
	x.inParam = x.top.Type.Params.List[0].Names[0].Name
	// the counter constructor: takes a list of statements, returns one statement, and reaches the function
	// that appends to the tracked-block list
	appendsBlock := map[*types.Func]bool{}
	for fn, fd := range x.decls {
		if fd.Body == nil {
			continue
		}
		ast.Inspect(fd.Body, func(nd ast.Node) bool {
			as, ok := nd.(*ast.AssignStmt)
			if ok && len(as.Lhs) == 1 {
				if se, ok := as.Lhs[0].(*ast.SelectorExpr); ok && se.Sel.Name == "trackedBlocks" {
					appendsBlock[fn] = true
				}
			}
			return true
		})
	}
	var reaches func(fn *types.Func, seen map[*types.Func]bool) bool
	reaches = func(fn *types.Func, seen map[*types.Func]bool) bool {
		if appendsBlock[fn] {
			return true
		}
		if seen[fn] {
			return false
		}
		seen[fn] = true
		fd := x.decls[fn]
		if fd == nil || fd.Body == nil {
			return false
		}
		found := false
		ast.Inspect(fd.Body, func(nd ast.Node) bool {
			if call, ok := nd.(*ast.CallExpr); ok && !found {
				if cal := x.calleeOf(call); cal != nil && cal.Pkg() == x.pkg && reaches(cal, seen) {
					found = true
				}
			}
			return !found
		})
		return found
	}
	for fn := range x.decls {
		sig := fn.Type().(*types.Signature)
		if sig.Results().Len() != 1 || !isStmtIface(sig.Results().At(0).Type(), x.stmtIf) || fn == x.topObj {
			continue
		}
		takesList := false
		for i := 0; i < sig.Params().Len(); i++ {
			if x.isSeqType(sig.Params().At(i).Type()) {
				takesList = true
			}
		}
		if takesList && reaches(fn, map[*types.Func]bool{}) {
			x.trackFn[fn] = true
		}
	}
	if len(x.trackFn) == 0 {
		c.undecided("anchor:counter-constructor", token.NoPos, "no function of package cover takes a list of statements, returns a statement and records a tracked block")
		return n
	}
	// run
	st := &seqState{empty: map[string]int{}, isnil: map[string]int{}, neg: map[string]bool{}}
	st.push()
	if x.top.Recv != nil && len(x.top.Recv.List[0].Names) == 1 {
		st.define(x.top.Recv.List[0].Names[0].Name, opaque())
	}
	st.define(x.inParam, sval{k: svSeq, seq: []seqItem{{kind: 'v', name: x.inParam}}})
	type retPath struct {
		st  *seqState
		val sval
	}
	var rets []retPath
	fr := &seqFrame{fd: x.top}
	fr.onReturn = func(st *seqState, v sval) { rets = append(rets, retPath{st, v}) }
	fr.onContinue = func(st *seqState) { x.problem(x.top.Pos(), "continue outside a loop") }
	fr.onBreak = fr.onContinue
	x.execList(x.top.Body.List, st, fr, func(st *seqState) { x.problem(x.top.End(), "the annotator can end without a return") })

	if len(x.problems) > 0 {
		c.undecided("model:annotateStmts", x.probPos, "the abstract execution of %s met constructs it does not model: %s", x.top.Name.Name, strings.Join(x.problems, "; "))
		return n + 1
	}
	if x.loops == 0 {
		c.undecided("anchor:annotateStmts-loop", x.top.Pos(), "%s has no range loop over its argument", x.top.Name.Name)
		return n + 1
	}
	// PRESERVE
	{
		bad := ""
		if !x.preserveAtLoop {
			bad = "the loop over the input is entered without the input being known non-empty: for an empty input the rebuilt (nil) result is returned"
		}
		early := 0
		for _, r := range rets {
			if r.st.afterLoop {
				continue
			}
			in := x.inParam
			if r.st.empty[in] == 2 {
				if bad == "" {
					bad = "a path returns before the loop although the input is not empty: its statements get no counters"
				}
				continue
			}
			early++
			ok := false
			switch {
			case r.val.k == svSeq && len(r.val.seq) == 1 && r.val.seq[0].kind == 'v' && r.val.seq[0].name == in:
				ok = true
			case (r.val.k == svNil || (r.val.k == svSeq && r.val.nilSeq && len(r.val.seq) == 0)) && r.st.isnil[in] == 1:
				ok = true
			case r.val.k == svSeq && !r.val.nilSeq && len(r.val.seq) == 0 && r.st.isnil[in] == 2:
				ok = true
			}
			if !ok && bad == "" {
				bad = "for an empty input a path returns " + describeVal(r.val) + " instead of the input itself"
			}
		}
		if early == 0 && bad == "" {
			bad = "no path hands an empty input back"
		}
		n++
		c.check(bad == "", "preserve:annotateStmts", x.top.Pos(),
			"an empty input is handed back as it is (nil stays nil, empty stays empty); the loop only runs on a non-empty input",
			"annotateStmts does not hand back an empty argument unchanged ("+bad+"): a rebuilt result turns {} into a missing action (which prints the record) or nil into an empty body, so output differs with coverage on")
	}
	// NESTED
	var tns []string
	for tn := range x.nested {
		tns = append(tns, tn)
	}
	sort.Strings(tns)
	for _, tn := range tns {
		for _, f := range x.nested[tn] {
			key := tn + "." + f
			n++
			switch {
			case x.nestedBad[key] != "":
				c.bad("nested:"+key, x.loopPos, "%s", x.nestedBad[key])
			case x.nestedSeen[key] == 0:
				c.bad("nested:"+key, x.loopPos, "no path through the loop body handles *ast.%s: statements nested in its %s are never counted", tn, f)
			default:
				c.trivial("nested:"+key, x.loopPos, "on every path on which the element is *ast.%s, %s is replaced exactly once by the annotation of itself (%d paths)", tn, f, x.nestedSeen[key])
			}
		}
	}
	n++
	c.check(x.nestedBad["extra-store"] == "", "nested:no-other-store", x.loopPos, "nothing else is stored into the statements of the program", x.nestedBad["extra-store"])
	// ONCE
	n++
	c.check(x.initBad == "", "once:init", x.loopPos, "the accumulated result and the pending block are empty when the loop is entered",
		"a list is not empty when the loop is entered ("+x.initBad+"): statements that are not in the program are emitted")
	n++
	c.check(x.iterBad == "" && x.iterPaths > 0, "once:iteration", x.loopPos,
		"on each of the "+itoa(int64(x.iterPaths))+" paths through the loop body the result grows by counters each directly followed by the block it counts, and blocks emitted plus pending block = old pending block plus this statement",
		x.iterBad+": statements are duplicated, lost or counted by the wrong counter")
	{
		bad := ""
		tails := 0
		for _, r := range rets {
			if !r.st.afterLoop {
				continue
			}
			tails++
			if r.val.k != svSeq {
				if bad == "" {
					bad = "after the loop a path returns " + describeVal(r.val)
				}
				continue
			}
			if x.accName == "" {
				continue
			}
			if msg := x.checkGroups(r.st, r.val.seq, "$"+x.accName, nil, []seqItem{{kind: 'v', name: "$" + x.pendName}}); msg != "" && bad == "" {
				bad = "after the loop " + msg
			}
		}
		if tails == 0 && bad == "" {
			bad = "no return after the loop"
		}
		n++
		c.check(bad == "", "once:tail", x.loopPos,
			"after the loop the value returned is the accumulated result followed by the counted pending block when that is non-empty",
			bad+": the last block of a statement list is lost, emitted without a counter, or a counter is emitted for an empty block")
	}
	return n
}

func describeVal(v sval) string {
	switch v.k {
	case svSeq:
		if v.nilSeq && len(v.seq) == 0 {
			return "a nil list"
		}
		return "the list " + itemsStr(v.seq)
	case svNil:
		return "nil"
	}
	return "a value the model does not follow"
}
