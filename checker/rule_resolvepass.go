package main

import (
	"go/ast"
	"go/token"
	"go/types"
)

// resolvePasses (part of R-RESOLVE-OWNER, C16): every pass of the type-inference fixpoint sees the
// whole program, and every variable argument of a call takes part in the unification.
//
//  (PASS)  walkOrdered walks the function bodies and each of prog.Begin, prog.Actions and prog.End in
//          top-level loops and has no return statement: no pass can skip a part of the program.
//          (A later pass that revisits only the functions misses a global whose array use in BEGIN comes
//          after the call that passes it.)
//  (SAME)  Resolve does not write a field of the visitor between passes: the passes are identical.
//  (UNIFY) in the argument loop of the user-call case, `continue` occurs only at the end of the
//          "argument is not a variable" branch and of the "native function" branch; every other variable
//          argument falls into the final switch, which has a default and whose every clause records a
//          type or raises the conflict.
func resolvePasses(c *Ctx) {
	rp := c.pkg("internal/resolver")
	if rp == nil {
		c.undecided("anchor:resolver-pkg", token.NoPos, "package internal/resolver not loaded")
		return
	}
	info := rp.TypesInfo
	// ---- PASS
	wo := c.funcDecl("internal/resolver", "mainVisitor.walkOrdered")
	if wo == nil {
		c.undecided("anchor:walkOrdered", token.NoPos, "mainVisitor.walkOrdered not found")
	} else {
		progParam := ""
		for _, f := range wo.Type.Params.List {
			if t := info.TypeOf(f.Type); t != nil && isNamed(deref(t), modPath+"/internal/ast", "Program") && len(f.Names) == 1 {
				progParam = f.Names[0].Name
			}
		}
		ranged := map[string]bool{}
		funcsLoop := false
		hasReturn := false
		for _, st := range wo.Body.List {
			if r, ok := st.(*ast.RangeStmt); ok {
				if se, ok := r.X.(*ast.SelectorExpr); ok && isIdent(se.X, progParam) {
					ranged[se.Sel.Name] = true
				} else {
					funcsLoop = true
				}
			}
		}
		ast.Inspect(wo.Body, func(n ast.Node) bool {
			if _, ok := n.(*ast.ReturnStmt); ok {
				hasReturn = true
			}
			return true
		})
		c.check(progParam != "" && ranged["Begin"] && ranged["Actions"] && ranged["End"] && funcsLoop && !hasReturn, "resolve-pass:whole-program", wo.Pos(),
			"every pass walks the function bodies, BEGIN, the actions and END unconditionally",
			"walkOrdered does not walk the function bodies and each of prog.Begin, prog.Actions and prog.End in top-level loops without any return: a pass of the type inference can skip part of the program, so a use that would type a variable is not seen in the pass that needs it")
	}
	// ---- SAME
	rs := c.funcDecl("internal/resolver", "Resolve")
	if rs != nil {
		bad := token.NoPos
		ast.Inspect(rs.Body, func(n ast.Node) bool {
			as, ok := n.(*ast.AssignStmt)
			if !ok {
				return true
			}
			for _, l := range as.Lhs {
				se, ok := l.(*ast.SelectorExpr)
				if !ok {
					continue
				}
				if t := info.TypeOf(se.X); t != nil && isNamed(deref(t), modPath+"/internal/resolver", "mainVisitor") {
					bad = as.Pos()
				}
			}
			return true
		})
		c.check(bad == token.NoPos, "resolve-pass:identical", bad, "Resolve never changes the visitor between passes",
			"Resolve writes a field of the type-inference visitor after constructing it: later passes of the fixpoint run differently from the first (for example visiting only part of the program)")
	}
	// ---- UNIFY
	vd := c.funcDecl("internal/resolver", "mainVisitor.Visit")
	if vd == nil {
		c.undecided("anchor:mainVisitor.Visit", token.NoPos, "mainVisitor.Visit not found")
		return
	}
	var loop *ast.RangeStmt
	ast.Inspect(vd.Body, func(n ast.Node) bool {
		cc, ok := n.(*ast.CaseClause)
		if !ok || len(cc.List) != 1 {
			return true
		}
		if t := info.TypeOf(cc.List[0]); t == nil || !isNamed(deref(t), modPath+"/internal/ast", "UserCallExpr") {
			return true
		}
		for _, st := range cc.Body {
			if r, ok := st.(*ast.RangeStmt); ok {
				if se, ok := r.X.(*ast.SelectorExpr); ok && se.Sel.Name == "Args" {
					loop = r
				}
			}
		}
		return false
	})
	if loop == nil {
		c.undecided("anchor:user-call-args", vd.Pos(), "the argument loop of the user-call case not found")
		return
	}
	// continues: each must be the last statement of a top-level `if` of the loop body whose condition is `!ok` (type assertion to *ast.VarExpr failed) or `<x>.Native`
	okConts, badCont := 0, token.NoPos
	var walk func(list []ast.Stmt, allowed bool)
	walk = func(list []ast.Stmt, allowed bool) {
		for i, st := range list {
			switch s := st.(type) {
			case *ast.BranchStmt:
				if s.Tok == token.CONTINUE {
					if allowed && i == len(list)-1 {
						okConts++
					} else {
						badCont = s.Pos()
					}
				}
			case *ast.IfStmt:
				cond := types.ExprString(s.Cond)
				isGuard := cond == "!ok" || (len(cond) > 7 && cond[len(cond)-7:] == ".Native")
				// only top-level guards of the loop body are allowed to end in continue
				walk(s.Body.List, isGuard && sameList(list, loop.Body.List))
				if s.Else != nil {
					if b, ok := s.Else.(*ast.BlockStmt); ok {
						walk(b.List, false)
					}
				}
			case *ast.BlockStmt:
				walk(s.List, false)
			case *ast.SwitchStmt:
				for _, cs := range s.Body.List {
					walk(cs.(*ast.CaseClause).Body, false)
				}
			case *ast.ForStmt:
				// a nested loop has its own continue
			case *ast.RangeStmt:
			}
		}
	}
	walk(loop.Body.List, false)
	c.check(badCont == token.NoPos && okConts == 2, "resolve-pass:unify-all", loop.Pos(),
		"only non-variable arguments and arguments of native functions leave the loop body early",
		"the argument loop of the user-call case skips an argument under a condition other than 'not a variable' or 'native function': that variable argument never meets the type of the parameter it is passed to, so a conflict goes unreported or an array parameter stays untyped (and the compiled call fails at run time)")
	// the final statement is a switch with a default whose clauses all record or panic
	var sw *ast.SwitchStmt
	if n := len(loop.Body.List); n > 0 {
		sw, _ = loop.Body.List[n-1].(*ast.SwitchStmt)
	}
	good := sw != nil
	hasDefault := false
	if sw != nil {
		for _, cs := range sw.Body.List {
			cc := cs.(*ast.CaseClause)
			if cc.List == nil {
				hasDefault = true
			}
			acts := false
			for _, st := range cc.Body {
				ast.Inspect(st, func(n ast.Node) bool {
					if call, ok := n.(*ast.CallExpr); ok {
						if isIdent(call.Fun, "panic") {
							acts = true
						}
						if se, ok := call.Fun.(*ast.SelectorExpr); ok && se.Sel.Name == "recordVar" {
							acts = true
						}
					}
					return true
				})
			}
			if !acts {
				good = false
			}
		}
	}
	c.check(good && hasDefault, "resolve-pass:unify-switch", loop.Pos(),
		"the unification switch is total: every clause records a type or raises the conflict",
		"the unification of a variable argument with its parameter is no longer a total switch whose every clause records a type or raises the conflict")
}

func sameList(a, b []ast.Stmt) bool {
	return len(a) == len(b) && (len(a) == 0 || a[0] == b[0])
}
