package main

import (
	"fmt"
	"go/ast"
	"go/token"

	"golang.org/x/tools/go/ssa"
)

// resolvePasses (part of R-RESOLVE-OWNER, C16): every pass of the type-inference fixpoint sees the
// whole program, and every variable argument of a call takes part in the unification.
//
//  (PASS)  walkOrdered walks the function bodies and each of prog.Begin, prog.Actions and prog.End in
//          top-level loops and has no return statement: no pass can skip a part of the program.
//          (A later pass that revisits only the functions misses a global whose array use in BEGIN comes
//          after the call that passes it.)
//  (SAME)  Resolve does not write a field of the visitor between passes: the passes are identical.
//  (UNIFY) in the argument loop of the user-call case, `continue` occurs only at the end of the
//          "argument is not a variable" branch and of the "native function" branch; every other variable
//          argument falls into the final switch, which has a default and whose every clause records a
//          type or raises the conflict.
func resolvePasses(c *Ctx) {
	rp := c.pkg("internal/resolver")
	if rp == nil {
		c.undecided("anchor:resolver-pkg", token.NoPos, "package internal/resolver not loaded")
		return
	}
	info := rp.TypesInfo
	// ---- PASS
	wo := c.funcDecl("internal/resolver", "mainVisitor.walkOrdered")
	if wo == nil {
		c.undecided("anchor:walkOrdered", token.NoPos, "mainVisitor.walkOrdered not found")
	} else {
		progParam := ""
		for _, f := range wo.Type.Params.List {
			if t := info.TypeOf(f.Type); t != nil && isNamed(deref(t), modPath+"/internal/ast", "Program") && len(f.Names) == 1 {
				progParam = f.Names[0].Name
			}
		}
		ranged := map[string]bool{}
		funcsLoop := false
		hasReturn := false
		for _, st := range wo.Body.List {
			if r, ok := st.(*ast.RangeStmt); ok {
				if se, ok := r.X.(*ast.SelectorExpr); ok && isIdent(se.X, progParam) {
					ranged[se.Sel.Name] = true
				} else {
					funcsLoop = true
				}
			}
		}
		ast.Inspect(wo.Body, func(n ast.Node) bool {
			if _, ok := n.(*ast.ReturnStmt); ok {
				hasReturn = true
			}
			return true
		})
		c.check(progParam != "" && ranged["Begin"] && ranged["Actions"] && ranged["End"] && funcsLoop && !hasReturn, "resolve-pass:whole-program", wo.Pos(),
			"every pass walks the function bodies, BEGIN, the actions and END unconditionally",
			"walkOrdered does not walk the function bodies and each of prog.Begin, prog.Actions and prog.End in top-level loops without any return: a pass of the type inference can skip part of the program, so a use that would type a variable is not seen in the pass that needs it")
	}
	// ---- SAME
	rs := c.funcDecl("internal/resolver", "Resolve")
	if rs != nil {
		bad := token.NoPos
		ast.Inspect(rs.Body, func(n ast.Node) bool {
			as, ok := n.(*ast.AssignStmt)
			if !ok {
				return true
			}
			for _, l := range as.Lhs {
				se, ok := l.(*ast.SelectorExpr)
				if !ok {
					continue
				}
				if t := info.TypeOf(se.X); t != nil && isNamed(deref(t), modPath+"/internal/resolver", "mainVisitor") {
					bad = as.Pos()
				}
			}
			return true
		})
		c.check(bad == token.NoPos, "resolve-pass:identical", bad, "Resolve never changes the visitor between passes",
			"Resolve writes a field of the type-inference visitor after constructing it: later passes of the fixpoint run differently from the first (for example visiting only part of the program)")
	}
	// ---- FIXPOINT: the loop that repeats the passes is left only when a pass changed nothing (the change counter
	// equals its value before the pass) or through the iteration-limit panic: the pass after the last change is
	// the one that checks every call site against the final types, so no other condition may end the loop earlier
	if rs := c.ssaFunc("internal/resolver", "Resolve"); rs != nil {
		// the pass: a call from Resolve (or a helper) to a method that walks the program with the main visitor
		var passCall ssa.Instruction
		var loopFn *ssa.Function
		for _, fn := range c.srcFuncs("internal/resolver") {
			fn := fn
			allInstrs(fn, func(in ssa.Instruction) {
				if call, ok := in.(ssa.CallInstruction); ok {
					if cal := call.Common().StaticCallee(); cal != nil && cal.Name() == "walkOrdered" {
						// inside a loop? the block can reach itself
						if reachableFromStrict(in.Block())[in.Block()] {
							passCall, loopFn = in, fn
						}
					}
				}
			})
		}
		if passCall == nil {
			c.undecided("resolve-pass:fixpoint-exit", rs.Pos(), "no loop that repeats the type-inference pass was found")
		} else {
			body := passCall.Block()
			inLoop := map[*ssa.BasicBlock]bool{}
			for b := range reachableFromStrict(body) {
				if reachableFromStrict(b)[body] {
					inLoop[b] = true
				}
			}
			inLoop[body] = true
			good, nExit := true, 0
			why := ""
			for lb := range inLoop {
				for si, sc := range lb.Succs {
					if inLoop[sc] {
						continue
					}
					if len(sc.Instrs) > 0 {
						if _, isPanic := sc.Instrs[len(sc.Instrs)-1].(*ssa.Panic); isPanic {
							continue
						}
					}
					nExit++
					iff, ok := lb.Instrs[len(lb.Instrs)-1].(*ssa.If)
					if !ok {
						good, why = false, "an unconditional exit"
						continue
					}
					bo, ok := iff.Cond.(*ssa.BinOp)
					isCounter := false
					if ok && (bo.Op == token.EQL || bo.Op == token.NEQ) {
						for _, side := range []ssa.Value{bo.X, bo.Y} {
							if f, _ := loadedField(side); f != nil && f.Name() == "updates" {
								isCounter = true
							}
						}
						// the exit edge is the "equal" edge
						eqEdge := 0
						if bo.Op == token.NEQ {
							eqEdge = 1
						}
						if isCounter && si != eqEdge {
							isCounter = false
						}
					}
					if !isCounter {
						good, why = false, "an exit under a condition other than 'the change counter did not move'"
					}
				}
			}
			c.check(good && nExit > 0, "resolve-pass:fixpoint-exit", posOr(passCall.Pos(), loopFn.Pos()), "the loop over the passes ends only when a pass changed nothing (or at the iteration limit)", "the loop that repeats the type-inference pass can be left by "+why+": the pass that checks every call against the final types may be skipped, so a conflict goes unreported and the compiler meets an array where it expects a scalar")
		}
	}

	// ---- UNIFY: one iteration of the loop over a user call's arguments, evaluated on the SSA form for "the
	// argument is a variable" with the callee native / not native: every path back to the loop head (or out of
	// the function) has recorded a type (recordVar) - or ended in the conflict panic
	rpkg := c.ssaPkg("internal/resolver")
	type loopSite struct {
		fn   *ssa.Function
		body *ssa.BasicBlock
		head *ssa.BasicBlock
	}
	var sites []loopSite
	for _, fn := range c.srcFuncs("internal/resolver") {
		for _, b := range fn.Blocks {
			for _, in := range b.Instrs {
				ia, ok := in.(*ssa.IndexAddr)
				if !ok {
					continue
				}
				ld, ok := ia.X.(*ssa.UnOp)
				if !ok || ld.Op != token.MUL {
					continue
				}
				f, x := fieldOfAddr(ld.X)
				if f == nil || f.Name() != "Args" || !isNamed(deref(x.Type()), modPath+"/internal/ast", "UserCallExpr") {
					continue
				}
				// the loop head: the block that defines the index (a phi) - the body's dominating predecessor
				var head *ssa.BasicBlock
				idx := ia.Index
				if bo, isBo := idx.(*ssa.BinOp); isBo {
					idx = bo.X
				}
				if ph, isPhi := idx.(*ssa.Phi); isPhi {
					head = ph.Block()
				}
				if head != nil {
					sites = append(sites, loopSite{fn, b, head})
				}
			}
		}
	}
	if rpkg == nil || len(sites) == 0 {
		c.undecided("anchor:user-call-args", token.NoPos, "no loop over the arguments of a user call found in the resolver (SSA)")
		return
	}
	nRec := 0
	for _, site := range sites {
		calls := false
		allInstrs(site.fn, func(in ssa.Instruction) {
			if callsNamed(in, "recordVar") {
				calls = true
			}
		})
		if !calls {
			continue // a loop that does not take part in type inference (call-graph construction)
		}
		nRec++
		for _, native := range []bool{false, true} {
			e := &sengine{pkg: rpkg, ctx: c, stopBlocks: map[*ssa.BasicBlock]bool{site.head: true}}
			e.typeAssert = func(fr *sframe, x *ssa.TypeAssert, v iv) (iv, bool) {
				if nm := named(deref(x.AssertedType)); nm != nil && nm.Obj().Name() == "VarExpr" {
					if x.CommaOk {
						return ivTuple(ivSym("var"), ivBool(true)), true
					}
					return ivSym("var"), true
				}
				return iv{}, false
			}
			e.load = func(p *spath, fr *sframe, addr iv, in *ssa.UnOp) (iv, bool) {
				if f, x := fieldOfAddr(in.X); f != nil && f.Name() == "Native" && isNamed(deref(x.Type()), modPath+"/internal/resolver", "FuncInfo") {
					return ivBool(native), true
				}
				return iv{}, false
			}
			e.call = func(p *spath, fr *sframe, call *ssa.Call, callee *ssa.Function, args []iv) (iv, callAction) {
				if callee != nil && callee.Name() == "recordVar" {
					p.notes["recordVar"]++
					return iv{}, callHandled
				}
				return iv{}, callDefault
			}
			// a helper of the visitor that does the recording for one argument is part of the iteration
			e.enter = func(callee *ssa.Function, args []iv) bool {
				return callee.Name() != "recordVar" && callsWithin(callee, "recordVar", 2)
			}
			e.startAt(site.fn, site.body, nil)
			paths, silent := 0, 0
			for _, o := range e.outcomes {
				if o.panicked {
					continue
				}
				paths++
				if o.notes["recordVar"] == 0 {
					silent++
				}
			}
			key := "resolve-pass:unify-all"
			what := "a function defined in the program"
			if native {
				key = "resolve-pass:unify-native"
				what = "a native function"
			}
			if len(e.problems) > 0 {
				c.undecided(key, site.fn.Pos(), "the argument loop could not be evaluated: %v", e.problems)
				continue
			}
			c.check(paths > 0 && silent == 0, key, site.fn.Pos(),
				fmt.Sprintf("a variable passed to %s: each of the %d paths through one iteration records a type (or raises the conflict)", what, paths),
				fmt.Sprintf("the argument loop of the user-call case lets a variable argument of %s pass on %d of %d paths without recording anything: that variable never meets the type of the parameter it is passed to, so a conflict goes unreported or an array parameter stays untyped (and the compiled call fails at run time)", what, silent, paths))
		}
	}
	c.atLeast("argument loops of user calls that infer types", nRec, 1)
}

func sameList(a, b []ast.Stmt) bool {
	return len(a) == len(b) && (len(a) == 0 || a[0] == b[0])
}
