package main

func prop(id string, explain string, assumptions []string, rules ...string) {
	properties[id] = &Property{ID: id, Rules: rules, Explain: explain, Assumption: assumptions}
}

var commonAssumptions = []string{
	"go/types, go/ssa, go/cfg and callgraph (x/tools v0.29.0) model the program faithfully",
	"no unsafe, cgo or go:linkname in the module (asserted by R-SANDBOX import check for package interp)",
	"the Go standard library is the only route from package interp to the operating system",
}

func init() {
	prop("C12", "Decides, for every program and input at once, the structural clause of the sandbox property: every process start and every call through the configurable open function in package interp is dominated (in its function or transitively at every call site) by the matching deny-flag test that returns a non-nil error; OS APIs are referenced only at tabled places; the flags and the open function are definitely assigned from the like-named Config fields and written nowhere else; '>'/'>>' map to O_TRUNC/O_APPEND exclusively; the name \"-\" is exempt from the read deny. Modulo the trusted base (stdlib is the only route to the OS; embedder-supplied Funcs/OpenFile/ShellCommand are out of scope) this is a complete argument for the property. Not decided: behaviour of user-supplied callbacks.",
		commonAssumptions, "R-SANDBOX")
}
