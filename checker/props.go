package main

func prop(id string, explain string, assumptions []string, rules ...string) {
	properties[id] = &Property{ID: id, Rules: rules, Explain: explain, Assumption: assumptions}
}

var commonAssumptions = []string{
	"go/types, go/ssa, go/cfg and callgraph (x/tools v0.29.0) model the program faithfully",
	"no unsafe, cgo or go:linkname in the module (asserted by R-SANDBOX import check for package interp)",
	"the Go standard library is the only route from package interp to the operating system",
}

func init() {
	prop("C12", "Decides, for every program and input at once, the structural clause of the sandbox property: every process start and every call through the configurable open function in package interp is dominated (in its function or transitively at every call site) by the matching deny-flag test that returns a non-nil error; OS APIs are referenced only at tabled places; the flags and the open function are definitely assigned from the like-named Config fields and written nowhere else; '>'/'>>' map to O_TRUNC/O_APPEND exclusively; the name \"-\" is exempt from the read deny. Modulo the trusted base (stdlib is the only route to the OS; embedder-supplied Funcs/OpenFile/ShellCommand are out of scope) this is a complete argument for the property. Not decided: behaviour of user-supplied callbacks.",
		commonAssumptions, "R-SANDBOX")
	prop("C14", "Decides the structural clause of reuse: for each of the fields of struct interp, all functions that can dirty it (stores, nested stores, map/slice content writes, address escapes into written-through holders, mutating calls on the referent) are enumerated over SSA, and each dirtied field must be definitely re-established on every path of resetCore, of setExecuteConfig's success paths, of resetVars (program-variable storage only: globals, arrays, string-valued specials and derived companions), of ResetRand, of Execute+ExecuteContext (context fields), or be in the scratch table with its reason. Execute and ExecuteContext call resetCore before executeAll. Not decided: equality of outputs as such (it follows only under the scratch-table arguments), behaviour of caller-owned streams.",
		commonAssumptions, "R-RESET")
	prop("C19", "Decides (a) order-independence of parsing: every range over a map in lexer, parser, internal/ast, internal/resolver, internal/compiler, internal/parseutil and every callback handed to IterVars/IterFuncs has an order-insensitive body (keyed writes, deletes, integer counters, min/max reductions, constant returns, collect-then-sort); (b) immutability of the shared Program: a flow-insensitive fixpoint over SSA derives every reference into Program-owned memory (through field/index/slice chains, loads, struct copies, interp fields initialised from the Program, calls and returns, interface dispatch via CHA) and shows that no store, map update, delete, append, copy or tabled mutator (regexp Longest, sort.*) targets one, and that package-level variables are written only during init. Not decided: data races inside user-supplied Funcs or writers; regexp/stdlib internals (trusted: Regexp is safe for concurrent use).",
		commonAssumptions, "R-MAPRANGE", "R-IMMUT")
}
