package main

import (
	"go/constant"
	"go/token"
	"go/types"
	"strings"

	"golang.org/x/tools/go/ssa"
)

// A small path interpreter over go/ssa for rules that decide what a piece of code computes under a finite set
// of scenarios (which comparison a VM handler applies, which opcode the compiler picks for a token). Values
// are constants, named symbols, tuples, closures and small arrays; everything else is unknown. A rule supplies
// hooks that give meaning to the loads, calls, comparisons and type assertions of its domain; a condition
// whose value is unknown splits the path. The interpreter does not run the program: it evaluates the
// instructions of one function (entering helpers) on abstract values.

type iv struct {
	k    byte // 0 unknown, 'i' int, 'b' bool, 's' symbol, 'p' symbolic address, 'u' tuple, 'f' closure, 'n' nil, 'a' array, 'e' element address
	i    int64
	b    bool
	s    string
	tup  []iv
	fn   *ssa.Function
	free []iv
	arr  *[]iv
	idx  int
	tree *constTree // 't': the address of a node of a constant table, 'T': the node as a value
}

// treeVal: a node of a constant table as a value: leaves become plain constants.
func treeVal(t *constTree) iv {
	if t == nil {
		return iv{}
	}
	switch t.kind {
	case 'i':
		return ivInt(t.i)
	case 'b':
		return ivBool(t.b)
	case 's':
		return ivSym("const:" + t.s)
	}
	return iv{k: 'T', tree: t}
}

func ivSym(s string) iv  { return iv{k: 's', s: s} }
func ivBool(b bool) iv   { return iv{k: 'b', b: b} }
func ivInt(i int64) iv   { return iv{k: 'i', i: i} }
func ivTuple(t ...iv) iv { return iv{k: 'u', tup: t} }

type sframe struct {
	fn   *ssa.Function
	vals map[ssa.Value]iv
	blk  *ssa.BasicBlock
	idx  int
	prev *ssa.BasicBlock
	call *ssa.Call
}

type spath struct {
	stack []*sframe
	steps int
	notes map[string]int // per-path counters for the hooks
	visits map[*ssa.BasicBlock]int
}

type soutcome struct {
	ret      iv
	stopped  bool
	stopVal  iv
	stopNote string
	panicked bool
	notes    map[string]int
}

type callAction int

const (
	callDefault callAction = iota // enter when the hooks allow, else unknown result
	callHandled                   // the hook supplied the result
	callStop                      // end the path here with the given value
)

type sengine struct {
	ctx        *Ctx // when set, package-level tables that are never written are read as constants
	pkg        *ssa.Package
	load       func(p *spath, fr *sframe, addr iv, in *ssa.UnOp) (iv, bool)
	call       func(p *spath, fr *sframe, call *ssa.Call, callee *ssa.Function, args []iv) (iv, callAction)
	binop      func(op token.Token, a, b iv) (iv, bool)
	typeAssert func(fr *sframe, x *ssa.TypeAssert, v iv) (iv, bool)
	enter      func(callee *ssa.Function, args []iv) bool
	onIf       func(p *spath, fr *sframe, x *ssa.If, cond iv) (stop bool, val iv, note string)
	param      func(fn *ssa.Function, prm *ssa.Parameter) (iv, bool)
	builtin    func(p *spath, fr *sframe, call *ssa.Call, name string, args []iv) (iv, bool)
	lookup     func(p *spath, fr *sframe, x *ssa.Lookup, m, key iv) (iv, bool)
	store      func(p *spath, fr *sframe, x *ssa.Store, addr, val iv) // observes every store
	modulePure bool                                                   // small functions of other packages of the module are entered on concrete arguments
	concreteSlices bool                 // append/len over concrete slices are computed (byte-level code run on a representative string)
	stopBlocks map[*ssa.BasicBlock]bool // a path of the function under analysis ends when it enters one of these
	outcomes   []soutcome
	budget     int
	problems   []string
}

func (e *sengine) val(fr *sframe, v ssa.Value) iv {
	if x, ok := fr.vals[v]; ok {
		return x
	}
	switch x := v.(type) {
	case *ssa.Const:
		if x.Value == nil {
			return iv{k: 'n'}
		}
		switch x.Value.Kind() {
		case constant.Int:
			if n, ok := constant.Int64Val(x.Value); ok {
				return ivInt(n)
			}
		case constant.Bool:
			return ivBool(constant.BoolVal(x.Value))
		case constant.String:
			return iv{k: 'S', s: constant.StringVal(x.Value)}
		}
	case *ssa.Function:
		return iv{k: 'f', fn: x}
	case *ssa.Global:
		// a package-level table that is never written: the address of its (constant) contents
		if e.ctx != nil {
			if t := e.ctx.constTreeOf(x.Object()); t != nil {
				return iv{k: 't', tree: t}
			}
		}
	case *ssa.Parameter:
		if e.param != nil {
			if r, ok := e.param(fr.fn, x); ok {
				return r
			}
		}
	}
	return iv{}
}

func (p *spath) fork() *spath {
	n := &spath{steps: p.steps, notes: map[string]int{}, visits: map[*ssa.BasicBlock]int{}}
	for k, v := range p.notes {
		n.notes[k] = v
	}
	for k, v := range p.visits {
		n.visits[k] = v
	}
	arrs := map[*[]iv]*[]iv{}
	cells := map[*iv][]iv{}
	for _, fr := range p.stack {
		nf := &sframe{fn: fr.fn, blk: fr.blk, idx: fr.idx, prev: fr.prev, call: fr.call, vals: make(map[ssa.Value]iv, len(fr.vals))}
		for k, v := range fr.vals {
			if v.k == 'c' && len(v.tup) == 1 {
				nc, ok := cells[&v.tup[0]]
				if !ok {
					nc = []iv{v.tup[0]}
					cells[&v.tup[0]] = nc
				}
				v.tup = nc
			}
			if v.arr != nil {
				na, ok := arrs[v.arr]
				if !ok {
					cp := append([]iv(nil), *v.arr...)
					na = &cp
					arrs[v.arr] = na
				}
				v.arr = na
			}
			nf.vals[k] = v
		}
		n.stack = append(n.stack, nf)
	}
	return n
}

func (e *sengine) enterBlock(fr *sframe, b *ssa.BasicBlock) {
	fr.prev, fr.blk, fr.idx = fr.blk, b, 0
	// all phis read their operands before any is assigned
	var phis []*ssa.Phi
	var vals []iv
	for _, in := range b.Instrs {
		ph, ok := in.(*ssa.Phi)
		if !ok {
			break
		}
		for i, pr := range b.Preds {
			if pr == fr.prev {
				phis = append(phis, ph)
				vals = append(vals, e.val(fr, ph.Edges[i]))
				break
			}
		}
	}
	for i, ph := range phis {
		fr.vals[ph] = vals[i]
	}
}

// startAt runs from the beginning of block b of fn (values defined before it are unknown).
func (e *sengine) startAt(fn *ssa.Function, b *ssa.BasicBlock, preset map[ssa.Value]iv) {
	fr := &sframe{fn: fn, vals: map[ssa.Value]iv{}, blk: b}
	for k, v := range preset {
		fr.vals[k] = v
	}
	p := &spath{stack: []*sframe{fr}, notes: map[string]int{}}
	if e.budget == 0 {
		e.budget = 200000
	}
	e.run(p)
}

func (e *sengine) finish(p *spath, o soutcome) {
	o.notes = p.notes
	e.outcomes = append(e.outcomes, o)
}

func (e *sengine) run(p *spath) {
	for {
		p.steps++
		e.budget--
		if p.steps > 5000 || e.budget < 0 {
			e.problems = append(e.problems, "path budget exceeded")
			return
		}
		fr := p.stack[len(p.stack)-1]
		if fr.idx >= len(fr.blk.Instrs) {
			return
		}
		if fr.idx == 0 && len(p.stack) == 1 && p.steps > 1 && e.stopBlocks[fr.blk] {
			e.finish(p, soutcome{stopped: true, stopNote: "block"})
			return
		}
		in := fr.blk.Instrs[fr.idx]
		fr.idx++
		switch x := in.(type) {
		case *ssa.Phi:
		case *ssa.Jump:
			e.enterBlock(fr, fr.blk.Succs[0])
		case *ssa.If:
			cnd := e.val(fr, x.Cond)
			if e.onIf != nil {
				if stop, v, note := e.onIf(p, fr, x, cnd); stop {
					e.finish(p, soutcome{stopped: true, stopVal: v, stopNote: note})
					return
				}
			}
			if cnd.k == 'b' {
				if cnd.b {
					e.enterBlock(fr, fr.blk.Succs[0])
				} else {
					e.enterBlock(fr, fr.blk.Succs[1])
				}
				continue
			}
			// an undecided condition: both ways, but a loop whose condition stays undecided is unrolled at most
			// three times per path (further iterations meet the same abstract state)
			if p.visits == nil {
				p.visits = map[*ssa.BasicBlock]int{}
			}
			p.visits[fr.blk]++
			if p.visits[fr.blk] > 3 {
				return
			}
			q := p.fork()
			qfr := q.stack[len(q.stack)-1]
			e.enterBlock(qfr, qfr.blk.Succs[1])
			e.run(q)
			e.enterBlock(fr, fr.blk.Succs[0])
		case *ssa.Panic:
			e.finish(p, soutcome{panicked: true})
			return
		case *ssa.Return:
			var r iv
			switch len(x.Results) {
			case 0:
			case 1:
				r = e.val(fr, x.Results[0])
			default:
				var t []iv
				for _, rv := range x.Results {
					t = append(t, e.val(fr, rv))
				}
				r = ivTuple(t...)
			}
			if len(p.stack) == 1 {
				e.finish(p, soutcome{ret: r})
				return
			}
			p.stack = p.stack[:len(p.stack)-1]
			caller := p.stack[len(p.stack)-1]
			if fr.call != nil {
				caller.vals[fr.call] = r
			}
		case *ssa.Call:
			if e.doCall(p, fr, x) {
				return
			}
		default:
			e.step(p, fr, in)
		}
	}
}

func (e *sengine) doCall(p *spath, fr *sframe, x *ssa.Call) (stopped bool) {
	if b, ok := x.Call.Value.(*ssa.Builtin); ok {
		if b.Name() == "len" && len(x.Call.Args) == 1 {
			if a := e.val(fr, x.Call.Args[0]); a.k == 'a' {
				fr.vals[x] = ivInt(int64(len(*a.arr)))
				return false
			} else if a.k == 'S' {
				fr.vals[x] = ivInt(int64(len(a.s))) // a concrete string (a representative value)
				return false
			}
		}
		if e.builtin != nil {
			var args []iv
			for _, a := range x.Call.Args {
				args = append(args, e.val(fr, a))
			}
			if r, ok := e.builtin(p, fr, x, b.Name(), args); ok {
				fr.vals[x] = r
				return false
			}
		}
		if b.Name() == "len" && len(x.Call.Args) == 1 && e.concreteSlices {
			if a := e.val(fr, x.Call.Args[0]); a.k == 'n' {
				fr.vals[x] = ivInt(0)
			}
		}
		if b.Name() == "append" && len(x.Call.Args) == 2 && e.concreteSlices {
			// concrete slices: the concatenation, as a new value
			a, bb := e.val(fr, x.Call.Args[0]), e.val(fr, x.Call.Args[1])
			var out []iv
			okA := true
			switch a.k {
			case 'a':
				out = append(out, *a.arr...)
			case 'n':
			default:
				okA = false
			}
			switch bb.k {
			case 'a':
				out = append(out, *bb.arr...)
			case 'n':
			case 'S':
				for i := 0; i < len(bb.s); i++ {
					out = append(out, ivInt(int64(bb.s[i])))
				}
			default:
				okA = false
			}
			if okA {
				fr.vals[x] = iv{k: 'a', arr: &out}
			}
		}
		return false
	}
	var callee *ssa.Function
	var free []iv
	if !x.Call.IsInvoke() {
		callee = x.Call.StaticCallee()
		if callee == nil {
			if v := e.val(fr, x.Call.Value); v.k == 'f' {
				callee, free = v.fn, v.free
			}
		} else if mc, ok := x.Call.Value.(*ssa.MakeClosure); ok {
			if v := e.val(fr, mc); v.k == 'f' {
				free = v.free
			}
		}
	}
	var args []iv
	for _, a := range x.Call.Args {
		args = append(args, e.val(fr, a))
	}
	if e.call != nil {
		r, act := e.call(p, fr, x, callee, args)
		switch act {
		case callHandled:
			fr.vals[x] = r
			return false
		case callStop:
			e.finish(p, soutcome{stopped: true, stopVal: r})
			return true
		}
	}
	// library functions over concrete strings are folded (a representative value is run through the code)
	if callee != nil && (callee.Pkg == nil || callee.Pkg != e.pkg) {
		if r, ok := foldStringCall(callee, args); ok {
			fr.vals[x] = r
			return false
		}
	}
	if callee == nil || len(callee.Blocks) == 0 || len(p.stack) >= 6 {
		return false
	}
	if callee.Pkg != e.pkg {
		// a function of another package of the module may be entered when every argument is a concrete value (a pure
		// helper such as compiler.AddRegexFlags applied to a representative string)
		concrete := e.modulePure && callee.Pkg != nil && strings.HasPrefix(callee.Pkg.Pkg.Path(), modPath) && len(args) > 0 && len(callee.Blocks) < 12
		for _, a := range args {
			if a.k != 'S' && a.k != 'i' && a.k != 'b' {
				concrete = false
			}
		}
		if !concrete {
			return false
		}
	} else if e.enter != nil && !e.enter(callee, args) {
		return false
	}
	nf := &sframe{fn: callee, vals: map[ssa.Value]iv{}, call: x, blk: callee.Blocks[0]}
	for i, prm := range callee.Params {
		if i < len(args) {
			nf.vals[prm] = args[i]
		}
	}
	for i, fv := range callee.FreeVars {
		if i < len(free) {
			nf.vals[fv] = free[i]
		}
	}
	p.stack = append(p.stack, nf)
	return false
}

func (e *sengine) step(p *spath, fr *sframe, in ssa.Instruction) {
	switch x := in.(type) {
	case *ssa.UnOp:
		a := e.val(fr, x.X)
		switch x.Op {
		case token.MUL:
			if a.k == 'e' && a.idx >= 0 && a.idx < len(*a.arr) {
				fr.vals[x] = (*a.arr)[a.idx]
				return
			}
			if a.k == 't' {
				// unless a hook wants to see the load, the node of the constant table it addresses
				if e.load != nil {
					if r, ok := e.load(p, fr, a, x); ok {
						fr.vals[x] = r
						return
					}
				}
				fr.vals[x] = treeVal(a.tree)
				return
			}
			if a.k == 'c' { // a captured variable's cell
				fr.vals[x] = a.tup[0]
				return
			}
			if e.load != nil {
				if r, ok := e.load(p, fr, a, x); ok {
					fr.vals[x] = r
					return
				}
			}
			// a field of a package-level struct table that is never written
			if e.ctx != nil {
				if fa, ok := x.X.(*ssa.FieldAddr); ok {
					if g, ok := fa.X.(*ssa.Global); ok {
						if ct := e.ctx.constTableOf(g.Object()); ct != nil && !ct.isMap {
							if v, ok := ct.fields[fieldNameOf(deref(g.Type()), fa.Field)]; ok {
								fr.vals[x] = ivInt(v)
							}
						}
					}
				}
			}
		case token.NOT:
			if a.k == 'b' {
				fr.vals[x] = ivBool(!a.b)
			}
		case token.SUB:
			if a.k == 'i' {
				fr.vals[x] = ivInt(-a.i)
			}
		}
	case *ssa.BinOp:
		a, b := e.val(fr, x.X), e.val(fr, x.Y)
		switch {
		case a.k == 'i' && b.k == 'i':
			switch x.Op {
			case token.ADD:
				fr.vals[x] = ivInt(a.i + b.i)
			case token.SUB:
				fr.vals[x] = ivInt(a.i - b.i)
			case token.EQL, token.NEQ, token.LSS, token.LEQ, token.GTR, token.GEQ:
				fr.vals[x] = ivBool(cmpInt(int(a.i), x.Op, int(b.i)))
			}
			return
		case a.k == 'S' && b.k == 'S':
			switch x.Op {
			case token.ADD:
				fr.vals[x] = iv{k: 'S', s: a.s + b.s}
			case token.EQL:
				fr.vals[x] = ivBool(a.s == b.s)
			case token.NEQ:
				fr.vals[x] = ivBool(a.s != b.s)
			case token.LSS:
				fr.vals[x] = ivBool(a.s < b.s)
			case token.LEQ:
				fr.vals[x] = ivBool(a.s <= b.s)
			case token.GTR:
				fr.vals[x] = ivBool(a.s > b.s)
			case token.GEQ:
				fr.vals[x] = ivBool(a.s >= b.s)
			}
			return
		case a.k == 'b' && b.k == 'b':
			switch x.Op {
			case token.EQL:
				fr.vals[x] = ivBool(a.b == b.b)
			case token.NEQ:
				fr.vals[x] = ivBool(a.b != b.b)
			}
			return
		case a.k == 'n' && b.k == 'n':
			fr.vals[x] = ivBool(x.Op == token.EQL)
			return
		}
		if e.binop != nil {
			if r, ok := e.binop(x.Op, a, b); ok {
				fr.vals[x] = r
			}
		}
	case *ssa.Convert:
		v := e.val(fr, x.X)
		// between a concrete string and its bytes (a representative value run through byte-level code)
		if isByteSlice(x.Type()) && v.k == 'S' {
			arr := make([]iv, len(v.s))
			for i := 0; i < len(v.s); i++ {
				arr[i] = ivInt(int64(v.s[i]))
			}
			fr.vals[x] = iv{k: 'a', arr: &arr}
			return
		}
		if b, ok := x.Type().Underlying().(*types.Basic); ok && b.Kind() == types.String {
			if v.k == 'a' {
				bs := make([]byte, 0, len(*v.arr))
				for _, el := range *v.arr {
					if el.k != 'i' {
						return
					}
					bs = append(bs, byte(el.i))
				}
				fr.vals[x] = iv{k: 'S', s: string(bs)}
				return
			}
			if v.k == 'n' {
				fr.vals[x] = iv{k: 'S', s: ""}
				return
			}
			if v.k == 'i' {
				if sb, ok := x.X.Type().Underlying().(*types.Basic); ok && sb.Info()&types.IsInteger != 0 {
					fr.vals[x] = iv{k: 'S', s: string(rune(v.i))}
					return
				}
			}
		}
		fr.vals[x] = v
	case *ssa.ChangeType:
		fr.vals[x] = e.val(fr, x.X)
	case *ssa.ChangeInterface:
		fr.vals[x] = e.val(fr, x.X)
	case *ssa.MakeInterface:
		fr.vals[x] = e.val(fr, x.X)
	case *ssa.Extract:
		if t := e.val(fr, x.Tuple); t.k == 'u' && x.Index < len(t.tup) {
			fr.vals[x] = t.tup[x.Index]
		}
	case *ssa.Lookup:
		if e.lookup != nil {
			if r, ok := e.lookup(p, fr, x, e.val(fr, x.X), e.val(fr, x.Index)); ok {
				fr.vals[x] = r
				return
			}
		}
		// a constant table of any shape (tables.go constTree): the entry, or the zero value and false
		if m, k := e.val(fr, x.X), e.val(fr, x.Index); m.k == 'T' && m.tree.kind == 'M' && k.k == 'i' {
			ch, found := m.tree.index(k.i)
			if ch != nil {
				if x.CommaOk {
					fr.vals[x] = ivTuple(treeVal(ch), ivBool(found))
				} else {
					fr.vals[x] = treeVal(ch)
				}
				return
			}
		}
		// a package-level table that is never written: its entries are constants of the program
		if e.ctx != nil {
			if ld, ok := x.X.(*ssa.UnOp); ok && ld.Op == token.MUL {
				if g, ok := ld.X.(*ssa.Global); ok {
					if ft := e.ctx.funcTableOf(g); ft != nil && len(ft.fns) > 0 {
						// a table of functions: the entry for a known key is that function
						if k := e.val(fr, x.Index); k.k == 'i' {
							f, found := ft.fns[k.i]
							fv := iv{k: 'n'}
							if found {
								fv = iv{k: 'f', fn: f}
							}
							if x.CommaOk {
								fr.vals[x] = ivTuple(fv, ivBool(found))
							} else {
								fr.vals[x] = fv
							}
						}
						return
					}
					if ct := e.ctx.constTableOf(g.Object()); ct != nil && ct.isMap && len(ct.strs) == 0 {
						if k := e.val(fr, x.Index); k.k == 'i' {
							v, found := ct.ints[k.i]
							if x.CommaOk {
								fr.vals[x] = ivTuple(ivInt(v), ivBool(found))
							} else {
								fr.vals[x] = ivInt(v)
							}
						}
					}
				}
			}
		}
	case *ssa.TypeAssert:
		if e.typeAssert != nil {
			if r, ok := e.typeAssert(fr, x, e.val(fr, x.X)); ok {
				fr.vals[x] = r
			}
		}
	case *ssa.FieldAddr:
		base := e.val(fr, x.X)
		if base.k == 'c' && len(base.tup) == 1 && base.tup[0].k == 'T' {
			// a local copy of a node of a constant table, read field by field
			base = iv{k: 't', tree: base.tup[0].tree}
		}
		if base.k == 't' {
			if f, _ := fieldOfAddr(x); f != nil {
				if ch := base.tree.field(f.Name()); ch != nil {
					fr.vals[x] = iv{k: 't', tree: ch}
				}
			}
			return
		}
		if base.k == 's' || base.k == 'p' {
			if f, _ := fieldOfAddr(x); f != nil {
				fr.vals[x] = iv{k: 'p', s: base.s + "." + f.Name()}
			}
		}
	case *ssa.Index:
		if a, i := e.val(fr, x.X), e.val(fr, x.Index); a.k == 'T' && i.k == 'i' {
			if ch, ok := a.tree.index(i.i); ok {
				fr.vals[x] = treeVal(ch)
			}
		} else if a.k == 'S' && i.k == 'i' && i.i >= 0 && int(i.i) < len(a.s) {
			fr.vals[x] = ivInt(int64(a.s[i.i]))
		}
	case *ssa.Field:
		base := e.val(fr, x.X)
		if base.k == 'T' {
			fr.vals[x] = treeVal(base.tree.field(fieldNameOf(x.X.Type(), x.Field)))
			return
		}
		if base.k == 's' {
			fr.vals[x] = ivSym(base.s + "." + fieldNameOf(x.X.Type(), x.Field))
		}
	case *ssa.Alloc:
		if at, ok := deref(x.Type()).Underlying().(*types.Array); ok {
			arr := make([]iv, at.Len())
			fr.vals[x] = iv{k: 'a', arr: &arr}
		} else {
			// a variable that lives in memory (captured by a closure, or a result spilled around defers): a cell
			fr.vals[x] = iv{k: 'c', tup: []iv{{}}}
		}
	case *ssa.IndexAddr:
		a, i := e.val(fr, x.X), e.val(fr, x.Index)
		if (a.k == 't' || a.k == 'T') && i.k == 'i' {
			// an element of a constant table (tables.go constTree)
			if ch, ok := a.tree.index(i.i); ok && ch != nil {
				fr.vals[x] = iv{k: 't', tree: ch}
			}
			return
		}
		if a.k == 'a' && i.k == 'i' {
			if i.i < 0 || int(i.i) >= len(*a.arr) {
				p.notes["index-out-of-range"]++
			}
			fr.vals[x] = iv{k: 'e', arr: a.arr, idx: int(i.i)}
		}
	case *ssa.Slice:
		if a := e.val(fr, x.X); a.k == 'a' && x.Low == nil && x.High == nil {
			fr.vals[x] = a
		} else if a.k == 'n' {
			fr.vals[x] = a
		} else if a.k == 'a' {
			// a part of a concrete slice: a copy (the interpreter's slices are values; no rule depends on aliasing
			// between a slice and its parts)
			lo, hi := int64(0), int64(len(*a.arr))
			okB := true
			if x.Low != nil {
				if v := e.val(fr, x.Low); v.k == 'i' {
					lo = v.i
				} else {
					okB = false
				}
			}
			if x.High != nil {
				if v := e.val(fr, x.High); v.k == 'i' {
					hi = v.i
				} else {
					okB = false
				}
			}
			if okB && lo >= 0 && lo <= hi && hi <= int64(len(*a.arr)) {
				cp := append([]iv(nil), (*a.arr)[lo:hi]...)
				fr.vals[x] = iv{k: 'a', arr: &cp}
			}
		} else if a.k == 'S' {
			lo, hi := int64(0), int64(len(a.s))
			okB := true
			if x.Low != nil {
				if v := e.val(fr, x.Low); v.k == 'i' {
					lo = v.i
				} else {
					okB = false
				}
			}
			if x.High != nil {
				if v := e.val(fr, x.High); v.k == 'i' {
					hi = v.i
				} else {
					okB = false
				}
			}
			if okB && lo >= 0 && lo <= hi && hi <= int64(len(a.s)) {
				fr.vals[x] = iv{k: 'S', s: a.s[lo:hi]}
			}
		}
	case *ssa.Store:
		a := e.val(fr, x.Addr)
		if e.store != nil {
			e.store(p, fr, x, a, e.val(fr, x.Val))
		}
		switch {
		case a.k == 'e' && a.idx >= 0 && a.idx < len(*a.arr):
			(*a.arr)[a.idx] = e.val(fr, x.Val)
		case a.k == 'c':
			a.tup[0] = e.val(fr, x.Val)
		}
	case *ssa.MakeClosure:
		if fn, ok := x.Fn.(*ssa.Function); ok {
			var free []iv
			for _, b := range x.Bindings {
				free = append(free, e.val(fr, b))
			}
			fr.vals[x] = iv{k: 'f', fn: fn, free: free}
		}
	}
}
