package main

import (
	"go/ast"
	"go/token"
	"go/types"
	"sort"
	"strings"
)

// R-LOOPSTACK (C01): the compiler's per-loop stacks are balanced.
//
// The compiler keeps, per enclosing loop, the list of break (and continue) jumps still to
// be patched in slice-of-slice fields of struct compiler; a loop statement pushes an entry
// and must pop it again before the statement is done (directly by truncating the field, or
// through a helper whose body truncates it). An entry left behind makes a later `break` in
// the enclosing loop be compiled against the wrong loop (for a for-in loop: as BreakForIn,
// which aborts the program with the error "break").

func init() {
	register("R-LOOPSTACK", "compiler loop stacks balance: for every field of struct compiler that is pushed to with `c.F = append(c.F, …)` in a case clause of a compiler method, the same clause pops it exactly as often - by `c.F = c.F[:len(c.F)-1]` or by calling a helper method whose body does that once - in straight-line position (not under a condition), so no loop statement leaves an entry behind for the statements that follow it", ruleLoopStack)
}

func ruleLoopStack(c *Ctx) {
	cp := c.pkg("internal/compiler")
	if cp == nil {
		c.undecided("anchor:compiler", token.NoPos, "package internal/compiler not loaded")
		return
	}
	_, st := c.structType("internal/compiler", "compiler")
	if st == nil {
		c.undecided("anchor:compiler-struct", token.NoPos, "struct compiler not found")
		return
	}
	// stack fields: slices of slices
	stackField := map[string]bool{}
	for i := 0; i < st.NumFields(); i++ {
		if s, ok := st.Field(i).Type().Underlying().(*types.Slice); ok {
			if _, ok := s.Elem().Underlying().(*types.Slice); ok {
				stackField[st.Field(i).Name()] = true
			}
		}
	}
	if len(stackField) == 0 {
		c.undecided("anchor:loop-stacks", token.NoPos, "struct compiler has no slice-of-slice field (the break/continue stacks)")
		return
	}
	isPush := func(recv string, s ast.Stmt) string {
		as, ok := s.(*ast.AssignStmt)
		if !ok || len(as.Lhs) != 1 || len(as.Rhs) != 1 {
			return ""
		}
		l, ok := as.Lhs[0].(*ast.SelectorExpr)
		if !ok || !isIdent(l.X, recv) || !stackField[l.Sel.Name] {
			return ""
		}
		call, ok := as.Rhs[0].(*ast.CallExpr)
		if ok && isIdent(call.Fun, "append") && len(call.Args) == 2 && isSel(call.Args[0], recv, l.Sel.Name) {
			return l.Sel.Name
		}
		return ""
	}
	isPop := func(recv string, s ast.Stmt, defs map[string]localDef) string {
		as, ok := s.(*ast.AssignStmt)
		if !ok || len(as.Lhs) != 1 || len(as.Rhs) != 1 {
			return ""
		}
		l, ok := as.Lhs[0].(*ast.SelectorExpr)
		if !ok || !isIdent(l.X, recv) || !stackField[l.Sel.Name] {
			return ""
		}
		sl, ok := as.Rhs[0].(*ast.SliceExpr)
		if ok && isSel(sl.X, recv, l.Sel.Name) && sl.Low == nil && sl.High != nil {
			// the new length, with single-assignment locals expanded: len(c.F)-1
			high := strings.Trim(render(sl.High, defs, 0), "()")
			if strings.ReplaceAll(types.ExprString(sl.High), " ", "") == "len("+recv+"."+l.Sel.Name+")-1" || high == "len("+recv+"."+l.Sel.Name+")-1" {
				return l.Sel.Name
			}
		}
		return ""
	}
	// helper methods that pop once (top-level statement of their body)
	helperPops := map[string]string{}
	for _, fd := range c.allFuncDecls("internal/compiler") {
		if fd.Body == nil || fd.Recv == nil || len(fd.Recv.List[0].Names) == 0 {
			continue
		}
		recv := fd.Recv.List[0].Names[0].Name
		var pops []string
		defs := localDefs(fd)
		for _, s := range fd.Body.List {
			if f := isPop(recv, s, defs); f != "" {
				pops = append(pops, f)
			}
		}
		if len(pops) == 1 {
			helperPops[fd.Name.Name] = pops[0]
		}
	}
	nClauses := 0
	for _, fd := range c.allFuncDecls("internal/compiler") {
		if fd.Body == nil || fd.Recv == nil || len(fd.Recv.List[0].Names) == 0 {
			continue
		}
		recv := fd.Recv.List[0].Names[0].Name
		defs := localDefs(fd)
		ast.Inspect(fd.Body, func(n ast.Node) bool {
			cc, ok := n.(*ast.CaseClause)
			if !ok {
				return true
			}
			push := map[string]int{}
			pop := map[string]int{}
			condPop := map[string]int{}
			for _, s := range cc.Body {
				if f := isPush(recv, s); f != "" {
					push[f]++
					continue
				}
				if f := isPop(recv, s, defs); f != "" {
					pop[f]++
					continue
				}
				if es, ok := s.(*ast.ExprStmt); ok {
					if call, ok := es.X.(*ast.CallExpr); ok {
						if se, ok := call.Fun.(*ast.SelectorExpr); ok && isIdent(se.X, recv) {
							if f, ok := helperPops[se.Sel.Name]; ok {
								pop[f]++
								continue
							}
						}
					}
				}
				// pushes or pops nested under a condition / loop inside the clause
				ast.Inspect(s, func(m ast.Node) bool {
					if _, isCC := m.(*ast.CaseClause); isCC {
						return false
					}
					if ms, ok := m.(ast.Stmt); ok {
						if f := isPush(recv, ms); f != "" {
							push[f]++
							condPop[f] += 0
						}
						if f := isPop(recv, ms, defs); f != "" {
							condPop[f]++
						}
					}
					return true
				})
			}
			if len(push) == 0 {
				return true
			}
			nClauses++
			var fs []string
			for f := range push {
				fs = append(fs, f)
			}
			sort.Strings(fs)
			label := "default"
			if len(cc.List) > 0 {
				label = types.ExprString(cc.List[0])
			}
			for _, f := range fs {
				key := "loopstack:" + declName(fd) + ":" + label + ":" + f
				c.check(push[f] == pop[f] && condPop[f] == 0, key, cc.Pos(),
					"pushed "+itoa(int64(push[f]))+"x and popped "+itoa(int64(pop[f]))+"x in straight-line position",
					"the clause for "+label+" pushes an entry on c."+f+" "+itoa(int64(push[f]))+" time(s) but pops it "+itoa(int64(pop[f]))+" time(s) unconditionally (conditionally: "+itoa(int64(condPop[f]))+"): the entry left behind (or taken from the enclosing loop) makes a later break/continue be compiled against the wrong loop")
			}
			return true
		})
	}
	c.atLeast("loop clauses that push a loop stack", nClauses, 4)
}
