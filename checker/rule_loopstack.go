package main

import (
	"fmt"
	"go/token"
	"go/types"
	"sort"
	"strings"

	"golang.org/x/tools/go/ssa"
)

// R-LOOPSTACK (C01): the compiler's per-loop stacks are balanced.
//
// The compiler keeps, per enclosing loop, the break (and continue) jumps still to be patched in stack-like slice
// fields of struct compiler; a loop statement pushes an entry and must pop it again before the statement is done.
// An entry left behind makes a later `break` in the enclosing loop be compiled against the wrong loop (for a
// for-in loop: as BreakForIn, which aborts the program with the error "break").
//
// Decided on the SSA form by a balance analysis: for every function of the package the change of len(c.F) between
// entry and exit is computed for each stack field F (a store of append(c.F, x1..xn) is +n, a store of
// c.F[:len(c.F)-1] is -1, a call contributes its callee's change); the changes reaching a block over different edges
// must agree, the changes at all returns must agree, and every function that is part of a recursion (stmt, stmts,
// expr ...) or is an entry point must have change 0. Where the push and the pop are written (inline, in a helper, in
// one helper for all loops, one stack or several) is immaterial.

func init() {
	register("R-LOOPSTACK", "compiler loop stacks balance: for every stack-like slice field F of struct compiler (element type a slice or struct, pushed with append or popped with [:len-1]), the net change of len(c.F) is the same on all paths to every block and return of every function (push +n, pop -1, calls by their callee's change), and is zero for every function on a recursion cycle and every function not called from within the package", ruleLoopStack)
}

type lsDelta map[string]int

func (d lsDelta) clone() lsDelta {
	n := lsDelta{}
	for k, v := range d {
		if v != 0 {
			n[k] = v
		}
	}
	return n
}

func (d lsDelta) eq(o lsDelta) bool {
	for k, v := range d {
		if o[k] != v {
			return false
		}
	}
	for k, v := range o {
		if d[k] != v {
			return false
		}
	}
	return true
}

func (d lsDelta) String() string {
	var ks []string
	for k, v := range d {
		if v != 0 {
			ks = append(ks, fmt.Sprintf("%s%+d", k, v))
		}
	}
	sort.Strings(ks)
	if len(ks) == 0 {
		return "0"
	}
	return strings.Join(ks, " ")
}

type lsSummary struct {
	delta    lsDelta
	ok       bool   // paths agree and every store was understood
	problem  string // when !ok
	pos      token.Pos
	touches  bool
	assumed0 bool // was assumed to be balanced while a caller on its cycle was analysed
}

func ruleLoopStack(c *Ctx) {
	sp := c.ssaPkg("internal/compiler")
	if sp == nil {
		c.undecided("anchor:compiler", token.NoPos, "package internal/compiler not loaded")
		return
	}
	_, st := c.structType("internal/compiler", "compiler")
	if st == nil {
		c.undecided("anchor:compiler-struct", token.NoPos, "struct compiler not found")
		return
	}
	isCompilerPtr := func(t types.Type) bool {
		p, ok := t.Underlying().(*types.Pointer)
		return ok && isNamed(p.Elem(), modPath+"/internal/compiler", "compiler")
	}
	// candidate stack fields: slices whose elements are slices, structs or pointers
	cand := map[string]bool{}
	for i := 0; i < st.NumFields(); i++ {
		if s, ok := st.Field(i).Type().Underlying().(*types.Slice); ok {
			switch s.Elem().Underlying().(type) {
			case *types.Slice, *types.Struct, *types.Pointer:
				cand[st.Field(i).Name()] = true
			}
		}
	}
	// the field of *compiler an address denotes
	fieldOf := func(addr ssa.Value) string {
		fa, ok := addr.(*ssa.FieldAddr)
		if !ok || !isCompilerPtr(fa.X.Type()) {
			return ""
		}
		return fieldNameOf(deref(fa.X.Type()), fa.Field)
	}
	loadOf := func(v ssa.Value) string {
		if u, ok := v.(*ssa.UnOp); ok && u.Op == token.MUL {
			return fieldOf(u.X)
		}
		return ""
	}
	// classify a store to a candidate field: its effect on the length
	effect := func(f string, v ssa.Value) (int, bool) {
		switch x := v.(type) {
		case *ssa.Call:
			if b, ok := x.Call.Value.(*ssa.Builtin); ok && b.Name() == "append" && len(x.Call.Args) == 2 && loadOf(x.Call.Args[0]) == f {
				if sl, ok := x.Call.Args[1].(*ssa.Slice); ok && sl.Low == nil && sl.High == nil {
					if p, ok := sl.X.Type().Underlying().(*types.Pointer); ok {
						if arr, ok := p.Elem().Underlying().(*types.Array); ok {
							return int(arr.Len()), true
						}
					}
				}
			}
		case *ssa.Slice:
			if loadOf(x.X) == f && x.Low == nil && x.Max == nil {
				if bo, ok := x.High.(*ssa.BinOp); ok && bo.Op == token.SUB {
					if k, ok := bo.Y.(*ssa.Const); ok && k.Value != nil && k.Value.ExactString() == "1" {
						if call, ok := bo.X.(*ssa.Call); ok {
							if b, ok := call.Call.Value.(*ssa.Builtin); ok && b.Name() == "len" && loadOf(call.Call.Args[0]) == f {
								return -1, true
							}
						}
					}
				}
			}
		case *ssa.UnOp:
			if loadOf(x) == f {
				return 0, true
			}
		}
		return 0, false
	}
	var fns []*ssa.Function
	seenFn := map[*ssa.Function]bool{}
	var addFn func(fn *ssa.Function)
	addFn = func(fn *ssa.Function) {
		if fn == nil || seenFn[fn] || len(fn.Blocks) == 0 || fn.Synthetic != "" {
			return
		}
		seenFn[fn] = true
		fns = append(fns, fn)
		for _, a := range fn.AnonFuncs {
			addFn(a)
		}
	}
	for _, fn := range c.srcFuncs("internal/compiler") {
		addFn(fn)
	}
	sort.Slice(fns, func(i, j int) bool { return fnKey(fns[i]) < fnKey(fns[j]) })
	// stack fields: candidates with at least one push or pop store
	stack := map[string]bool{}
	for _, fn := range fns {
		allInstrs(fn, func(in ssa.Instruction) {
			if s, ok := in.(*ssa.Store); ok {
				if f := fieldOf(s.Addr); cand[f] {
					if n, ok := effect(f, s.Val); ok && n != 0 {
						stack[f] = true
					}
				}
			}
		})
	}
	if len(stack) == 0 {
		c.undecided("anchor:loop-stacks", token.NoPos, "struct compiler has no stack-like slice field that is pushed or popped (the break/continue stacks)")
		return
	}
	var stackNames []string
	for f := range stack {
		stackNames = append(stackNames, f)
	}
	sort.Strings(stackNames)

	// direct touch and call edges
	direct := map[*ssa.Function]bool{}
	callees := map[*ssa.Function][]*ssa.Function{}
	dynCall := map[*ssa.Function]bool{}
	calledInPkg := map[*ssa.Function]bool{}
	for _, fn := range fns {
		allInstrs(fn, func(in ssa.Instruction) {
			if s, ok := in.(*ssa.Store); ok && stack[fieldOf(s.Addr)] {
				direct[fn] = true
			}
			if ci, ok := in.(ssa.CallInstruction); ok {
				cc := ci.Common()
				if g := cc.StaticCallee(); g != nil {
					if seenFn[g] {
						callees[fn] = append(callees[fn], g)
						calledInPkg[g] = true
					}
				} else if _, isB := cc.Value.(*ssa.Builtin); !isB && !cc.IsInvoke() {
					dynCall[fn] = true
				}
			}
			// a function literal is used where it is made
			if mc, ok := in.(*ssa.MakeClosure); ok {
				if g, ok := mc.Fn.(*ssa.Function); ok {
					calledInPkg[g] = true
				}
			}
		})
	}
	touches := map[*ssa.Function]bool{}
	for changed := true; changed; {
		changed = false
		for _, fn := range fns {
			if touches[fn] {
				continue
			}
			t := direct[fn]
			for _, g := range callees[fn] {
				if touches[g] {
					t = true
				}
			}
			if t {
				touches[fn] = true
				changed = true
			}
		}
	}
	// function values called dynamically (closures handed to helpers): balanced only if no function literal of the
	// package touches a stack; otherwise such calls are not decided here
	anonTouches := false
	for _, fn := range fns {
		if fn.Parent() != nil && touches[fn] {
			anonTouches = true
		}
	}

	assumedZero := map[*ssa.Function]bool{}
	sums := map[*ssa.Function]*lsSummary{}
	inProgress := map[*ssa.Function]bool{}
	var summarise func(fn *ssa.Function) *lsSummary
	summarise = func(fn *ssa.Function) *lsSummary {
		if s, ok := sums[fn]; ok {
			return s
		}
		if !touches[fn] {
			s := &lsSummary{delta: lsDelta{}, ok: true}
			sums[fn] = s
			return s
		}
		inProgress[fn] = true
		s := &lsSummary{delta: lsDelta{}, ok: true, touches: true, pos: fn.Pos()}
		fail := func(pos token.Pos, format string, args ...interface{}) {
			if s.ok {
				s.ok = false
				s.problem = fmt.Sprintf(format, args...)
				s.pos = posOr(pos, fn.Pos())
			}
		}
		in := map[*ssa.BasicBlock]lsDelta{fn.Blocks[0]: {}}
		work := []*ssa.BasicBlock{fn.Blocks[0]}
		var retDelta lsDelta
		for len(work) > 0 && s.ok {
			b := work[0]
			work = work[1:]
			cur := in[b].clone()
			for _, instr := range b.Instrs {
				switch x := instr.(type) {
				case *ssa.Store:
					if f := fieldOf(x.Addr); stack[f] {
						n, ok := effect(f, x.Val)
						if !ok {
							fail(x.Pos(), "a store to c.%s that is neither a push (append), a pop ([:len-1]) nor the field itself", f)
						}
						cur[f] += n
					}
				case ssa.CallInstruction:
					cc := x.Common()
					if g := cc.StaticCallee(); g != nil && seenFn[g] && touches[g] {
						if _, isGo := instr.(*ssa.Go); isGo {
							fail(instr.Pos(), "a function that changes a loop stack is started as a goroutine")
							break
						}
						if _, isDefer := instr.(*ssa.Defer); isDefer {
							fail(instr.Pos(), "a function that changes a loop stack is deferred")
							break
						}
						if inProgress[g] && sums[g] == nil {
							// recursion: assume the callee balanced (checked when it is done)
							assumedZero[g] = true
							break
						}
						gs := summarise(g)
						if !gs.ok {
							fail(instr.Pos(), "calls %s, whose effect on the loop stacks is not decided (%s)", fnKey(g), gs.problem)
							break
						}
						for f, n := range gs.delta {
							cur[f] += n
						}
					} else if g == nil && anonTouches {
						if _, isB := cc.Value.(*ssa.Builtin); !isB && !cc.IsInvoke() {
							fail(instr.Pos(), "a call through a function value, while some function literal of the package changes a loop stack")
						}
					}
				case *ssa.Return:
					if retDelta == nil {
						retDelta = cur.clone()
					} else if !retDelta.eq(cur) {
						fail(x.Pos(), "the function returns with different changes of the loop stacks on different paths: %s and %s", retDelta, cur)
					}
				}
			}
			for _, su := range b.Succs {
				if old, ok := in[su]; ok {
					if !old.eq(cur) {
						p := token.NoPos
						for _, i2 := range su.Instrs {
							if i2.Pos().IsValid() {
								p = i2.Pos()
								break
							}
						}
						fail(p, "two paths reach the same point with different changes of the loop stacks: %s and %s - an entry is pushed without being popped (or popped without having been pushed) on one of them", old, cur)
					}
					continue
				}
				in[su] = cur.clone()
				work = append(work, su)
			}
		}
		if retDelta != nil {
			s.delta = retDelta
		}
		delete(inProgress, fn)
		sums[fn] = s
		return s
	}
	for _, fn := range fns {
		summarise(fn)
	}
	n := 0
	for _, fn := range fns {
		s := sums[fn]
		if s == nil || !s.touches {
			continue
		}
		n++
		key := "loopstack:" + fnKey(fn)
		mustZero := assumedZero[fn] || !calledInPkg[fn]
		switch {
		case !s.ok:
			if strings.Contains(s.problem, "not decided") || strings.Contains(s.problem, "function value") || strings.Contains(s.problem, "neither a push") {
				c.undecided(key, s.pos, "%s: %s", fnKey(fn), s.problem)
			} else {
				c.bad(key, s.pos, "%s: %s; the entry left behind (or taken from the enclosing loop) makes a later break/continue be compiled against the wrong loop", fnKey(fn), s.problem)
			}
		case mustZero && len(s.delta.clone()) != 0:
			c.bad(key, fn.Pos(), "%s changes the loop stacks by %s although it compiles complete statements (it is recursive or an entry point): the entry left behind (or taken from the enclosing loop) makes a later break/continue be compiled against the wrong loop", fnKey(fn), s.delta)
		default:
			why := "a helper, accounted for at its call sites"
			if mustZero {
				why = "balanced, as required of a recursive function or entry point"
			}
			c.ok(key, fn.Pos(), "net change of the loop stacks (%s) on every path: %s (%s)", strings.Join(stackNames, ", "), s.delta, why)
		}
	}
	c.atLeast("loop stack fields", len(stack), 1)
	c.atLeast("functions that change a loop stack", n, 3)
}
