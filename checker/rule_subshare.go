package main

import (
	"fmt"
	"go/token"
	"go/types"

	"golang.org/x/tools/go/ssa"
)

// R-SUBSHARE (C10): sub() is the first replacement of gsub().
//
// Both builtins run the one function (*interp).sub(regex, repl, in, global). They agree by
// construction as long as (1) the flag `global` decides nothing but whether the replacement
// callback leaves the second and later matches untouched, and (2) the replacement text is
// only ever read byte by byte inside that callback (the & and backslash expansion), never
// used as a whole string. A second use of the flag (a fast path for one of the two) or a
// whole-string use of the replacement is a place where the two builtins can diverge.

func init() {
	register("R-SUBSHARE", "sub and gsub share one implementation: in (*interp).sub the parameter `global` is used exactly once, as the condition that makes the replacement callback return a second or later match unchanged (tested together with the match counter), and the parameter `repl` is read only by index and len inside that callback; the handlers of both builtins call this function and differ only in the constant passed for `global`", ruleSubShare)
}

// usesOfParam: every instruction using the parameter, directly or as a captured variable in closures.
func usesOfParam(fn *ssa.Function, name string) (uses []ssa.Instruction, found bool) {
	var roots []ssa.Value
	for _, p := range fn.Params {
		if p.Name() == name {
			roots = append(roots, p)
			found = true
		}
	}
	if !found {
		return nil, false
	}
	seen := map[ssa.Value]bool{}
	var walk func(v ssa.Value)
	walk = func(v ssa.Value) {
		if seen[v] {
			return
		}
		seen[v] = true
		refs := v.Referrers()
		if refs == nil {
			return
		}
		for _, r := range *refs {
			switch in := r.(type) {
			case *ssa.Store:
				// spilled to a cell because a closure captures it
				if in.Val == v {
					if a, ok := in.Addr.(*ssa.Alloc); ok {
						walk(a)
						continue
					}
					// kept in a field of a small struct of the package (the state of the replacement callback when that
					// is a method instead of a closure): every load of that field, anywhere in the package, is the parameter
					if fa, ok := in.Addr.(*ssa.FieldAddr); ok {
						if st, ok := deref(fa.X.Type()).Underlying().(*types.Struct); ok && !isInterp(fa.X.Type()) {
							fv := st.Field(fa.Field)
							for _, g := range fieldLoadFns(fn) {
								allInstrs(g, func(i2 ssa.Instruction) {
									if ld, ok := i2.(*ssa.UnOp); ok && ld.Op == token.MUL {
										if fa2, ok := ld.X.(*ssa.FieldAddr); ok {
											if st2, ok := deref(fa2.X.Type()).Underlying().(*types.Struct); ok && st2.Field(fa2.Field) == fv {
												walk(ld)
											}
										}
									}
								})
							}
							continue
						}
					}
				}
				if in.Addr == v {
					// the store that initialises the cell from the parameter itself
					isRoot := false
					for _, r := range roots {
						if in.Val == r {
							isRoot = true
						}
					}
					if isRoot {
						continue
					}
				}
				uses = append(uses, in)
			case *ssa.MakeClosure:
				// bound to a free variable of the closure
				cl := in.Fn.(*ssa.Function)
				for i, b := range in.Bindings {
					if b == v && i < len(cl.FreeVars) {
						walk(cl.FreeVars[i])
					}
				}
			case *ssa.UnOp:
				if in.Op == token.MUL {
					// load of the cell / free variable: the loaded value is the parameter
					walk(in)
					continue
				}
				uses = append(uses, in)
			case *ssa.DebugRef:
			default:
				uses = append(uses, in)
			}
		}
	}
	for _, r := range roots {
		walk(r)
	}
	return uses, true
}

func ruleSubShare(c *Ctx) {
	fn := c.ssaFunc("interp", "interp.sub")
	if fn == nil {
		c.undecided("anchor:interp.sub", token.NoPos, "(*interp).sub not found")
		return
	}
	// (1) global
	gu, ok := usesOfParam(fn, "global")
	if !ok {
		c.undecided("anchor:sub.global", fn.Pos(), "(*interp).sub has no parameter named global")
		return
	}
	good := len(gu) == 1
	why := ""
	if len(gu) != 1 {
		why = "it is used " + itoa(int64(len(gu))) + " times"
	}
	if good {
		iff, isIf := gu[0].(*ssa.If)
		inClosure := gu[0].Parent() != fn
		switch {
		case !isIf:
			good, why = false, "its one use is not a branch condition"
		case !inClosure:
			good, why = false, "it is tested outside the replacement callback"
		default:
			// on the !global side the next test is on the match counter and then the match is returned unchanged
			returnsMatch := func(ret *ssa.BasicBlock) bool {
				if len(ret.Instrs) == 0 {
					return false
				}
				r, ok := ret.Instrs[len(ret.Instrs)-1].(*ssa.Return)
				if !ok || len(r.Results) != 1 {
					return false
				}
				_, isParam := r.Results[0].(*ssa.Parameter)
				return isParam
			}
			counterTest := func(b *ssa.BasicBlock) (*ssa.If, bool) {
				if len(b.Instrs) == 0 {
					return nil, false
				}
				in2, ok := b.Instrs[len(b.Instrs)-1].(*ssa.If)
				if !ok {
					return nil, false
				}
				cmp, ok := in2.Cond.(*ssa.BinOp)
				return in2, ok && cmp.Op == token.GTR
			}
			okShape := false
			// (a) `!global && count > 0`: the counter is tested on the !global side
			nb := iff.Block().Succs[1]
			if _, ok := counterTest(nb); ok && returnsMatch(nb.Succs[0]) {
				okShape = true
			}
			// (b) `count > 0 && !global`: the flag is tested on the count>0 side of a counter test
			gb := iff.Block()
			if len(gb.Preds) == 1 {
				if _, ok := counterTest(gb.Preds[0]); ok && gb.Preds[0].Succs[0] == gb && returnsMatch(gb.Succs[1]) {
					okShape = true
				}
			}
			if !okShape {
				good, why = false, "the branch it controls is not `if !global && count > 0 { return the match unchanged }`"
			}
		}
	}
	pos := fn.Pos()
	if len(gu) > 0 {
		pos = gu[0].Pos()
	}
	c.check(good, "subshare:global", pos,
		"`global` only makes the callback leave the second and later matches untouched",
		"in (*interp).sub the flag `global` decides more than whether later matches are left untouched ("+why+"): sub() and gsub() no longer run the same replacement code, so sub's result can differ from gsub's first replacement")
	// (1b) every successful return comes out of the regex engine: no shortcut decides the result for some
	// targets (an empty one, a literal pattern) without asking the regex whether and where it matches -
	// match(), which does ask, would then disagree with sub()/gsub() about the same regex and text
	var engine []*ssa.BasicBlock
	for _, b := range fn.Blocks {
		for _, in := range b.Instrs {
			if call, ok := in.(*ssa.Call); ok {
				if f := calleeObj(call); f != nil && f.Pkg() != nil && f.Pkg().Path() == "regexp" && f.Name() != "Compile" && f.Name() != "MustCompile" && f.Name() != "QuoteMeta" {
					engine = append(engine, b)
				}
			}
		}
	}
	short := token.NoPos
	nSucc := 0
	for _, b := range fn.Blocks {
		if len(b.Instrs) == 0 {
			continue
		}
		ret, ok := b.Instrs[len(b.Instrs)-1].(*ssa.Return)
		if !ok {
			continue
		}
		rr := retResults(ret)
		if len(rr) == 0 || !isNilConst(rr[len(rr)-1]) {
			continue
		}
		nSucc++
		dom := false
		for _, e := range engine {
			if e == b || e.Dominates(b) {
				dom = true
			}
		}
		if !dom {
			short = posOr(ret.Pos(), fn.Pos())
		}
	}
	c.check(short == token.NoPos && nSucc >= 1 && len(engine) >= 1, "subshare:engine", short,
		"every successful return of sub passes through the regex engine",
		"(*interp).sub can return a result without running the regex (a shortcut for some targets or patterns): for an empty-matching regex on an empty target it reports no match where match() finds one, so the builtins disagree about the same regex and text")
	// (2) repl
	ru, ok := usesOfParam(fn, "repl")
	if !ok {
		c.undecided("anchor:sub.repl", fn.Pos(), "(*interp).sub has no parameter named repl")
		return
	}
	bad := ""
	var badPos token.Pos
	n := 0
	// byteWise: every use is repl[i] or len(repl) - or handing the text to a helper of this package whose own
	// parameter is again only read that way (the expansion loop may live in a function of its own)
	var byteWise func(uses []ssa.Instruction, inOuter func(ssa.Instruction) bool, depth int) bool
	byteWise = func(uses []ssa.Instruction, inOuter func(ssa.Instruction) bool, depth int) bool {
		all := true
		for _, u := range uses {
			n++
			okUse := false
			switch in := u.(type) {
			case *ssa.Lookup: // repl[i] on a string
				if _, isStr := in.X.Type().Underlying().(*types.Basic); isStr && !inOuter(u) {
					okUse = true
				}
			case *ssa.Index: // repl[i] (go/ssa uses Index for strings too)
				if _, isStr := in.X.Type().Underlying().(*types.Basic); isStr && !inOuter(u) {
					okUse = true
				}
			case *ssa.Call:
				if b, ok := in.Call.Value.(*ssa.Builtin); ok && b.Name() == "len" && !inOuter(u) {
					okUse = true
				}
				if cal := in.Call.StaticCallee(); cal != nil && cal.Pkg == fn.Pkg && depth < 2 && !inOuter(u) {
					// the helper (an extracted expansion loop) may use its string parameters only byte by byte
					// (s[i], len(s)) or as the source of an append (the matched text copied in for '&'):
					// never as a whole for anything else
					okUse = true
					for _, hp := range cal.Params {
						if _, isStr := hp.Type().Underlying().(*types.Basic); !isStr {
							continue
						}
						sub, _ := usesOfParam(cal, hp.Name())
						for _, su := range sub {
							switch x := su.(type) {
							case *ssa.Index, *ssa.Lookup:
							case *ssa.Call:
								b, isB := x.Call.Value.(*ssa.Builtin)
								if !isB || (b.Name() != "len" && b.Name() != "append") {
									okUse = false
								}
							default:
								okUse = false
							}
						}
					}
				}
			}
			if !okUse {
				all = false
				if bad == "" {
					bad = fmt.Sprintf("%s [%T]", u.String(), u)
					badPos = u.Pos()
				}
			}
		}
		return all
	}
	byteWise(ru, func(u ssa.Instruction) bool { return u.Parent() == fn }, 0)
	c.check(bad == "" && n >= 1, "subshare:repl", badPos,
		"`repl` is read only byte by byte inside the replacement callback",
		"in (*interp).sub the replacement text is used as a whole ("+bad+"): the & and backslash expansion is bypassed on that path, so the same replacement gives different text in sub() and gsub()")
}

// fieldLoadFns: the functions of fn's package (with their function literals).
func fieldLoadFns(fn *ssa.Function) []*ssa.Function {
	var out []*ssa.Function
	seen := map[*ssa.Function]bool{}
	var add func(f *ssa.Function)
	add = func(f *ssa.Function) {
		if f == nil || seen[f] || len(f.Blocks) == 0 {
			return
		}
		seen[f] = true
		out = append(out, f)
		for _, a := range f.AnonFuncs {
			add(a)
		}
	}
	if fn.Pkg == nil {
		return nil
	}
	for _, m := range fn.Pkg.Members {
		switch x := m.(type) {
		case *ssa.Function:
			add(x)
		case *ssa.Type:
			for _, t := range []types.Type{x.Type(), types.NewPointer(x.Type())} {
				ms := fn.Prog.MethodSets.MethodSet(t)
				for i := 0; i < ms.Len(); i++ {
					add(fn.Prog.MethodValue(ms.At(i)))
				}
			}
		}
	}
	return out
}
