package main

import (
	"fmt"
	"sort"
	"strings"

	"golang.org/x/tools/go/ssa"
)

// The format-translation side of R-FMT, decided by evaluating interp.parseFmtTypes on the SSA form for concrete
// representative formats (ssainterp.go with concrete slices): one format per conversion byte, plus the formats that
// separate the clauses (a bare %g after a conversion with a precision, `*` widths, a format that ends early). The
// cache is taken to miss. What is observed per format: error or not, the translated format, the argument tags.
// Switch, if chain or lookup table make no difference.

type fmtParseOutcome struct {
	isErr  bool
	format string
	tags   string
	known  bool // format and tags are concrete
}

type fmtParser struct {
	c        *Ctx
	fn       *ssa.Function
	problems []string
	memo     map[string][]fmtParseOutcome
}

func newFmtParser(c *Ctx) *fmtParser {
	return &fmtParser{c: c, fn: c.ssaFunc("interp", "interp.parseFmtTypes"), memo: map[string][]fmtParseOutcome{}}
}

// run: the distinct outcomes of parseFmtTypes(format).
func (fp *fmtParser) run(format string) []fmtParseOutcome {
	if r, ok := fp.memo[format]; ok {
		return r
	}
	fn := fp.fn
	var strP *ssa.Parameter
	for _, p := range fn.Params {
		if b, ok := p.Type().Underlying().(interface{ Kind() int }); ok {
			_ = b
		}
		if p.Type().String() == "string" {
			strP = p
		}
	}
	e := &sengine{pkg: fp.c.ssaPkg("interp"), ctx: fp.c, concreteSlices: true}
	e.param = func(f *ssa.Function, p *ssa.Parameter) (iv, bool) {
		if p == strP {
			return iv{k: 'S', s: format}, true
		}
		return iv{}, false
	}
	e.lookup = func(p *spath, fr *sframe, x *ssa.Lookup, m, key iv) (iv, bool) {
		// the cache of translated formats: a miss
		if m.k != 'T' && m.k != 't' && m.k != 'S' {
			if x.CommaOk {
				return ivTuple(iv{}, ivBool(false)), true
			}
		}
		return iv{}, false
	}
	e.call = func(p *spath, fr *sframe, call *ssa.Call, callee *ssa.Function, args []iv) (iv, callAction) {
		if callee == nil {
			return iv{}, callDefault
		}
		switch callee.Name() {
		case "New", "Errorf", "newError":
			return ivSym("error"), callHandled
		}
		return iv{}, callDefault
	}
	e.enter = func(callee *ssa.Function, args []iv) bool { return true }
	e.startAt(fn, fn.Blocks[0], nil)
	if len(e.problems) > 0 {
		fp.problems = append(fp.problems, fmt.Sprintf("%q: %v", format, e.problems))
	}
	seen := map[string]bool{}
	var outs []fmtParseOutcome
	for _, o := range e.outcomes {
		if o.panicked {
			continue
		}
		var r fmtParseOutcome
		if o.ret.k == 'u' && len(o.ret.tup) == 3 {
			f, t, er := o.ret.tup[0], o.ret.tup[1], o.ret.tup[2]
			r.isErr = er.k != 'n'
			if f.k == 'S' {
				r.format = f.s
				r.known = true
			}
			switch t.k {
			case 'n':
			case 'a':
				for _, el := range *t.arr {
					if el.k == 'i' {
						r.tags += string(rune(el.i))
					} else {
						r.known = false
					}
				}
			default:
				r.known = false
			}
			if er.k == 0 {
				r.known = false
			}
		}
		k := fmt.Sprintf("%v|%s|%s|%v", r.isErr, r.format, r.tags, r.known)
		if !seen[k] {
			seen[k] = true
			outs = append(outs, r)
		}
	}
	fp.memo[format] = outs
	return outs
}

// one: the single outcome of a format, or ok=false when the evaluation did not produce exactly one concrete outcome.
func (fp *fmtParser) one(format string) (fmtParseOutcome, bool) {
	outs := fp.run(format)
	if len(outs) != 1 || (!outs[0].isErr && !outs[0].known) {
		return fmtParseOutcome{}, false
	}
	return outs[0], true
}

type fmtParseFacts struct {
	ok            bool     // the evaluation produced one concrete outcome for every format asked
	undecided     []string // formats without a single concrete outcome
	accepted      map[string]fmtParseOutcome
	rejected      []string
	tags          map[string]bool
	goUnknown     []string // accepted C letters left in the Go format although Go's fmt does not know them
	gBare         bool     // %g, %G, %5g translate to the same with .6
	gPrecKept     bool     // %.3g is left alone
	gAfterPrec    bool     // %.2f %g: the bare %g still gets .6
	star          bool     // %*d -> two tags, %*.*f -> three, the first ones integer tags
	earlyEnd      bool     // "%", "%5", "%-" are errors
	percent       bool     // %% takes no argument
	compositional bool     // the translation of two/three conversions is the translations of each, in place
	nonComp       []string
}

func fmtParseFactsOf(c *Ctx) *fmtParseFacts {
	fp := newFmtParser(c)
	f := &fmtParseFacts{accepted: map[string]fmtParseOutcome{}, tags: map[string]bool{}}
	if fp.fn == nil {
		return f
	}
	f.ok = true
	ask := func(format string) (fmtParseOutcome, bool) {
		o, ok := fp.one(format)
		if !ok {
			f.ok = false
			f.undecided = append(f.undecided, format)
		}
		return o, ok
	}
	const flagChars = " .-+*#0123456789"
	for b := 1; b < 256; b++ {
		if strings.IndexByte(flagChars, byte(b)) >= 0 || b == '%' {
			continue
		}
		o, ok := ask("%" + string([]byte{byte(b)}))
		if !ok {
			continue
		}
		l := string([]byte{byte(b)})
		if o.isErr {
			f.rejected = append(f.rejected, l)
			continue
		}
		f.accepted[l] = o
		for _, t := range o.tags {
			f.tags[string(t)] = true
		}
		// the verb left in the Go format
		if len(o.format) > 0 {
			switch o.format[len(o.format)-1] {
			case 'i', 'u', 'a', 'A':
				f.goUnknown = append(f.goUnknown, l)
			}
		}
	}
	sort.Strings(f.goUnknown)
	eq := func(format, want, tags string) bool {
		o, ok := ask(format)
		return ok && !o.isErr && o.format == want && (tags == "*" || len(o.tags) == len(tags))
	}
	f.gBare = eq("%g", "%.6g", "f") && eq("%G", "%.6G", "f") && eq("%5g", "%5.6g", "f") && eq("%-8G|", "%-8.6G|", "f")
	f.gPrecKept = eq("%.3g", "%.3g", "f") && eq("%.0G", "%.0G", "f") && eq("%10.2g", "%10.2g", "f")
	f.gAfterPrec = eq("%.2f %g", "%.2f %.6g", "ff") && eq("%.1e%G%g", "%.1e%.6G%.6g", "fff") && eq("%g %.3g %g", "%.6g %.3g %.6g", "fff")
	star := func(format string, n int) bool {
		o, ok := ask(format)
		if !ok || o.isErr || len(o.tags) != n {
			return false
		}
		// the tags of the stars are those of an integer conversion
		d, okd := f.accepted["d"]
		if !okd || len(d.tags) != 1 {
			return false
		}
		for i := 0; i < n-1; i++ {
			if o.tags[i] != d.tags[0] {
				return false
			}
		}
		return true
	}
	f.star = star("%*d", 2) && star("%*.*f", 3) && star("%-*s", 2) && star("%.*g", 2)
	isErr := func(format string) bool {
		o, ok := ask(format)
		return ok && o.isErr
	}
	f.earlyEnd = isErr("%") && isErr("%5") && isErr("abc%-") && isErr("%.")
	// the translation is compositional: a format of two (three) conversions translates to the translations of its
	// conversions, in place - whatever one conversion inserts or rewrites does not disturb the next
	f.compositional = true
	var letters []string
	for l := range f.accepted {
		letters = append(letters, l)
	}
	sort.Strings(letters)
	for _, x := range letters {
		for _, y := range letters {
			ox, oy := f.accepted[x], f.accepted[y]
			if !eq("%"+x+"|%"+y, ox.format+"|"+oy.format, ox.tags+oy.tags) {
				f.compositional = false
				f.nonComp = append(f.nonComp, "%"+x+"|%"+y)
			}
		}
	}
	for _, tr := range [][3]string{{"g", "G", "c"}, {"G", "i", "g"}, {"g", "u", "A"}, {"c", "g", "a"}} {
		a, b, cc := f.accepted[tr[0]], f.accepted[tr[1]], f.accepted[tr[2]]
		if _, ok := f.accepted[tr[0]]; !ok {
			continue
		}
		if !eq("%"+tr[0]+" %"+tr[1]+" %"+tr[2], a.format+" "+b.format+" "+cc.format, a.tags+b.tags+cc.tags) {
			f.compositional = false
			f.nonComp = append(f.nonComp, "%"+tr[0]+" %"+tr[1]+" %"+tr[2])
		}
	}
	f.percent = eq("%%", "%%", "") && eq("100%% %d", "100%% %d", "d")
	f.undecided = append(f.undecided, fp.problems...)
	if len(fp.problems) > 0 {
		f.ok = false
	}
	return f
}
