package main

import (
	"fmt"
	"go/constant"
	"go/token"
	"go/types"
	"sort"
	"strings"

	"golang.org/x/tools/go/ssa"
)

// Kind specialisation: the SETS, TO, FROM and CHECK clauses of R-KIND, decided per reflect kind on the SSA form
// instead of by the text of switch clauses.
//
// A function that dispatches on X.Kind() of a "subject" (a reflect.Type or reflect.Value parameter, or the
// result of reflect.TypeOf) is evaluated once per kind K of reflect's 27: every comparison of the subject's
// Kind() (and of other subject queries given a value, such as NumOut()) with constants is decided, the
// branches it rules out are pruned, and what remains reachable is what the function does for a value of kind
// K. Helpers of the same package that are handed the subject are entered with the same specialisation;
// boolean helpers over known values are evaluated. Whether the dispatch is a switch, an if chain, a range
// test or sits in a helper makes no difference.

type specBind struct {
	subject bool
	known   bool
	val     int64
}

type spec struct {
	kind      int64
	ints      map[string]int64 // results of other queries on the subject: method name -> value
	extraSubj func(v ssa.Value) bool
	extraInt  func(v ssa.Value) (int64, bool) // other values the specialisation fixes
	pkg       *ssa.Package
	c         *Ctx // when set, package-level tables that are never written (tables.go) are resolved: lookups by a known key, calls through a table entry
}

// tableCallee: the function a call through an entry of a package-level function table reaches when the key is known
// under the specialisation (`conv := table[typ.Kind()]; conv(v)`, `table[k].toGo(p, v)`).
func (ctx *specCtx) tableCallee(call *ssa.Call) *ssa.Function {
	if ctx.sp.c == nil || call.Call.IsInvoke() || call.Call.StaticCallee() != nil {
		return nil
	}
	ft, keyVal, field, _ := ctx.sp.c.tableLookupOf(call.Call.Value)
	if ft == nil {
		return nil
	}
	k, ok := ctx.intOf(keyVal)
	if !ok {
		return nil
	}
	if field >= 0 {
		return ft.fields[k][field]
	}
	return ft.fns[k]
}

// treeOf: the node of a constant table (tables.go constTree) that v is, when v is read out of a package-level table
// that is never written, by keys known under the specialisation (`traitsOf[v.typ].fromInput`).
func (ctx *specCtx) treeOf(v ssa.Value, depth int) *constTree {
	if ctx.sp.c == nil || depth > 6 {
		return nil
	}
	switch x := v.(type) {
	case *ssa.UnOp:
		if x.Op == token.MUL {
			return ctx.treeAt(x.X, depth+1)
		}
	case *ssa.Field:
		return ctx.treeOf(x.X, depth+1).field(fieldNameOf(x.X.Type(), x.Field))
	case *ssa.Index:
		if k, ok := ctx.intOf(x.Index); ok {
			ch, _ := ctx.treeOf(x.X, depth+1).index(k)
			return ch
		}
	case *ssa.Lookup:
		if k, ok := ctx.intOf(x.Index); ok && !x.CommaOk {
			ch, _ := ctx.treeOf(x.X, depth+1).index(k)
			return ch
		}
	case *ssa.Extract:
		if lk, ok := x.Tuple.(*ssa.Lookup); ok && x.Index == 0 {
			if k, ok := ctx.intOf(lk.Index); ok {
				ch, _ := ctx.treeOf(lk.X, depth+1).index(k)
				return ch
			}
		}
	}
	return nil
}

// treeAt: the node of a constant table that addr points to.
func (ctx *specCtx) treeAt(addr ssa.Value, depth int) *constTree {
	if ctx.sp.c == nil || depth > 6 {
		return nil
	}
	switch x := addr.(type) {
	case *ssa.Global:
		return ctx.sp.c.constTreeOf(x.Object())
	case *ssa.IndexAddr:
		if k, ok := ctx.intOf(x.Index); ok {
			ch, _ := ctx.treeAt(x.X, depth+1).index(k)
			return ch
		}
	case *ssa.FieldAddr:
		if f, _ := fieldOfAddr(x); f != nil {
			return ctx.treeAt(x.X, depth+1).field(f.Name())
		}
	case *ssa.Alloc:
		// a local copy of a table entry: stored once
		if x.Referrers() == nil {
			return nil
		}
		var stored ssa.Value
		n := 0
		for _, r := range *x.Referrers() {
			if st, ok := r.(*ssa.Store); ok && st.Addr == ssa.Value(x) {
				stored = st.Val
				n++
			}
		}
		if n == 1 {
			return ctx.treeOf(stored, depth+1)
		}
	}
	return nil
}

// tableHas: v is the "found" component of a comma-ok lookup in such a table by a known key.
func (ctx *specCtx) tableHas(v ssa.Value) (bool, bool) {
	ex, ok := v.(*ssa.Extract)
	if !ok || ex.Index != 1 || ctx.sp.c == nil {
		return false, false
	}
	lk, ok := ex.Tuple.(*ssa.Lookup)
	if !ok || !lk.CommaOk {
		return false, false
	}
	k, ok := ctx.intOf(lk.Index)
	if !ok {
		return false, false
	}
	ld, ok := lk.X.(*ssa.UnOp)
	if !ok || ld.Op != token.MUL {
		return false, false
	}
	g, ok := ld.X.(*ssa.Global)
	if !ok {
		return false, false
	}
	if ft := ctx.sp.c.funcTableOf(g); ft != nil {
		_, a := ft.fns[k]
		_, b := ft.fields[k]
		return a || b, true
	}
	if ct := ctx.sp.c.constTableOf(g.Object()); ct != nil && ct.isMap {
		_, a := ct.ints[k]
		_, b := ct.strs[k]
		return a || b, true
	}
	return false, false
}

type specCtx struct {
	fn    *ssa.Function
	bind  map[*ssa.Parameter]specBind
	sp    *spec
	depth int
	reach map[*ssa.BasicBlock]bool
}

func (ctx *specCtx) isSubject(v ssa.Value) bool {
	switch x := v.(type) {
	case *ssa.Parameter:
		return ctx.bind[x].subject
	case *ssa.ChangeType:
		return ctx.isSubject(x.X)
	case *ssa.MakeInterface:
		return ctx.isSubject(x.X)
	case *ssa.Phi:
		if len(x.Edges) == 0 {
			return false
		}
		for _, e := range x.Edges {
			if !ctx.isSubject(e) {
				return false
			}
		}
		return true
	}
	if ctx.sp.extraSubj != nil && ctx.sp.extraSubj(v) {
		return true
	}
	return false
}

// methodCall: name and receiver of a method call (invoke or static).
func methodCall(v ssa.Value) (string, ssa.Value, []ssa.Value) {
	call, ok := v.(*ssa.Call)
	if !ok {
		return "", nil, nil
	}
	if call.Call.IsInvoke() {
		return call.Call.Method.Name(), call.Call.Value, call.Call.Args
	}
	if f := call.Call.StaticCallee(); f != nil && f.Signature.Recv() != nil && len(call.Call.Args) > 0 {
		return f.Name(), call.Call.Args[0], call.Call.Args[1:]
	}
	return "", nil, nil
}

func (ctx *specCtx) intOf(v ssa.Value) (int64, bool) {
	if ctx.sp.extraInt != nil {
		if n, ok := ctx.sp.extraInt(v); ok {
			return n, true
		}
	}
	if ctx.sp.c != nil {
		if _, isConst := v.(*ssa.Const); !isConst {
			if t := ctx.treeOf(v, 0); t != nil && t.kind == 'i' {
				return t.i, true
			}
		}
	}
	switch x := v.(type) {
	case *ssa.Const:
		if x.Value != nil && x.Value.Kind() == constant.Int {
			n, ok := constant.Int64Val(x.Value)
			return n, ok
		}
	case *ssa.Convert:
		return ctx.intOf(x.X)
	case *ssa.ChangeType:
		return ctx.intOf(x.X)
	case *ssa.Parameter:
		if b := ctx.bind[x]; b.known {
			return b.val, true
		}
	case *ssa.BinOp:
		a, ok1 := ctx.intOf(x.X)
		b, ok2 := ctx.intOf(x.Y)
		if ok1 && ok2 {
			switch x.Op {
			case token.ADD:
				return a + b, true
			case token.SUB:
				return a - b, true
			}
		}
	case *ssa.Call:
		name, recv, _ := methodCall(x)
		if name != "" && recv != nil && ctx.isSubject(recv) {
			if name == "Kind" {
				return ctx.sp.kind, true
			}
			if n, ok := ctx.sp.ints[name]; ok {
				return n, true
			}
		}
	}
	return 0, false
}

func (ctx *specCtx) boolOf(v ssa.Value) (bool, bool) {
	if ctx.sp.c != nil {
		if t := ctx.treeOf(v, 0); t != nil && t.kind == 'b' {
			return t.b, true
		}
	}
	switch x := v.(type) {
	case *ssa.Const:
		if x.Value != nil && x.Value.Kind() == constant.Bool {
			return constant.BoolVal(x.Value), true
		}
	case *ssa.UnOp:
		if x.Op == token.NOT {
			b, ok := ctx.boolOf(x.X)
			return !b, ok
		}
	case *ssa.Extract:
		if b, ok := ctx.tableHas(x); ok {
			return b, true
		}
	case *ssa.BinOp:
		a, ok1 := ctx.intOf(x.X)
		b, ok2 := ctx.intOf(x.Y)
		if ok1 && ok2 {
			switch x.Op {
			case token.EQL:
				return a == b, true
			case token.NEQ:
				return a != b, true
			case token.LSS:
				return a < b, true
			case token.LEQ:
				return a <= b, true
			case token.GTR:
				return a > b, true
			case token.GEQ:
				return a >= b, true
			}
		}
	case *ssa.Phi:
		// the value of a short-circuit expression: decided by the edges that can be taken under the specialisation
		if ctx.reach == nil {
			return false, false // while the reachable set itself is being computed
		}
		seen, val := false, false
		for i, e := range x.Edges {
			pred := x.Block().Preds[i]
			if !ctx.reach[pred] {
				continue
			}
			taken := false
			for _, s := range ctx.succs(pred) {
				if s == x.Block() {
					taken = true
				}
			}
			if !taken {
				continue
			}
			bv, ok := ctx.boolOf(e)
			if !ok || (seen && bv != val) {
				return false, false
			}
			seen, val = true, bv
		}
		return val, seen
	case *ssa.Call:
		if sub := ctx.enter(x); sub != nil {
			if b, ok := x.Type().Underlying().(*types.Basic); ok && b.Kind() == types.Bool {
				seen, val, all := false, false, true
				for _, r := range sub.returns() {
					if len(r.Results) != 1 {
						all = false
						break
					}
					bv, ok := sub.boolOf(r.Results[0])
					if !ok || (seen && bv != val) {
						all = false
						break
					}
					seen, val = true, bv
				}
				if all && seen {
					return val, true
				}
			}
		}
	}
	return false, false
}

// enter: the specialised context of a static callee of the same package that receives the subject or a known
// value; nil when the call is not entered.
func (ctx *specCtx) enter(call *ssa.Call) *specCtx {
	callee := call.Call.StaticCallee()
	viaTable := false
	if callee == nil {
		// a call through an entry of a package-level function table selected by a known key
		if callee = ctx.tableCallee(call); callee != nil {
			viaTable = true
		}
	}
	if callee == nil || callee.Pkg != ctx.sp.pkg || len(callee.Blocks) == 0 || ctx.depth >= 4 {
		return nil
	}
	bind := map[*ssa.Parameter]specBind{}
	any := viaTable // the entry was chosen by the specialisation: what it does is what the dispatcher does for this kind
	for i, a := range call.Call.Args {
		if i >= len(callee.Params) {
			break
		}
		if ctx.isSubject(a) {
			bind[callee.Params[i]] = specBind{subject: true}
			any = true
		} else if n, ok := ctx.intOf(a); ok {
			bind[callee.Params[i]] = specBind{known: true, val: n}
			any = true
		}
	}
	if !any {
		return nil
	}
	return &specCtx{fn: callee, bind: bind, sp: ctx.sp, depth: ctx.depth + 1}
}

func (ctx *specCtx) succs(b *ssa.BasicBlock) []*ssa.BasicBlock {
	if len(b.Instrs) > 0 {
		if iff, ok := b.Instrs[len(b.Instrs)-1].(*ssa.If); ok {
			if v, known := ctx.boolOf(iff.Cond); known {
				if v {
					return b.Succs[:1]
				}
				return b.Succs[1:2]
			}
		}
	}
	return b.Succs
}

type cutEdge struct {
	from *ssa.BasicBlock
	succ int
}

// reachable: blocks reachable from `from` under the specialisation, not taking the cut edges.
func (ctx *specCtx) reachable(from *ssa.BasicBlock, cuts []cutEdge) map[*ssa.BasicBlock]bool {
	seen := map[*ssa.BasicBlock]bool{}
	var walk func(b *ssa.BasicBlock)
	walk = func(b *ssa.BasicBlock) {
		if seen[b] {
			return
		}
		seen[b] = true
		for _, s := range ctx.succs(b) {
			cut := false
			for _, ce := range cuts {
				if ce.from == b && b.Succs[ce.succ] == s {
					cut = true
				}
			}
			if !cut {
				walk(s)
			}
		}
	}
	walk(from)
	return seen
}

func (ctx *specCtx) reached() map[*ssa.BasicBlock]bool {
	if ctx.reach == nil {
		ctx.reach = ctx.reachable(ctx.fn.Blocks[0], nil)
	}
	return ctx.reach
}

func returnsIn(blocks map[*ssa.BasicBlock]bool) []*ssa.Return {
	var out []*ssa.Return
	for b := range blocks {
		if len(b.Instrs) > 0 {
			if r, ok := b.Instrs[len(b.Instrs)-1].(*ssa.Return); ok {
				out = append(out, r)
			}
		}
	}
	sort.Slice(out, func(i, j int) bool { return out[i].Block().Index < out[j].Block().Index })
	return out
}

func (ctx *specCtx) returns() []*ssa.Return { return returnsIn(ctx.reached()) }

// walk visits every reachable instruction of this context and of the helpers it hands the subject to.
func (ctx *specCtx) walk(visit func(ctx *specCtx, in ssa.Instruction)) {
	var blocks []*ssa.BasicBlock
	for b := range ctx.reached() {
		blocks = append(blocks, b)
	}
	sort.Slice(blocks, func(i, j int) bool { return blocks[i].Index < blocks[j].Index })
	for _, b := range blocks {
		for _, in := range b.Instrs {
			visit(ctx, in)
			if call, ok := in.(*ssa.Call); ok {
				if sub := ctx.enter(call); sub != nil {
					sub.walk(visit)
				}
			}
		}
	}
}

func reflectKinds(c *Ctx) map[string]int64 {
	out := map[string]int64{}
	ip := c.pkg("interp")
	if ip == nil {
		return out
	}
	for _, imp := range ip.Types.Imports() {
		if imp.Path() != "reflect" {
			continue
		}
		kindT := imp.Scope().Lookup("Kind")
		if kindT == nil {
			continue
		}
		for _, name := range imp.Scope().Names() {
			if k, ok := imp.Scope().Lookup(name).(*types.Const); ok && types.Identical(k.Type(), kindT.Type()) {
				if n, ok := constant.Int64Val(k.Val()); ok {
					out[name] = n
				}
			}
		}
	}
	return out
}

func typeIsReflect(t types.Type, name string) bool {
	nm := named(t)
	return nm != nil && nm.Obj().Pkg() != nil && nm.Obj().Pkg().Path() == "reflect" && nm.Obj().Name() == name
}

// subjectParam: the parameter of reflect type `name` (Type or Value).
func subjectParam(fn *ssa.Function, name string) *ssa.Parameter {
	for _, p := range fn.Params {
		if typeIsReflect(p.Type(), name) {
			return p
		}
	}
	return nil
}

// isElemKindTest: v compares the Kind() of the subject's element type with a constant.
func (ctx *specCtx) elemKindTest(v ssa.Value) (op token.Token, k int64, ok bool) {
	bo, isBo := v.(*ssa.BinOp)
	if !isBo || (bo.Op != token.EQL && bo.Op != token.NEQ) {
		return 0, 0, false
	}
	for _, pair := range [][2]ssa.Value{{bo.X, bo.Y}, {bo.Y, bo.X}} {
		name, recv, _ := methodCall(pair[0])
		if name != "Kind" || recv == nil || ctx.isSubject(recv) {
			continue
		}
		// receiver: Elem() of the subject, or of the subject's Type()
		en, er, _ := methodCall(recv)
		if en != "Elem" || er == nil {
			continue
		}
		if !ctx.isSubject(er) {
			tn, tr, _ := methodCall(er)
			if tn != "Type" || tr == nil || !ctx.isSubject(tr) {
				continue
			}
		}
		if kc, isC := pair[1].(*ssa.Const); isC && kc.Value != nil {
			if n, okN := constant.Int64Val(kc.Value); okN {
				return bo.Op, n, true
			}
		}
	}
	return 0, 0, false
}

func kindSpecClauses(c *Ctx) {
	kinds := reflectKinds(c)
	if len(kinds) < 27 {
		c.undecided("anchor:reflect.Kind", token.NoPos, "reflect.Kind constants not resolvable (%d found)", len(kinds))
		return
	}
	kindName := map[int64]string{}
	var kindVals []int64
	for n, v := range kinds {
		if old, dup := kindName[v]; dup {
			if old < n { // Ptr / Pointer: keep one name
				continue
			}
		} else {
			kindVals = append(kindVals, v)
		}
		kindName[v] = n
	}
	sort.Slice(kindVals, func(i, j int) bool { return kindVals[i] < kindVals[j] })
	want := map[string]bool{}
	for _, k := range docKinds {
		want[k] = true
	}
	ipkg := c.ssaPkg("interp")
	if ipkg == nil {
		c.undecided("anchor:interp-ssa", token.NoPos, "package interp has no SSA form")
		return
	}

	// ---- the three dispatchers, found by signature
	var validFn, toFn, fromFn, checkFn *ssa.Function
	for _, fn := range c.srcFuncs("interp") {
		if fn.Parent() != nil {
			continue
		}
		sig := fn.Signature
		res := sig.Results()
		switch {
		case sig.Recv() == nil && sig.Params().Len() == 1 && typeIsReflect(sig.Params().At(0).Type(), "Type") && res.Len() == 1 && types.Identical(res.At(0).Type(), types.Typ[types.Bool]):
			if validFn == nil || fn.Name() == "validNativeType" {
				validFn = fn
			}
		case res.Len() == 1 && typeIsReflect(res.At(0).Type(), "Value") && subjectParam(fn, "Type") != nil && hasParamNamed(fn, modPath+"/interp", "value") && sig.Recv() != nil:
			if toFn == nil || fn.Name() == "toNative" {
				toFn = fn
			}
		case sig.Recv() == nil && sig.Params().Len() == 1 && typeIsReflect(sig.Params().At(0).Type(), "Value") && res.Len() == 1 && isNamed(res.At(0).Type(), modPath+"/interp", "value"):
			if fromFn == nil || fn.Name() == "fromNative" {
				fromFn = fn
			}
		case fn.Name() == "checkNativeFunc":
			checkFn = fn
		}
	}
	for name, fn := range map[string]*ssa.Function{"validNativeType": validFn, "toNative": toFn, "fromNative": fromFn, "checkNativeFunc": checkFn} {
		if fn == nil {
			c.undecided("anchor:"+name, token.NoPos, "%s not found (by signature)", name)
		}
	}
	if validFn == nil || toFn == nil || fromFn == nil || checkFn == nil {
		return
	}
	mk := func(fn *ssa.Function, subjType string, k int64) *specCtx {
		sp := &spec{kind: k, pkg: ipkg, ints: map[string]int64{}, c: c}
		ctx := &specCtx{fn: fn, sp: sp, bind: map[*ssa.Parameter]specBind{}}
		if p := subjectParam(fn, subjType); p != nil {
			ctx.bind[p] = specBind{subject: true}
		}
		return ctx
	}

	// ---- SETS
	sets := func(label string, fn *ssa.Function, subjType string, accepts func(ctx *specCtx) bool) map[string]bool {
		set := map[string]bool{}
		for _, k := range kindVals {
			if accepts(mk(fn, subjType, k)) {
				set[kindName[k]] = true
			}
		}
		var missing, extra []string
		for k := range want {
			if !set[k] {
				missing = append(missing, k)
			}
		}
		for k := range set {
			if !want[k] {
				extra = append(extra, k)
			}
		}
		sort.Strings(missing)
		sort.Strings(extra)
		c.check(len(missing) == 0 && len(extra) == 0, "sets:"+label, fn.Pos(), label+", evaluated for each of reflect's "+itoa(int64(len(kindVals)))+" kinds, accepts exactly the documented ones",
			fmt.Sprintf("%s handles a different kind set than documented: missing %v, extra %v (a signature accepted at setup then panics at call time, or a documented kind is rejected)", label, missing, extra))
		return set
	}
	sets("validNativeType", validFn, "Type", func(ctx *specCtx) bool {
		for _, r := range ctx.returns() {
			if len(r.Results) != 1 {
				return true
			}
			if b, known := ctx.boolOf(r.Results[0]); !known || b {
				return true
			}
		}
		return false
	})
	handles := func(ctx *specCtx) bool { return len(ctx.returns()) > 0 }
	sets("interp.toNative", toFn, "Type", handles)
	sets("fromNative", fromFn, "Value", handles)

	// ---- slices are restricted to byte elements in all three
	uint8K := kinds["Uint8"]
	for _, d := range []struct {
		label, subj string
		fn          *ssa.Function
		boolRes     bool
	}{{"validNativeType", "Type", validFn, true}, {"interp.toNative", "Type", toFn, false}, {"fromNative", "Value", fromFn, false}} {
		ctx := mk(d.fn, d.subj, kinds["Slice"])
		accepting := func(blocks map[*ssa.BasicBlock]bool) (n int, direct bool) {
			for _, r := range returnsIn(blocks) {
				if d.boolRes {
					if len(r.Results) == 1 {
						if op, k, ok := ctx.elemKindTest(r.Results[0]); ok && op == token.EQL && k == uint8K {
							direct = true
							continue
						}
						if b, known := ctx.boolOf(r.Results[0]); known && !b {
							continue
						}
					}
				}
				n++
			}
			return
		}
		var cuts []cutEdge
		for b := range ctx.reached() {
			if len(b.Instrs) == 0 {
				continue
			}
			iff, ok := b.Instrs[len(b.Instrs)-1].(*ssa.If)
			if !ok {
				continue
			}
			cond, sense := iff.Cond, 0
			for {
				if u, ok := cond.(*ssa.UnOp); ok && u.Op == token.NOT {
					cond, sense = u.X, 1-sense
					continue
				}
				break
			}
			if op, k, ok := ctx.elemKindTest(cond); ok && k == uint8K {
				pass := sense // successor taken when the element kind IS Uint8
				if op == token.NEQ {
					pass = 1 - sense
				}
				cuts = append(cuts, cutEdge{b, pass})
			}
		}
		nAll, direct := accepting(ctx.reached())
		nCut, _ := accepting(ctx.reachable(d.fn.Blocks[0], cuts))
		good := (len(cuts) > 0 && nAll > 0 && nCut == 0) || (direct && nAll == 0)
		c.check(good, "slice-elem:"+d.label, d.fn.Pos(), d.label+": for a slice, every accepting path passes the test that the element kind is Uint8",
			d.label+" accepts slices on a path that does not pass a test of the element kind against Uint8: a []int parameter or result passes setup and then panics (or is misread) at call time")
	}

	// ---- TO
	basicOf := map[string]string{"Int": "int", "Int8": "int8", "Int16": "int16", "Int32": "int32", "Int64": "int64", "Uint": "uint", "Uint8": "uint8", "Uint16": "uint16", "Uint32": "uint32", "Uint64": "uint64", "Float32": "float32"}
	for _, kn := range docKinds {
		ctx := mk(toFn, "Type", kinds[kn])
		calls := map[string]int{}
		var floatConvs, intConvs []string
		byteConv := false
		ctx.walk(func(cx *specCtx, in ssa.Instruction) {
			switch x := in.(type) {
			case *ssa.Call:
				if f := x.Call.StaticCallee(); f != nil && f.Pkg == ipkg {
					calls[f.Name()]++
				}
			case *ssa.Convert:
				from, fok := x.X.Type().Underlying().(*types.Basic)
				to, tok := x.Type().Underlying().(*types.Basic)
				switch {
				case fok && tok && from.Info()&types.IsFloat != 0:
					floatConvs = append(floatConvs, to.Name())
				case fok && tok && from.Info()&types.IsInteger != 0 && to.Info()&types.IsInteger != 0:
					intConvs = append(intConvs, from.Name()+">"+to.Name())
				case fok && from.Info()&types.IsString != 0 && !tok:
					if sl, ok := x.Type().Underlying().(*types.Slice); ok {
						if eb, ok := sl.Elem().Underlying().(*types.Basic); ok && eb.Kind() == types.Uint8 {
							byteConv = true
						}
					}
				}
			}
		})
		sort.Strings(floatConvs)
		sort.Strings(intConvs)
		fc := strings.Join(floatConvs, ",")
		okVal := false
		switch {
		case kn == "Bool":
			okVal = calls["boolean"] > 0 && calls["num"] == 0 && calls["toString"] == 0 && fc == ""
		case kn == "String":
			okVal = calls["toString"] > 0 && calls["num"] == 0 && calls["boolean"] == 0 && !byteConv
		case kn == "Slice":
			okVal = calls["toString"] > 0 && calls["num"] == 0 && calls["boolean"] == 0 && byteConv
		case kn == "Float64":
			okVal = calls["num"] > 0 && calls["boolean"] == 0 && calls["toString"] == 0 && fc == ""
		case kn == "Float32":
			okVal = calls["num"] > 0 && calls["boolean"] == 0 && calls["toString"] == 0 && fc == "float32"
		case strings.HasPrefix(kn, "Int"):
			okVal = calls["num"] > 0 && calls["boolean"] == 0 && calls["toString"] == 0 && fc == basicOf[kn] && len(intConvs) == 0
		case strings.HasPrefix(kn, "Uint"):
			okVal = calls["num"] > 0 && calls["boolean"] == 0 && calls["toString"] == 0 && fc == "int64" && strings.Join(intConvs, ",") == "int64>"+basicOf[kn]
		}
		// every value handed back was converted to the declared type
		okConv := true
		var origin func(cx *specCtx, v ssa.Value, depth int) bool
		origin = func(cx *specCtx, v ssa.Value, depth int) bool {
			if depth > 6 {
				return false
			}
			switch x := v.(type) {
			case *ssa.Phi:
				for i, e := range x.Edges {
					if cx.reached()[x.Block().Preds[i]] && !origin(cx, e, depth+1) {
						return false
					}
				}
				return true
			case *ssa.Call:
				if fo := calleeObj(x); fo != nil && funcFullName(fo) == "(reflect.Value).Convert" {
					return len(x.Call.Args) == 2 && cx.isSubject(x.Call.Args[1])
				}
				if sub := cx.enter(x); sub != nil {
					rs := sub.returns()
					for _, r := range rs {
						if len(r.Results) != 1 || !origin(sub, r.Results[0], depth+1) {
							return false
						}
					}
					return len(rs) > 0
				}
			}
			return false
		}
		for _, r := range ctx.returns() {
			if len(r.Results) != 1 || !origin(ctx, r.Results[0], 0) {
				okConv = false
			}
		}
		key := "to:" + kn
		switch {
		case !okVal:
			c.bad(key, toFn.Pos(), "toNative, evaluated for kind %s, does not build its value from the documented AWK conversion at this kind's width (truth value via boolean() for bool, num() truncated to %s, toString for strings): it calls %v and converts the number to [%s] %v, e.g. a numeric string \"0\" must arrive as false / 0", kn, basicOf[kn], callNames(calls), fc, intConvs)
		case !okConv:
			c.bad(key, toFn.Pos(), "toNative, evaluated for kind %s, hands reflect.Call a value that did not pass through Convert(typ): a parameter of a named type with this kind (type T %s) passes validation but panics in reflect.Call", kn, strings.ToLower(kn))
		default:
			c.ok(key, toFn.Pos(), "for kind %s: documented conversion at the kind's width, converted to the declared type", kn)
		}
	}

	// ---- FROM
	accessor := func(kind string) string {
		switch {
		case kind == "Bool":
			return "Bool"
		case strings.HasPrefix(kind, "Int"):
			return "Int"
		case strings.HasPrefix(kind, "Uint"):
			return "Uint"
		case strings.HasPrefix(kind, "Float"):
			return "Float"
		case kind == "String":
			return "String"
		case kind == "Slice":
			return "Bytes"
		}
		return "?"
	}
	for _, kn := range docKinds {
		ctx := mk(fromFn, "Value", kinds[kn])
		got := map[string]bool{}
		ctx.walk(func(cx *specCtx, in ssa.Instruction) {
			call, ok := in.(*ssa.Call)
			if !ok {
				return
			}
			name, recv, _ := methodCall(call)
			if name == "" || recv == nil || !cx.isSubject(recv) || !typeIsReflect(recv.Type(), "Value") {
				return
			}
			switch name {
			case "Kind", "Type":
			default:
				got[name] = true
			}
		})
		var gs []string
		for g := range got {
			gs = append(gs, g)
		}
		sort.Strings(gs)
		acc := accessor(kn)
		c.check(len(gs) == 1 && gs[0] == acc, "from:"+kn, fromFn.Pos(), fmt.Sprintf("a result of kind %s is read with %s()", kn, acc),
			fmt.Sprintf("fromNative, evaluated for kind %s, reads the result with %v (expected exactly %s()): e.g. unsigned results above 2^63 come back negative, or reflect panics on the wrong accessor", kn, gs, acc))
	}

	// ---- CHECK
	kindCheck(c, checkFn, validFn, ipkg, kinds, kindVals, kindName)
}

func callNames(m map[string]int) []string {
	var out []string
	for k := range m {
		out = append(out, k)
	}
	sort.Strings(out)
	return out
}

func hasParamNamed(fn *ssa.Function, pkgPath, name string) bool {
	for _, p := range fn.Params {
		if isNamed(p.Type(), pkgPath, name) {
			return true
		}
	}
	return false
}

// errNonNil: 1 the error value is never nil, 0 it is nil, -1 unknown.
func errNonNil(v ssa.Value, depth int) int {
	if depth > 5 {
		return -1
	}
	switch x := v.(type) {
	case *ssa.Const:
		if x.Value == nil {
			return 0
		}
	case *ssa.MakeInterface:
		return 1
	case *ssa.Call:
		if f := x.Call.StaticCallee(); f != nil {
			switch f.Name() {
			case "newError", "Errorf", "New":
				return 1
			}
		}
	case *ssa.Phi:
		res := -2
		for _, e := range x.Edges {
			r := errNonNil(e, depth+1)
			if res == -2 {
				res = r
			} else if res != r {
				return -1
			}
		}
		if res >= 0 {
			return res
		}
	}
	return -1
}

func kindCheck(c *Ctx, checkFn, validFn *ssa.Function, ipkg *ssa.Package, kinds map[string]int64, kindVals []int64, kindName map[int64]string) {
	isTypeOf := func(v ssa.Value) bool {
		call, ok := v.(*ssa.Call)
		if !ok {
			return false
		}
		fo := calleeObj(call)
		return fo != nil && funcFullName(fo) == "reflect.TypeOf"
	}
	mk := func(k int64, ints map[string]int64) *specCtx {
		return &specCtx{fn: checkFn, sp: &spec{kind: k, pkg: ipkg, ints: ints, extraSubj: isTypeOf}, bind: map[*ssa.Parameter]specBind{}}
	}
	// nil / non-nil returns reachable in a set of blocks
	classify := func(blocks map[*ssa.BasicBlock]bool) (nils, nonNils, unknown int) {
		for _, r := range returnsIn(blocks) {
			if len(r.Results) != 1 {
				unknown++
				continue
			}
			switch errNonNil(r.Results[0], 0) {
			case 0:
				nils++
			case 1:
				nonNils++
			default:
				unknown++
			}
		}
		return
	}
	funcK := kinds["Func"]
	// FUNC: every kind but Func is rejected
	{
		var accepted []string
		undec := false
		for _, k := range kindVals {
			if k == funcK {
				continue
			}
			nils, _, unk := classify(mk(k, map[string]int64{}).reached())
			if nils > 0 {
				accepted = append(accepted, kindName[k])
			}
			if unk > 0 {
				undec = true
			}
		}
		nilsF, _, _ := classify(mk(funcK, map[string]int64{"NumOut": 0}).reached())
		switch {
		case undec:
			c.undecided("check:func", checkFn.Pos(), "checkNativeFunc returns an error value the rule cannot classify as nil or non-nil")
		default:
			c.check(len(accepted) == 0 && nilsF > 0, "check:func", checkFn.Pos(), "evaluated per kind: only values of kind Func can pass", fmt.Sprintf("checkNativeFunc does not reject values whose kind is not Func (accepted kinds: %v; a function passes: %v): reflection on the signature then panics", accepted, nilsF > 0))
		}
	}
	// RESULTS: 0..2 results pass, more are rejected
	{
		good := true
		detail := ""
		for n := int64(0); n <= 6; n++ {
			nils, _, unk := classify(mk(funcK, map[string]int64{"NumOut": n}).reached())
			if unk > 0 {
				good = false
				detail = "unclassifiable error value"
			}
			if n <= 2 && nils == 0 {
				good = false
				detail = fmt.Sprintf("a function with %d results cannot pass", n)
			}
			if n > 2 && nils > 0 {
				good = false
				detail = fmt.Sprintf("a function with %d results passes", n)
			}
		}
		c.check(good, "check:results", checkFn.Pos(), "evaluated for 0..6 results: 0, 1 or 2 results are accepted, anything else is an error", "checkNativeFunc does not restrict the number of results to 0..2 with an error otherwise ("+detail+"): callNative panics on the unexpected count")
	}
	// guards: a test whose passing edge every successful return must take
	type guardTest struct {
		blk  *ssa.BasicBlock
		pass int
	}
	condOf := func(b *ssa.BasicBlock) (ssa.Value, int, bool) {
		if len(b.Instrs) == 0 {
			return nil, 0, false
		}
		iff, ok := b.Instrs[len(b.Instrs)-1].(*ssa.If)
		if !ok {
			return nil, 0, false
		}
		cond, sense := iff.Cond, 0
		for {
			if u, ok := cond.(*ssa.UnOp); ok && u.Op == token.NOT {
				cond, sense = u.X, 1-sense
				continue
			}
			break
		}
		return cond, sense, true
	}
	// origin of a reflect.Type value: which subject queries it comes from ("In", "Out0", "Out1", "Elem(In)")
	var origins func(ctx *specCtx, v ssa.Value, depth int, out map[string]bool)
	origins = func(ctx *specCtx, v ssa.Value, depth int, out map[string]bool) {
		if depth > 6 {
			return
		}
		switch x := v.(type) {
		case *ssa.Phi:
			for _, e := range x.Edges {
				origins(ctx, e, depth+1, out)
			}
		case *ssa.Call:
			name, recv, args := methodCall(x)
			switch {
			case name == "In" && recv != nil && ctx.isSubject(recv):
				out["In"] = true
			case name == "Out" && recv != nil && ctx.isSubject(recv) && len(args) == 1:
				if n, ok := ctx.intOf(args[0]); ok {
					out["Out"+itoa(n)] = true
				} else {
					out["Out?"] = true
				}
			case name == "Elem" && recv != nil:
				sub := map[string]bool{}
				origins(ctx, recv, depth+1, sub)
				for k := range sub {
					out["Elem("+k+")"] = true
				}
			}
		}
	}
	findGuards := func(ctx *specCtx, match func(cond ssa.Value) (passOnTrue bool, ok bool)) []guardTest {
		var gs []guardTest
		for b := range ctx.reached() {
			cond, sense, ok := condOf(b)
			if !ok {
				continue
			}
			if pt, ok := match(cond); ok {
				pass := sense
				if !pt {
					pass = 1 - sense
				}
				gs = append(gs, guardTest{b, pass})
			}
		}
		return gs
	}
	validCall := func(ctx *specCtx, origin string) func(ssa.Value) (bool, bool) {
		return func(cond ssa.Value) (bool, bool) {
			call, ok := cond.(*ssa.Call)
			if !ok || call.Call.StaticCallee() != validFn || len(call.Call.Args) != 1 {
				return false, false
			}
			o := map[string]bool{}
			origins(ctx, call.Call.Args[0], 0, o)
			return true, o[origin]
		}
	}
	mustPass := func(key string, ctx *specCtx, gs []guardTest, from *ssa.BasicBlock, okMsg, badMsg string) {
		if len(gs) == 0 {
			c.bad(key, checkFn.Pos(), "%s (no such test is reachable)", badMsg)
			return
		}
		var cuts []cutEdge
		for _, g := range gs {
			cuts = append(cuts, cutEdge{g.blk, g.pass})
		}
		nils, _, unk := classify(ctx.reachable(from, cuts))
		c.check(nils == 0 && unk == 0, key, checkFn.Pos(), okMsg, badMsg)
	}
	entry := checkFn.Blocks[0]
	// RESULT-TYPES
	{
		for _, n := range []int64{1, 2} {
			ctx := mk(funcK, map[string]int64{"NumOut": n, "NumIn": 0})
			mustPass("check:result-types:"+itoa(n)+":value", ctx, findGuards(ctx, validCall(ctx, "Out0")), entry,
				"with "+itoa(n)+" results, success is only reachable through validNativeType(Out(0))",
				"checkNativeFunc lets a function with "+itoa(n)+" result(s) pass without its value result having been accepted by validNativeType: fromNative panics on the unexpected kind")
		}
		ctx := mk(funcK, map[string]int64{"NumOut": 2, "NumIn": 0})
		errT := func(cond ssa.Value) (bool, bool) {
			bo, ok := cond.(*ssa.BinOp)
			if !ok || (bo.Op != token.EQL && bo.Op != token.NEQ) {
				return false, false
			}
			for _, pair := range [][2]ssa.Value{{bo.X, bo.Y}, {bo.Y, bo.X}} {
				o := map[string]bool{}
				origins(ctx, pair[0], 0, o)
				if !o["Out1"] {
					continue
				}
				if ld, ok := pair[1].(*ssa.UnOp); ok && ld.Op == token.MUL {
					if g, ok := ld.X.(*ssa.Global); ok && g.Name() == "errorType" {
						return bo.Op == token.EQL, true
					}
				}
			}
			return false, false
		}
		mustPass("check:result-types:2:error", ctx, findGuards(ctx, errT), entry,
			"with 2 results, success is only reachable when Out(1) is exactly the error type",
			"checkNativeFunc lets a two-result function pass whose second result is not exactly error: callNative's unchecked assertion to error panics")
	}
	// KEYWORD
	{
		ctx := mk(funcK, map[string]int64{"NumOut": 0, "NumIn": 0})
		illegal := int64(-1)
		if lp := c.pkg("lexer"); lp != nil {
			if k, ok := lp.Types.Scope().Lookup("ILLEGAL").(*types.Const); ok {
				illegal, _ = constant.Int64Val(k.Val())
			}
		}
		kw := func(cond ssa.Value) (bool, bool) {
			bo, ok := cond.(*ssa.BinOp)
			if !ok || (bo.Op != token.EQL && bo.Op != token.NEQ) {
				return false, false
			}
			for _, pair := range [][2]ssa.Value{{bo.X, bo.Y}, {bo.Y, bo.X}} {
				call, ok := pair[0].(*ssa.Call)
				if !ok {
					continue
				}
				fo := calleeObj(call)
				if fo == nil || fo.Name() != "KeywordToken" || len(call.Call.Args) != 1 {
					continue
				}
				if _, isParam := call.Call.Args[0].(*ssa.Parameter); !isParam {
					continue
				}
				if n, ok := ctx.intOf(pair[1]); ok && n == illegal {
					return bo.Op == token.EQL, true
				}
			}
			return false, false
		}
		mustPass("check:keyword", ctx, findGuards(ctx, kw), entry,
			"success is only reachable when KeywordToken(name) is ILLEGAL: every keyword is rejected as a native function name",
			"checkNativeFunc does not reject every keyword (success is reachable without KeywordToken(name) == ILLEGAL): a native function named like a statement keyword or builtin passes setup but can never be called (or shadows syntax)")
	}
	// PARAMS
	{
		ctx := mk(funcK, map[string]int64{"NumOut": 0})
		gs := findGuards(ctx, func(cond ssa.Value) (bool, bool) {
			call, ok := cond.(*ssa.Call)
			if !ok || call.Call.StaticCallee() != validFn || len(call.Call.Args) != 1 {
				return false, false
			}
			o := map[string]bool{}
			origins(ctx, call.Call.Args[0], 0, o)
			return true, o["In"] && o["Elem(In)"]
		})
		// from the block that fetches a parameter type, success (and the next iteration) needs the passing edge
		var inBlk *ssa.BasicBlock
		for b := range ctx.reached() {
			for _, in := range b.Instrs {
				if call, ok := in.(*ssa.Call); ok {
					if name, recv, _ := methodCall(call); name == "In" && recv != nil && ctx.isSubject(recv) {
						inBlk = b
					}
				}
			}
		}
		if inBlk == nil {
			c.bad("check:params", checkFn.Pos(), "checkNativeFunc never looks at a parameter type (no In(i) on the function type)")
		} else {
			mustPass("check:params", ctx, gs, inBlk,
				"from the point a parameter type is fetched, success is only reachable through validNativeType of that type (or of its element type for the variadic tail)",
				"checkNativeFunc does not validate every parameter type (the parameter itself, and the element type for the variadic tail, through validNativeType): toNative panics on the unexpected kind")
			// the element type is only taken under IsVariadic()
			elemOK := false
			for b := range ctx.reached() {
				for _, in := range b.Instrs {
					call, ok := in.(*ssa.Call)
					if !ok {
						continue
					}
					if name, recv, _ := methodCall(call); name == "Elem" && recv != nil {
						o := map[string]bool{}
						origins(ctx, recv, 0, o)
						if !o["In"] {
							continue
						}
						for d := range ctx.reached() {
							cond, sense, ok := condOf(d)
							if !ok {
								continue
							}
							if nm, r, _ := methodCall(cond); nm == "IsVariadic" && r != nil && ctx.isSubject(r) && d != b && edgeDominates(d, sense, b) {
								elemOK = true
							}
						}
					}
				}
			}
			c.check(elemOK, "check:params:variadic", checkFn.Pos(), "the element type is validated only under IsVariadic()", "checkNativeFunc takes a parameter's element type without IsVariadic() holding: a plain slice parameter is validated by its element type")
		}
	}
}
