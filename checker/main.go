// sverif: repository-specific static analyser for the goawk properties C01..C20.
//
//	sverif check -p C12 [-tier quick|thorough] [-repo /repo] [-verif /verif]
//	sverif all [-tier quick] [-repo /repo]          (developer convenience: all properties, one load)
//	sverif rule -r R-SANDBOX [-repo /repo]          (developer: print every obligation of one rule)
//	sverif replay <violations/X.json>               (re-decide one recorded obligation)
package main

import (
	"encoding/json"
	"flag"
	"fmt"
	"os"
	"sort"
	"strings"
	"strconv"
	"time"
)

func main() {
	if len(os.Args) < 2 {
		fmt.Fprintln(os.Stderr, "usage: sverif check|all|rule|replay ...")
		os.Exit(2)
	}
	start := time.Now()
	cmd := os.Args[1]
	fs := flag.NewFlagSet(cmd, flag.ExitOnError)
	prop := fs.String("p", "", "property id")
	ruleName := fs.String("r", "", "rule name")
	tier := fs.String("tier", "", "quick|thorough")
	repo := fs.String("repo", "/repo", "repository root")
	verif := fs.String("verif", "/verif", "verif root (evidence, known findings, violations)")
	verbose := fs.Bool("v", false, "print every obligation")
	fs.Parse(os.Args[2:])
	if *tier == "" {
		*tier = os.Getenv("VERIF_TIER")
	}
	if *tier != "thorough" {
		*tier = "quick"
	}
	seed, _ := strconv.Atoi(os.Getenv("VERIF_SEED"))

	switch cmd {
	case "check":
		p := properties[*prop]
		if p == nil {
			fmt.Fprintf(os.Stderr, "unknown property %q\n", *prop)
			os.Exit(2)
		}
		known, err := loadKnown(*verif + "/known_findings.json")
		if err != nil {
			fmt.Println("cannot read known findings:", err)
			os.Exit(2)
		}
		c, err := load(*repo)
		if err != nil {
			// a tree that does not load/type-check cannot be decided: fail, never pass
			fmt.Printf("load failed: %v\n", err)
			writeLoadFailure(*verif, p, *tier, seed, err, start)
			fmt.Printf("VIOLATION property=%s replay=%s/violations/%s-load.json\n", p.ID, *verif, p.ID)
			os.Exit(1)
		}
		c.Tier = *tier
		code := checkProperty(c, *verif, p, known, seed, start)
		if code == 0 && *tier == "thorough" {
			code = thoroughExtras(c, *verif, p, known, seed, start)
		}
		os.Exit(code)
	case "all":
		known, err := loadKnown(*verif + "/known_findings.json")
		if err != nil {
			fmt.Println(err)
			os.Exit(2)
		}
		c, err := load(*repo)
		if err != nil {
			fmt.Println("load failed:", err)
			os.Exit(1)
		}
		c.Tier = *tier
		var ids []string
		for id := range properties {
			ids = append(ids, id)
		}
		sort.Strings(ids)
		code := 0
		for _, id := range ids {
			if checkProperty(c, *verif, properties[id], known, seed, time.Now()) != 0 {
				code = 1
			}
		}
		os.Exit(code)
	case "rule":
		c, err := load(*repo)
		if err != nil {
			fmt.Println("load failed:", err)
			os.Exit(1)
		}
		c.Tier = *tier
		r := rules[*ruleName]
		if r == nil {
			fmt.Println("unknown rule; have:")
			var ns []string
			for n := range rules {
				ns = append(ns, n)
			}
			sort.Strings(ns)
			for _, n := range ns {
				fmt.Println(" ", n)
			}
			os.Exit(2)
		}
		obs := runRule(c, r)
		code := 0
		for _, o := range obs {
			if o.verdict != Discharged || *verbose {
				fmt.Printf("%-10s %s [%s] %s: %s\n", o.Verdict, o.Rule, o.Key, o.Pos, o.Detail)
			}
			if o.verdict != Discharged {
				code = 1
			}
		}
		fmt.Printf("%d obligations (%.1fs)\n", len(obs), time.Since(start).Seconds())
		os.Exit(code)
	case "props":
		// the rule list of every property, one line each (used by tools/props_of.py)
		var ids []string
		for id := range properties {
			ids = append(ids, id)
		}
		sort.Strings(ids)
		for _, id := range ids {
			fmt.Printf("%s: %s\n", id, strings.Join(properties[id].Rules, " "))
		}
		return
	case "classes":
		// prints, per rule, the clause classes that produce obligations on the tree at -repo (the reference for
		// expected_classes.json; regenerate on the clean tree only)
		c, err := load(*repo)
		if err != nil {
			fmt.Println("load failed:", err)
			os.Exit(1)
		}
		c.Tier = *tier
		out := map[string][]string{}
		var names []string
		for n := range rules {
			names = append(names, n)
		}
		sort.Strings(names)
		for _, n := range names {
			set := map[string]bool{}
			for _, o := range runRule(c, rules[n]) {
				cl := keyClass(o.Key)
				switch cl {
				case "census", "anchor", "checker-panic", "clause-missing", "model":
					continue
				}
				set[cl] = true
			}
			var cls []string
			for k := range set {
				cls = append(cls, k)
			}
			sort.Strings(cls)
			out[n] = cls
		}
		b, _ := json.MarshalIndent(out, "", " ")
		fmt.Println(string(b))
		os.Exit(0)
	case "replay":
		if fs.NArg() < 1 {
			fmt.Println("usage: sverif replay <file>")
			os.Exit(2)
		}
		b, err := os.ReadFile(fs.Arg(0))
		if err != nil {
			fmt.Println(err)
			os.Exit(2)
		}
		var rf replayFile
		if err := json.Unmarshal(b, &rf); err != nil {
			fmt.Println(err)
			os.Exit(2)
		}
		if rf.Rule == "load" {
			if _, err := load(*repo); err != nil {
				fmt.Println("still failing to load:", err)
				fmt.Printf("VIOLATION property=%s replay=%s\n", rf.Property, fs.Arg(0))
				os.Exit(1)
			}
			fmt.Println("loads now")
			os.Exit(0)
		}
		c, err := load(*repo)
		if err != nil {
			fmt.Println("load failed:", err)
			os.Exit(1)
		}
		c.Tier = *tier
		r := rules[rf.Rule]
		if r == nil {
			fmt.Println("unknown rule", rf.Rule)
			os.Exit(2)
		}
		fmt.Printf("rule %s: %s\n", r.Name, r.Doc)
		for _, o := range runRule(c, r) {
			if o.Key == rf.Key {
				fmt.Printf("%s: %s %s [%s]: %s\n", o.Pos, o.Verdict, o.Rule, o.Key, o.Detail)
				if o.verdict != Discharged {
					fmt.Printf("VIOLATION property=%s replay=%s\n", rf.Property, fs.Arg(0))
					os.Exit(1)
				}
				os.Exit(0)
			}
		}
		fmt.Printf("obligation %s/%s no longer exists in %s\n", rf.Rule, rf.Key, *repo)
		os.Exit(0)
	default:
		fmt.Fprintln(os.Stderr, "unknown command", cmd)
		os.Exit(2)
	}
}

func writeLoadFailure(verif string, p *Property, tier string, seed int, err error, start time.Time) {
	os.MkdirAll(verif+"/violations", 0o755)
	os.MkdirAll(verif+"/evidence", 0o755)
	rf := replayFile{Property: p.ID, Rule: "load", Key: "load", Detail: err.Error(), Verdict: "undecided"}
	b, _ := json.MarshalIndent(rf, "", " ")
	os.WriteFile(fmt.Sprintf("%s/violations/%s-load.json", verif, p.ID), b, 0o644)
	ev := Evidence{PropertyID: p.ID, Tier: tier, Seed: seed, Level: "other",
		Coverage: map[string]interface{}{"explanation": "the repository did not load/type-check, nothing could be decided: " + err.Error(),
			"obligations": 1, "discharged": 0, "evaluations": 1, "distinct_nontrivial": 0, "samples": []interface{}{err.Error()}},
		WallS: time.Since(start).Seconds(), Violations: 1}
	b, _ = json.MarshalIndent(ev, "", " ")
	os.WriteFile(fmt.Sprintf("%s/evidence/%s.json", verif, p.ID), b, 0o644)
}

// thoroughExtras is filled in by thorough.go.
var thoroughExtras = func(c *Ctx, verif string, p *Property, known *KnownFile, seed int, start time.Time) int { return 0 }
