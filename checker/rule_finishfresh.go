package main

import (
	"go/token"

	"golang.org/x/tools/go/ssa"
)

// finishFresh (part of R-INPUT, C11; also C01): every piece of compiled code (BEGIN, each pattern, each body, END, each
// function) is produced by a compiler value of its own: between two calls of finish() on the same compiler variable
// the variable is assigned a new compiler (or is a variable of a loop body, made anew per iteration). A compiler
// finished twice hands out its first code again as the beginning of the second: the stop pattern of a range would
// begin with the code of its start pattern and re-evaluate it on every record.
func finishFresh(c *Ctx) {
	n := 0
	for _, fn := range c.srcFuncs("internal/compiler") {
		fn := fn
		type fsite struct {
			call *ssa.Call
			recv ssa.Value
		}
		var sites []fsite
		allInstrs(fn, func(in ssa.Instruction) {
			if call, ok := in.(*ssa.Call); ok {
				if cal := call.Call.StaticCallee(); cal != nil && cal.Name() == "finish" && len(call.Call.Args) > 0 {
					sites = append(sites, fsite{call, call.Call.Args[0]})
				}
			}
		})
		for i, s := range sites {
			alloc, isAlloc := s.recv.(*ssa.Alloc)
			if !isAlloc {
				continue // a compiler handed in by the caller: the caller's finish discipline applies
			}
			n++
			key := "compile:fresh-per-finish:" + fnKey(fn)
			if i > 0 {
				key += "#" + itoa(int64(i+1))
			}
			// forward from just after the call: another finish on the same variable before a reset?
			resets := func(in ssa.Instruction) bool {
				if in == ssa.Instruction(alloc) {
					return true // the variable is made anew (a declaration inside a loop body)
				}
				if st, ok := in.(*ssa.Store); ok && st.Addr == ssa.Value(alloc) {
					return true // c = compiler{...}
				}
				return false
			}
			bad := token.NoPos
			seen := map[*ssa.BasicBlock]bool{}
			var walkBlock func(b *ssa.BasicBlock, from int)
			walkBlock = func(b *ssa.BasicBlock, from int) {
				for k := from; k < len(b.Instrs); k++ {
					in := b.Instrs[k]
					if resets(in) {
						return
					}
					if call, ok := in.(*ssa.Call); ok {
						if cal := call.Call.StaticCallee(); cal != nil && cal.Name() == "finish" && len(call.Call.Args) > 0 && call.Call.Args[0] == s.recv {
							if bad == token.NoPos {
								bad = posOr(call.Pos(), fn.Pos())
							}
							return
						}
					}
				}
				for _, sc := range b.Succs {
					if !seen[sc] {
						seen[sc] = true
						walkBlock(sc, 0)
					}
				}
			}
			idx := 0
			for k, in := range s.call.Block().Instrs {
				if in == ssa.Instruction(s.call) {
					idx = k + 1
				}
			}
			walkBlock(s.call.Block(), idx)
			c.check(bad == token.NoPos, key, posOr(bad, s.call.Pos()), "a compiler is assigned anew before it is finished again",
				fnKey(fn)+" calls finish() on a compiler variable that can have been finished before without being assigned a new compiler in between: the second piece of code starts with the first (the stop pattern of a range re-evaluates the start pattern on every record and leaves its value on the stack)")
		}
	}
	c.atLeast("finish() calls on local compilers", n, 5)
}
