package main

// Abstract interpretation of the VM's handler clauses: for every opcode the
// number of operands it consumes, and its net stack effect as a linear form over
// its operands (possibly guarded by operand conditions).

import (
	"fmt"
	"go/ast"
	"go/constant"
	"go/token"
	"go/types"
	"golang.org/x/tools/go/ssa"
	"sort"
	"strings"

	"golang.org/x/tools/go/packages"
)

// Lit is a condition on an operand (or, on the compiler side, on an expression).
type Lit struct {
	Atom string
	Rel  string // == != < <= > >= notin
	Val  int64
	Set  []int64 // for notin
	L    *Lin    // for "lin>=0" facts
}

func (l Lit) String() string {
	if l.Rel == "notin" {
		return fmt.Sprintf("%s notin %v", l.Atom, l.Set)
	}
	return fmt.Sprintf("%s%s%d", l.Atom, l.Rel, l.Val)
}

func (l Lit) negate() Lit {
	n := l
	switch l.Rel {
	case "==":
		n.Rel = "!="
	case "!=":
		n.Rel = "=="
	case "<":
		n.Rel = ">="
	case ">=":
		n.Rel = "<"
	case ">":
		n.Rel = "<="
	case "<=":
		n.Rel = ">"
	}
	return n
}

// evalLit: truth of the literal when the atom has the constant value v.
func (l Lit) evalConst(v int64) bool {
	switch l.Rel {
	case "==":
		return v == l.Val
	case "!=":
		return v != l.Val
	case "<":
		return v < l.Val
	case "<=":
		return v <= l.Val
	case ">":
		return v > l.Val
	case ">=":
		return v >= l.Val
	case "notin":
		for _, s := range l.Set {
			if s == v {
				return false
			}
		}
		return true
	}
	return false
}

// contradicts: can l and m not hold together (same atom)? Conservative: only obvious cases.
func (l Lit) contradicts(m Lit) bool {
	if l.Atom != m.Atom {
		return false
	}
	if l.Rel == "==" {
		return !m.evalConst(l.Val)
	}
	if m.Rel == "==" {
		return !l.evalConst(m.Val)
	}
	if l.Rel == "notin" && m.Rel == "notin" {
		return false
	}
	// x>0 vs x<=0 etc.
	n := l.negate()
	return n.Rel == m.Rel && n.Val == m.Val
}

type absKind int

const (
	akNone absKind = iota
	akOperand
	akLin
	akFunc   // compiled Function record selected by operand: f := ...Functions[opK]
	akSPCopy // local copy of p.sp (stack helpers)
	akStruct // a struct value whose fields have known abstract values (state handed from one helper to another)
	akCodeSlice // a slice of the operands that follow the instruction: code[ip : ip+n]
)

type absVal struct {
	kind absKind
	op   int    // operand index (akOperand)
	lin  Lin    // akLin / akSPCopy (delta relative to entry sp)
	atom string // akFunc: index atom
	flds map[string]absVal // akStruct
	base int // akCodeSlice: operand index of its first element
}

type vmState struct {
	sp     Lin
	ip     int
	ipVar  Lin // variadic part of ip advance (e.g. 2*op1)
	jumps  map[int]bool
	reads  map[int]bool
	tail   map[int]bool // reads inside a counted loop, relative to the loop's ip base
	guards []Lit
	env    map[types.Object]absVal
	tailSlice bool // the operands after the static ones were taken as a slice of the code
}

func (s *vmState) clone() *vmState {
	n := &vmState{sp: s.sp.clone(), ip: s.ip, ipVar: s.ipVar.clone(), jumps: map[int]bool{}, reads: map[int]bool{}, tail: map[int]bool{}, env: map[types.Object]absVal{}, tailSlice: s.tailSlice}
	for k, v := range s.jumps {
		n.jumps[k] = v
	}
	for k, v := range s.reads {
		n.reads[k] = v
	}
	for k, v := range s.tail {
		n.tail[k] = v
	}
	n.guards = append([]Lit(nil), s.guards...)
	for k, v := range s.env {
		n.env[k] = v
	}
	return n
}

type vmEffect struct {
	Guards []Lit
	SP     Lin
}

type vmSummary struct {
	Name      string
	Pos       token.Pos
	NOper     int  // static operand count
	VarOper   Lin  // variadic operand count (CallUser: 2*op1)
	ReadsOK   bool // operands 0..NOper-1 all read
	Effects   []vmEffect
	Leaves    bool // has sentinel/error exits
	HasNormal bool
	Jumps     []int
	Issues    []string
}

func (s *vmSummary) effectString() string {
	var parts []string
	for _, e := range s.Effects {
		g := ""
		if len(e.Guards) > 0 {
			var gs []string
			for _, l := range e.Guards {
				gs = append(gs, l.String())
			}
			g = "[" + strings.Join(gs, ",") + "] "
		}
		parts = append(parts, g+e.SP.String())
	}
	return strings.Join(parts, " | ")
}

type vmModel struct {
	c        *Ctx
	pkg      *packages.Package
	helpers  map[string]Lin             // stack helper name -> delta (over "arg0")
	affect   map[string]bool            // functions that (transitively) change sp
	ops      map[string]*vmSummary      // opcode const name -> summary
	builtins map[string]*vmSummary      // BuiltinX -> summary of callBuiltin case
	clauses  map[string]*ast.CaseClause // execute clauses by opcode name
	callees  map[string][]*vmPathResult // memo for helper summaries keyed by func+binding
	issues   []string
	codeObj  types.Object // the `code` parameter of execute
	ipObj    types.Object
	opVals   map[string]int64 // opcode const name -> value
}

type vmPathResult struct {
	st   *vmState
	kind int // 0 normal, 1 leaves
}

func constInt(info *types.Info, e ast.Expr) (int64, bool) {
	tv, ok := info.Types[e]
	if !ok || tv.Value == nil {
		return 0, false
	}
	if tv.Value.Kind() != constant.Int {
		return 0, false
	}
	v, ok := constant.Int64Val(tv.Value)
	return v, ok
}

func stripConv(info *types.Info, e ast.Expr) ast.Expr {
	for {
		switch x := e.(type) {
		case *ast.ParenExpr:
			e = x.X
			continue
		case *ast.CallExpr:
			if tv, ok := info.Types[x.Fun]; ok && tv.IsType() && len(x.Args) == 1 {
				e = x.Args[0]
				continue
			}
			// opcodeInt(x) is an identity with a range check
			if id, ok := x.Fun.(*ast.Ident); ok && id.Name == "opcodeInt" && len(x.Args) == 1 {
				e = x.Args[0]
				continue
			}
		}
		return e
	}
}

// buildVMModel analyses interp.execute, callBuiltin, getline and the stack helpers.
func buildVMModel(c *Ctx) *vmModel {
	if m, ok := c.memo["vmmodel"].(*vmModel); ok {
		return m
	}
	m := &vmModel{c: c, pkg: c.pkg("interp"), helpers: map[string]Lin{}, affect: map[string]bool{}, ops: map[string]*vmSummary{},
		builtins: map[string]*vmSummary{}, clauses: map[string]*ast.CaseClause{}, callees: map[string][]*vmPathResult{}, opVals: map[string]int64{}}
	c.memo["vmmodel"] = m
	for _, k := range c.constsOfType("internal/compiler", "Opcode") {
		v, _ := constant.Int64Val(k.Val())
		m.opVals[k.Name()] = v
	}
	// stack helpers = methods of interp that store to field sp (other than resetCore)
	writes := interpFieldWrites(c)
	for _, w := range writes["sp"] {
		if w.fn.Name() == "resetCore" || w.fn.Parent() != nil {
			continue
		}
		// a function that only ever stores the constant 0 into sp resets the machine: not a stack helper
		if k, ok := w.val.(*ssa.Const); ok && w.kind == "store" && k.Value != nil && k.Value.ExactString() == "0" {
			onlyZero := true
			for _, w2 := range writes["sp"] {
				if w2.fn == w.fn {
					if k2, ok := w2.val.(*ssa.Const); !ok || w2.kind != "store" || k2.Value == nil || k2.Value.ExactString() != "0" {
						onlyZero = false
					}
				}
			}
			if onlyZero {
				continue
			}
		}
		name := w.fn.Name()
		if _, done := m.helpers[name]; done {
			continue
		}
		fd, _ := w.fn.Syntax().(*ast.FuncDecl)
		if fd == nil {
			m.issues = append(m.issues, "stack helper "+name+" has no declaration")
			continue
		}
		d, err := stackHelperDelta(c, m.pkg.TypesInfo, fd)
		if err != "" {
			// the older syntactic summary, kept as a second opinion for shapes the interpreter declines
			if d2, err2 := m.helperDelta(fd); err2 == "" {
				d, err = d2, ""
			}
		}
		if err != "" {
			m.issues = append(m.issues, "stack helper "+name+": "+err)
			continue
		}
		m.helpers[name] = d
	}
	// functions that change sp transitively (by direct calls to methods on *interp)
	calls := map[string]map[string]bool{}
	for _, fd := range c.allFuncDecls("interp") {
		if fd.Body == nil {
			continue
		}
		n := fd.Name.Name
		ast.Inspect(fd.Body, func(x ast.Node) bool {
			if call, ok := x.(*ast.CallExpr); ok {
				if f := calleeOf(m.pkg.TypesInfo, call); f != nil && f.Pkg() == m.pkg.Types {
					if calls[n] == nil {
						calls[n] = map[string]bool{}
					}
					calls[n][f.Name()] = true
				}
			}
			return true
		})
	}
	for h := range m.helpers {
		m.affect[h] = true
	}
	for changed := true; changed; {
		changed = false
		for f, cs := range calls {
			if m.affect[f] {
				continue
			}
			for g := range cs {
				if m.affect[g] {
					m.affect[f] = true
					changed = true
				}
			}
		}
	}
	// execute's clauses
	fd := c.funcDecl("interp", "interp.execute")
	if fd == nil {
		m.issues = append(m.issues, "interp.execute not found")
		return m
	}
	info := m.pkg.TypesInfo
	for _, f := range fd.Type.Params.List {
		for _, nm := range f.Names {
			if sl, ok := info.TypeOf(f.Type).(*types.Slice); ok && isNamed(sl.Elem(), modPath+"/internal/compiler", "Opcode") {
				m.codeObj = info.Defs[nm]
			}
		}
	}
	var sw *ast.SwitchStmt
	ast.Inspect(fd.Body, func(n ast.Node) bool {
		if s, ok := n.(*ast.SwitchStmt); ok && sw == nil && s.Tag != nil && isNamed(info.TypeOf(s.Tag), modPath+"/internal/compiler", "Opcode") {
			sw = s
			return false
		}
		if fs, ok := n.(*ast.ForStmt); ok && m.ipObj == nil {
			if as, ok := fs.Init.(*ast.AssignStmt); ok && len(as.Lhs) == 1 {
				if id, ok := as.Lhs[0].(*ast.Ident); ok {
					m.ipObj = info.Defs[id]
				}
			}
		}
		return true
	})
	if sw == nil || m.codeObj == nil || m.ipObj == nil {
		m.issues = append(m.issues, "dispatch switch / code / ip of interp.execute not recognised")
		return m
	}
	for _, s := range sw.Body.List {
		cc := s.(*ast.CaseClause)
		for _, e := range cc.List {
			name := constName(info, e)
			if name == "" {
				m.issues = append(m.issues, "non-constant case in dispatch switch at "+c.relPos(e.Pos()))
				continue
			}
			m.clauses[name] = cc
		}
	}
	for name, cc := range m.clauses {
		m.ops[name] = m.summarise(name, cc.Body, cc.Pos(), nil)
	}
	return m
}

// helperDelta: net change of p.sp made by a stack helper, as a Lin over "arg0".
func (m *vmModel) helperDelta(fd *ast.FuncDecl) (Lin, string) {
	info := m.pkg.TypesInfo
	params := map[types.Object]int{}
	i := 0
	for _, f := range fd.Type.Params.List {
		for _, nm := range f.Names {
			params[info.Defs[nm]] = i
			i++
		}
	}
	isSP := func(e ast.Expr) bool {
		se, ok := e.(*ast.SelectorExpr)
		return ok && se.Sel.Name == "sp" && isInterp(info.TypeOf(se.X))
	}
	var evalInt func(e ast.Expr) (Lin, bool)
	evalInt = func(e ast.Expr) (Lin, bool) {
		e = stripConv(info, e)
		if v, ok := constInt(info, e); ok {
			return linC(int(v)), true
		}
		if id, ok := e.(*ast.Ident); ok {
			if k, ok := params[info.Uses[id]]; ok {
				return linAtom(fmt.Sprintf("arg%d", k)), true
			}
		}
		return Lin{}, false
	}
	delta := linC(0)
	local := map[types.Object]Lin{} // local copies of sp: value relative to entry sp
	var walk func(list []ast.Stmt, mult Lin, counted bool) string
	walk = func(list []ast.Stmt, mult Lin, counted bool) string {
		for _, s := range list {
			switch s := s.(type) {
			case *ast.IncDecStmt:
				d := 1
				if s.Tok == token.DEC {
					d = -1
				}
				if isSP(s.X) {
					if counted {
						return "p.sp changed inside a loop"
					}
					delta = delta.Add(linC(d))
				} else if id, ok := s.X.(*ast.Ident); ok {
					if v, ok := local[info.Uses[id]]; ok {
						if counted {
							local[info.Uses[id]] = v.Add(mult.Scale(d))
						} else {
							local[info.Uses[id]] = v.Add(linC(d))
						}
					}
				}
			case *ast.AssignStmt:
				if len(s.Lhs) == 1 && len(s.Rhs) == 1 {
					if isSP(s.Lhs[0]) {
						if counted {
							return "p.sp assigned inside a loop"
						}
						switch s.Tok {
						case token.ADD_ASSIGN, token.SUB_ASSIGN:
							v, ok := evalInt(s.Rhs[0])
							if !ok {
								return "p.sp changed by a non-evaluable amount"
							}
							if s.Tok == token.SUB_ASSIGN {
								v = v.Scale(-1)
							}
							delta = delta.Add(v)
						case token.ASSIGN:
							id, ok := s.Rhs[0].(*ast.Ident)
							if !ok {
								return "p.sp assigned from a non-variable"
							}
							v, ok := local[info.Uses[id]]
							if !ok {
								return "p.sp assigned from an untracked variable"
							}
							delta = v
						}
						continue
					}
					if id, ok := s.Lhs[0].(*ast.Ident); ok && isSP(s.Rhs[0]) {
						o := info.Defs[id]
						if o == nil {
							o = info.Uses[id]
						}
						local[o] = delta
					}
				}
			case *ast.ForStmt:
				// counted loop: for i := 0; i < N; i++
				trip, ok := countedTrip(info, s, evalInt)
				if ok {
					if r := walk(s.Body.List, trip, true); r != "" {
						return r
					}
				} else {
					// body must not touch sp
					touch := false
					ast.Inspect(s.Body, func(n ast.Node) bool {
						if e, ok := n.(ast.Expr); ok && isSP(e) {
							if _, isSel := n.(*ast.SelectorExpr); isSel {
								// reading is fine; writing is checked below
							}
						}
						switch x := n.(type) {
						case *ast.IncDecStmt:
							if isSP(x.X) {
								touch = true
							}
						case *ast.AssignStmt:
							for _, l := range x.Lhs {
								if isSP(l) {
									touch = true
								}
							}
						}
						return true
					})
					if touch {
						return "p.sp changed inside an uncounted loop"
					}
				}
			case *ast.IfStmt:
				// push: `if sp >= len(p.stack) { p.stack = append(...) }` must not touch sp
				bad := false
				ast.Inspect(s, func(n ast.Node) bool {
					switch x := n.(type) {
					case *ast.IncDecStmt:
						if isSP(x.X) {
							bad = true
						}
					case *ast.AssignStmt:
						for _, l := range x.Lhs {
							if isSP(l) {
								bad = true
							}
						}
					}
					return true
				})
				if bad {
					return "p.sp changed conditionally"
				}
			}
		}
		return ""
	}
	if r := walk(fd.Body.List, linC(1), false); r != "" {
		return Lin{}, r
	}
	return delta, ""
}

// countedTrip recognises `for i := A; i < B; i++` and returns B-A.
func countedTrip(info *types.Info, s *ast.ForStmt, evalInt func(ast.Expr) (Lin, bool)) (Lin, bool) {
	init, ok := s.Init.(*ast.AssignStmt)
	if !ok || len(init.Lhs) != 1 || len(init.Rhs) != 1 {
		return Lin{}, false
	}
	iv, ok := init.Lhs[0].(*ast.Ident)
	if !ok {
		return Lin{}, false
	}
	a, ok := evalInt(init.Rhs[0])
	if !ok {
		return Lin{}, false
	}
	cond, ok := s.Cond.(*ast.BinaryExpr)
	if !ok || cond.Op != token.LSS {
		return Lin{}, false
	}
	if id, ok := cond.X.(*ast.Ident); !ok || id.Name != iv.Name {
		return Lin{}, false
	}
	b, ok := evalInt(cond.Y)
	if !ok {
		return Lin{}, false
	}
	post, ok := s.Post.(*ast.IncDecStmt)
	if !ok || post.Tok != token.INC {
		return Lin{}, false
	}
	if id, ok := post.X.(*ast.Ident); !ok || id.Name != iv.Name {
		return Lin{}, false
	}
	return b.Sub(a), true
}

// ---------------------------------------------------------------- clause walker

type vmWalker struct {
	m       *vmModel
	fnMode  bool // analysing a helper function: `return ..., nil` is a normal exit
	name    string
	results []*vmPathResult
	issues  []string
	depth   int
	// a helper that is handed the code and the instruction pointer and returns the new instruction pointer: its
	// parameters stand for execute's code and ip while it is walked
	codeOv, ipOv types.Object
	ipResult     int // index of the result that carries the instruction pointer back
}

func (w *vmWalker) iobj() types.Object {
	if w.ipOv != nil {
		return w.ipOv
	}
	return w.m.ipObj
}

func (w *vmWalker) cobj() types.Object {
	if w.ipOv != nil {
		return w.codeOv // nil when the helper is not given the code
	}
	return w.m.codeObj
}

func (w *vmWalker) issue(format string, args ...interface{}) {
	w.issues = append(w.issues, fmt.Sprintf(format, args...))
}

// summarise walks a clause body; bind gives abstract values for outer objects (callee params).
func (m *vmModel) summarise(name string, body []ast.Stmt, pos token.Pos, bind map[types.Object]absVal) *vmSummary {
	w := &vmWalker{m: m, name: name}
	st := &vmState{sp: linC(0), ipVar: linC(0), jumps: map[int]bool{}, reads: map[int]bool{}, tail: map[int]bool{}, env: map[types.Object]absVal{}}
	for k, v := range bind {
		st.env[k] = v
	}
	out := w.stmts(body, []*vmState{st})
	for _, s := range out {
		w.results = append(w.results, &vmPathResult{st: s, kind: 0})
	}
	sum := &vmSummary{Name: name, Pos: pos, VarOper: linC(0), ReadsOK: true, Issues: w.issues}
	first := true
	jumps := map[int]bool{}
	for _, r := range w.results {
		if r.kind != 0 {
			sum.Leaves = true
			continue
		}
		sum.HasNormal = true
		if first {
			sum.NOper, sum.VarOper = r.st.ip, r.st.ipVar
			first = false
		} else if sum.NOper != r.st.ip || !sum.VarOper.Eq(r.st.ipVar) {
			sum.Issues = append(sum.Issues, fmt.Sprintf("fall-through paths advance ip by different static amounts (%d vs %d)", sum.NOper, r.st.ip))
		}
		for j := range r.st.jumps {
			jumps[j] = true
		}
	}
	if !sum.HasNormal {
		// all paths leave: operand count from the leaving paths (ip advance before leaving)
		for _, r := range w.results {
			if first {
				sum.NOper, sum.VarOper = r.st.ip, r.st.ipVar
				first = false
			}
		}
	}
	// reads
	allReads := map[int]bool{}
	for _, r := range w.results {
		for k := range r.st.reads {
			allReads[k] = true
		}
	}
	for k := 0; k < sum.NOper; k++ {
		if !allReads[k] {
			sum.ReadsOK = false
			sum.Issues = append(sum.Issues, fmt.Sprintf("operand %d is skipped by the ip advance but never read", k))
		}
	}
	for k := range allReads {
		if k >= sum.NOper {
			sum.ReadsOK = false
			sum.Issues = append(sum.Issues, fmt.Sprintf("operand %d is read but the ip advance (%d) does not skip it", k, sum.NOper))
		}
	}
	for j := range jumps {
		sum.Jumps = append(sum.Jumps, j)
	}
	sort.Ints(sum.Jumps)
	// merge normal paths by effect
	for _, r := range w.results {
		if r.kind != 0 {
			continue
		}
		merged := false
		for i := range sum.Effects {
			if sum.Effects[i].SP.Eq(r.st.sp) && sameGuards(sum.Effects[i].Guards, r.st.guards) {
				merged = true
				break
			}
		}
		if !merged {
			sum.Effects = append(sum.Effects, vmEffect{Guards: operandGuards(r.st.guards), SP: r.st.sp})
		}
	}
	sum.Effects = simplifyEffects(sum.Effects)
	// distinct effects must be separated by contradictory operand guards
	for i := 0; i < len(sum.Effects); i++ {
		for j := i + 1; j < len(sum.Effects); j++ {
			if sum.Effects[i].SP.Eq(sum.Effects[j].SP) {
				continue
			}
			if !guardsContradict(sum.Effects[i].Guards, sum.Effects[j].Guards) {
				sum.Issues = append(sum.Issues, fmt.Sprintf("stack effect depends on run-time data, not only on operands: %s vs %s", sum.Effects[i].SP, sum.Effects[j].SP))
			}
		}
	}
	return sum
}

func operandGuards(g []Lit) []Lit {
	var o []Lit
	seen := map[string]bool{}
	for _, l := range g {
		if !seen[l.String()] {
			seen[l.String()] = true
			o = append(o, l)
		}
	}
	sort.Slice(o, func(i, j int) bool { return o[i].String() < o[j].String() })
	return o
}

func sameGuards(a, b []Lit) bool {
	a, b = operandGuards(a), operandGuards(b)
	if len(a) != len(b) {
		return false
	}
	for i := range a {
		if a[i].String() != b[i].String() {
			return false
		}
	}
	return true
}

func guardsContradict(a, b []Lit) bool {
	for _, x := range a {
		for _, y := range b {
			if x.contradicts(y) {
				return true
			}
		}
	}
	return false
}

// simplifyEffects: drop guards when every path has the same effect; merge equal effects keeping common guards.
func simplifyEffects(es []vmEffect) []vmEffect {
	if len(es) == 0 {
		return es
	}
	same := true
	for _, e := range es[1:] {
		if !e.SP.Eq(es[0].SP) {
			same = false
		}
	}
	if same {
		return []vmEffect{{SP: es[0].SP}}
	}
	// otherwise keep every distinct (guards, effect) pair
	var out []vmEffect
	for _, e := range es {
		dup := false
		for _, o := range out {
			if o.SP.Eq(e.SP) && sameGuards(o.Guards, e.Guards) {
				dup = true
			}
		}
		if !dup {
			out = append(out, e)
		}
	}
	return out
}

func (w *vmWalker) stmts(list []ast.Stmt, in []*vmState) []*vmState {
	cur := in
	for _, s := range list {
		if len(cur) == 0 {
			return nil
		}
		cur = w.stmt(s, cur)
	}
	return cur
}

func (w *vmWalker) leave(sts []*vmState) {
	for _, s := range sts {
		w.results = append(w.results, &vmPathResult{st: s, kind: 1})
	}
}

func (w *vmWalker) stmt(s ast.Stmt, in []*vmState) []*vmState {
	info := w.m.pkg.TypesInfo
	switch s := s.(type) {
	case nil, *ast.EmptyStmt:
		return in
	case *ast.BlockStmt:
		return w.stmts(s.List, in)
	case *ast.DeclStmt:
		return in
	case *ast.ExprStmt:
		return w.effects(s.X, in)
	case *ast.IncDecStmt:
		if id, ok := s.X.(*ast.Ident); ok && info.Uses[id] == w.iobj() {
			for _, st := range in {
				st.ip++
			}
			return in
		}
		if w.isSP(s.X) {
			d := 1
			if s.Tok == token.DEC {
				d = -1
			}
			for _, st := range in {
				st.sp = st.sp.Add(linC(d))
			}
		}
		return in
	case *ast.AssignStmt:
		return w.assign(s, in)
	case *ast.ReturnStmt:
		cur := in
		for _, r := range s.Results {
			cur = w.effects(r, cur)
		}
		if w.ipOv != nil && len(s.Results) > w.ipResult {
			if id, ok := s.Results[w.ipResult].(*ast.Ident); !ok || info.Uses[id] != w.ipOv {
				w.issue("helper %s returns an instruction pointer that is not its own ip variable at %s", w.name, w.m.c.relPos(s.Pos()))
			}
		}
		normal := w.fnMode && len(s.Results) > 0 && isIdent(s.Results[len(s.Results)-1], "nil")
		if w.fnMode && w.ipOv != nil && len(s.Results) == 1 {
			normal = true // a helper that returns only the instruction pointer
		}
		// `return helper(...)` forwarding a helper's results (the last of which is an error): the path may end
		// normally or with an error - it counts as both
		forwards := false
		if w.fnMode && len(s.Results) == 1 {
			if call, ok := s.Results[0].(*ast.CallExpr); ok {
				if tv, ok := w.m.pkg.TypesInfo.Types[call]; ok {
					if tup, ok := tv.Type.(*types.Tuple); ok && tup.Len() > 0 && types.TypeString(tup.At(tup.Len()-1).Type(), nil) == "error" {
						forwards = true
					}
					if types.TypeString(tv.Type, nil) == "error" {
						forwards = true
						// a constructor of errors (every return of it is a non-nil error) is not a forwarded result
						if f := calleeOf(w.m.pkg.TypesInfo, call); f != nil {
							if sf := w.m.c.Prog.FuncValue(f); sf != nil && len(sf.Blocks) > 0 {
								always := true
								for _, b := range sf.Blocks {
									if r, ok := b.Instrs[len(b.Instrs)-1].(*ssa.Return); ok {
										if len(r.Results) != 1 || errNonNil(r.Results[0], 0) != 1 {
											always = false
										}
									}
								}
								if always {
									forwards = false
								}
							} else if f.Pkg() != nil && (f.Pkg().Path() == "errors" || f.Pkg().Path() == "fmt") {
								forwards = false
							}
						}
					}
				}
			}
		}
		if forwards {
			var keep []*vmState
			for _, st := range cur {
				keep = append(keep, st.clone())
				w.results = append(w.results, &vmPathResult{st: st, kind: 0})
			}
			w.leave(keep)
		} else if normal {
			for _, st := range cur {
				w.results = append(w.results, &vmPathResult{st: st, kind: 0})
			}
		} else {
			w.leave(cur)
		}
		return nil
	case *ast.IfStmt:
		cur := in
		if s.Init != nil {
			cur = w.stmt(s.Init, cur)
		}
		cur = w.effects(s.Cond, cur)
		var out []*vmState
		for _, st := range cur {
			lit, isOp := w.operandLit(s.Cond, st)
			if !isOp {
				// a boolean combination of tests on operands: one state per disjunct of the condition (and of its
				// negation), so that `a != X && a != Y` splits like the switch it replaces
				tDNF, ok1 := w.condDNF(s.Cond, false, st)
				fDNF, ok2 := w.condDNF(s.Cond, true, st)
				if ok1 && ok2 && len(tDNF) <= 8 && len(fDNF) <= 8 {
					for _, conj := range tDNF {
						t := st.clone()
						t.guards = append(t.guards, conj...)
						out = append(out, w.stmts(s.Body.List, []*vmState{t})...)
					}
					for _, conj := range fDNF {
						e := st.clone()
						e.guards = append(e.guards, conj...)
						if s.Else != nil {
							out = append(out, w.stmt(s.Else, []*vmState{e})...)
						} else {
							out = append(out, e)
						}
					}
					continue
				}
			}
			t, e := st.clone(), st
			if isOp {
				t.guards = append(t.guards, lit)
				e.guards = append(e.guards, lit.negate())
			}
			out = append(out, w.stmts(s.Body.List, []*vmState{t})...)
			if s.Else != nil {
				out = append(out, w.stmt(s.Else, []*vmState{e})...)
			} else {
				out = append(out, e)
			}
		}
		return out
	case *ast.SwitchStmt:
		cur := in
		if s.Init != nil {
			cur = w.stmt(s.Init, cur)
		}
		if s.Tag != nil {
			cur = w.effects(s.Tag, cur)
		}
		var out []*vmState
		for _, st := range cur {
			opAtom := ""
			if s.Tag != nil {
				if v, ok := w.absOf(s.Tag, st); ok && v.kind == akOperand {
					opAtom = fmt.Sprintf("op%d", v.op)
				} else if ok && v.kind == akLin && len(v.lin.T) == 1 && v.lin.C == 0 {
					for a := range v.lin.T {
						opAtom = a
					}
				}
			}
			var seen []int64
			hasDefault := false
			for _, cs := range s.Body.List {
				cc := cs.(*ast.CaseClause)
				if cc.List == nil {
					hasDefault = true
				}
			}
			for _, cs := range s.Body.List {
				cc := cs.(*ast.CaseClause)
				if cc.List == nil {
					continue
				}
				b := st.clone()
				if opAtom != "" && len(cc.List) == 1 {
					if v, ok := constInt(info, cc.List[0]); ok {
						b.guards = append(b.guards, Lit{Atom: opAtom, Rel: "==", Val: v})
						seen = append(seen, v)
					}
				} else if opAtom != "" {
					// several values share the clause: one path per value, each knowing which it is
					allConst := true
					var vals []int64
					for _, e := range cc.List {
						if v, ok := constInt(info, e); ok {
							vals = append(vals, v)
						} else {
							allConst = false
						}
					}
					seen = append(seen, vals...)
					if allConst && len(vals) > 0 {
						for _, v := range vals {
							bv := st.clone()
							bv.guards = append(bv.guards, Lit{Atom: opAtom, Rel: "==", Val: v})
							out = append(out, w.stmts(cc.Body, []*vmState{bv})...)
						}
						continue
					}
				}
				out = append(out, w.stmts(cc.Body, []*vmState{b})...)
			}
			// default / no match
			d := st.clone()
			if opAtom != "" {
				d.guards = append(d.guards, Lit{Atom: opAtom, Rel: "notin", Set: seen})
			}
			if hasDefault {
				for _, cs := range s.Body.List {
					cc := cs.(*ast.CaseClause)
					if cc.List == nil {
						out = append(out, w.stmts(cc.Body, []*vmState{d})...)
					}
				}
			} else {
				out = append(out, d)
			}
		}
		return out
	case *ast.TypeSwitchStmt:
		cur := in
		if s.Init != nil {
			cur = w.stmt(s.Init, cur)
		}
		var out []*vmState
		hasDefault := false
		for _, st := range cur {
			for _, cs := range s.Body.List {
				cc := cs.(*ast.CaseClause)
				if cc.List == nil {
					hasDefault = true
				}
				out = append(out, w.stmts(cc.Body, []*vmState{st.clone()})...)
			}
			if !hasDefault {
				out = append(out, st)
			}
		}
		return out
	case *ast.ForStmt:
		return w.loop(s.Init, s.Cond, s.Post, s.Body, s, in)
	case *ast.RangeStmt:
		cur := w.effects(s.X, in)
		return w.loop(nil, nil, nil, s.Body, nil, cur)
	case *ast.BranchStmt:
		// break/continue end the body path normally (handled by loop); at clause level `break` leaves the switch
		return in
	case *ast.LabeledStmt:
		return w.stmt(s.Stmt, in)
	case *ast.DeferStmt, *ast.GoStmt:
		w.issue("defer/go inside a handler at %s", w.m.c.relPos(s.Pos()))
		return in
	}
	w.issue("statement %T not understood at %s", s, w.m.c.relPos(s.Pos()))
	return in
}

func (w *vmWalker) isSP(e ast.Expr) bool {
	se, ok := e.(*ast.SelectorExpr)
	return ok && se.Sel.Name == "sp" && isInterp(w.m.pkg.TypesInfo.TypeOf(se.X))
}

// loop: analyse the body once from a zero state; multiply by the trip count if it has an effect.
func (w *vmWalker) loop(init ast.Stmt, cond ast.Expr, post ast.Stmt, body *ast.BlockStmt, fs *ast.ForStmt, in []*vmState) []*vmState {
	info := w.m.pkg.TypesInfo
	var out []*vmState
	for _, st := range in {
		if init != nil {
			r := w.stmt(init, []*vmState{st})
			if len(r) != 1 {
				w.issue("loop init forks")
				continue
			}
			st = r[0]
		}
		probe := st.clone()
		probe.sp, probe.ip, probe.ipVar = linC(0), 0, linC(0)
		probe.reads = map[int]bool{}
		baseIP := st.ip
		sub := &vmWalker{m: w.m, name: w.name, depth: w.depth, fnMode: w.fnMode, codeOv: w.codeOv, ipOv: w.ipOv, ipResult: w.ipResult}
		res := sub.stmts(body.List, []*vmState{probe})
		w.issues = append(w.issues, sub.issues...)
		// paths leaving from inside the loop (return err etc.)
		for _, r := range sub.results {
			ls := st.clone()
			if r.kind == 0 {
				// `return nil` inside a loop of a helper: treat as normal exit with the effect so far
				ls.sp = ls.sp.Add(r.st.sp)
				w.results = append(w.results, &vmPathResult{st: ls, kind: 0})
			} else {
				w.results = append(w.results, &vmPathResult{st: ls, kind: 1})
			}
		}
		if len(res) == 0 {
			// body never falls through (always returns): loop contributes nothing to the fall-through path
			out = append(out, st)
			continue
		}
		dsp, dip := res[0].sp, res[0].ip
		agree := true
		for _, r := range res[1:] {
			if !r.sp.Eq(dsp) || r.ip != dip {
				agree = false
			}
		}
		if !agree {
			w.issue("loop body paths disagree on their stack/ip effect at %s", w.m.c.relPos(body.Pos()))
			out = append(out, st)
			continue
		}
		if dsp.IsZero() && dip == 0 {
			// guards learnt inside the body do not survive the loop
			out = append(out, st)
			continue
		}
		if fs == nil {
			w.issue("range loop with a stack/ip effect at %s", w.m.c.relPos(body.Pos()))
			out = append(out, st)
			continue
		}
		trip, ok := countedTrip(info, fs, func(e ast.Expr) (Lin, bool) { return w.evalLin(e, st) })
		if !ok || len(trip.T) != 1 || trip.C != 0 {
			w.issue("loop with a stack/ip effect whose trip count is not a single operand at %s", w.m.c.relPos(body.Pos()))
			out = append(out, st)
			continue
		}
		var atom string
		for a := range trip.T {
			atom = a
		}
		n := st
		if !dsp.IsConst() {
			w.issue("loop body stack effect is not constant at %s", w.m.c.relPos(body.Pos()))
		}
		n.sp = n.sp.Add(linC(dsp.C).MulAtom(atom))
		n.ipVar = n.ipVar.Add(linC(dip).MulAtom(atom))
		// tail reads: relative to the loop base
		for k := range res[0].reads {
			n.tail[k] = true
		}
		for k := 0; k < dip; k++ {
			if !res[0].reads[k] {
				w.issue("variadic operand %d of each loop iteration is skipped but never read", k)
			}
		}
		_ = baseIP
		out = append(out, n)
	}
	return out
}

// assign handles := and = including operand binding and ip/sp arithmetic.
func (w *vmWalker) assign(s *ast.AssignStmt, in []*vmState) []*vmState {
	info := w.m.pkg.TypesInfo
	cur := in
	// ip, ... = p.helper(code, ip, ...): the helper consumes operands and hands back the new instruction pointer
	if len(s.Rhs) == 1 && s.Tok == token.ASSIGN {
		if call, ok := s.Rhs[0].(*ast.CallExpr); ok {
			if f := calleeOf(info, call); f != nil && f.Pkg() == w.m.pkg.Types && w.iobj() != nil {
				ai, ci, li := -1, -1, -1
				for i, a := range call.Args {
					if id, ok := a.(*ast.Ident); ok {
						if info.Uses[id] == w.iobj() {
							ai = i
						} else if w.cobj() != nil && info.Uses[id] == w.cobj() {
							ci = i
						}
					}
				}
				for i, l := range s.Lhs {
					if id, ok := l.(*ast.Ident); ok && info.Uses[id] == w.iobj() {
						li = i
					}
				}
				if ai >= 0 && li >= 0 {
					return w.inlineIP(f, call, ai, ci, li, cur)
				}
			}
		}
	}
	for _, r := range s.Rhs {
		cur = w.effects(r, cur)
	}
	// ip += e / ip = e
	if len(s.Lhs) == 1 {
		if id, ok := s.Lhs[0].(*ast.Ident); ok && info.Uses[id] == w.iobj() && w.iobj() != nil {
			for _, st := range cur {
				v, ok := w.evalLin(s.Rhs[0], st)
				if !ok || s.Tok != token.ADD_ASSIGN {
					w.issue("ip changed in a way that is not `ip += <const or operand>` at %s", w.m.c.relPos(s.Pos()))
					continue
				}
				st.ip += v.C
				for a := range v.T {
					var k int
					if _, err := fmt.Sscanf(a, "op%d", &k); err == nil {
						if v.T[a] > 1 && st.tailSlice {
							// the operands that follow were taken as a slice code[ip:ip+c*opK] and are skipped in one step:
							// a variadic tail of c operands per unit of operand k
							st.ipVar = st.ipVar.Add(linC(v.T[a]).MulAtom(a))
							for i := 0; i < v.T[a]; i++ {
								st.tail[i] = true
							}
							continue
						}
						st.jumps[k] = true
						if v.T[a] != 1 {
							w.issue("ip advanced by %d times operand %d at %s (a jump adds its offset once)", v.T[a], k, w.m.c.relPos(s.Pos()))
						}
					} else {
						w.issue("ip advanced by %s", a)
					}
				}
			}
			return cur
		}
		if w.isSP(s.Lhs[0]) {
			for _, st := range cur {
				switch s.Tok {
				case token.ADD_ASSIGN, token.SUB_ASSIGN:
					v, ok := w.evalLin(s.Rhs[0], st)
					if !ok {
						w.issue("p.sp changed by a non-evaluable amount at %s", w.m.c.relPos(s.Pos()))
						continue
					}
					if s.Tok == token.SUB_ASSIGN {
						v = v.Scale(-1)
					}
					st.sp = st.sp.Add(v)
				default:
					w.issue("p.sp assigned directly at %s", w.m.c.relPos(s.Pos()))
				}
			}
			return cur
		}
	}
	// bindings
	if len(s.Lhs) == len(s.Rhs) {
		for i, l := range s.Lhs {
			id, ok := l.(*ast.Ident)
			if !ok {
				continue
			}
			o := info.Defs[id]
			if o == nil {
				o = info.Uses[id]
			}
			if o == nil {
				continue
			}
			for _, st := range cur {
				if v, ok := w.absOf(s.Rhs[i], st); ok {
					st.env[o] = v
					if v.kind == akCodeSlice {
						st.tailSlice = true
					}
				} else {
					delete(st.env, o)
				}
			}
		}
	}
	return cur
}

// absOf: abstract value of an expression (operand read, linear int, function record).
func (w *vmWalker) absOf(e ast.Expr, st *vmState) (absVal, bool) {
	info := w.m.pkg.TypesInfo
	e = stripConv(info, e)
	switch x := e.(type) {
	case *ast.Ident:
		if v, ok := st.env[info.Uses[x]]; ok {
			return v, true
		}
	case *ast.IndexExpr:
		// code[ip+K]
		if id, ok := x.X.(*ast.Ident); ok && info.Uses[id] == w.cobj() && w.cobj() != nil {
			if k, ok := w.ipOffset(x.Index); ok {
				return absVal{kind: akOperand, op: st.ip + k}, true
			}
		}
		// ...Functions[opK]: an element of a slice of compiled function records selected by an operand (whatever the
		// field that holds the slice is called)
		isFuncs := false
		if se, ok := x.X.(*ast.SelectorExpr); ok && se.Sel.Name == "Functions" {
			isFuncs = true
		}
		if t := info.TypeOf(x.X); t != nil {
			if sl, ok := t.Underlying().(*types.Slice); ok && isNamed(sl.Elem(), modPath+"/internal/compiler", "Function") {
				isFuncs = true
			}
		}
		if isFuncs {
			if v, ok := w.absOf(x.Index, st); ok && v.kind == akOperand {
				return absVal{kind: akFunc, atom: fmt.Sprintf("op%d", v.op)}, true
			}
		}
		if id, ok := x.X.(*ast.Ident); ok {
			// p.functions alias not used today
			_ = id
		}
	case *ast.SelectorExpr:
		// f.NumScalars / f.NumArrays
		if id, ok := x.X.(*ast.Ident); ok {
			if v, ok := st.env[info.Uses[id]]; ok && v.kind == akFunc {
				return absVal{kind: akLin, lin: linAtom(x.Sel.Name + "(" + v.atom + ")")}, true
			}
			if v, ok := st.env[info.Uses[id]]; ok && v.kind == akStruct {
				if fv, ok := v.flds[x.Sel.Name]; ok {
					return fv, true
				}
				return absVal{}, false
			}
		}
	case *ast.CompositeLit:
		if _, ok := info.TypeOf(x).Underlying().(*types.Struct); ok {
			flds := map[string]absVal{}
			for _, el := range x.Elts {
				if kv, ok := el.(*ast.KeyValueExpr); ok {
					if k, ok := kv.Key.(*ast.Ident); ok {
						if fv, ok := w.absOf(kv.Value, st); ok {
							flds[k.Name] = fv
						}
					}
				}
			}
			return absVal{kind: akStruct, flds: flds}, true
		}
	case *ast.SliceExpr:
		// code[ip : ip+n]: the operands that follow
		if id, ok := x.X.(*ast.Ident); ok && w.cobj() != nil && info.Uses[id] == w.cobj() && x.Low != nil {
			if k, ok := w.ipOffset(x.Low); ok {
				v := absVal{kind: akCodeSlice, base: st.ip + k}
				// its length, when the upper bound is ip + <linear form over operands>
				if be, ok := x.High.(*ast.BinaryExpr); ok && be.Op == token.ADD {
					if hid, ok := be.X.(*ast.Ident); ok && info.Uses[hid] == w.iobj() {
						if l, ok := w.evalLin(be.Y, st); ok {
							v.lin = l.Sub(linC(k))
						}
					}
				}
				return v, true
			}
		}
	case *ast.UnaryExpr:
		// &f: the address of a local that holds a compiled function record
		if x.Op == token.AND {
			if v, ok := w.absOf(x.X, st); ok && v.kind == akFunc {
				return v, true
			}
		}
	case *ast.CallExpr:
		// the result of a helper of the package that does not touch the stack: its return value, evaluated with the
		// arguments passed here (state captured in a struct and handed to a later helper)
		if f := calleeOf(info, x); f != nil && f.Pkg() == w.m.pkg.Types && !w.m.affect[f.Name()] && w.depth < 3 {
			if v, ok := w.pureResult(f, x, st); ok {
				return v, true
			}
		}
	}
	if l, ok := w.evalLin(e, st); ok {
		return absVal{kind: akLin, lin: l}, true
	}
	return absVal{}, false
}

func (w *vmWalker) ipOffset(e ast.Expr) (int, bool) {
	info := w.m.pkg.TypesInfo
	switch x := e.(type) {
	case *ast.Ident:
		if info.Uses[x] == w.iobj() {
			return 0, true
		}
	case *ast.BinaryExpr:
		if id, ok := x.X.(*ast.Ident); ok && info.Uses[id] == w.iobj() && x.Op == token.ADD {
			if v, ok := constInt(info, x.Y); ok {
				return int(v), true
			}
		}
	}
	return 0, false
}

// evalLin: integer expression as a linear form over operand atoms.
func (w *vmWalker) evalLin(e ast.Expr, st *vmState) (Lin, bool) {
	info := w.m.pkg.TypesInfo
	e = stripConv(info, e)
	if v, ok := constInt(info, e); ok {
		return linC(int(v)), true
	}
	switch x := e.(type) {
	case *ast.CallExpr:
		// len(<slice of the operands that follow>)
		if isIdent(x.Fun, "len") && len(x.Args) == 1 {
			if id, ok := x.Args[0].(*ast.Ident); ok {
				if v, ok := st.env[info.Uses[id]]; ok && v.kind == akCodeSlice && (len(v.lin.T) > 0 || v.lin.C != 0) {
					return v.lin, true
				}
			}
		}
	case *ast.Ident:
		if v, ok := st.env[info.Uses[x]]; ok {
			switch v.kind {
			case akOperand:
				return linAtom(fmt.Sprintf("op%d", v.op)), true
			case akLin:
				return v.lin, true
			}
		}
	case *ast.IndexExpr:
		if id, ok := x.X.(*ast.Ident); ok && info.Uses[id] == w.cobj() && w.cobj() != nil {
			if k, ok := w.ipOffset(x.Index); ok {
				return linAtom(fmt.Sprintf("op%d", st.ip+k)), true
			}
		}
	case *ast.SelectorExpr:
		if id, ok := x.X.(*ast.Ident); ok {
			if v, ok := st.env[info.Uses[id]]; ok && v.kind == akFunc {
				return linAtom(x.Sel.Name + "(" + v.atom + ")"), true
			}
			if v, ok := st.env[info.Uses[id]]; ok && v.kind == akStruct {
				if fv, ok := v.flds[x.Sel.Name]; ok {
					switch fv.kind {
					case akLin:
						return fv.lin, true
					case akOperand:
						return linAtom(fmt.Sprintf("op%d", fv.op)), true
					}
				}
			}
		}
	case *ast.BinaryExpr:
		a, ok1 := w.evalLin(x.X, st)
		b, ok2 := w.evalLin(x.Y, st)
		if ok1 && ok2 {
			switch x.Op {
			case token.ADD:
				return a.Add(b), true
			case token.SUB:
				return a.Sub(b), true
			case token.MUL:
				if a.IsConst() {
					return b.Scale(a.C), true
				}
				if b.IsConst() {
					return a.Scale(b.C), true
				}
			}
		}
	}
	return Lin{}, false
}

// operandLit: is cond a comparison of an operand with a constant?
func (w *vmWalker) operandLit(cond ast.Expr, st *vmState) (Lit, bool) {
	info := w.m.pkg.TypesInfo
	be, ok := stripParens(cond).(*ast.BinaryExpr)
	if !ok {
		return Lit{}, false
	}
	rel := be.Op.String()
	switch be.Op {
	case token.EQL, token.NEQ, token.LSS, token.LEQ, token.GTR, token.GEQ:
	default:
		return Lit{}, false
	}
	l, okl := w.evalLin(be.X, st)
	if !okl || l.C != 0 || len(l.T) != 1 {
		return Lit{}, false
	}
	v, okr := constInt(info, stripConv(info, be.Y))
	if !okr {
		return Lit{}, false
	}
	for a, k := range l.T {
		if k != 1 {
			return Lit{}, false
		}
		return Lit{Atom: a, Rel: rel, Val: v}, true
	}
	return Lit{}, false
}

// condDNF: the condition (or its negation) as a disjunction of conjunctions of operand literals.
func (w *vmWalker) condDNF(cond ast.Expr, neg bool, st *vmState) ([][]Lit, bool) {
	cond = stripParens(cond)
	if lit, ok := w.operandLit(cond, st); ok {
		if neg {
			lit = lit.negate()
		}
		return [][]Lit{{lit}}, true
	}
	switch x := cond.(type) {
	case *ast.UnaryExpr:
		if x.Op == token.NOT {
			return w.condDNF(x.X, !neg, st)
		}
	case *ast.BinaryExpr:
		if x.Op != token.LAND && x.Op != token.LOR {
			return nil, false
		}
		a, ok1 := w.condDNF(x.X, neg, st)
		b, ok2 := w.condDNF(x.Y, neg, st)
		if !ok1 || !ok2 {
			return nil, false
		}
		and := (x.Op == token.LAND) != neg
		if !and {
			return append(append([][]Lit{}, a...), b...), true
		}
		var out [][]Lit
		for _, ca := range a {
			for _, cb := range b {
				out = append(out, append(append([]Lit{}, ca...), cb...))
			}
		}
		return out, true
	}
	return nil, false
}

func stripParens(e ast.Expr) ast.Expr {
	for {
		p, ok := e.(*ast.ParenExpr)
		if !ok {
			return e
		}
		e = p.X
	}
}

// effects applies, in evaluation order, the stack effects of the calls inside e.
func (w *vmWalker) effects(e ast.Expr, in []*vmState) []*vmState {
	if e == nil {
		return in
	}
	info := w.m.pkg.TypesInfo
	cur := in
	switch x := e.(type) {
	case *ast.CallExpr:
		// receiver chain and arguments first
		if se, ok := x.Fun.(*ast.SelectorExpr); ok {
			cur = w.effects(se.X, cur)
		}
		for _, a := range x.Args {
			cur = w.effects(a, cur)
		}
		f := calleeOf(info, x)
		if f == nil || f.Pkg() != w.m.pkg.Types {
			// operand read inside a conversion is handled by absOf; record reads
			w.recordReads(x, cur)
			return cur
		}
		name := f.Name()
		if d, ok := w.m.helpers[name]; ok {
			for _, st := range cur {
				delta := d
				if len(d.T) > 0 {
					if len(x.Args) == 0 {
						w.issue("stack helper %s called without its size argument", name)
						continue
					}
					a, ok := w.evalLin(x.Args[0], st)
					if !ok {
						w.issue("argument of stack helper %s is not a linear form over operands at %s", name, w.m.c.relPos(x.Pos()))
						continue
					}
					delta = d.Subst(map[string]Lin{"arg0": a}, nil)
				}
				st.sp = st.sp.Add(delta)
			}
			return cur
		}
		if name == "execute" {
			return cur // nested execute of balanced code (assumed spec: statement code is net 0)
		}
		if w.m.affect[name] {
			return w.inline(f, x, cur)
		}
		return cur
	case *ast.BinaryExpr:
		cur = w.effects(x.X, cur)
		return w.effects(x.Y, cur)
	case *ast.UnaryExpr:
		return w.effects(x.X, cur)
	case *ast.ParenExpr:
		return w.effects(x.X, cur)
	case *ast.SelectorExpr:
		return w.effects(x.X, cur)
	case *ast.IndexExpr:
		w.recordReads(x, cur)
		cur = w.effects(x.X, cur)
		return w.effects(x.Index, cur)
	case *ast.SliceExpr:
		cur = w.effects(x.X, cur)
		cur = w.effects(x.Low, cur)
		return w.effects(x.High, cur)
	case *ast.StarExpr:
		return w.effects(x.X, cur)
	case *ast.TypeAssertExpr:
		return w.effects(x.X, cur)
	case *ast.CompositeLit:
		for _, el := range x.Elts {
			if kv, ok := el.(*ast.KeyValueExpr); ok {
				cur = w.effects(kv.Value, cur)
			} else {
				cur = w.effects(el, cur)
			}
		}
		return cur
	case *ast.FuncLit:
		return cur
	}
	return cur
}

func (w *vmWalker) recordReads(e ast.Expr, sts []*vmState) {
	info := w.m.pkg.TypesInfo
	ast.Inspect(e, func(n ast.Node) bool {
		ix, ok := n.(*ast.IndexExpr)
		if !ok {
			return true
		}
		if id, ok := ix.X.(*ast.Ident); ok && info.Uses[id] == w.cobj() && w.cobj() != nil {
			if k, ok := w.ipOffset(ix.Index); ok {
				for _, st := range sts {
					st.reads[st.ip+k] = true
				}
			} else {
				w.issue("code[] indexed by something other than ip+const at %s", w.m.c.relPos(ix.Pos()))
			}
		}
		return true
	})
}

// inline analyses a stack-affecting callee (callBuiltin, getline) with its parameters bound to the
// caller's abstract values, and continues each caller state with each of the callee's normal paths.
func (w *vmWalker) inline(f *types.Func, call *ast.CallExpr, in []*vmState) []*vmState {
	if w.depth > 3 {
		w.issue("call depth exceeded at %s", f.Name())
		return in
	}
	fd := w.m.c.funcDecl("interp", "interp."+f.Name())
	if fd == nil || fd.Body == nil {
		w.issue("no body for stack-affecting callee %s", f.Name())
		return in
	}
	info := w.m.pkg.TypesInfo
	var out []*vmState
	for _, st := range in {
		bind := map[types.Object]absVal{}
		i := 0
		for _, fl := range fd.Type.Params.List {
			for _, nm := range fl.Names {
				if i < len(call.Args) {
					if v, ok := w.absOf(call.Args[i], st); ok {
						bind[info.Defs[nm]] = v
					}
				}
				i++
			}
		}
		sub := &vmWalker{m: w.m, name: "fn:" + f.Name(), depth: w.depth + 1, fnMode: true}
		start := &vmState{sp: linC(0), ipVar: linC(0), jumps: map[int]bool{}, reads: map[int]bool{}, tail: map[int]bool{}, env: bind}
		res := sub.stmts(fd.Body.List, []*vmState{start})
		for _, r := range res {
			sub.results = append(sub.results, &vmPathResult{st: r, kind: 0})
		}
		w.issues = append(w.issues, sub.issues...)
		// merge callee normal paths by (guards, effect)
		type ge struct {
			g  []Lit
			sp Lin
		}
		var ges []ge
		for _, r := range sub.results {
			if r.kind != 0 {
				continue
			}
			dup := false
			for _, x := range ges {
				if x.sp.Eq(r.st.sp) && sameGuards(x.g, r.st.guards) {
					dup = true
				}
			}
			if !dup {
				ges = append(ges, ge{operandGuards(r.st.guards), r.st.sp})
			}
		}
		if len(ges) == 0 {
			// callee never returns normally
			w.results = append(w.results, &vmPathResult{st: st, kind: 1})
			continue
		}
		for _, x := range ges {
			n := st.clone()
			n.sp = n.sp.Add(x.sp)
			n.guards = append(n.guards, x.g...)
			out = append(out, n)
		}
	}
	return out
}

// inlineIP walks a helper that is handed the instruction pointer (and the code) and returns the new instruction
// pointer, with the helper's parameters standing for execute's ip and code: the operands it reads and skips are
// accounted to the opcode whose clause calls it.
func (w *vmWalker) inlineIP(f *types.Func, call *ast.CallExpr, ai, ci, li int, in []*vmState) []*vmState {
	if w.depth > 3 {
		w.issue("call depth exceeded at %s", f.Name())
		return in
	}
	name := f.Name()
	if sig, ok := f.Type().(*types.Signature); ok && sig.Recv() != nil {
		name = "interp." + name
	}
	fd := w.m.c.funcDecl("interp", name)
	if fd == nil || fd.Body == nil {
		w.issue("no body for callee %s that is handed the instruction pointer", f.Name())
		return in
	}
	info := w.m.pkg.TypesInfo
	var params []types.Object
	for _, fl := range fd.Type.Params.List {
		for _, nm := range fl.Names {
			params = append(params, info.Defs[nm])
		}
	}
	if ai >= len(params) || ci >= len(params) {
		w.issue("callee %s: parameters do not match the call", f.Name())
		return in
	}
	var out []*vmState
	for _, st := range in {
		bind := map[types.Object]absVal{}
		for i, po := range params {
			if i < len(call.Args) && i != ai && i != ci {
				if v, ok := w.absOf(call.Args[i], st); ok {
					bind[po] = v
				}
			}
		}
		sub := &vmWalker{m: w.m, name: "fn:" + f.Name(), depth: w.depth + 1, fnMode: true, ipOv: params[ai], ipResult: li}
		if ci >= 0 {
			sub.codeOv = params[ci]
		}
		start := st.clone()
		start.sp = linC(0)
		start.guards = nil
		start.env = bind
		res := sub.stmts(fd.Body.List, []*vmState{start})
		for _, r := range res {
			sub.results = append(sub.results, &vmPathResult{st: r, kind: 0})
		}
		w.issues = append(w.issues, sub.issues...)
		any := false
		for _, r := range sub.results {
			if r.kind != 0 {
				continue
			}
			dup := false
			for _, o := range out {
				if o.ip == r.st.ip && o.ipVar.Eq(r.st.ipVar) && o.sp.Eq(st.sp.Add(r.st.sp)) && sameGuards(o.guards, append(append([]Lit(nil), st.guards...), operandGuards(r.st.guards)...)) {
					dup = true
				}
			}
			any = true
			if dup {
				continue
			}
			n := r.st.clone()
			n.sp = st.sp.Add(r.st.sp)
			n.guards = append(append([]Lit(nil), st.guards...), operandGuards(r.st.guards)...)
			n.env = map[types.Object]absVal{}
			for k, v := range st.env {
				n.env[k] = v
			}
			out = append(out, n)
		}
		if !any {
			w.results = append(w.results, &vmPathResult{st: st, kind: 1})
		}
	}
	return out
}

// pureResult: the abstract value a helper that does not touch the stack returns, when all its return statements
// return the same local variable or expression that can be evaluated with the arguments bound.
func (w *vmWalker) pureResult(f *types.Func, call *ast.CallExpr, st *vmState) (absVal, bool) {
	name := f.Name()
	if sig, ok := f.Type().(*types.Signature); ok && sig.Recv() != nil {
		if n := named(sig.Recv().Type()); n != nil {
			name = n.Obj().Name() + "." + name
		}
	}
	fd := w.m.c.funcDecl("interp", name)
	if fd == nil || fd.Body == nil {
		return absVal{}, false
	}
	info := w.m.pkg.TypesInfo
	env := map[types.Object]absVal{}
	i := 0
	for _, fl := range fd.Type.Params.List {
		for _, nm := range fl.Names {
			if i < len(call.Args) {
				if v, ok := w.absOf(call.Args[i], st); ok {
					env[info.Defs[nm]] = v
				}
			}
			i++
		}
	}
	sub := &vmWalker{m: w.m, name: "val:" + f.Name(), depth: w.depth + 1, fnMode: true}
	local := &vmState{sp: linC(0), ipVar: linC(0), jumps: map[int]bool{}, reads: map[int]bool{}, tail: map[int]bool{}, env: env}
	// top-level definitions of the helper's body, in order (no forks: the value must not depend on a branch)
	var result *absVal
	for _, s := range fd.Body.List {
		switch x := s.(type) {
		case *ast.AssignStmt:
			if len(x.Lhs) == len(x.Rhs) {
				for j, l := range x.Lhs {
					if id, ok := l.(*ast.Ident); ok {
						o := info.Defs[id]
						if o == nil {
							o = info.Uses[id]
						}
						if v, ok := sub.absOf(x.Rhs[j], local); ok && o != nil {
							local.env[o] = v
						} else if o != nil {
							delete(local.env, o)
						}
					}
				}
			}
		case *ast.ReturnStmt:
			if len(x.Results) == 1 {
				if v, ok := sub.absOf(x.Results[0], local); ok {
					result = &v
				}
			}
		}
	}
	// any other return statement (nested) makes the value path-dependent
	nRet := 0
	ast.Inspect(fd.Body, func(n ast.Node) bool {
		if _, ok := n.(*ast.FuncLit); ok {
			return false
		}
		if _, ok := n.(*ast.ReturnStmt); ok {
			nRet++
		}
		return true
	})
	if result == nil || nRet != 1 {
		return absVal{}, false
	}
	return *result, true
}
