package main

// rule lists extended after every property is registered (props.go, props2.go)
func init() {
	addRules("C05", "R-FMT:fastpath") // number -> string is done by value.str alone: a second implementation ignores CONVFMT/OFMT
}
