package main

import (
	"go/constant"
	"go/token"
	"go/types"

	"golang.org/x/tools/go/ssa"
)

// regexTextSingleLine (part of R-PRINT, C20): the program printer indents every line of a nested statement, so a token
// whose text spans lines cannot be printed faithfully. String literals are written with \n; the text of a regex
// literal is written as it is - so the lexer's regex scanner must never put a newline into it. In the function of
// the lexer that yields REGEX tokens, every byte appended to the token text is a constant other than a newline, or a
// character that was compared with '\n' on the way (the path continues on the unequal side).
func regexTextSingleLine(c *Ctx) {
	lp := c.ssaPkg("lexer")
	if lp == nil {
		return
	}
	n := 0
	for _, fn := range c.srcFuncs("lexer") {
		fn := fn
		// the regex scanner: returns the REGEX token constant
		isScanner := false
		allInstrs(fn, func(in ssa.Instruction) {
			if r, ok := in.(*ssa.Return); ok {
				for _, v := range r.Results {
					if k, ok := v.(*ssa.Const); ok && k.Value != nil && isNamed(k.Type(), modPath+"/lexer", "Token") {
						if rv, ok := c.tokenValue("REGEX"); ok && rv == k.Int64() {
							isScanner = true
						}
					}
				}
			}
		})
		if !isScanner {
			continue
		}
		bad := token.NoPos
		// the character tested against newline: If(BinOp(L, 10)); records for each such test the unequal edge
		type nlTest struct {
			blk  *ssa.BasicBlock
			val  ssa.Value
			uneq int
		}
		var tests []nlTest
		for _, b := range fn.Blocks {
			if len(b.Instrs) == 0 {
				continue
			}
			iff, ok := b.Instrs[len(b.Instrs)-1].(*ssa.If)
			if !ok {
				continue
			}
			bo, ok := iff.Cond.(*ssa.BinOp)
			if !ok || (bo.Op != token.EQL && bo.Op != token.NEQ) {
				continue
			}
			k, isK := bo.Y.(*ssa.Const)
			if !isK || k.Value == nil || k.Int64() != '\n' {
				continue
			}
			uneq := 1
			if bo.Op == token.NEQ {
				uneq = 0
			}
			tests = append(tests, nlTest{b, bo.X, uneq})
		}
		var okVal func(v ssa.Value, pred *ssa.BasicBlock, useBlk *ssa.BasicBlock, depth int) bool
		okVal = func(v ssa.Value, pred *ssa.BasicBlock, useBlk *ssa.BasicBlock, depth int) bool {
			if depth > 6 {
				return false
			}
			switch x := v.(type) {
			case *ssa.Const:
				return x.Value != nil && x.Int64() != '\n'
			case *ssa.Phi:
				for i, e := range x.Edges {
					if e == v {
						continue
					}
					if !okVal(e, x.Block().Preds[i], x.Block(), depth+1) {
						return false
					}
				}
				return true
			}
			// a character: tested against '\n', and we are on the unequal side
			for _, t := range tests {
				if t.val != v {
					continue
				}
				side := t.blk.Succs[t.uneq]
				other := t.blk.Succs[1-t.uneq]
				if pred != nil && pred == t.blk && useBlk == side {
					return true
				}
				if pred != nil && (side == pred || side.Dominates(pred)) && len(side.Preds) == 1 {
					return true
				}
				if side == useBlk || (side.Dominates(useBlk) && len(side.Preds) == 1) {
					return true
				}
				// the equal side leaves the function (an error return): everything after the test is the unequal side
				if len(other.Succs) == 0 && t.blk.Dominates(useBlk) {
					return true
				}
				// a disjunction `c == '\r' || c == '\n'`: the equal side joins a block that leaves the function
				if t.blk.Dominates(useBlk) && !reachableFrom(other)[useBlk] {
					return true
				}
			}
			return false
		}
		allInstrs(fn, func(in ssa.Instruction) {
			call, ok := in.(*ssa.Call)
			if !ok {
				return
			}
			b, ok := call.Call.Value.(*ssa.Builtin)
			if !ok || b.Name() != "append" || len(call.Call.Args) != 2 {
				return
			}
			// the appended element sits in a one-element array: find its store
			sl, ok := call.Call.Args[1].(*ssa.Slice)
			if !ok {
				return
			}
			alloc, ok := sl.X.(*ssa.Alloc)
			if !ok || alloc.Referrers() == nil {
				return
			}
			for _, r := range *alloc.Referrers() {
				ia, ok := r.(*ssa.IndexAddr)
				if !ok || ia.Referrers() == nil {
					continue
				}
				for _, r2 := range *ia.Referrers() {
					st, ok := r2.(*ssa.Store)
					if !ok {
						continue
					}
					n++
					if !okVal(st.Val, nil, st.Block(), 0) && bad == token.NoPos {
						bad = posOr(call.Pos(), fn.Pos())
					}
				}
			}
		})
		c.check(bad == token.NoPos, "regex:single-line:"+fnKey(fn), posOr(bad, fn.Pos()), "no byte appended to the text of a regex literal can be a newline",
			fnKey(fn)+" can append a newline to the text of a regex literal (after a backslash): the program printer writes the regex text as it is and indents every line of a nested statement, so the printed program contains a different regex (with the indentation inside) and printing is not idempotent")
	}
	c.atLeast("bytes appended to the text of a regex literal", n, 2)
}

// tokenValue: the value of the named lexer token constant.
func (c *Ctx) tokenValue(name string) (int64, bool) {
	lp := c.pkg("lexer")
	if lp == nil {
		return 0, false
	}
	k, ok := lp.Types.Scope().Lookup(name).(*types.Const)
	if !ok || !isNamed(k.Type(), modPath+"/lexer", "Token") {
		return 0, false
	}
	return constant.Int64Val(k.Val())
}
