package main

import (
	"fmt"
	"go/constant"
	"go/token"
	"go/types"
	"strings"

	"golang.org/x/tools/go/ssa"
)

// R-CTX (C15) and R-DEPTH (C02).

func init() {
	register("R-CTX", "cancellation: (1) in interp.execute the context poll (a test of the checkCtx flag followed by checkContext, returning its non-nil error) is executed on every iteration of the dispatch loop, before the opcode switch; (2) checkContext counts in a field shared by nested execute calls and calls checkContextNow when the counter reaches the constant checkContextOps, which is at most 1000; checkContextNow returns ctx.Err() when the done channel is closed; (3) in executeAll every error return that follows execute/execActions first asks checkContextNow when the flag is set and prefers its error; (4) the process helper uses exec.CommandContext(p.ctx, ...) exactly when the flag is set; (5) system() prefers the context's error after a failed wait; (6) ExecuteContext assigns flag, context, done channel and counter before executeAll, Execute clears the flag; closeAll is deferred in executeAll so output written before cancellation is delivered", ruleCtx)
	register("R-DEPTH", "recursion: the nested execute of a function body in the CallUser handler is dominated by `if p.callDepth >= maxCallDepth { return error }`, callDepth is incremented before and decremented after it, and the frame, the local-array table and the arrays slice are restored after it on every path before the result is examined (so an error, next or exit raised inside a callee leaves a consistent interpreter)", ruleDepth)
}

func callsNamed(in ssa.Instruction, name string) bool {
	call, ok := in.(ssa.CallInstruction)
	if !ok {
		return false
	}
	f := call.Common().StaticCallee()
	return f != nil && f.Name() == name
}

func ruleCtx(c *Ctx) {
	everyRecordRunsCode(c)
	compiledBlocksNonEmpty(c)
	ex := c.ssaFunc("interp", "interp.execute")
	if ex == nil {
		c.undecided("anchor:execute", token.NoPos, "interp.execute not found")
		return
	}
	// the function that looks at the context: a non-blocking select on the done channel (by role), and the
	// functions of the package that call it (counter wrappers)
	var nowFn *ssa.Function
	for _, fn := range c.srcFuncs("interp") {
		fn := fn
		allInstrs(fn, func(in ssa.Instruction) {
			if s, ok := in.(*ssa.Select); ok && !s.Blocking {
				for _, st := range s.States {
					if interpFieldLoad(st.Chan) == "ctxDone" {
						nowFn = fn
					}
				}
			}
		})
	}
	pollFns := map[*ssa.Function]bool{}
	if nowFn != nil {
		pollFns[nowFn] = true
		for changed := true; changed; {
			changed = false
			for _, fn := range c.srcFuncs("interp") {
				if pollFns[fn] || fn == ex || len(fn.Blocks) > 12 {
					continue
				}
				fn := fn
				allInstrs(fn, func(in ssa.Instruction) {
					if call, ok := in.(ssa.CallInstruction); ok {
						if cal := call.Common().StaticCallee(); cal != nil && pollFns[cal] && !pollFns[fn] {
							pollFns[fn] = true
							changed = true
						}
					}
				})
			}
		}
	}
	callsPoll := func(in ssa.Instruction) bool {
		call, ok := in.(ssa.CallInstruction)
		if !ok {
			return false
		}
		cal := call.Common().StaticCallee()
		return cal != nil && pollFns[cal]
	}
	// (1) the poll block: If on checkCtx whose true branch (the blocks it dominates) calls a poll function
	var pollIf *ssa.BasicBlock
	var pollCall ssa.Instruction
	for _, b := range ex.Blocks {
		if len(b.Instrs) == 0 {
			continue
		}
		ifi, ok := b.Instrs[len(b.Instrs)-1].(*ssa.If)
		if !ok {
			continue
		}
		if name, pos := condField(ifi.Cond); name == "checkCtx" && pos {
			for _, d := range ex.Blocks {
				if d != b.Succs[0] && !(len(b.Succs[0].Preds) == 1 && b.Succs[0].Dominates(d)) {
					continue
				}
				for _, in := range d.Instrs {
					if callsPoll(in) && pollIf == nil {
						pollIf, pollCall = b, in
					}
				}
			}
		}
	}
	if pollIf == nil {
		c.bad("poll:present", ex.Pos(), "interp.execute has no block guarded by p.checkCtx that calls the function polling the context's done channel (directly or through a counter wrapper): a cancelled context is never noticed")
	} else {
		c.ok("poll:present", pollCall.Pos(), "poll block found in the dispatch loop")
		// the poll's error is returned when non-nil
		retOK := false
		if v, ok := pollCall.(ssa.Value); ok {
			for _, r := range *v.Referrers() {
				if bo, ok := r.(*ssa.BinOp); ok && bo.Op == token.NEQ && isNilConst(bo.Y) {
					for _, r2 := range *bo.Referrers() {
						if ifi, ok := r2.(*ssa.If); ok {
							for _, in := range ifi.Block().Succs[0].Instrs {
								if ret, ok := in.(*ssa.Return); ok && len(ret.Results) == 1 && ret.Results[0] == v {
									retOK = true
								}
							}
						}
					}
				}
			}
		}
		c.check(retOK, "poll:returns-error", pollCall.Pos(), "a non-nil result of checkContext is returned by execute", "the error returned by checkContext is not returned by execute")
		// every block containing a dynamic dispatch (the opcode switch = blocks comparing `op`) is dominated by the poll If,
		// and the poll If lies inside the loop: it must be reachable from itself
		c.check(reachableFrom(pollIf.Succs[1])[pollIf], "poll:in-loop", pollCall.Pos(), "the poll is on the cycle of the dispatch loop (executed once per instruction)", "the poll is not inside the dispatch loop")
		// all handler blocks: blocks that read code[ip] operands or call stack helpers: approximate by all blocks that
		// call (*interp) methods other than checkContext; each must be dominated by pollIf
		bad := 0
		var badPos token.Pos
		nHandlers := 0
		for _, b := range ex.Blocks {
			has := false
			for _, in := range b.Instrs {
				if call, ok := in.(ssa.CallInstruction); ok {
					if f := call.Common().StaticCallee(); f != nil && f.Signature.Recv() != nil && isInterp(f.Signature.Recv().Type()) && !pollFns[f] {
						has = true
					}
				}
			}
			if !has {
				continue
			}
			nHandlers++
			if !pollIf.Dominates(b) {
				bad++
				badPos = b.Instrs[0].Pos()
			}
		}
		c.check(bad == 0 && nHandlers > 50, "poll:dominates-handlers", badPos, "the poll dominates every handler block of the dispatch switch", "some handler code runs without passing the context poll first")
	}

	// (2) the counter in front of the poll (in a wrapper such as checkContext, or inlined in the dispatch loop) and
	// the polling function itself
	cc := (*ssa.Function)(nil)
	ccn := nowFn
	var scan []ssa.Instruction
	if pollCall != nil {
		if cal := pollCall.(ssa.CallInstruction).Common().StaticCallee(); cal != nil && cal != nowFn {
			cc = cal
			allInstrs(cal, func(in ssa.Instruction) { scan = append(scan, in) })
		} else if pollIf != nil {
			cc = ex
			for _, d := range ex.Blocks {
				if d == pollIf.Succs[0] || (len(pollIf.Succs[0].Preds) == 1 && pollIf.Succs[0].Dominates(d)) {
					scan = append(scan, d.Instrs...)
				}
			}
		}
	}
	if cc == nil || ccn == nil {
		c.undecided("anchor:checkContext", token.NoPos, "the context poll (counter and non-blocking select on ctxDone) was not found")
	} else {
		incField, cmpConst, callsNow, resets := "", int64(-1), false, false
		for _, in := range scan {
			if name, val := interpFieldStore(in); name != "" {
				if bo, ok := val.(*ssa.BinOp); ok && bo.Op == token.ADD {
					incField = name
				}
				if k, ok := val.(*ssa.Const); ok && k.Value != nil && k.Value.ExactString() == "0" {
					resets = true
				}
			}
			if bo, ok := in.(*ssa.BinOp); ok && (bo.Op == token.LSS || bo.Op == token.GEQ || bo.Op == token.GTR || bo.Op == token.LEQ || bo.Op == token.EQL) {
				if k, ok := bo.Y.(*ssa.Const); ok && k.Value != nil && k.Value.Kind() == constant.Int {
					if v, _ := constant.Int64Val(k.Value); v > 1 {
						cmpConst = v
					}
				}
			}
			if call, ok := in.(ssa.CallInstruction); ok && call.Common().StaticCallee() == nowFn {
				callsNow = true
			}
		}
		c.check(incField != "", "counter:field", cc.Pos(), "checkContext counts in interpreter field "+incField+" (shared by nested execute calls)", "checkContext does not increment an interpreter field: nested execute calls would each restart the count")
		c.check(cmpConst > 0 && cmpConst <= 1000, "counter:bound", cc.Pos(), "the context is examined every "+itoa(cmpConst)+" instructions (documented bound: 1000)", "the poll interval "+itoa(cmpConst)+" is not within the documented bound of 1000 instructions")
		c.check(callsNow && resets, "counter:calls-now", cc.Pos(), "on reaching the bound the counter is reset and checkContextNow is called", "checkContext does not reset the counter and call checkContextNow")
		// checkContextNow: select on ctxDone, returns ctx.Err()
		sel, errCall := false, false
		allInstrs(ccn, func(in ssa.Instruction) {
			if s, ok := in.(*ssa.Select); ok && !s.Blocking {
				for _, st := range s.States {
					if interpFieldLoad(st.Chan) == "ctxDone" {
						sel = true
					}
				}
			}
			if call, ok := in.(ssa.CallInstruction); ok && call.Common().IsInvoke() && call.Common().Method.Name() == "Err" {
				errCall = true
			}
		})
		c.check(sel && errCall, "now:select", ccn.Pos(), "checkContextNow polls the done channel without blocking and returns ctx.Err()", "checkContextNow does not poll ctxDone / return ctx.Err()")
	}

	// (2b) the context is looked at only under the flag: Execute clears checkCtx but leaves ctx/ctxDone of an earlier
	// ExecuteContext in place, so a poll that is not guarded by the flag consults a stale (possibly cancelled)
	// context. Every call of the polling function is dominated by the true edge of a checkCtx test - in its own
	// function or at every call site of that function
	if nowFn != nil {
		var flagGuarded func(fn *ssa.Function, in ssa.Instruction, depth int) bool
		flagGuarded = func(fn *ssa.Function, in ssa.Instruction, depth int) bool {
			for _, d := range fn.Blocks {
				if len(d.Instrs) == 0 || d == in.Block() || !d.Dominates(in.Block()) {
					continue
				}
				if iff, ok := d.Instrs[len(d.Instrs)-1].(*ssa.If); ok {
					if name, pos := condField(iff.Cond); name == "checkCtx" {
						idx := 0
						if !pos {
							idx = 1
						}
						if !reachableAvoiding(d.Succs[1-idx], d)[in.Block()] {
							return true
						}
					}
				}
			}
			if depth >= 3 {
				return false
			}
			sites, good := 0, 0
			for _, g := range c.srcFuncs("interp") {
				g := g
				allInstrs(g, func(i2 ssa.Instruction) {
					if call, ok := i2.(ssa.CallInstruction); ok && call.Common().StaticCallee() == fn {
						sites++
						if flagGuarded(g, i2, depth+1) {
							good++
						}
					}
				})
			}
			return sites > 0 && sites == good
		}
		nPoll := 0
		for _, fn := range c.srcFuncs("interp") {
			fn := fn
			allInstrs(fn, func(in ssa.Instruction) {
				call, ok := in.(ssa.CallInstruction)
				if !ok || call.Common().StaticCallee() != nowFn {
					return
				}
				nPoll++
				c.check(flagGuarded(fn, in, 0), "now:under-flag:"+fnKey(fn), posOr(in.Pos(), fn.Pos()), "the context is polled only where the checkCtx flag is known to be set", fnKey(fn)+" polls the context without the checkCtx flag being known to be set: after an ExecuteContext whose context was cancelled, a plain Execute on the same Interpreter consults the stale context and returns its error")
			})
		}
		c.atLeast("calls of the context-polling function", nPoll, 2)
	}

	// (3) executeAll: error returns after execute/execActions prefer the context error; closeAll deferred
	ea := c.ssaFunc("interp", "interp.executeAll")
	if ea == nil {
		c.undecided("anchor:executeAll", token.NoPos, "executeAll not found")
	} else {
		deferred := false
		allInstrs(ea, func(in ssa.Instruction) {
			if d, ok := in.(*ssa.Defer); ok {
				if f := d.Call.StaticCallee(); f != nil && f.Name() == "closeAll" {
					deferred = true
				}
			}
		})
		c.check(deferred, "executeAll:defer-closeAll", ea.Pos(), "closeAll is deferred: output written before a cancellation or error is flushed and streams are closed", "executeAll does not defer closeAll: output written before cancellation may never be delivered")
		// each stage of the run (a call from executeAll that reaches the dispatch loop) evaluated for: the earlier
		// stages succeeded, this one failed with an ordinary error, the context flag is set and the context has
		// been cancelled. Every path must hand back the context's error, not the stage's
		reaches := map[*ssa.Function]bool{ex: true}
		for changed := true; changed; {
			changed = false
			for _, fn := range c.srcFuncs("interp") {
				if reaches[fn] {
					continue
				}
				fn := fn
				allInstrs(fn, func(in ssa.Instruction) {
					if call, ok := in.(ssa.CallInstruction); ok {
						if cal := call.Common().StaticCallee(); cal != nil && reaches[cal] && !reaches[fn] {
							reaches[fn] = true
							changed = true
						}
					}
				})
			}
		}
		var stages []*ssa.Call
		for _, blk := range ea.Blocks {
			for _, in := range blk.Instrs {
				if call, ok := in.(*ssa.Call); ok {
					if cal := call.Call.StaticCallee(); cal != nil && reaches[cal] && cal != ea {
						res := cal.Signature.Results()
						if res.Len() == 1 && types.TypeString(res.At(0).Type(), nil) == "error" {
							stages = append(stages, call)
						}
					}
				}
			}
		}
		nRet := 0
		ipkg := c.ssaPkg("interp")
		for k, stage := range stages {
			nRet++
			e := &sengine{pkg: ipkg, ctx: c}
			seen := 0
			e.call = func(p *spath, fr *sframe, call *ssa.Call, callee *ssa.Function, args []iv) (iv, callAction) {
				if fr == p.stack[0] {
					for i, st := range stages {
						if st == call {
							_ = seen
							switch {
							case i < k:
								return iv{k: 'n'}, callHandled
							case i == k:
								p.notes["failed"]++
								return ivSym("stageErr"), callHandled
							}
							return iv{}, callHandled
						}
					}
				}
				if callee != nil && callee == nowFn {
					return ivSym("ctxErr"), callHandled
				}
				return iv{}, callDefault
			}
			e.load = func(p *spath, fr *sframe, addr iv, in *ssa.UnOp) (iv, bool) {
				if f, x := fieldOfAddr(in.X); f != nil && isInterp(x.Type()) && f.Name() == "checkCtx" {
					return ivBool(true), true
				}
				if g, ok := in.X.(*ssa.Global); ok && strings.HasPrefix(g.Name(), "err") {
					return ivSym("sentinel:" + g.Name()), true
				}
				return iv{}, false
			}
			e.binop = func(op token.Token, a, b iv) (iv, bool) {
				if op != token.EQL && op != token.NEQ {
					return iv{}, false
				}
				switch {
				case a.k == 's' && b.k == 's':
					return ivBool((a.s == b.s) == (op == token.EQL)), true
				case (a.k == 's' && b.k == 'n') || (a.k == 'n' && b.k == 's'):
					return ivBool(op == token.NEQ), true
				}
				return iv{}, false
			}
			e.enter = func(callee *ssa.Function, args []iv) bool {
				for _, a := range args {
					if a.k == 's' {
						return true // a helper that is handed the error
					}
				}
				return false
			}
			e.startAt(ea, ea.Blocks[0], nil)
			paths, wrong := 0, 0
			for _, o := range e.outcomes {
				if o.panicked || o.notes["failed"] == 0 {
					continue // the stage under test was not reached on this path
				}
				paths++
				if !(o.ret.k == 'u' && len(o.ret.tup) == 2 && o.ret.tup[1].k == 's' && o.ret.tup[1].s == "ctxErr") {
					wrong++
				}
			}
			key := fmt.Sprintf("executeAll:prefer-ctx-error#%d", k+1)
			if len(e.problems) > 0 {
				c.undecided(key, stage.Pos(), "executeAll could not be evaluated for a failing stage: %v", e.problems)
				continue
			}
			c.check(paths > 0 && wrong == 0, key, stage.Pos(), "when this stage fails under a cancelled context, executeAll returns the context's error on every path", "executeAll returns a secondary error without first asking the context: after cancellation the caller may see e.g. a killed child's error instead of ctx.Err()")
		}
		c.atLeast("stages of executeAll that run program code", nRet, 3)
	}

	// (4) execShell: CommandContext iff checkCtx
	es := c.ssaFunc("interp", "interp.execShell")
	if es == nil {
		c.undecided("anchor:execShell", token.NoPos, "execShell not found")
	} else {
		var ctxBlk, plainBlk *ssa.BasicBlock
		usesCtx := false
		allInstrs(es, func(in ssa.Instruction) {
			call, ok := in.(ssa.CallInstruction)
			if !ok || call.Common().StaticCallee() == nil {
				return
			}
			switch call.Common().StaticCallee().String() {
			case "os/exec.CommandContext":
				ctxBlk = in.Block()
				if len(call.Common().Args) > 0 && interpFieldLoad(call.Common().Args[0]) == "ctx" {
					usesCtx = true
				}
			case "os/exec.Command":
				plainBlk = in.Block()
			}
		})
		okSel := false
		for _, b := range es.Blocks {
			if len(b.Instrs) == 0 {
				continue
			}
			if ifi, ok := b.Instrs[len(b.Instrs)-1].(*ssa.If); ok {
				if name, pos := condField(ifi.Cond); name == "checkCtx" {
					t, f := b.Succs[0], b.Succs[1]
					if !pos {
						t, f = f, t
					}
					if ctxBlk != nil && plainBlk != nil && reachableAvoiding(t, b)[ctxBlk] && !reachableAvoiding(f, b)[ctxBlk] && reachableAvoiding(f, b)[plainBlk] && !reachableAvoiding(t, b)[plainBlk] {
						okSel = true
					}
				}
			}
		}
		c.check(okSel && usesCtx, "execShell:CommandContext", es.Pos(), "child processes are created with exec.CommandContext(p.ctx, ...) exactly when the context flag is set", "execShell does not select exec.CommandContext(p.ctx, ...) under the context flag: a cancelled run would keep waiting for its child")
	}

	// (4c) a child created with the context also gets a positive WaitDelay before the helper hands it out: without it
	// Wait keeps waiting for the output pipes a grandchild still holds open after the shell itself was killed, so a
	// cancelled run blocks until that grandchild ends
	nCtxCmd := 0
	for _, fn := range c.srcFuncs("interp") {
		fn := fn
		delayBlocks := map[*ssa.BasicBlock]token.Pos{}
		var creates []ssa.Instruction
		allInstrs(fn, func(in ssa.Instruction) {
			if call, ok := in.(ssa.CallInstruction); ok {
				// both ways of creating the child: a run under a context that is never cancelled must behave like a
				// run without one, so the plain command gets the same WaitDelay
				if cal := call.Common().StaticCallee(); cal != nil && (cal.String() == "os/exec.CommandContext" || cal.String() == "os/exec.Command") {
					creates = append(creates, in)
				}
			}
			if st, ok := in.(*ssa.Store); ok {
				if f, x := fieldOfAddr(st.Addr); f != nil && f.Name() == "WaitDelay" && isNamed(x.Type(), "os/exec", "Cmd") {
					if k, isC := st.Val.(*ssa.Const); isC && k.Value != nil && k.Int64() <= 0 {
						return
					}
					delayBlocks[in.Block()] = in.Pos()
				}
			}
		})
		for _, cr := range creates {
			nCtxCmd++
			key := "cmd-ctx:WaitDelay:" + fnKey(fn)
			if cc, ok := cr.(ssa.CallInstruction); ok && cc.Common().StaticCallee().String() == "os/exec.Command" {
				key = "cmd-ctx:WaitDelay-plain:" + fnKey(fn)
			}
			// the block of the creation sets it after the call, or every way out of the function from there meets a block that does
			sameBlock := false
			after := false
			for _, in := range cr.Block().Instrs {
				if in == cr {
					after = true
				}
				if st, ok := in.(*ssa.Store); ok && after {
					if f, _ := fieldOfAddr(st.Addr); f != nil && f.Name() == "WaitDelay" {
						sameBlock = true
					}
				}
			}
			leak := token.NoPos
			if !sameBlock {
				seen := map[*ssa.BasicBlock]bool{}
				var walk func(b *ssa.BasicBlock)
				walk = func(b *ssa.BasicBlock) {
					if seen[b] {
						return
					}
					seen[b] = true
					if _, has := delayBlocks[b]; has && b != cr.Block() {
						return
					}
					if len(b.Instrs) > 0 {
						if r, isRet := b.Instrs[len(b.Instrs)-1].(*ssa.Return); isRet && leak == token.NoPos {
							leak = posOr(r.Pos(), cr.Pos())
						}
					}
					for _, sc := range b.Succs {
						walk(sc)
					}
				}
				walk(cr.Block())
			}
			c.check(sameBlock || leak == token.NoPos, key, posOr(leak, cr.Pos()), "a child created with the context gets a positive WaitDelay on every path out of "+fnKey(fn),
				fnKey(fn)+" hands out a command (exec.Command or exec.CommandContext) on a path that never sets a positive WaitDelay - both must get the same one, or a run under a context that is never cancelled behaves differently from a run without a context: after cancellation kills the shell, Wait still waits for the output pipes a grandchild holds open, so system(), close() and the end of the run block until that grandchild ends instead of returning the context's error promptly")
		}
	}
	c.atLeast("children created with the context", nCtxCmd, 1)

	// (4b) the cancellation behaviour of a child (Cancel, WaitDelay) is configured only in the process helper
	nCmd := 0
	for _, fn := range c.srcFuncs("interp") {
		fn := fn
		allInstrs(fn, func(in ssa.Instruction) {
			st, ok := in.(*ssa.Store)
			if !ok {
				return
			}
			f, x := fieldOfAddr(st.Addr)
			if f == nil || !isNamed(x.Type(), "os/exec", "Cmd") {
				return
			}
			switch f.Name() {
			case "Cancel", "WaitDelay", "SysProcAttr":
				nCmd++
				key := "cmd-field:" + fnKey(fn) + ":" + f.Name()
				if es != nil && fn == es && f.Name() == "WaitDelay" {
					c.ok(key, in.Pos(), "WaitDelay is set once, in the process helper")
				} else {
					c.bad(key, in.Pos(), "%s assigns exec.Cmd.%s: how a child reacts to cancellation is decided only in the process helper; overriding it here can make a cancelled run wait for the child (or leave it running)", fnKey(fn), f.Name())
				}
			}
		})
	}
	c.atLeast("assignments of exec.Cmd cancellation fields", nCmd, 1)

	// (5) system(): after a failed wait the context error is preferred
	// the implementation of system() is whichever function both builds a shell command and waits for it
	var systemFns []*ssa.Function
	for _, fn := range c.srcFuncs("interp") {
		hasShell, hasWait := false, false
		allInstrs(fn, func(in ssa.Instruction) {
			if callsNamed(in, "execShell") {
				hasShell = true
			}
			if callsNamed(in, "waitExitCode") {
				hasWait = true
			}
		})
		if hasShell && hasWait {
			systemFns = append(systemFns, fn)
		}
	}
	if len(systemFns) == 0 {
		c.undecided("system:prefer-ctx-error", token.NoPos, "no function both builds a shell command (execShell) and waits for it (waitExitCode): the implementation of system() was not found")
	}
	for _, cb := range systemFns {
		cb := cb
		okPref := false
		allInstrs(cb, func(in ssa.Instruction) {
			if !callsNamed(in, "waitExitCode") {
				return
			}
			// some block dominated by this call's block tests checkCtx and returns ctx.Err()
			for _, b := range cb.Blocks {
				if len(b.Instrs) == 0 || !in.Block().Dominates(b) {
					continue
				}
				if ifi, ok := b.Instrs[len(b.Instrs)-1].(*ssa.If); ok {
					if name, _ := condField(ifi.Cond); name == "checkCtx" {
						for blk := range reachableFrom(b.Succs[0]) {
							for _, i2 := range blk.Instrs {
								if call, ok := i2.(ssa.CallInstruction); ok && call.Common().IsInvoke() && call.Common().Method.Name() == "Err" {
									okPref = true
								}
							}
						}
					}
				}
			}
		})
		c.check(okPref, "system:prefer-ctx-error", cb.Pos(), "system(): a failed wait under a cancelled context returns ctx.Err()", "system(): after a failed wait the context's error is not preferred")
	}

	// (6) ExecuteContext / Execute assignments
	exc := c.ssaFunc("interp", "Interpreter.ExecuteContext")
	exe := c.ssaFunc("interp", "Interpreter.Execute")
	if exc == nil || exe == nil {
		c.undecided("anchor:ExecuteContext", token.NoPos, "Execute/ExecuteContext not found")
		return
	}
	got := mustStoreBeforeCall(exc, "executeAll")
	var missing []string
	for _, f := range []string{"checkCtx", "ctx", "ctxDone", "ctxOps"} {
		if !got[f] {
			missing = append(missing, f)
		}
	}
	c.check(len(missing) == 0, "ExecuteContext:assigns", exc.Pos(), "ExecuteContext assigns checkCtx, ctx, ctxDone and ctxOps before executeAll", "ExecuteContext does not assign "+strings.Join(missing, ",")+" on every path before executeAll")
	// Execute: checkCtx := false
	cleared := false
	allInstrs(exe, func(in ssa.Instruction) {
		if name, val := interpFieldStore(in); name == "checkCtx" {
			if k, ok := val.(*ssa.Const); ok && k.Value != nil && k.Value.ExactString() == "false" {
				cleared = true
			}
		}
		// the flag lives in a component struct that is assigned its zero value as a whole
		if names, _, zeroed := interpFieldStores(in); zeroed {
			for _, n := range names {
				if n == "checkCtx" {
					cleared = true
				}
			}
		}
	})
	if !cleared {
		// the flag is computed in a helper shared with ExecuteContext and handed a constant that selects the plain run:
		// the value stored, evaluated under the boolean constants passed at the call, is false
		var look func(fn *ssa.Function, depth int)
		look = func(fn *ssa.Function, depth int) {
			live := liveUnderParamBind(fn)
			var boolOf func(v ssa.Value, d int) (bool, bool)
			boolOf = func(v ssa.Value, d int) (bool, bool) {
				if d > 5 {
					return false, false
				}
				switch x := v.(type) {
				case *ssa.Const:
					if x.Value != nil && x.Value.Kind() == constant.Bool {
						return constant.BoolVal(x.Value), true
					}
				case *ssa.Parameter:
					if b, ok := curParamBind[x]; ok {
						return b, true
					}
				case *ssa.UnOp:
					if x.Op == token.NOT {
						b, ok := boolOf(x.X, d+1)
						return !b, ok
					}
				case *ssa.Phi:
					seen, val := false, false
					for i, e := range x.Edges {
						pred := x.Block().Preds[i]
						if (live != nil && !live[pred]) || deadEdgeUnderParamBind(pred, x.Block()) {
							continue
						}
						b, ok := boolOf(e, d+1)
						if !ok || (seen && b != val) {
							return false, false
						}
						seen, val = true, b
					}
					return val, seen
				}
				return false, false
			}
			for _, b := range fn.Blocks {
				if live != nil && !live[b] {
					continue
				}
				for _, in := range b.Instrs {
					if name, val := interpFieldStore(in); name == "checkCtx" {
						if v, ok := boolOf(val, 0); ok && !v {
							cleared = true
						}
					}
					if call, ok := in.(ssa.CallInstruction); ok && depth < 2 {
						if cal := call.Common().StaticCallee(); cal != nil && cal.Pkg == fn.Pkg && len(cal.Blocks) > 0 && cal != fn {
							saved := curParamBind
							bind := map[*ssa.Parameter]bool{}
							for k, v := range saved {
								bind[k] = v
							}
							for ai, a := range call.Common().Args {
								if k, ok := a.(*ssa.Const); ok && k.Value != nil && k.Value.Kind() == constant.Bool && ai < len(cal.Params) {
									bind[cal.Params[ai]] = constant.BoolVal(k.Value)
								}
							}
							if len(bind) > len(saved) {
								curParamBind = bind
								look(cal, depth+1)
								curParamBind = saved
							}
						}
					}
				}
			}
		}
		look(exe, 0)
	}
	c.check(cleared && mustStoreBeforeCall(exe, "executeAll")["checkCtx"], "Execute:clears-flag", exe.Pos(), "Execute clears the context flag before executeAll (a context from an earlier ExecuteContext is never consulted)", "Execute does not clear checkCtx: a plain Execute after a cancelled ExecuteContext would fail with the stale context's error")
}

func itoa(v int64) string {
	return strings.TrimSpace(strings.Replace(constant.MakeInt64(v).ExactString(), "\n", "", -1))
}

func ruleDepth(c *Ctx) {
	ex := c.ssaFunc("interp", "interp.execute")
	if ex == nil {
		c.undecided("anchor:execute", token.NoPos, "interp.execute not found")
		return
	}
	// the nested execute whose argument is a Function's Body: calls of execute, from execute itself or from a helper
	// of the interpreter, whose code argument derives from field Body
	nested := nestedFunctionExecutes(c)
	hosts := c.srcFuncs("interp")
	c.atLeast("nested execute of a function body", len(nested), 1)
	for _, in := range nested {
		blk := in.Block()
		ex := in.Parent() // the function that makes the call: the guard and the unwinding are looked for there
		// depth guard: an If comparing callDepth >= const whose true branch returns an error, dominating blk on its false edge
		guard := false
		var limit int64 = -1
		for _, b := range ex.Blocks {
			if len(b.Instrs) == 0 || !b.Dominates(blk) {
				continue
			}
			ifi, ok := b.Instrs[len(b.Instrs)-1].(*ssa.If)
			if !ok {
				continue
			}
			bo, ok := ifi.Cond.(*ssa.BinOp)
			if !ok || (bo.Op != token.GEQ && bo.Op != token.GTR) || interpFieldLoad(bo.X) != "callDepth" {
				continue
			}
			if k, ok := bo.Y.(*ssa.Const); ok && k.Value != nil {
				limit, _ = constant.Int64Val(k.Value)
			}
			okErr, _ := returnsOnlyErrors(b.Succs[0])
			if okErr && !reachableAvoiding(b.Succs[0], b)[blk] {
				guard = true
			}
		}
		c.check(guard && limit > 0 && limit <= 100000, "depth-guard", in.Pos(), "dominated by `if p.callDepth >= "+itoa(limit)+" { return error }`", "the nested execute of a function body is not dominated by a call-depth test that returns an error: runaway recursion overflows the Go stack and crashes the host")
		// inc before, dec after, within the same block
		inc, dec := false, false
		seenCall := false
		restored := map[string]bool{}
		examined := false
		poppedVia := false
		for _, i2 := range blk.Instrs {
			if i2 == in {
				seenCall = true
				continue
			}
			if seenCall && !examined {
				// a helper called here restores what it stores (and the calls it makes) on every path through it
				if ci, ok := i2.(ssa.CallInstruction); ok {
					if cal := ci.Common().StaticCallee(); cal != nil && cal != ex && len(cal.Blocks) > 0 && cal.Pkg == ex.Pkg {
						st, calls := mustEffects(cal, 0)
						for f := range st {
							restored[f] = true
						}
						if calls["popSlice"] {
							poppedVia = true
						}
					}
				}
			}
			if name, val := interpFieldStore(i2); name != "" {
				if name == "callDepth" {
					if bo, ok := val.(*ssa.BinOp); ok {
						if bo.Op == token.ADD && !seenCall {
							inc = true
						}
						if bo.Op == token.SUB && seenCall {
							dec = true
						}
					}
				}
				if seenCall && !examined {
					restored[name] = true
				}
			}
			if seenCall {
				// the first use of the call's result (type assert / nil comparison) ends the "before examined" window
				if v, ok := in.(ssa.Value); ok {
					for _, op := range i2.Operands(nil) {
						if *op == v {
							examined = true
						}
					}
				}
			}
		}
		c.check(inc && dec, "depth-counter", in.Pos(), "callDepth is incremented before and decremented after the nested execute", "callDepth is not incremented before / decremented after the nested execute")
		var miss []string
		for _, f := range []string{"frame", "localArrays", "arrays"} {
			if !restored[f] {
				miss = append(miss, f)
			}
		}
		// sp is restored through popSlice
		popped := false
		seenCall = false
		for _, i2 := range blk.Instrs {
			if i2 == in {
				seenCall = true
			}
			if seenCall && callsNamed(i2, "popSlice") {
				popped = true
			}
		}
		if !popped && !poppedVia {
			miss = append(miss, "sp (popSlice of the callee's locals)")
		}
		c.check(len(miss) == 0, "unwind", in.Pos(), "frame, localArrays, arrays and the callee's stack slots are restored before the callee's result (value, error, next/exit) is examined", "after the nested execute "+strings.Join(miss, ", ")+" not restored before the result is examined: an error or next/exit raised in a callee leaves the interpreter inconsistent")
	}
	// each call gets its own array mapping: what is pushed on localArrays is storage allocated for this call
	// (it stays on the stack of mappings while callees run, so it must not be a re-slice of a buffer they reuse)
	for _, host := range hosts {
		allInstrs(host, func(in ssa.Instruction) {
			name, val := interpFieldStore(in)
			if name != "localArrays" {
				return
			}
			call, ok := val.(*ssa.Call)
			if !ok {
				return
			}
			if b, ok := call.Call.Value.(*ssa.Builtin); !ok || b.Name() != "append" || len(call.Call.Args) != 2 {
				return
			}
			// the appended element: stored into the variadic backing array
			var elem ssa.Value
			if sl, ok := call.Call.Args[1].(*ssa.Slice); ok {
				if al, ok := sl.X.(*ssa.Alloc); ok {
					if refs := al.Referrers(); refs != nil {
						for _, r := range *refs {
							if ia, ok := r.(*ssa.IndexAddr); ok {
								if irefs := ia.Referrers(); irefs != nil {
									for _, ir := range *irefs {
										if st, ok := ir.(*ssa.Store); ok && st.Addr == ssa.Value(ia) {
											elem = st.Val
										}
									}
								}
							}
						}
					}
				}
			}
			if elem == nil {
				c.undecided("frame-fresh", in.Pos(), "the value pushed on localArrays could not be identified")
				return
			}
			// trace to its bases
			var bases []string
			seen := map[ssa.Value]bool{}
			var walk func(v ssa.Value)
			walk = func(v ssa.Value) {
				if seen[v] {
					return
				}
				seen[v] = true
				switch x := v.(type) {
				case *ssa.Phi:
					for _, e := range x.Edges {
						walk(e)
					}
				case *ssa.Call:
					if b, ok := x.Call.Value.(*ssa.Builtin); ok && b.Name() == "append" {
						walk(x.Call.Args[0])
						return
					}
					bases = append(bases, "result of "+x.Call.Value.Name())
				case *ssa.Const:
					bases = append(bases, "nil")
				case *ssa.MakeSlice:
					bases = append(bases, "make")
				case *ssa.Slice:
					if n := interpFieldLoad(x.X); n != "" {
						bases = append(bases, "re-slice of p."+n)
						return
					}
					walk(x.X)
				default:
					if n := interpFieldLoad(v); n != "" {
						bases = append(bases, "p."+n)
						return
					}
					bases = append(bases, v.String())
				}
			}
			walk(elem)
			okFresh := len(bases) > 0
			for _, b := range bases {
				if b != "nil" && b != "make" {
					okFresh = false
				}
			}
			c.check(okFresh, "frame-fresh", in.Pos(), "the array mapping pushed for a call starts from nil/make: it is this call's own storage",
				"the array mapping pushed on localArrays for a call is built on "+strings.Join(bases, ", ")+", not on storage of its own: a nested or recursive call reuses the same backing array and overwrites the caller's mapping, so after the callee returns the caller's array parameters name the callee's arrays")
			// (the arrays themselves are decided once per run of the rule: localArraysFresh)
			ranFresh := false
			for _, o := range c.obs {
				if strings.HasPrefix(o.Key, "local-array-fresh") || o.Key == "census:stores into the table of live arrays" {
					ranFresh = true
				}
			}
			if !ranFresh {
				localArraysFresh(c)
			}
		})
	}
}

// localArraysFresh: every store into the interpreter's table of live arrays is a truncation of the table, or the
// table extended by freshly made maps (directly, or by a helper all of whose returns do that).
func localArraysFresh(c *Ctx) {
	// whatever is added to the table of live arrays for a call's local arrays is a newly made map - never one left
	// behind by an earlier call (which a non-local exit from that call, such as exit or an error, would not have emptied)
	isTable := func(v ssa.Value) bool { return interpFieldLoad(v) == "arrays" }
	var fresh func(v ssa.Value, base func(ssa.Value) bool, depth int) bool
	fresh = func(v ssa.Value, base func(ssa.Value) bool, depth int) bool {
		if depth > 5 {
			return false
		}
		switch x := v.(type) {
		case *ssa.Phi:
			for _, e := range x.Edges {
				if e == v {
					continue
				}
				if !fresh(e, base, depth+1) {
					return false
				}
			}
			return true
		case *ssa.Slice:
			// a truncation: the new length is a length taken earlier (len(...), possibly minus a constant) or 0;
			// slicing upwards (n+1) would reach into the spare capacity, where old elements live
			var lenOK func(h ssa.Value, d int) bool
			lenOK = func(h ssa.Value, d int) bool {
				if h == nil || d > 4 {
					return h == nil && false
				}
				switch y := h.(type) {
				case *ssa.Const:
					return y.Value != nil && y.Value.ExactString() == "0"
				case *ssa.Call:
					b, ok := y.Call.Value.(*ssa.Builtin)
					return ok && b.Name() == "len"
				case *ssa.BinOp:
					if y.Op == token.SUB {
						_, isK := y.Y.(*ssa.Const)
						return isK && lenOK(y.X, d+1)
					}
				case *ssa.Phi:
					for _, e := range y.Edges {
						if !lenOK(e, d+1) {
							return false
						}
					}
					return true
				case *ssa.Field, *ssa.UnOp:
					// a length kept in a field of a small struct of the package (state saved at the call and handed to the
					// code that restores it): every value ever stored in that field must be such a length
					if fv := structFieldRead(y); fv != nil {
						ws := structFieldWrites(c, "interp", fv)
						if len(ws) == 0 {
							return false
						}
						for _, wv := range ws {
							if !lenOK(wv, d+1) {
								return false
							}
						}
						return true
					}
				}
				return false
			}
			if x.Low != nil || !lenOK(x.High, 0) {
				return false
			}
			return base(x.X) || fresh(x.X, base, depth+1)
		case *ssa.MakeSlice:
			return true
		case *ssa.Call:
			if b, ok := x.Call.Value.(*ssa.Builtin); ok && b.Name() == "append" && len(x.Call.Args) == 2 {
				if !(base(x.Call.Args[0]) || fresh(x.Call.Args[0], base, depth+1)) {
					return false
				}
				// the appended elements: a varargs array whose stores are all MakeMap
				sl, ok := x.Call.Args[1].(*ssa.Slice)
				if !ok {
					return false
				}
				al, ok := sl.X.(*ssa.Alloc)
				if !ok {
					return false
				}
				okElems := false
				for _, r := range *al.Referrers() {
					if ia, ok := r.(*ssa.IndexAddr); ok {
						for _, r2 := range *ia.Referrers() {
							if st, ok := r2.(*ssa.Store); ok {
								if _, isMake := st.Val.(*ssa.MakeMap); isMake {
									okElems = true
								} else {
									return false
								}
							}
						}
					}
				}
				return okElems
			}
			if cal := x.Call.StaticCallee(); cal != nil && len(cal.Blocks) > 0 && depth < 2 {
				// a helper: every return extends one of its parameters by fresh maps
				isParam := func(p ssa.Value) bool {
					_, ok := p.(*ssa.Parameter)
					return ok
				}
				n := 0
				for _, b := range cal.Blocks {
					if len(b.Instrs) == 0 {
						continue
					}
					if ret, ok := b.Instrs[len(b.Instrs)-1].(*ssa.Return); ok && len(ret.Results) == 1 {
						n++
						if !fresh(ret.Results[0], isParam, depth+2) {
							return false
						}
					}
				}
				return n > 0
			}
		}
		return base(v)
	}
	n := 0
	for _, fn := range c.srcFuncs("interp") {
		fn := fn
		if fn.Name() == "newInterp" {
			continue
		}
		allInstrs(fn, func(in ssa.Instruction) {
			name, val := interpFieldStore(in)
			if name != "arrays" {
				return
			}
			n++
			c.check(fresh(val, isTable, 0), "local-array-fresh:"+fnKey(fn), posOr(in.Pos(), fn.Pos()), "the table of live arrays is only truncated or extended by newly made maps", fnKey(fn)+" puts into the table of live arrays something other than the table itself truncated or extended by freshly made maps (for example a map left over from an earlier call): when that call was left by exit or an error, its contents are still there and show up in the next call's local array")
		})
	}
	c.atLeast("stores into the table of live arrays", n, 2)
}

// nestedFunctionExecutes: the calls of interp.execute, from execute itself or from a helper of the interpreter, whose
// code argument is the Body of a compiled Function - where a user-defined function's body is run.
func nestedFunctionExecutes(c *Ctx) []ssa.Instruction {
	ex := c.ssaFunc("interp", "interp.execute")
	if ex == nil {
		return nil
	}
	var nested []ssa.Instruction
	for _, host := range c.srcFuncs("interp") {
		allInstrs(host, func(in ssa.Instruction) {
			call, ok := in.(ssa.CallInstruction)
			if !ok || call.Common().StaticCallee() != ex || len(call.Common().Args) < 2 {
				return
			}
			if f, base := loadedField(call.Common().Args[1]); f != nil && f.Name() == "Body" && base != nil {
				if nm := named(deref(base.Type())); nm != nil && nm.Obj().Name() == "Function" {
					nested = append(nested, in)
				}
			}
		})
	}
	return nested
}

// mustEffects: the interpreter fields a function stores, and the names of the functions it calls, on every path from
// its entry to a return (stores and calls in blocks that dominate every returning block; callees of the same package
// are followed).
func mustEffects(fn *ssa.Function, depth int) (stores map[string]bool, calls map[string]bool) {
	stores, calls = map[string]bool{}, map[string]bool{}
	if fn == nil || len(fn.Blocks) == 0 || depth > 3 {
		return
	}
	var rets []*ssa.BasicBlock
	for _, b := range fn.Blocks {
		if len(b.Instrs) > 0 {
			if _, ok := b.Instrs[len(b.Instrs)-1].(*ssa.Return); ok {
				rets = append(rets, b)
			}
		}
	}
	for _, b := range fn.Blocks {
		all := len(rets) > 0
		for _, r := range rets {
			if !b.Dominates(r) {
				all = false
			}
		}
		if !all {
			continue
		}
		for _, in := range b.Instrs {
			if name, _ := interpFieldStore(in); name != "" {
				stores[name] = true
			}
			if ci, ok := in.(ssa.CallInstruction); ok {
				if cal := ci.Common().StaticCallee(); cal != nil {
					calls[cal.Name()] = true
					if cal.Pkg == fn.Pkg && cal != fn {
						s2, c2 := mustEffects(cal, depth+1)
						for k := range s2 {
							stores[k] = true
						}
						for k := range c2 {
							calls[k] = true
						}
					}
				}
			}
		}
	}
	return
}

// structFieldRead: v reads a field of a struct value or through a pointer to a struct that is not the interpreter:
// the field, else nil.
func structFieldRead(v ssa.Value) *types.Var {
	switch x := v.(type) {
	case *ssa.Field:
		if st, ok := x.X.Type().Underlying().(*types.Struct); ok && !isInterp(x.X.Type()) {
			return st.Field(x.Field)
		}
	case *ssa.UnOp:
		if x.Op == token.MUL {
			if fa, ok := x.X.(*ssa.FieldAddr); ok && !isInterp(fa.X.Type()) {
				if st, ok := deref(fa.X.Type()).Underlying().(*types.Struct); ok {
					return st.Field(fa.Field)
				}
			}
		}
	}
	return nil
}

// structFieldWrites: every value stored into the given struct field anywhere in the package (composite literals are
// stores into the fields of a fresh struct on the SSA form).
func structFieldWrites(c *Ctx, pkgShort string, f *types.Var) []ssa.Value {
	key := fmt.Sprintf("structFieldWrites:%s:%p", pkgShort, f)
	if r, ok := c.memo[key].([]ssa.Value); ok {
		return r
	}
	var out []ssa.Value
	for _, fn := range c.srcFuncs(pkgShort) {
		allInstrs(fn, func(in ssa.Instruction) {
			if st, ok := in.(*ssa.Store); ok {
				if fa, ok := st.Addr.(*ssa.FieldAddr); ok {
					if sst, ok := deref(fa.X.Type()).Underlying().(*types.Struct); ok && sst.Field(fa.Field) == f {
						out = append(out, st.Val)
					}
				}
			}
		})
	}
	c.memo[key] = out
	return out
}
