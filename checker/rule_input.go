package main

import (
	"fmt"
	"go/ast"
	"go/constant"
	"go/token"
	"go/types"
	"sort"
	"strings"

	"golang.org/x/tools/go/ssa"
)

// R-INPUT (C11): input bookkeeping.

func init() {
	register("R-INPUT", "input bookkeeping: (COUNTERS) every write of the storage of NR and FNR is, by the value written, an increment by one (only after a successful Scan in the same function), a restart at zero (NR never in code the record-taking function can reach; FNR in the functions that install a new input) or the script's own assignment; every installation of a new main input is followed by the call that restarts FNR; (GETLINE) in p.getline the branches for a command and for a named file never reach nextLine (so NR/FNR are untouched) and the plain form does; among the getline handlers only the plain form calls setLine, only the field form calls setField, and the variable/array forms call neither; (SENTINELS) next/nextfile are caught by the main loop (on the edge where the error equals the nextfile sentinel the scanner is set to nil), break by the for-in handler, return values by the call handler, exit by executeAll, which never hands a control-flow sentinel to its caller and still runs END after an exit in BEGIN or the main loop; (RANGE) the range-pattern state is allocated once per run, lazily, and never discarded while records are being processed; (OPERANDS) the operand cursor starts at 1 and 'no file seen yet' is established by every successful setExecuteConfig, independently of resetCore; (EXIT) exit with a value stores the status before raising the exit sentinel and executeAll returns the stored status", ruleInput)
}

func ruleInput(c *Ctx) {
	finishFresh(c)
	varOperandMatchedRaw(c)
	sp := specialFieldMap(c)
	nr, fnr := "", ""
	if f := sp["V_NR"]; len(f) > 0 {
		nr = f[0]
	}
	if f := sp["V_FNR"]; len(f) > 0 {
		fnr = f[0]
	}
	if nr == "" || fnr == "" {
		c.undecided("anchor:NR", token.NoPos, "storage of NR/FNR not found through getSpecial")
		return
	}
	writes := interpFieldWrites(c)
	// every write of a record counter is classified by the value written, not by the function it sits in:
	//   +1   the counter's own value plus one: only after a successful Scan (the record was taken)
	//   0    a restart: NR only outside everything the record-taking function can call; FNR when a new input
	//        is installed (those functions are the "set file" role below)
	//   v    a value parameter: the script's own assignment (the special-variable setter)
	classify := func(f string, val ssa.Value) string {
		call, ok := val.(*ssa.Call)
		if ok && len(call.Call.Args) == 1 {
			switch a := call.Call.Args[0].(type) {
			case *ssa.Const:
				if a.Value != nil && (a.Value.ExactString() == "0") {
					return "zero"
				}
			case *ssa.BinOp:
				if k, isK := a.Y.(*ssa.Const); isK && a.Op == token.ADD && k.Value != nil && k.Value.ExactString() == "1" {
					if inner, isCall := a.X.(*ssa.Call); isCall && len(inner.Call.Args) == 1 {
						if fv, _ := loadedField(inner.Call.Args[0]); fv != nil && fv.Name() == f {
							return "incr"
						}
					}
				}
			}
		}
		if _, isParam := val.(*ssa.Parameter); isParam {
			return "param"
		}
		return "other"
	}
	// the record taker: the function(s) holding the Scan-guarded increments; what it can reach
	takers := map[*ssa.Function]bool{}
	for _, f := range []string{nr, fnr} {
		for _, w := range writes[f] {
			if w.kind == "store" && classify(f, w.val) == "incr" {
				takers[w.fn] = true
			}
		}
	}
	reach := map[*ssa.Function]bool{}
	var mark func(fn *ssa.Function)
	mark = func(fn *ssa.Function) {
		if reach[fn] {
			return
		}
		reach[fn] = true
		allInstrs(fn, func(in ssa.Instruction) {
			if call, ok := in.(ssa.CallInstruction); ok {
				if cal := call.Common().StaticCallee(); cal != nil && cal.Pkg == fn.Pkg {
					mark(cal)
				}
			}
		})
	}
	for t := range takers {
		mark(t)
	}
	setFileFns := map[*ssa.Function]bool{}
	for _, f := range []string{nr, fnr} {
		var bad []string
		nIncr := 0
		for _, w := range writes[f] {
			if w.kind != "store" {
				bad = append(bad, w.fn.Name()+": "+w.kind)
				continue
			}
			switch classify(f, w.val) {
			case "incr":
				nIncr++
			case "zero":
				if f == fnr && reach[w.fn] {
					setFileFns[w.fn] = true
				}
				if f == nr && reach[w.fn] {
					bad = append(bad, w.fn.Name()+": NR restarted while input is being read")
				}
			case "param":
			default:
				bad = append(bad, w.fn.Name()+": a value that is neither the counter plus one, zero, nor the script's assignment")
			}
		}
		sort.Strings(bad)
		c.check(len(bad) == 0 && nIncr > 0, "counters:writers:"+f, token.NoPos, fmt.Sprintf("%s is only incremented by one (%d site), restarted, or assigned by the script", f, nIncr), fmt.Sprintf("%s (record counter) is written in a way that breaks the count %v: it no longer equals the records taken from the main input", f, bad))
	}
	if len(takers) == 0 {
		c.undecided("anchor:nextLine", token.NoPos, "no function increments NR/FNR")
		return
	}
	var nl *ssa.Function
	for t := range takers {
		if nl == nil || t.Name() < nl.Name() {
			nl = t
		}
	}
	// increments are dominated by the true edge of Scan() in their function
	for _, f := range []string{nr, fnr} {
		okInc, n := true, 0
		for _, w := range writes[f] {
			if w.kind != "store" || classify(f, w.val) != "incr" {
				continue
			}
			n++
			var scanBlk *ssa.BasicBlock
			allInstrs(w.fn, func(in ssa.Instruction) {
				if call, ok := in.(*ssa.Call); ok && call.Call.StaticCallee() != nil && call.Call.StaticCallee().String() == "(*bufio.Scanner).Scan" {
					for _, r := range *call.Referrers() {
						if ifi, ok := r.(*ssa.If); ok {
							scanBlk = ifi.Block()
						}
					}
				}
			})
			var blk *ssa.BasicBlock
			allInstrs(w.fn, func(in ssa.Instruction) {
				if in.Pos() == w.pos {
					if _, isStore := in.(*ssa.Store); isStore {
						blk = in.Block()
					}
				}
			})
			if scanBlk == nil || blk == nil || !scanBlk.Dominates(blk) || reachableAvoiding(scanBlk.Succs[1], scanBlk)[blk] {
				okInc = false
			}
		}
		c.check(okInc && n > 0, "counters:increment:"+f, nl.Pos(), f+" is incremented by exactly 1, only after a successful Scan", f+" is not incremented by exactly one on (only) the successful-scan path of the record-taking function")
	}
	// set-file on every installation of a new input: each store to p.input of a non-nil value (in any function the
	// record taker reaches) is followed in its block by a call of a function that restarts FNR
	nInst := 0
	for fn := range reach {
		fn := fn
		nHere := 0
		allInstrs(fn, func(in ssa.Instruction) {
			name, val := interpFieldStore(in)
			if name != "input" || isNilConst(val) {
				return
			}
			nInst++
			nHere++
			okSF := false
			seen := false
			for _, i2 := range in.Block().Instrs {
				if i2 == in {
					seen = true
				}
				if call, ok := i2.(ssa.CallInstruction); ok && seen {
					if cal := call.Common().StaticCallee(); cal != nil && setFileFns[cal] {
						okSF = true
					}
				}
			}
			c.check(okSF, fmt.Sprintf("counters:setFile:%s#%d", fn.Name(), nHere), in.Pos(), "installing a new input is followed by the call that sets FILENAME and restarts FNR", fn.Name()+" installs a new input without calling the function that restarts FNR: FNR is not restarted / FILENAME not updated for that operand")
		})
	}
	c.atLeast("input installations reachable from the record-taking function", nInst, 2)

	// GETLINE: the getline helper (the function of the interpreter that takes a redirection token and can reach the
	// record-taking function), specialised on that token on its SSA form: for a command (PIPE) and for a named file
	// (LESS) no reachable block calls anything that reaches the record taker (NR and FNR untouched); for no
	// redirection some reachable block does
	vm := buildVMModel(c)
	_ = vm.pkg.TypesInfo
	{
		ipkg := c.ssaPkg("interp")
		reachTaker := map[*ssa.Function]bool{}
		for t := range takers {
			reachTaker[t] = true
		}
		for changed := true; changed; {
			changed = false
			for _, fn := range c.srcFuncs("interp") {
				if reachTaker[fn] {
					continue
				}
				fn := fn
				allInstrs(fn, func(in ssa.Instruction) {
					if call, ok := in.(ssa.CallInstruction); ok {
						if cal := call.Common().StaticCallee(); cal != nil && reachTaker[cal] && !reachTaker[fn] {
							reachTaker[fn] = true
							changed = true
						}
					}
				})
			}
		}
		var glf *ssa.Function
		var tokParam *ssa.Parameter
		for _, fn := range c.srcFuncs("interp") {
			if fn.Parent() != nil || !reachTaker[fn] || takers[fn] {
				continue
			}
			for _, prm := range fn.Params {
				if isNamed(prm.Type(), modPath+"/lexer", "Token") && (glf == nil || fn.Name() == "getline") {
					glf, tokParam = fn, prm
				}
			}
		}
		tokVal := map[string]int64{}
		for _, k := range c.constsOfType("lexer", "Token") {
			if v, ok := constant.Int64Val(k.Val()); ok {
				tokVal[k.Name()] = v
			}
		}
		if glf == nil || ipkg == nil {
			c.undecided("anchor:getline", token.NoPos, "no function of the interpreter takes a redirection token and reaches the record-taking function")
		} else {
			for _, sc := range []struct {
				name string
				want bool
			}{{"ILLEGAL", true}, {"PIPE", false}, {"LESS", false}} {
				ctx := &specCtx{fn: glf, sp: &spec{pkg: ipkg, ints: map[string]int64{}}, bind: map[*ssa.Parameter]specBind{tokParam: {known: true, val: tokVal[sc.name]}}}
				reaches := false
				for b := range ctx.reached() {
					for _, in := range b.Instrs {
						if call, ok := in.(ssa.CallInstruction); ok {
							if cal := call.Common().StaticCallee(); cal != nil && reachTaker[cal] {
								reaches = true
							}
						}
					}
				}
				if sc.want {
					c.check(reaches, "getline:plain", glf.Pos(), "plain getline takes its record from the main input (the record taker: NR and FNR advance)", "plain getline no longer reads through the record-taking function: NR/FNR do not count the record")
				} else {
					c.check(!reaches, "getline:"+sc.name, glf.Pos(), "getline from a "+map[string]string{"PIPE": "command", "LESS": "named file"}[sc.name]+" never reaches the record taker: NR and FNR are left alone", "getline with redirection "+sc.name+" can reach the record-taking function: reading from a named file or command would change NR/FNR")
				}
			}
		}
	}
	// handlers: who calls setLine / setField
	want := map[string][2]bool{"Getline": {true, false}, "GetlineField": {false, true}, "GetlineGlobal": {false, false}, "GetlineLocal": {false, false}, "GetlineSpecial": {false, false}, "GetlineArray": {false, false}}
	for cl, w := range want {
		cc := vm.clauses[cl]
		if cc == nil {
			c.undecided("getline-effect:"+cl, token.NoPos, "clause not found")
			continue
		}
		got := [2]bool{}
		ast.Inspect(cc, func(m ast.Node) bool {
			if call, ok := m.(*ast.CallExpr); ok {
				if se, ok := call.Fun.(*ast.SelectorExpr); ok {
					switch se.Sel.Name {
					case "setLine":
						got[0] = true
					case "setField":
						got[1] = true
					default:
						// through a small helper of the interpreter that makes the call itself
						if f := calleeOf(vm.pkg.TypesInfo, call); f != nil && f.Pkg() == vm.pkg.Types {
							if sf := c.Prog.FuncValue(f); sf != nil {
								if callsWithin(sf, "setLine", 1) {
									got[0] = true
								}
								if callsWithin(sf, "setField", 1) {
									got[1] = true
								}
							}
						}
					}
				}
			}
			return true
		})
		c.check(got == w, "getline-effect:"+cl, cc.Pos(), fmt.Sprintf("%s: setLine=%v setField=%v", cl, got[0], got[1]), fmt.Sprintf("%s touches the record state (setLine=%v, setField=%v; expected %v, %v): `getline var` must fill only var, plain getline sets $0, `getline $n` sets field n", cl, got[0], got[1], w[0], w[1]))
	}

	// SENTINELS
	type catch struct{ fn, sentinel string }
	for _, k := range []catch{{"interp.execActions", "errNext"}, {"interp.execActions", "errNextfile"}, {"interp.executeAll", "errExit"}, {"interp.execute", "errBreak"}} {
		fd := c.funcDecl("interp", k.fn)
		found := false
		if fd != nil {
			ast.Inspect(fd.Body, func(m ast.Node) bool {
				if be, ok := m.(*ast.BinaryExpr); ok && (be.Op == token.EQL || be.Op == token.NEQ) && (isIdent(be.Y, k.sentinel) || isIdent(be.X, k.sentinel)) {
					found = true
				}
				// `switch err { case errNext: ... }`
				if cc, ok := m.(*ast.CaseClause); ok {
					for _, e := range cc.List {
						if isIdent(e, k.sentinel) {
							found = true
						}
					}
				}
				return true
			})
		}
		c.check(found, "sentinel:"+k.sentinel, token.NoPos, k.sentinel+" is compared in its catcher "+k.fn, k.sentinel+" is never compared in "+k.fn+": the control-flow sentinel would escape to the caller as an error")
	}
	// every piece of program code the main loop runs - patterns as well as bodies - can end in next or nextfile (through
	// a function it calls): the error of each execute call in the main loop's function reaches a comparison with both
	// sentinels (directly, or in a helper or closure it is handed to) before it can be returned
	if ea := c.ssaFunc("interp", "interp.execActions"); ea != nil {
		comparesWith := func(v ssa.Value, sentinel string, depth int) bool { return false }
		var cmp func(v ssa.Value, sentinel string, depth int) bool
		cmp = func(v ssa.Value, sentinel string, depth int) bool {
			if depth > 3 || v.Referrers() == nil {
				return false
			}
			for _, r := range *v.Referrers() {
				switch x := r.(type) {
				case *ssa.BinOp:
					for _, side := range []ssa.Value{x.X, x.Y} {
						if ld, ok := side.(*ssa.UnOp); ok && ld.Op == token.MUL {
							if g, ok := ld.X.(*ssa.Global); ok && g.Name() == sentinel {
								return true
							}
						}
					}
				case *ssa.Phi:
					if cmp(x, sentinel, depth+1) {
						return true
					}
				case *ssa.Call:
					// handed to a helper or closure: the parameter it becomes
					var callee *ssa.Function
					if f := x.Call.StaticCallee(); f != nil {
						callee = f
					} else if ld, ok := x.Call.Value.(*ssa.UnOp); ok {
						// a closure kept in a local variable
						if al, ok := ld.X.(*ssa.Alloc); ok && al.Referrers() != nil {
							for _, ar := range *al.Referrers() {
								if st, ok := ar.(*ssa.Store); ok {
									if mc, ok := st.Val.(*ssa.MakeClosure); ok {
										callee, _ = mc.Fn.(*ssa.Function)
									}
								}
							}
						}
					} else if mc, ok := x.Call.Value.(*ssa.MakeClosure); ok {
						callee, _ = mc.Fn.(*ssa.Function)
					}
					if callee != nil {
						for i, a := range x.Call.Args {
							if a == v && i < len(callee.Params) && cmp(callee.Params[i], sentinel, depth+1) {
								return true
							}
						}
					}
				}
			}
			return false
		}
		_ = comparesWith
		k := 0
		// the main loop's function and the helpers only it reaches
		loopFns := []*ssa.Function{ea}
		if reg := c.exclusiveRegion("interp", ea); reg != nil {
			for g := range reg {
				if g != ea && g.Name() != "execute" {
					loopFns = append(loopFns, g)
				}
			}
			sort.Slice(loopFns[1:], func(i, j int) bool { return loopFns[1+i].Name() < loopFns[1+j].Name() })
		}
		for _, lf := range loopFns {
		allInstrs(lf, func(in ssa.Instruction) {
			call, ok := in.(*ssa.Call)
			if !ok {
				return
			}
			if cal := call.Call.StaticCallee(); cal == nil || cal.Name() != "execute" {
				return
			}
			// a helper that hands the error on to the main loop: followed through its result
			if lf != ea {
				forwarded := false
				if call.Referrers() != nil {
					for _, r := range *call.Referrers() {
						if _, isRet := r.(*ssa.Return); isRet {
							forwarded = true
						}
					}
				}
				if forwarded {
					return
				}
			}
			k++
			for _, sentinel := range []string{"errNext", "errNextfile"} {
				key := fmt.Sprintf("sentinel:%s:execute#%d", sentinel, k)
				c.check(cmp(call, sentinel, 0), key, call.Pos(), "the error of this execute call is compared with "+sentinel+" before it can be returned",
					"the main loop returns the error of an execute call (a pattern, or one half of a range pattern) without comparing it with "+sentinel+": `next`/`nextfile` executed by a function that the pattern calls ends the run with the error \""+strings.TrimPrefix(strings.ToLower(sentinel), "err")+"\" instead of abandoning the record")
			}
		})
		}
		c.atLeast("execute calls in the main loop", k, 1)
	}
	// returnValue is recognised where a function body is run: the error result of the nested execute of a Function's
	// Body (in execute's call handler or in a helper of it) reaches a type test for the return-value sentinel
	{
		nested := nestedFunctionExecutes(c)
		if len(nested) == 0 {
			c.undecided("sentinel:returnValue", token.NoPos, "no nested execute of a compiled function's body found")
		}
		for i, in := range nested {
			found := false
			if v, ok := in.(ssa.Value); ok {
				seen := map[ssa.Value]bool{}
				var follow func(v ssa.Value, d int)
				follow = func(v ssa.Value, d int) {
					if seen[v] || d > 6 || v.Referrers() == nil {
						return
					}
					seen[v] = true
					for _, r := range *v.Referrers() {
						switch x := r.(type) {
						case *ssa.TypeAssert:
							if nm := named(x.AssertedType); nm != nil && nm.Obj().Name() == "returnValue" {
								found = true
							}
						case *ssa.Phi:
							follow(x, d+1)
						case *ssa.ChangeInterface:
							follow(x, d+1)
						case *ssa.MakeInterface:
							follow(x, d+1)
						case *ssa.Extract:
							follow(x, d+1)
						}
					}
				}
				follow(v, 0)
			}
			key := "sentinel:returnValue"
			if i > 0 {
				key = fmt.Sprintf("sentinel:returnValue#%d", i+1)
			}
			c.check(found, key, in.Pos(), "the call handler recognises the return-value sentinel", "the call handler no longer recognises returnValue: a function's return would propagate as an error")
		}
	}
	// nextfile drops the scanner
	if fd := c.funcDecl("interp", "interp.execActions"); fd != nil {
		rangeNil := false
		var lazyAlloc int
		// nextfile: on the edge where the error equals errNextfile, the scanner field is set to nil (SSA)
		okDrop := false
		for _, fn := range c.srcFuncs("interp") {
			for _, b := range fn.Blocks {
				if len(b.Instrs) == 0 {
					continue
				}
				iff, ok := b.Instrs[len(b.Instrs)-1].(*ssa.If)
				if !ok {
					continue
				}
				bo, ok := iff.Cond.(*ssa.BinOp)
				if !ok || (bo.Op != token.EQL && bo.Op != token.NEQ) {
					continue
				}
				isSentinel := false
				for _, side := range []ssa.Value{bo.X, bo.Y} {
					if ld, ok := side.(*ssa.UnOp); ok && ld.Op == token.MUL {
						if g, ok := ld.X.(*ssa.Global); ok && g.Name() == "errNextfile" {
							isSentinel = true
						}
					}
				}
				if !isSentinel {
					continue
				}
				idx := 0
				if bo.Op == token.NEQ {
					idx = 1
				}
				for _, d := range fn.Blocks {
					if d != b.Succs[idx] && !edgeDominates(b, idx, d) {
						continue
					}
					for _, in := range d.Instrs {
						if name, val := interpFieldStore(in); name == "scanner" && isNilConst(val) {
							okDrop = true
						}
					}
				}
			}
		}
		ast.Inspect(fd.Body, func(m ast.Node) bool {
			switch x := m.(type) {
			case *ast.AssignStmt:
				for i, l := range x.Lhs {
					if isIdent(l, "inRange") && i < len(x.Rhs) {
						if isIdent(x.Rhs[i], "nil") {
							rangeNil = true
						} else if call, ok := x.Rhs[i].(*ast.CallExpr); ok && isIdent(call.Fun, "make") {
							lazyAlloc++
						}
					}
				}
			}
			return true
		})
		c.check(okDrop, "nextfile:drops-scanner", fd.Pos(), "nextfile abandons the current file by dropping its scanner", "the nextfile catcher does not drop the scanner: the rest of the current file would still be read")
		// the same decided on the SSA form, whatever the state is called and however it is shaped (a []bool next to
		// the actions, or a slice of structs holding each rule's flag): the storage that holds a boolean per rule is
		// allocated outside the record loop, or inside it only under a test that it is still nil, and nil never flows
		// back into it from inside the loop
		if fn := c.ssaFunc("interp", "interp.execActions"); fn != nil {
			holdsBool := func(t types.Type) bool {
				sl, ok := t.Underlying().(*types.Slice)
				if !ok {
					return false
				}
				if b, ok := sl.Elem().Underlying().(*types.Basic); ok && b.Kind() == types.Bool {
					return true
				}
				if st, ok := sl.Elem().Underlying().(*types.Struct); ok {
					for i := 0; i < st.NumFields(); i++ {
						if b, ok := st.Field(i).Type().Underlying().(*types.Basic); ok && b.Kind() == types.Bool {
							return true
						}
					}
				}
				return false
			}
			// the record loop: the blocks on a cycle through a call of the record taker
			inLoop := map[*ssa.BasicBlock]bool{}
			for _, b := range fn.Blocks {
				for _, in := range b.Instrs {
					if callsNamed(in, "nextLine") {
						for x := range reachableFrom(b) {
							if reachableFrom(x)[b] {
								inLoop[x] = true
							}
						}
						inLoop[b] = true
					}
				}
			}
			nAlloc, badAlloc, nilBack := 0, 0, 0
			for _, b := range fn.Blocks {
				for _, in := range b.Instrs {
					if ms, ok := in.(*ssa.MakeSlice); ok && holdsBool(ms.Type()) {
						nAlloc++
						if !inLoop[b] {
							continue
						}
						lazy := false
						for _, g := range fn.Blocks {
							if len(g.Instrs) == 0 || !g.Dominates(b) || g == b {
								continue
							}
							if ifi, ok := g.Instrs[len(g.Instrs)-1].(*ssa.If); ok {
								if bo, ok := ifi.Cond.(*ssa.BinOp); ok && bo.Op == token.EQL && isNilConst(bo.Y) && types.Identical(bo.X.Type(), ms.Type()) && !reachableAvoiding(g.Succs[1], g)[b] {
									lazy = true
								}
							}
						}
						if !lazy {
							badAlloc++
						}
					}
					if ph, ok := in.(*ssa.Phi); ok && holdsBool(ph.Type()) && inLoop[b] {
						for i, e := range ph.Edges {
							if isNilConst(e) && inLoop[b.Preds[i]] {
								nilBack++
							}
						}
					}
				}
			}
			if len(inLoop) > 0 && nAlloc > 0 {
				rangeNil = nilBack > 0
				lazyAlloc = 1
				if badAlloc > 0 || nAlloc != 1 {
					lazyAlloc = nAlloc + badAlloc + 1
				}
			}
		}
		c.check(!rangeNil && lazyAlloc == 1, "range-state", fd.Pos(), "range-pattern state is allocated once, lazily, and never discarded during the run", "the range-pattern state is reset or re-allocated while records are being processed: a range opened on an earlier record (or in an earlier file, before nextfile) is forgotten")
	}

	// executeAll: END runs after exit; returns p.exitStatus
	ea := c.funcDecl("interp", "interp.executeAll")
	if ea != nil {
		// count of execute(...End) calls not nested under `err != errExit`
		endUncond := false
		for _, s := range ea.Body.List {
			if as, ok := s.(*ast.AssignStmt); ok && len(as.Rhs) == 1 {
				if strings.Contains(types.ExprString(as.Rhs[0]), ".End)") {
					endUncond = true
				}
			}
		}
		retStatus := 0
		ast.Inspect(ea.Body, func(m ast.Node) bool {
			if r, ok := m.(*ast.ReturnStmt); ok && len(r.Results) == 2 && strings.HasSuffix(types.ExprString(r.Results[0]), ".exitStatus") && isIdent(r.Results[1], "nil") {
				retStatus++
			}
			return true
		})
		// the same on the SSA form, by role: the call that runs END (execute on a field called End/end of the compiled
		// program, under whatever name the interpreter keeps it) is reachable from the exit edge of every test of the
		// exit sentinel that comes before it
		if fn := c.ssaFunc("interp", "interp.executeAll"); fn != nil {
			var endBlocks []*ssa.BasicBlock
			allInstrs(fn, func(in ssa.Instruction) {
				call, ok := in.(ssa.CallInstruction)
				if !ok || call.Common().StaticCallee() == nil || call.Common().StaticCallee().Name() != "execute" || len(call.Common().Args) < 2 {
					return
				}
				if f, _ := loadedField(call.Common().Args[1]); f != nil && strings.EqualFold(f.Name(), "end") {
					endBlocks = append(endBlocks, in.Block())
				}
			})
			if len(endBlocks) > 0 {
				good := true
				for _, g := range fn.Blocks {
					if len(g.Instrs) == 0 {
						continue
					}
					ifi, ok := g.Instrs[len(g.Instrs)-1].(*ssa.If)
					if !ok {
						continue
					}
					bo, ok := ifi.Cond.(*ssa.BinOp)
					if !ok || (bo.Op != token.EQL && bo.Op != token.NEQ) {
						continue
					}
					isExit := false
					for _, side := range []ssa.Value{bo.X, bo.Y} {
						if ld, ok := side.(*ssa.UnOp); ok && ld.Op == token.MUL {
							if gl, ok := ld.X.(*ssa.Global); ok && gl.Name() == "errExit" {
								isExit = true
							}
						}
					}
					if !isExit {
						continue
					}
					// only tests made before END runs matter
					before := false
					for _, eb := range endBlocks {
						if reachableFrom(g)[eb] {
							before = true
						}
					}
					if !before {
						continue
					}
					exitEdge := g.Succs[0]
					if bo.Op == token.NEQ {
						exitEdge = g.Succs[1]
					}
					reaches := false
					for _, eb := range endBlocks {
						if exitEdge == eb || reachableFrom(exitEdge)[eb] {
							reaches = true
						}
					}
					if !reaches {
						good = false
					}
				}
				endUncond = good
			}
		}
		c.check(endUncond, "exit:END-runs", ea.Pos(), "END is executed as an unconditional step of executeAll (also after exit in BEGIN or the main loop)", "executeAll no longer runs END unconditionally after BEGIN/main processing: `exit` in BEGIN or a rule would skip END")
		c.check(retStatus >= 2, "exit:status-returned", ea.Pos(), "normal returns of executeAll return the stored exit status with a nil error", "executeAll does not return the stored exit status on its normal paths")
	}
	if cc := vm.clauses["ExitStatus"]; cc != nil {
		store, ret := token.NoPos, token.NoPos
		ast.Inspect(cc, func(m ast.Node) bool {
			switch x := m.(type) {
			case *ast.AssignStmt:
				if len(x.Lhs) == 1 && strings.HasSuffix(types.ExprString(x.Lhs[0]), ".exitStatus") {
					store = x.Pos()
				}
			case *ast.ReturnStmt:
				if len(x.Results) == 1 && isIdent(x.Results[0], "errExit") {
					ret = x.Pos()
				}
			}
			return true
		})
		c.check(store != token.NoPos && ret != token.NoPos && store < ret, "exit:store-then-raise", cc.Pos(), "exit <value> stores the status, then raises the exit sentinel", "the ExitStatus handler does not store the status before raising errExit")
	}

	// EXIT, compiler side: the plain Exit opcode (which leaves the stored status alone) is emitted only for an exit
	// statement without a status expression; `exit <expr>` always goes through ExitStatus, whatever the expression
	{
		cpkg := c.ssaPkg("internal/compiler")
		exitVal := int64(-1)
		for _, k := range c.constsOfType("internal/compiler", "Opcode") {
			if k.Name() == "Exit" {
				exitVal, _ = constant.Int64Val(k.Val())
			}
		}
		nExit, bad := 0, token.NoPos
		anyBad := false
		if cpkg != nil && exitVal >= 0 {
			for _, fn := range c.srcFuncs("internal/compiler") {
				if fn.Name() == "String" || fn.Signature.Recv() == nil {
					continue
				}
				for _, b := range fn.Blocks {
					for _, in := range b.Instrs {
						st, ok := in.(*ssa.Store)
						if !ok {
							continue
						}
						k, ok := st.Val.(*ssa.Const)
						if !ok || k.Value == nil || !isNamed(k.Type(), modPath+"/internal/compiler", "Opcode") {
							continue
						}
						if v, ok := constant.Int64Val(k.Value); !ok || v != exitVal {
							continue
						}
						if _, isIA := st.Addr.(*ssa.IndexAddr); !isIA {
							continue
						}
						nExit++
						// dominated by the "Status == nil" edge of a test of the statement's Status field
						guarded := false
						for _, d := range fn.Blocks {
							if len(d.Instrs) == 0 || !d.Dominates(b) || d == b {
								continue
							}
							iff, ok := d.Instrs[len(d.Instrs)-1].(*ssa.If)
							if !ok {
								continue
							}
							bo, ok := iff.Cond.(*ssa.BinOp)
							if !ok || (bo.Op != token.EQL && bo.Op != token.NEQ) {
								continue
							}
							isStatus := false
							for _, side := range []ssa.Value{bo.X, bo.Y} {
								if f, _ := loadedField(side); f != nil && f.Name() == "Status" {
									isStatus = true
								}
							}
							if !isStatus || !(isNilConst(bo.X) || isNilConst(bo.Y)) {
								continue
							}
							nilEdge := 0
							if bo.Op == token.NEQ {
								nilEdge = 1
							}
							if !reachableAvoiding(d.Succs[1-nilEdge], d)[b] {
								guarded = true
							}
						}
						if !guarded {
							anyBad = true
							bad = fn.Pos()
						}
					}
				}
			}
		}
		c.check(nExit > 0 && !anyBad, "exit:status-compiled", bad, "the plain Exit opcode is emitted only where the exit statement has no status expression", "the compiler emits the plain Exit opcode for an exit statement that has a status expression (on some path): the stored exit status is then left as it was, so `exit 0` in END no longer overrides an earlier `exit 3`")
	}

	// OPERANDS
	sec := c.ssaFunc("interp", "interp.setExecuteConfig")
	if sec != nil {
		must := mustStoreAtSuccess(sec)
		one := false
		allInstrs(sec, func(in ssa.Instruction) {
			if name, val := interpFieldStore(in); name == "filenameIndex" {
				if k, ok := val.(*ssa.Const); ok && k.Value != nil && k.Value.ExactString() == "1" {
					one = true
				}
			}
		})
		c.check(must["filenameIndex"] && must["hadFiles"] && one, "operands:cursor", sec.Pos(), "every successful setExecuteConfig starts the operand cursor at 1 and clears 'had files'", "setExecuteConfig does not (on every successful path) set the operand cursor to 1 and clear hadFiles: with ExecProgram (which does not call resetCore) ARGV[0] would be treated as the first operand, or operands of an earlier run would count")
	}
	// "had a file operand" is recorded when an input is installed, not when it yields a record: the only
	// store of true is in setFile, on every path through it (an operand with no records - an empty file,
	// /dev/null - must still suppress the fall-back to standard input)
	if sf := c.ssaFunc("interp", "interp.setFile"); sf != nil {
		inSetFile := false
		if len(sf.Blocks) > 0 {
			for _, b := range sf.Blocks {
				for _, in := range b.Instrs {
					if name, val := interpFieldStore(in); name == "hadFiles" {
						if k, ok := val.(*ssa.Const); ok && k.Value != nil && k.Value.ExactString() == "true" {
							// on every path: the block dominates every return
							dom := true
							for _, rb := range sf.Blocks {
								if len(rb.Instrs) > 0 {
									if _, isRet := rb.Instrs[len(rb.Instrs)-1].(*ssa.Return); isRet && !b.Dominates(rb) {
										dom = false
									}
								}
							}
							inSetFile = dom
						}
					}
				}
			}
		}
		elsewhere := ""
		for _, fn := range c.srcFuncs("interp") {
			if fn == sf {
				continue
			}
			allInstrs(fn, func(in ssa.Instruction) {
				if name, val := interpFieldStore(in); name == "hadFiles" {
					if k, ok := val.(*ssa.Const); ok && k.Value != nil && k.Value.ExactString() == "true" {
						elsewhere = fnKey(fn)
					}
				}
			})
		}
		c.check(inSetFile && elsewhere == "", "operands:had-files", sf.Pos(), "hadFiles is set exactly when an input is installed (setFile, every path)",
			"'had a file operand' is not recorded unconditionally in setFile (also set in: "+elsewhere+"): when every file operand yields no record the interpreter falls back to reading standard input, so NR, FNR and FILENAME count records that are not operands")
	} else {
		c.undecided("anchor:setFile", token.NoPos, "(*interp).setFile not found")
	}
}

// callsWithin: fn calls a function named target of its own package, directly or through at most depth-1 intermediate
// functions of the package that are not the dispatch loop.
func callsWithin(fn *ssa.Function, target string, depth int) bool {
	if fn == nil || depth <= 0 || len(fn.Blocks) > 60 {
		return false
	}
	found := false
	allInstrs(fn, func(in ssa.Instruction) {
		if ci, ok := in.(ssa.CallInstruction); ok {
			if g := ci.Common().StaticCallee(); g != nil && g.Pkg == fn.Pkg {
				if g.Name() == target || callsWithin(g, target, depth-1) {
					found = true
				}
			}
		}
	})
	return found
}
