package main

import (
	"go/token"
	"go/types"

	"golang.org/x/tools/go/ssa"
)

// numPoolLiteralOnly (part of R-ARITH, C01): the compiler interns number constants through a map keyed by float64.
// Map keys compare with ==, which identifies -0 with 0 and never finds a NaN again: the pool is only sound for the
// values the parser produces for number literals (non-negative, finite or +Inf). Every value that reaches the
// interning function is therefore the Value of a number-literal node, unchanged: a value computed at compile time
// (a folded `-0`, say) would share the constant of its == twin, and the compiled program would print 0 where the
// tree evaluation prints -0.
func numPoolLiteralOnly(c *Ctx) {
	isFloatMap := func(t types.Type) bool {
		m, ok := t.Underlying().(*types.Map)
		if !ok {
			return false
		}
		b, ok := m.Key().Underlying().(*types.Basic)
		return ok && b.Kind() == types.Float64
	}
	// the interning function: a function with a float64 parameter that looks it up in a map keyed by float64 - itself,
	// or by handing both the map and the parameter to a (generic) helper
	var pools []*ssa.Function
	poolKey := map[*ssa.Function]*ssa.Parameter{}
	for _, fn := range c.srcFuncs("internal/compiler") {
		fn := fn
		allInstrs(fn, func(in ssa.Instruction) {
			switch x := in.(type) {
			case *ssa.Lookup:
				if p, ok := x.Index.(*ssa.Parameter); ok && isFloatMap(x.X.Type()) {
					poolKey[fn] = p
				}
			case *ssa.Call:
				var hasMap bool
				var keyP *ssa.Parameter
				for _, a := range x.Call.Args {
					if isFloatMap(a.Type()) {
						hasMap = true
					}
					if p, ok := a.(*ssa.Parameter); ok {
						if b, ok := p.Type().Underlying().(*types.Basic); ok && b.Kind() == types.Float64 {
							keyP = p
						}
					}
				}
				if hasMap && keyP != nil {
					poolKey[fn] = keyP
				}
			}
		})
		if poolKey[fn] != nil {
			pools = append(pools, fn)
		}
	}
	if len(pools) == 0 {
		c.undecided("numpool:anchor", token.NoPos, "no function of the compiler looks a float64 parameter up in a map keyed by float64 (the pool of number constants was not found)")
		return
	}
	n := 0
	for _, pool := range pools {
		keyP := poolKey[pool]
		idx := -1
		for i, p := range pool.Params {
			if p == keyP {
				idx = i
			}
		}
		var literal func(v ssa.Value, depth int) (bool, string)
		literal = func(v ssa.Value, depth int) (bool, string) {
			switch x := v.(type) {
			case *ssa.UnOp:
				if x.Op == token.MUL {
					if f, base := fieldOfAddr(x.X); f != nil && isNamed(deref(base.Type()), modPath+"/internal/ast", "NumExpr") {
						return true, ""
					}
				}
				if x.Op == token.SUB {
					return false, "a negation"
				}
			case *ssa.Field:
				if isNamed(deref(x.X.Type()), modPath+"/internal/ast", "NumExpr") {
					return true, ""
				}
			case *ssa.Phi:
				for _, e := range x.Edges {
					if ok, why := literal(e, depth+1); !ok {
						return false, why
					}
				}
				return len(x.Edges) > 0, ""
			case *ssa.BinOp:
				return false, "the result of " + x.Op.String()
			case *ssa.Call:
				return false, "the result of a call"
			case *ssa.Convert:
				return false, "a converted value"
			case *ssa.Const:
				return false, "a constant that is not a literal of the program"
			}
			return false, "a computed value"
		}
		for _, fn := range c.srcFuncs("internal/compiler") {
			fn := fn
			k := 0
			allInstrs(fn, func(in ssa.Instruction) {
				call, ok := in.(ssa.CallInstruction)
				if !ok || call.Common().StaticCallee() != pool || idx >= len(call.Common().Args) {
					return
				}
				n++
				k++
				key := "numpool:" + fnKey(fn)
				if k > 1 {
					key += "#" + itoa(int64(k))
				}
				ok2, why := literal(call.Common().Args[idx], 0)
				c.check(ok2, key, in.Pos(), "the number interned is the Value of a number-literal node, unchanged",
					fnKey(fn)+" interns "+why+" in the pool of number constants, which is keyed by float64 equality: -0 and 0 are the same key (and NaN is never found again), so a folded constant such as -0 shares the slot of 0 - the compiled program prints 0 (or -0, whichever literal came first) where evaluating the tree gives the other")
			})
		}
	}
	c.atLeast("values interned in the pool of number constants", n, 1)
}

// compilerBuildsNoOperatorNodes (part of R-ARITH, C01): the compiler compiles the tree the parser built. The only syntax
// nodes it makes itself are operand leaves (a number, a string, a field of a literal index - default arguments). A
// node with operands of its own made in the compiler (an AugAssignExpr built from `x = x + e`, a BinaryExpr with
// swapped sides) is a rewrite of the program, and the rewritten form's evaluation order is not the source's.
func compilerBuildsNoOperatorNodes(c *Ctx) {
	leaves := map[string]bool{"NumExpr": true, "StrExpr": true, "FieldExpr": true, "VarExpr": true, "RegExpr": true}
	n := 0
	for _, fn := range c.srcFuncs("internal/compiler") {
		fn := fn
		k := 0
		allInstrs(fn, func(in ssa.Instruction) {
			al, ok := in.(*ssa.Alloc)
			if !ok {
				return
			}
			nm := named(deref(al.Type()))
			if nm == nil || nm.Obj().Pkg() == nil || nm.Obj().Pkg().Path() != modPath+"/internal/ast" {
				return
			}
			if _, isStruct := nm.Underlying().(*types.Struct); !isStruct {
				return
			}
			// a composite literal: the allocation is followed by field stores (a plain `var x ast.T` of a value type that is
			// only read into is not a construction of a node handed to the compiler)
			built := false
			if refs := al.Referrers(); refs != nil {
				for _, r := range *refs {
					if fa, ok := r.(*ssa.FieldAddr); ok && fa.Referrers() != nil {
						for _, r2 := range *fa.Referrers() {
							if _, isSt := r2.(*ssa.Store); isSt {
								built = true
							}
						}
					}
					if _, isMI := r.(*ssa.MakeInterface); isMI {
						built = true
					}
				}
			}
			if !built {
				return
			}
			n++
			k++
			key := "rewrite:" + fnKey(fn) + ":" + nm.Obj().Name()
			if k > 1 {
				key += "#" + itoa(int64(k))
			}
			c.check(leaves[nm.Obj().Name()], key, in.Pos(), "the compiler builds only operand leaves of its own",
				fnKey(fn)+" builds a syntax node of type "+nm.Obj().Name()+" and compiles it in place of what the parser produced: the rewritten form has its own evaluation order (the augmented-assignment opcodes read the variable after the right-hand side, a plain assignment before), so `x = x + f()` with an f that assigns x no longer does what the tree says")
		})
	}
	c.atLeast("syntax nodes built by the compiler", n, 2)
}
