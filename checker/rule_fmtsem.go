package main

import (
	"go/types"
	"sort"

	"golang.org/x/tools/go/ssa"
)

// The sprintf side of R-FMT, decided by evaluating interp.sprintf on the SSA form (ssainterp.go) for one
// conversion at a time: parseFmtTypes is taken to have returned the single argument tag T, the argument list
// holds one symbolic value (or none, for the COUNT clause). What is observed per path: which conversions of
// the argument are called, whether the value appended to the list handed to fmt.Sprintf is nil, whether the
// argument list is indexed out of range, and whether the path ends in an error. Loop form, switch or if chain
// and extracted helpers make no difference.

type fmtSemResult struct {
	unhandled []string // tags for which some successful path appends nil (no conversion)
	countOK   bool     // with a tag and no argument, every path ends in an error without indexing the list
	charOK    bool     // for 'c', every successful path classifies the argument with isTrueStr first
	problems  []string
	calls     map[string][]string // tag -> conversions called (evidence)
}

func fmtSprintfSem(c *Ctx, tags map[string]bool) *fmtSemResult {
	res := &fmtSemResult{calls: map[string][]string{}}
	fn := c.ssaFunc("interp", "interp.sprintf")
	ipkg := c.ssaPkg("interp")
	valueT, _ := c.structType("interp", "value")
	if fn == nil || ipkg == nil || valueT == nil {
		res.problems = append(res.problems, "interp.sprintf / type value not found on the SSA form")
		return res
	}
	var argsP *ssa.Parameter
	for _, p := range fn.Params {
		if sl, ok := p.Type().Underlying().(*types.Slice); ok && types.Identical(sl.Elem(), valueT) {
			argsP = p
		}
	}
	if argsP == nil {
		res.problems = append(res.problems, "interp.sprintf has no []value parameter")
		return res
	}
	isValue := func(t types.Type) bool { return types.Identical(t, valueT) }
	run := func(tag byte, nArgs int) []soutcome {
		e := &sengine{pkg: ipkg, ctx: c}
		argArr := make([]iv, nArgs)
		for i := range argArr {
			argArr[i] = ivSym("arg")
		}
		e.param = func(f *ssa.Function, p *ssa.Parameter) (iv, bool) {
			if p == argsP {
				return iv{k: 'a', arr: &argArr}, true
			}
			return iv{}, false
		}
		e.call = func(p *spath, fr *sframe, call *ssa.Call, callee *ssa.Function, args []iv) (iv, callAction) {
			if callee == nil {
				return iv{}, callDefault
			}
			sig := callee.Signature
			res := sig.Results()
			switch {
			case callee.Name() == "parseFmtTypes":
				tarr := []iv{ivInt(int64(tag))}
				return ivTuple(ivSym("format"), iv{k: 'a', arr: &tarr}, iv{k: 'n'}), callHandled
			case callee.Name() == "newError" || callee.Name() == "Errorf":
				return ivSym("error"), callHandled
			}
			// conversions of the argument: methods of value, or of interp taking the value
			usesArg := false
			for _, a := range args {
				if a.k == 's' && a.s == "arg" {
					usesArg = true
				}
			}
			if !usesArg {
				return iv{}, callDefault
			}
			recvIsValue := sig.Recv() != nil && isValue(sig.Recv().Type())
			if recvIsValue && len(callee.Blocks) > 0 {
				// a method of value that is itself built from the primitive conversions (the per-argument
				// conversion moved out of sprintf into a method): entered, not taken as one conversion
				composite := false
				allInstrs(callee, func(in ssa.Instruction) {
					if ci, ok := in.(ssa.CallInstruction); ok {
						if g := ci.Common().StaticCallee(); g != nil && g != callee && g.Signature.Recv() != nil && isValue(g.Signature.Recv().Type()) {
							composite = true
						}
					}
				})
				if composite {
					return iv{}, callDefault
				}
			}
			switch {
			case recvIsValue && res.Len() == 2:
				// isTrueStr: (number, is a true string)
				p.notes["conv:"+callee.Name()]++
				if p.notes["first"] == 0 {
					p.notes["first:"+callee.Name()]++
					p.notes["first"]++
				}
				return ivTuple(ivSym("num"), iv{}), callHandled
			case recvIsValue && res.Len() == 1:
				p.notes["conv:"+callee.Name()]++
				if p.notes["first"] == 0 {
					p.notes["first:"+callee.Name()]++
					p.notes["first"]++
				}
				return ivSym("conv:" + callee.Name()), callHandled
			case res.Len() == 1 && callee.Name() == "toString":
				p.notes["conv:toString"]++
				if p.notes["first"] == 0 {
					p.notes["first:toString"]++
					p.notes["first"]++
				}
				return ivSym("conv:toString"), callHandled
			}
			return iv{}, callDefault // a helper that is handed the argument: entered
		}
		e.enter = func(callee *ssa.Function, args []iv) bool {
			for _, a := range args {
				if a.k == 's' && a.s == "arg" {
					return true
				}
			}
			return false
		}
		e.builtin = func(p *spath, fr *sframe, call *ssa.Call, name string, args []iv) (iv, bool) {
			if name == "append" && len(args) == 2 && fr == p.stack[0] {
				// the list handed to fmt.Sprintf: in SSA the appended element sits in a one-element array
				if args[1].k == 'a' && len(*args[1].arr) == 1 {
					p.notes["appended"]++
					if (*args[1].arr)[0].k == 'n' {
						p.notes["appended-nil"]++
					}
				}
			}
			return iv{}, false
		}
		e.startAt(fn, fn.Blocks[0], nil)
		res.problems = append(res.problems, e.problems...)
		return e.outcomes
	}
	isError := func(o soutcome) bool {
		return o.ret.k == 'u' && len(o.ret.tup) == 2 && o.ret.tup[1].k != 'n'
	}
	var ts []string
	for t := range tags {
		ts = append(ts, t)
	}
	sort.Strings(ts)
	for _, t := range ts {
		if len(t) != 1 {
			continue
		}
		outs := run(t[0], 1)
		okPaths := 0
		bad := false
		convs := map[string]bool{}
		for _, o := range outs {
			if o.panicked || isError(o) {
				continue
			}
			okPaths++
			if o.notes["appended"] == 0 || o.notes["appended-nil"] > 0 {
				bad = true
			}
			for k := range o.notes {
				if len(k) > 5 && k[:5] == "conv:" {
					convs[k[5:]] = true
				}
			}
			if t == "c" && o.notes["first:isTrueStr"] == 0 {
				res.charOK = false
				convs["(not isTrueStr first)"] = true
			}
		}
		if okPaths == 0 || bad {
			res.unhandled = append(res.unhandled, t)
		}
		for k := range convs {
			res.calls[t] = append(res.calls[t], k)
		}
		sort.Strings(res.calls[t])
	}
	// CHAR: decided inside the loop above; true unless a path was found that does not start with isTrueStr
	res.charOK = true
	for _, cname := range res.calls["c"] {
		if cname == "(not isTrueStr first)" {
			res.charOK = false
		}
	}
	if !tags["c"] {
		res.charOK = false
	}
	// COUNT: one conversion, no argument
	res.countOK = true
	outs := run('d', 0)
	if len(outs) == 0 {
		res.countOK = false
	}
	for _, o := range outs {
		if o.panicked {
			continue
		}
		if !isError(o) || o.notes["index-out-of-range"] > 0 {
			res.countOK = false
		}
	}
	return res
}
