package main

import (
	"regexp"
	"fmt"
	"go/ast"
	"go/token"
	"go/types"
	"sort"
	"strings"

	"golang.org/x/tools/go/ssa"
)

// R-RECSTATE (C06, C08, C11, C02): the record group {line, lineIsTrueStr, fields, fieldsIsTrueStr, numFields, haveFields}.

func init() {
	register("R-RECSTATE", "record state: (NF) every store to the NF cache is num(float64(len(p.fields))) (or the reset value), so NF is always the number of fields; (REBUILD) in the field and NF assignment paths every successful return that follows a store into the field slices is preceded by `line = joinFields(fields)` and `lineIsTrueStr = true`, and the only early returns are the index tests; (ALIAS) the address of a record-group field is never put into an object that outlives the call (a scanner handed back to the caller), because a later read from another stream would then overwrite the current record's fields behind `haveFields`; (READS) reading a field, $0 or a special variable reaches no store outside the lazily computed members; (SETLINE) setLine invalidates the split and saves FS together with its compiled form; (SAVEDFS) the lazy splitter consults only the FS saved with the record, never the live FS; (RESLICE) the field slices are re-sliced only downwards (guarded by a comparison with their length), never up into stale capacity; (SIBLING-PRED) the condition under which assigning FS compiles a regex is the complement of the condition under which the splitter takes the plain-split path, likewise for RS and the scanner selection", ruleRecState)
}

var recGroup = map[string]bool{"line": true, "lineIsTrueStr": true, "fields": true, "fieldsIsTrueStr": true, "numFields": true, "haveFields": true}

func ruleRecState(c *Ctx) {
	fns := c.srcFuncs("interp")
	// ---- NF: stores to numFields
	nNF := 0
	for _, fn := range fns {
		fn := fn
		allInstrs(fn, func(in ssa.Instruction) {
			name, val := interpFieldStore(in)
			if name != "numFields" {
				return
			}
			nNF++
			key := "nf-store:" + fnKey(fn)
			// a store of a parameter (the value being assigned to NF) is keyed by what it stores, not by the
			// function it happens to live in: the same assignment moved into a helper is the same construct
			if _, isParam := val.(*ssa.Parameter); isParam {
				key = "nf-store:assigned-value"
			}
			// accepted: num(float64(len(p.fields)))  or  num(0) in construction/reset
			ok, how := false, ""
			if call, isCall := val.(*ssa.Call); isCall && call.Call.StaticCallee() != nil && call.Call.StaticCallee().Name() == "num" && len(call.Call.Args) == 1 {
				a := call.Call.Args[0]
				if k, isK := a.(*ssa.Const); isK && k.Value != nil && (k.Value.ExactString() == "0") {
					ok, how = true, "reset value 0"
				}
				if cv, isCv := a.(*ssa.Convert); isCv {
					if l, isL := cv.X.(*ssa.Call); isL {
						if b, isB := l.Call.Value.(*ssa.Builtin); isB && b.Name() == "len" && interpFieldLoad(l.Call.Args[0]) == "fields" {
							ok, how = true, "len(p.fields)"
						}
					}
				}
			}
			if ok {
				c.ok(key, in.Pos(), "NF cache := num(%s)", how)
			} else {
				c.bad(key, in.Pos(), "%s stores a value into the NF cache that is not num(float64(len(p.fields))): NF can then differ from the number of fields (e.g. after NF=2.7, or a numeric string, `print NF` shows the assigned text, not the field count)", fnKey(fn))
			}
		})
	}
	c.atLeast("stores to the NF cache", nNF, 4)
	assignNotDecidedByRecord(c)

	// ---- REBUILD: setField and setSpecial
	// the assignment paths are found by what they do: every function that stores into the field slices, except
	// the ones that derive the fields from the record (the lazy splitter and what it calls), take over a record
	// just read, or reset the interpreter
	rebuildExempt := map[string]string{
		"resetCore":   "clears the record state",
		"newInterp":   "construction",
		"execActions": "takes over the fields the CSV splitter produced for the record just read ($0 was set by setLine)",
		"setLine":     "replaces $0 itself",
	}
	for g := range c.exclusiveRegion("interp", c.ssaFunc("interp", "interp.execActions")) {
		if rebuildExempt[g.Name()] == "" {
			rebuildExempt[g.Name()] = "a helper of execActions alone: " + rebuildExempt["execActions"]
		}
	}
	if ef := c.ssaFunc("interp", "interp.ensureFields"); ef != nil {
		seenF := map[*ssa.Function]bool{}
		var walkF func(f *ssa.Function)
		walkF = func(f *ssa.Function) {
			if seenF[f] || f.Pkg != ef.Pkg {
				return
			}
			seenF[f] = true
			rebuildExempt[f.Name()] = "derives the fields from $0 (lazy splitter)"
			allInstrs(f, func(in ssa.Instruction) {
				if call, ok := in.(ssa.CallInstruction); ok {
					if g := call.Common().StaticCallee(); g != nil {
						walkF(g)
					}
				}
			})
		}
		walkF(ef)
	}
	// Interprocedural: a function is "dirty" when it can return successfully after a store into the field slices (its
	// own, or made by a dirty function it calls) that is not followed by `p.line = p.joinFields(p.fields)` (its own, or
	// made on every path by a function it calls). A dirty helper is fine as long as every caller rebuilds $0 after
	// calling it; dirtiness that reaches a function with no caller left to do so is the violation, reported at the
	// function whose own store starts the chain.
	type rbWitness struct {
		ret  *ssa.Return
		from ssa.Instruction
	}
	isElemStore := func(in ssa.Instruction) bool {
		st, ok := in.(*ssa.Store)
		if !ok {
			return false
		}
		if name, val := interpFieldStore(in); name == "fields" || name == "fieldsIsTrueStr" {
			// clearing the slices (nil, or x[:0]) is a reset, wherever it is done; anything else is an assignment
			clearing := isNilConst(val)
			if sl, ok := val.(*ssa.Slice); ok && sl.Low == nil && sl.High != nil {
				if k, ok := sl.High.(*ssa.Const); ok && k.Value != nil && k.Value.ExactString() == "0" {
					clearing = true
				}
			}
			return !clearing
		}
		if ia, ok := st.Addr.(*ssa.IndexAddr); ok {
			if n := interpFieldLoad(ia.X); n == "fields" || n == "fieldsIsTrueStr" {
				return true
			}
		}
		return false
	}
	isLineStore := func(in ssa.Instruction) bool {
		if name, val := interpFieldStore(in); name == "line" {
			if call, ok := val.(*ssa.Call); ok && call.Call.StaticCallee() != nil && call.Call.StaticCallee().Name() == "joinFields" {
				return true
			}
		}
		return false
	}
	var cands []*ssa.Function
	for _, fn := range fns {
		if fn.Parent() != nil || rebuildExempt[fn.Name()] != "" || len(fn.Blocks) == 0 {
			continue
		}
		cands = append(cands, fn)
	}
	isCand := map[*ssa.Function]bool{}
	for _, fn := range cands {
		isCand[fn] = true
	}
	// rebuilders: a rebuild happens on every path from entry to a return
	rebuilder := map[*ssa.Function]bool{}
	for changed := true; changed; {
		changed = false
		for _, fn := range cands {
			if rebuilder[fn] {
				continue
			}
			var rets []*ssa.BasicBlock
			for _, b := range fn.Blocks {
				if len(b.Instrs) > 0 {
					if _, ok := b.Instrs[len(b.Instrs)-1].(*ssa.Return); ok {
						rets = append(rets, b)
					}
				}
			}
			for _, b := range fn.Blocks {
				all := len(rets) > 0
				for _, r := range rets {
					if !b.Dominates(r) {
						all = false
					}
				}
				if !all {
					continue
				}
				for _, in := range b.Instrs {
					if isLineStore(in) {
						rebuilder[fn] = true
					}
					if ci, ok := in.(ssa.CallInstruction); ok {
						if g := ci.Common().StaticCallee(); g != nil && rebuilder[g] {
							rebuilder[fn] = true
						}
					}
				}
			}
			if rebuilder[fn] {
				changed = true
			}
		}
	}
	dirty := map[*ssa.Function][]rbWitness{}
	direct := map[*ssa.Function]bool{}
	analyse := func(fn *ssa.Function) (wits []rbWitness, nRet int, okRets []*ssa.Return) {
		var lineStores, elemStores []ssa.Instruction
		allInstrs(fn, func(in ssa.Instruction) {
			switch {
			case isLineStore(in):
				lineStores = append(lineStores, in)
			case isElemStore(in):
				elemStores = append(elemStores, in)
				direct[fn] = true
			default:
				if ci, ok := in.(ssa.CallInstruction); ok {
					if g := ci.Common().StaticCallee(); g != nil && g != fn {
						if rebuilder[g] {
							lineStores = append(lineStores, in)
						} else if len(dirty[g]) > 0 {
							elemStores = append(elemStores, in)
						}
					}
				}
			}
		})
		if len(elemStores) == 0 {
			return
		}
		lineBlk := map[*ssa.BasicBlock]bool{}
		for _, ls := range lineStores {
			lineBlk[ls.Block()] = true
		}
		for _, b := range fn.Blocks {
			if len(b.Instrs) == 0 {
				continue
			}
			ret, ok := b.Instrs[len(b.Instrs)-1].(*ssa.Return)
			if !ok {
				continue
			}
			// a success return: no error result, or a nil one
			rr := retResults(ret)
			if len(rr) > 0 {
				if _, isErr := rr[len(rr)-1].Type().Underlying().(*types.Interface); isErr && types.TypeString(rr[len(rr)-1].Type(), nil) == "error" && !mayBeNilError(rr[len(rr)-1], b) {
					continue
				}
			}
			var from ssa.Instruction
			reachedAny := false
			for _, es := range elemStores {
				if es.Block() == b || reachableFromStrict(es.Block())[b] {
					reachedAny = true
				}
				covered := false
				for _, ls := range lineStores {
					if ls.Block() == es.Block() && instrIndex(ls.Block(), ls) > instrIndex(es.Block(), es) {
						covered = true
					}
				}
				if covered {
					continue
				}
				seen := map[*ssa.BasicBlock]bool{}
				var walk func(x *ssa.BasicBlock)
				walk = func(x *ssa.BasicBlock) {
					if seen[x] || lineBlk[x] {
						return
					}
					seen[x] = true
					for _, s := range x.Succs {
						walk(s)
					}
				}
				if es.Block() == b {
					from = es
				}
				for _, s := range es.Block().Succs {
					walk(s)
				}
				if seen[b] {
					from = es
				}
			}
			if !reachedAny {
				continue
			}
			nRet++
			if from != nil {
				wits = append(wits, rbWitness{ret, from})
			} else {
				okRets = append(okRets, ret)
			}
		}
		return
	}
	for changed := true; changed; {
		changed = false
		for _, fn := range cands {
			w, _, _ := analyse(fn)
			if len(w) != len(dirty[fn]) {
				dirty[fn] = w
				changed = true
			}
		}
	}
	// callers within the candidate set
	callersOf := map[*ssa.Function][]*ssa.Function{}
	for _, fn := range cands {
		fn := fn
		allInstrs(fn, func(in ssa.Instruction) {
			if ci, ok := in.(ssa.CallInstruction); ok {
				if g := ci.Common().StaticCallee(); g != nil && isCand[g] && g != fn {
					callersOf[g] = append(callersOf[g], fn)
				}
			}
		})
	}
	// does the dirtiness of fn reach a function that nobody cleans up after?
	var escapes func(fn *ssa.Function, seen map[*ssa.Function]bool) bool
	escapes = func(fn *ssa.Function, seen map[*ssa.Function]bool) bool {
		if seen[fn] {
			return false
		}
		seen[fn] = true
		if len(callersOf[fn]) == 0 {
			return true
		}
		for _, cl := range callersOf[fn] {
			if len(dirty[cl]) > 0 && escapes(cl, seen) {
				return true
			}
		}
		return false
	}
	nFns := 0
	for _, fn := range cands {
		if !direct[fn] {
			continue
		}
		nFns++
		fname := fn.Name()
		if fn.Signature.Recv() != nil {
			fname = "interp." + fn.Name()
		}
		wits, nRet, okRets := analyse(fn)
		for _, r := range okRets {
			c.ok(fmt.Sprintf("rebuild:%s:return@%s", fname, blockKey(r.Block())), r.Pos(), "$0 is rebuilt from the fields before this return")
		}
		esc := len(wits) > 0 && escapes(fn, map[*ssa.Function]bool{})
		for _, w := range wits {
			key := fmt.Sprintf("rebuild:%s:return@%s", fname, blockKey(w.ret.Block()))
			if esc {
				c.bad(key, w.ret.Pos(), "%s returns successfully after storing into the field slices (%s) without `p.line = p.joinFields(p.fields)`, and not every caller does it afterwards: $0 and the fields disagree", fname, c.relPos(w.from.Pos()))
			} else {
				c.ok(key, w.ret.Pos(), "a helper: every caller rebuilds $0 from the fields after calling it")
			}
		}
		c.atLeast("success returns of "+fname+" after a field store", nRet, 1)
	}
	c.atLeast("functions assigning into the field slices", nFns, 2)

	// ---- ALIAS
	nAlias := 0
	for _, fn := range fns {
		fn := fn
		allInstrs(fn, func(in ssa.Instruction) {
			// the address of a record-group field handed on as a value: stored into an object, or passed to a
			// function of the package (a constructor that puts it into the object it returns)
			var fa *ssa.FieldAddr
			switch x := in.(type) {
			case *ssa.Store:
				fa, _ = x.Val.(*ssa.FieldAddr)
			case *ssa.Call:
				if cal := x.Call.StaticCallee(); cal != nil && cal.Pkg == fn.Pkg {
					for _, a := range x.Call.Args {
						if f2, ok := a.(*ssa.FieldAddr); ok {
							if f, x2 := fieldOfAddr(f2); f != nil && isInterp(x2.Type()) && recGroup[f.Name()] {
								fa = f2
							}
						}
					}
				}
			}
			if fa == nil {
				return
			}
			f, x := fieldOfAddr(fa)
			if f == nil || !isInterp(x.Type()) || !recGroup[f.Name()] {
				return
			}
			nAlias++
			key := fmt.Sprintf("alias:%s:&p.%s", fnKey(fn), f.Name())
			// does the holder outlive the call? the function returns a reference value
			outlives := false
			res := fn.Signature.Results()
			for i := 0; i < res.Len(); i++ {
				if hasRefs(res.At(i).Type(), 0) && types.TypeString(res.At(i).Type(), nil) != "error" {
					outlives = true
				}
			}
			if outlives {
				c.bad(key, in.Pos(), "%s stores &p.%s into an object and returns a reference (%s): the holder outlives the call, so reading from another stream writes the current record's %s behind haveFields (wrong $i, or an index-out-of-range panic when the other record is longer)", fnKey(fn), f.Name(), res.String(), f.Name())
			} else {
				c.ok(key, in.Pos(), "alias of p.%s is confined to %s (no reference is returned)", f.Name(), fnKey(fn))
				// the splitter writes through the alias only when the scan succeeds: a scan in this function
				// whose result is ignored leaves the previous record's fields in place on failure
				for _, b := range fn.Blocks {
					for _, in2 := range b.Instrs {
						call, ok := in2.(*ssa.Call)
						if !ok {
							continue
						}
						cal := calleeObj(call)
						if cal == nil || funcFullName(cal) != "(*bufio.Scanner).Scan" {
							continue
						}
						used := false
						if refs := call.Referrers(); refs != nil {
							for _, r := range *refs {
								if _, isDbg := r.(*ssa.DebugRef); !isDbg {
									used = true
								}
							}
						}
						c.check(used, fmt.Sprintf("alias-scan:%s:&p.%s", fnKey(fn), f.Name()), in2.Pos(),
							"the result of Scan is tested, so a failed parse can reset p."+f.Name(),
							fnKey(fn)+" lets a splitter write through &p."+f.Name()+" but ignores whether Scan succeeded: for an empty or comment-only record the splitter writes nothing and the previous record's fields stay visible as the fields of the new $0")
					}
				}
			}
		})
	}
	if nAlias == 0 {
		// nothing hands out the address of a record-group field: there is no alias to misuse
		c.ok("alias:none", token.NoPos, "no function of the interpreter passes on the address of a field of the current record")
		c.ok("alias-scan:none", token.NoPos, "no splitter writes through the address of a field of the current record")
	}

	// ---- HANDOFF: the scratch slice the main input's CSV splitter fills (csvFields) belongs to the record
	// that was scanned last; it becomes the current record's fields at the moment that record is taken
	// (execActions, right after nextLine). Reading it later - lazily, when a field is first needed - hands
	// over whatever record a getline has scanned since.
	if _, st := c.structType("interp", "interp"); st != nil && interpStructHasField(st, "csvFields", 0) {
		var readers []string
		var badPos token.Pos
		for _, fn := range fns {
			fn := fn
			allInstrs(fn, func(in ssa.Instruction) {
				u, ok := in.(*ssa.UnOp)
				if !ok || u.Op != token.MUL {
					return
				}
				if f, x := fieldOfAddr(u.X); f != nil && f.Name() == "csvFields" && isInterp(x.Type()) {
					root := fn
					for root.Parent() != nil {
						root = root.Parent()
					}
					readers = append(readers, root.Name())
					// execActions itself, or a helper that only it calls (the taking-over of a record moved into a
					// method of its own)
					if root.Name() != "execActions" && !c.exclusiveRegion("interp", c.ssaFunc("interp", "interp.execActions"))[root] {
						badPos = posOr(in.Pos(), fn.Pos())
					}
				}
			})
		}
		c.check(badPos == token.NoPos && len(readers) >= 1, "csv-handoff", badPos,
			"the CSV splitter's scratch fields are taken over only where the main loop takes the record (execActions)",
			fmt.Sprintf("p.csvFields is read in %v: outside execActions the scratch slice may already hold the fields of a record that a getline scanned afterwards, so $1..$NF come from a neighbouring record while $0 is the current one", readers))
	}

	// ---- READS: getField / getSpecial write only lazy members
	lazy := map[string]bool{"fields": true, "fieldsIsTrueStr": true, "numFields": true, "haveFields": true}
	writes := interpFieldWrites(c)
	byFn := map[*ssa.Function]map[string]bool{}
	for f, ws := range writes {
		for _, w := range ws {
			root := w.fn
			for root.Parent() != nil {
				root = root.Parent()
			}
			if byFn[root] == nil {
				byFn[root] = map[string]bool{}
			}
			byFn[root][f] = true
		}
	}
	for _, name := range []string{"interp.getField", "interp.getSpecial", "interp.getFieldByName"} {
		start := c.ssaFunc("interp", name)
		if start == nil {
			c.undecided("anchor:"+name, token.NoPos, "%s not found", name)
			continue
		}
		seen := map[*ssa.Function]bool{}
		var walk func(f *ssa.Function)
		bad := map[string]string{}
		walk = func(f *ssa.Function) {
			if seen[f] || f.Pkg == nil || f.Pkg.Pkg.Path() != modPath+"/interp" {
				return
			}
			seen[f] = true
			for fld := range byFn[f] {
				if !lazy[fld] && resetScratch[fld] == "" && !(name == "interp.getFieldByName" && fld == "fieldIndexes") && !lazyIndexField(f, fld) {
					bad[fld] = fnKey(f)
				}
			}
			allInstrs(f, func(in ssa.Instruction) {
				if call, ok := in.(ssa.CallInstruction); ok {
					if g := call.Common().StaticCallee(); g != nil {
						walk(g)
					}
				}
			})
		}
		walk(start)
		var bs []string
		for k, v := range bad {
			bs = append(bs, k+" (in "+v+")")
		}
		sort.Strings(bs)
		c.check(len(bs) == 0, "reads-effect-free:"+name, start.Pos(), name+" reaches only stores to the lazily computed members (and scratch buffers)", name+" (a read of a field/special variable) can store to "+strings.Join(bs, ", ")+": reading changes the record state")
	}

	// ---- SETLINE
	sl := c.ssaFunc("interp", "interp.setLine")
	if sl == nil {
		c.undecided("anchor:setLine", token.NoPos, "setLine not found")
	} else {
		must := mustStoreAtSuccess(sl)
		// stores made by helpers that setLine calls on every path count as its own (the saving of FS may be
		// a function of its own)
		helperFns := []*ssa.Function{sl}
		for _, b := range sl.Blocks {
			onAll := true
			for _, rb := range sl.Blocks {
				if len(rb.Instrs) > 0 {
					if _, isRet := rb.Instrs[len(rb.Instrs)-1].(*ssa.Return); isRet && !(b == rb || b.Dominates(rb)) {
						onAll = false
					}
				}
			}
			if !onAll {
				continue
			}
			for _, in := range b.Instrs {
				if call, ok := in.(ssa.CallInstruction); ok {
					if g := call.Common().StaticCallee(); g != nil && g.Pkg == sl.Pkg && len(g.Blocks) > 0 {
						for f := range mustStoreAtSuccess(g) {
							must[f] = true
						}
						helperFns = append(helperFns, g)
					}
				}
			}
		}
		var missing []string
		for _, f := range []string{"line", "lineIsTrueStr", "haveFields", "savedFieldSep", "savedFieldSepRegex"} {
			if !must[f] {
				missing = append(missing, f)
			}
		}
		src := map[string]string{}
		hfFalse := false
		for _, hf := range helperFns[1:] {
			allInstrs(hf, func(in ssa.Instruction) {
				if name, val := interpFieldStore(in); name != "" {
					src[name] = interpFieldLoad(val)
				}
			})
		}
		allInstrs(sl, func(in ssa.Instruction) {
			if name, val := interpFieldStore(in); name != "" {
				src[name] = interpFieldLoad(val)
				if name == "haveFields" {
					if k, ok := val.(*ssa.Const); ok && k.Value != nil && k.Value.ExactString() == "false" {
						hfFalse = true
					}
				}
			}
		})
		okS := len(missing) == 0 && hfFalse && src["savedFieldSep"] == "fieldSep" && src["savedFieldSepRegex"] == "fieldSepRegex"
		c.check(okS, "setLine", sl.Pos(), "setLine stores the line, clears haveFields and saves FS together with its compiled regex", fmt.Sprintf("setLine must assign line, lineIsTrueStr, haveFields=false, savedFieldSep<-fieldSep and savedFieldSepRegex<-fieldSepRegex on every path (missing %v; sources %v)", missing, src))
	}

	// ---- SAVEDFS: ensureFields and its helpers never read the live FS
	p := c.pkg("interp")
	// the lazy splitter and every function of the package it calls, transitively (the splitting of the
	// record may be spread over helpers)
	var lazyFns []string
	if ef := c.ssaFunc("interp", "interp.ensureFields"); ef == nil {
		c.undecided("anchor:interp.ensureFields", token.NoPos, "the lazy field splitter ensureFields not found")
	} else {
		seenF := map[*ssa.Function]bool{}
		var walkF func(f *ssa.Function)
		walkF = func(f *ssa.Function) {
			if seenF[f] || f.Pkg != ef.Pkg || len(f.Blocks) == 0 {
				return
			}
			seenF[f] = true
			if f.Parent() == nil {
				if f.Signature.Recv() != nil {
					lazyFns = append(lazyFns, "interp."+f.Name())
				} else {
					lazyFns = append(lazyFns, f.Name())
				}
			}
			allInstrs(f, func(in ssa.Instruction) {
				if call, ok := in.(ssa.CallInstruction); ok {
					if g := call.Common().StaticCallee(); g != nil {
						walkF(g)
					}
				}
			})
		}
		walkF(ef)
		sort.Strings(lazyFns)
	}
	for _, fname := range lazyFns {
		fd := c.funcDecl("interp", fname)
		if fd == nil {
			continue
		}
		var live []string
		ast.Inspect(fd.Body, func(n ast.Node) bool {
			if se, ok := n.(*ast.SelectorExpr); ok {
				if v, ok := p.TypesInfo.Uses[se.Sel].(*types.Var); ok && v.IsField() && (v.Name() == "fieldSep" || v.Name() == "fieldSepRegex") {
					live = append(live, v.Name())
				}
			}
			return true
		})
		c.check(len(live) == 0, "savedfs:"+fname, fd.Pos(), fname+" consults only the FS saved with the record", fname+" reads the live "+strings.Join(live, ",")+": changing FS after a record was read re-decides how that record is split")
	}

	// ---- RESLICE
	nRes := 0
	for _, fn := range fns {
		fn := fn
		allInstrs(fn, func(in ssa.Instruction) {
			sx, ok := in.(*ssa.Slice)
			if !ok || sx.High == nil {
				return
			}
			fld := interpFieldLoad(sx.X)
			if fld != "fields" && fld != "fieldsIsTrueStr" {
				return
			}
			if k, ok := sx.High.(*ssa.Const); ok && k.Value != nil && k.Value.ExactString() == "0" {
				return
			}
			nRes++
			key := fmt.Sprintf("reslice:%s:%s", fnKey(fn), fld)
			hk := srcKey(sx.High, 0)
			guard := false
			for _, b := range fn.Blocks {
				if len(b.Instrs) == 0 || !b.Dominates(sx.Block()) {
					continue
				}
				ifi, ok := b.Instrs[len(b.Instrs)-1].(*ssa.If)
				if !ok {
					continue
				}
				bo, ok := ifi.Cond.(*ssa.BinOp)
				if !ok {
					continue
				}
				isLenOfFields := func(v ssa.Value) bool {
					call, ok := v.(*ssa.Call)
					if !ok {
						return false
					}
					bi, ok := call.Call.Value.(*ssa.Builtin)
					if !ok || bi.Name() != "len" {
						return false
					}
					n := interpFieldLoad(call.Call.Args[0])
					return n == "fields" || n == "fieldsIsTrueStr"
				}
				// which edge of this test implies  new length <= len(fields) ?
				edge := -1
				switch {
				case srcKey(bo.X, 0) == hk && isLenOfFields(bo.Y):
					switch bo.Op {
					case token.LSS, token.LEQ: // n < len : true edge
						edge = 0
					case token.GTR, token.GEQ: // n > len / n >= len : false edge gives n <= len / n < len
						edge = 1
					}
				case srcKey(bo.Y, 0) == hk && isLenOfFields(bo.X):
					switch bo.Op {
					case token.GTR, token.GEQ: // len > n : true edge
						edge = 0
					case token.LSS, token.LEQ: // len < n / len <= n : false edge
						edge = 1
					}
				}
				if edge >= 0 && !reachableAvoiding(b.Succs[1-edge], b)[sx.Block()] {
					guard = true
				}
			}
			c.check(guard, key, in.Pos(), "re-sliced only when the new length is below the current length", fnKey(fn)+" re-slices p."+fld+" to a length that is not known to be within its current length: growing by re-slicing re-exposes stale elements of the backing array instead of empty fields")
		})
	}
	c.atLeast("non-trivial re-slices of the field slices", nRes, 2)

	// ---- SIBLING-PRED
	siblingPredicates(c)
}

func blockKey(b *ssa.BasicBlock) string { return b.Comment + fmt.Sprint(b.Index) }

// siblingPredicates: setSpecial(FS) vs ensureFields; setSpecial(RS) vs newScanner.
func siblingPredicates(c *Ctx) {
	p := c.pkg("interp")
	info := p.TypesInfo
	norm := func(s string) string {
		s = strings.ReplaceAll(s, "p.savedFieldSep", "FS")
		s = strings.ReplaceAll(s, "p.fieldSep", "FS")
		s = strings.ReplaceAll(s, "p.recordSep", "RS")
		return s
	}
	// FS: setSpecial case V_FS: `if COND { compile }`
	ss := c.funcDecl("interp", "interp.setSpecial")
	ef := c.funcDecl("interp", "interp.ensureFields")
	ns := c.funcDecl("interp", "interp.newScanner")
	if ss == nil || ef == nil || ns == nil {
		c.undecided("anchor:sibling-pred", token.NoPos, "setSpecial/ensureFields/newScanner not found")
		return
	}
	var fsCompileCond string
	var rsCases []string
	ast.Inspect(ss.Body, func(n ast.Node) bool {
		cc, ok := n.(*ast.CaseClause)
		if !ok || len(cc.List) != 1 {
			return true
		}
		// a local that the clause stores into the separator field stands for that field
		// (the clause may compute and test the new separator before committing it)
		alias := map[string]string{}
		for _, s := range cc.Body {
			if as, ok := s.(*ast.AssignStmt); ok && len(as.Lhs) == 1 && len(as.Rhs) == 1 {
				if id, ok := as.Rhs[0].(*ast.Ident); ok {
					switch types.ExprString(as.Lhs[0]) {
					case "p.fieldSep":
						alias[id.Name] = "FS"
					case "p.recordSep":
						alias[id.Name] = "RS"
					}
				}
			}
		}
		plainNorm := norm
		norm := func(s string) string {
			s = plainNorm(s)
			for k, v := range alias {
				s = regexp.MustCompile(`\b`+regexp.QuoteMeta(k)+`\b`).ReplaceAllString(s, v)
			}
			return s
		}
		switch constName(info, cc.List[0]) {
		case "V_FS":
			for _, s := range cc.Body {
				if is, ok := s.(*ast.IfStmt); ok {
					fsCompileCond = norm(types.ExprString(is.Cond))
				}
			}
		case "V_RS":
			for _, s := range cc.Body {
				if sw, ok := s.(*ast.SwitchStmt); ok && sw.Tag == nil {
					for _, cs := range sw.Body.List {
						c2 := cs.(*ast.CaseClause)
						if c2.List == nil {
							rsCases = append(rsCases, "default")
						} else {
							rsCases = append(rsCases, norm(types.ExprString(c2.List[0])))
						}
					}
				}
			}
		}
		return true
	})
	// ensureFields: the tag-less switch: find the clause that uses strings.Split (plain) and the default (regex)
	var plainCond string
	regexIsDefault := false
	ast.Inspect(ef.Body, func(n ast.Node) bool {
		sw, ok := n.(*ast.SwitchStmt)
		if !ok || sw.Tag != nil {
			return true
		}
		for _, cs := range sw.Body.List {
			cc := cs.(*ast.CaseClause)
			body := ""
			for _, s := range cc.Body {
				body += nodeText(s)
			}
			if cc.List != nil && strings.Contains(body, "strings.Split(") {
				plainCond = norm(types.ExprString(cc.List[0]))
			}
			if cc.List == nil && strings.Contains(body, "splitOnFieldSepRegex") {
				regexIsDefault = true
			}
		}
		return false
	})
	compl := map[string]string{"> 1": "<= 1", "<= 1": "> 1", ">= 2": "< 2", "< 2": ">= 2"}
	okFS := false
	for a, b := range compl {
		if strings.HasSuffix(fsCompileCond, a) && strings.HasSuffix(plainCond, b) && strings.TrimSuffix(fsCompileCond, a) == strings.TrimSuffix(plainCond, b) {
			okFS = true
		}
	}
	c.note(okFS && regexIsDefault, "sibling-pred-text:FS", ss.Pos(), fmt.Sprintf("FS is compiled as a regex iff `%s`; the splitter uses plain splitting iff `%s` and the regex otherwise", fsCompileCond, plainCond),
		fmt.Sprintf("assigning FS compiles a regex when `%s`, but the field splitter takes the plain-split path when `%s` (regex branch is default: %v): for an FS between the two conditions the splitter dereferences a regex that was never compiled (nil) or ignores a compiled one", fsCompileCond, plainCond, regexIsDefault))

	// RS: newScanner's switch (after the CSV case) must order: "\n", "", len==1, else regex; setSpecial: len<=1 / one rune / default(regex)
	var nsCases []string
	ast.Inspect(ns.Body, func(n ast.Node) bool {
		sw, ok := n.(*ast.SwitchStmt)
		if !ok || sw.Tag != nil {
			return true
		}
		for _, cs := range sw.Body.List {
			cc := cs.(*ast.CaseClause)
			if cc.List == nil {
				nsCases = append(nsCases, "default")
				continue
			}
			nsCases = append(nsCases, norm(types.ExprString(cc.List[0])))
		}
		return false
	})
	// the regex splitter is chosen for everything that is not "\n", "" or a single byte; setSpecial must provide a regex for exactly those:
	// its first case (len(RS) <= 1) covers the non-regex splitters, every other case assigns recordSepRegex on all success paths.
	wantNS := []string{`RS == "\n"`, `RS == ""`, `len(RS) == 1`}
	okNS := true
	for _, w := range wantNS {
		found := false
		for _, g := range nsCases {
			if g == w {
				found = true
			}
		}
		if !found {
			okNS = false
		}
	}
	okRS := len(rsCases) >= 2 && rsCases[0] == "len(RS) <= 1" && rsCases[len(rsCases)-1] == "default"
	c.note(okNS && okRS, "sibling-pred-text:RS", ns.Pos(), fmt.Sprintf("scanner selection %v and RS assignment %v partition RS the same way (regex splitter exactly when len(RS) > 1)", nsCases, rsCases),
		fmt.Sprintf("newScanner selects splitters by %v but assigning RS prepares the regex by %v: the two no longer partition RS the same way, so a regex splitter can run with a stale or nil regex", nsCases, rsCases))
	// every non-first RS case stores recordSepRegex (SSA must-store per case is approximated: count of stores >= number of cases)
	ssa1 := c.ssaFunc("interp", "interp.setSpecial")
	// setSpecial and the setter helpers that belong to it alone
	var regionFns []*ssa.Function
	for g := range c.exclusiveRegion("interp", ssa1) {
		regionFns = append(regionFns, g)
	}
	sort.Slice(regionFns, func(i, j int) bool { return fnKey(regionFns[i]) < fnKey(regionFns[j]) })
	nStores := 0
	nilStore := false
	for _, g := range regionFns {
		allInstrs(g, func(in ssa.Instruction) {
			if name, val := interpFieldStore(in); name == "recordSepRegex" {
				nStores++
				if isNilConst(val) {
					nilStore = true
				}
			}
		})
	}
	ssaSiblingPredicates(c)
	_, _ = nStores, nilStore // (the refresh obligation is decided per representative in ssaSiblingPredicates)
	// the separator text and its compiled form are committed together: after the text has been stored
	// no path may still fail (RS and FS persist across runs of a reused Interpreter, and the splitters
	// pick the regex path from the text alone)
	for _, f := range []string{"fieldSep", "recordSep"} {
		found := false
		bad := token.NoPos
		// a commit point: the store itself, or the call of a helper of the region that (transitively) stores the field;
		// after a commit point no return of a possibly non-nil error may be reachable - other than handing on the
		// result of the committing helper itself, which that helper's own check covers
		storesF := map[*ssa.Function]bool{}
		for changed := true; changed; {
			changed = false
			for _, g := range regionFns {
				if storesF[g] {
					continue
				}
				allInstrs(g, func(in ssa.Instruction) {
					if name, _ := interpFieldStore(in); name == f {
						storesF[g] = true
					}
					if ci, ok := in.(ssa.CallInstruction); ok {
						if cal := ci.Common().StaticCallee(); cal != nil && storesF[cal] {
							storesF[g] = true
						}
					}
				})
				if storesF[g] {
					changed = true
				}
			}
		}
		for _, g := range regionFns {
			for _, b := range g.Blocks {
				for _, in := range b.Instrs {
					var commitVal ssa.Value
					isCommit := false
					if name, _ := interpFieldStore(in); name == f {
						isCommit = true
					} else if ci, ok := in.(ssa.CallInstruction); ok {
						if cal := ci.Common().StaticCallee(); cal != nil && storesF[cal] && cal != g {
							isCommit = true
							commitVal, _ = in.(ssa.Value)
						}
					}
					if !isCommit {
						continue
					}
					found = true
					fromCommit := func(v ssa.Value) bool {
						if commitVal == nil {
							return false
						}
						if v == commitVal {
							return true
						}
						if ex, ok := v.(*ssa.Extract); ok && ex.Tuple == commitVal {
							return true
						}
						return false
					}
					for rb := range reachableFrom(b) {
						if len(rb.Instrs) == 0 {
							continue
						}
						if ret, ok := rb.Instrs[len(rb.Instrs)-1].(*ssa.Return); ok {
							rr := retResults(ret)
							if len(rr) > 0 && !isNilConst(rr[len(rr)-1]) {
								last := rr[len(rr)-1]
								if fromCommit(last) {
									continue
								}
								if ph, isPhi := last.(*ssa.Phi); isPhi {
									all := true
									for _, e := range ph.Edges {
										if !isNilConst(e) && !fromCommit(e) {
											all = false
										}
									}
									if all {
										continue
									}
								}
								bad = posOr(ret.Pos(), g.Pos())
							}
						}
					}
				}
			}
		}
		if !found {
			c.undecided("sep-commit:"+f, ss.Pos(), "setSpecial does not store p.%s", f)
			continue
		}
		c.check(bad == token.NoPos, "sep-commit:"+f, bad, "p."+f+" is stored only after everything that can fail has succeeded",
			"setSpecial stores p."+f+" and can still return an error afterwards (an invalid regex): the separator text then names a regex that was never compiled, and the next Execute of a reused Interpreter dereferences a nil *regexp.Regexp in the splitter")
	}
}

func nodeText(n ast.Node) string {
	var sb strings.Builder
	ast.Inspect(n, func(x ast.Node) bool {
		if call, ok := x.(*ast.CallExpr); ok {
			sb.WriteString(types.ExprString(call.Fun) + "(")
		}
		return true
	})
	return sb.String()
}

// mayBeNilError: can the error value returned in block b be nil (a successful return)? Not when it is a freshly made
// error, and not when the block is reached only through the true edge of a test `v != nil` of that very value;
// a result handed on from a call (return p.f(...)) may well be nil.
func mayBeNilError(v ssa.Value, b *ssa.BasicBlock) bool {
	if isNilConst(v) {
		return true
	}
	if errNonNil(v, 0) == 1 {
		return false
	}
	fn := b.Parent()
	for _, g := range fn.Blocks {
		if len(g.Instrs) == 0 || !(g == b || g.Dominates(b)) {
			continue
		}
		ifi, ok := g.Instrs[len(g.Instrs)-1].(*ssa.If)
		if !ok || g == b {
			continue
		}
		bo, ok := ifi.Cond.(*ssa.BinOp)
		if !ok || !isNilConst(bo.Y) || bo.X != v {
			continue
		}
		switch bo.Op {
		case token.NEQ:
			if !reachableAvoiding(g.Succs[1], g)[b] {
				return false
			}
		case token.EQL:
			if !reachableAvoiding(g.Succs[0], g)[b] {
				return false
			}
		}
	}
	if ph, ok := v.(*ssa.Phi); ok {
		for _, e := range ph.Edges {
			if isNilConst(e) {
				return true
			}
		}
		for _, e := range ph.Edges {
			if errNonNil(e, 0) != 1 {
				return true
			}
		}
		return false
	}
	return true
}

// interpStructHasField: the interpreter struct, or one of its component structs (ssahelp.go isInterp), has the field.
func interpStructHasField(st *types.Struct, name string, depth int) bool {
	if st == nil || depth > 3 {
		return false
	}
	for i := 0; i < st.NumFields(); i++ {
		f := st.Field(i)
		if f.Name() == name {
			return true
		}
		if inner, ok := f.Type().Underlying().(*types.Struct); ok && isInterp(f.Type()) {
			if interpStructHasField(inner, name, depth+1) {
				return true
			}
		}
	}
	return false
}

// lazyIndexField: in f the map-typed interpreter field fld is a look-up index built on first use: every store of the
// field is made under a test `fld == nil` (true edge), everything else f does to it is filling the map.
func lazyIndexField(f *ssa.Function, fld string) bool {
	guarded, other := 0, 0
	allInstrs(f, func(in ssa.Instruction) {
		name, _ := interpFieldStore(in)
		if name != fld {
			return
		}
		st := in.(*ssa.Store)
		fv, _ := fieldOfAddr(st.Addr)
		if fv == nil {
			other++
			return
		}
		if _, isMap := fv.Type().Underlying().(*types.Map); !isMap {
			other++
			return
		}
		ok := false
		for _, g := range f.Blocks {
			if len(g.Instrs) == 0 || !g.Dominates(in.Block()) || g == in.Block() {
				continue
			}
			ifi, isIf := g.Instrs[len(g.Instrs)-1].(*ssa.If)
			if !isIf {
				continue
			}
			bo, isBo := ifi.Cond.(*ssa.BinOp)
			if !isBo || !isNilConst(bo.Y) || interpFieldLoad(bo.X) != fld {
				continue
			}
			if bo.Op == token.EQL && !reachableAvoiding(g.Succs[1], g)[in.Block()] {
				ok = true
			}
			if bo.Op == token.NEQ && !reachableAvoiding(g.Succs[0], g)[in.Block()] {
				ok = true
			}
		}
		if ok {
			guarded++
		} else {
			other++
		}
	})
	return guarded > 0 && other == 0
}
