package main

import (
	"go/ast"
	"go/constant"
	"go/token"
	"go/types"
	"strconv"
	"unicode/utf8"

	"golang.org/x/tools/go/ast/astutil"
)

// A small constant evaluator over typed syntax, used by rules that compare how two places of the
// program partition the same finite set of representative values (sibling predicates): conditions are
// evaluated on representatives instead of being compared as text, so the verdict does not depend on
// whether the code is written as a switch, an if chain, or through a local variable.

type cvKind int

const (
	cvUnknown cvKind = iota
	cvInt
	cvStr
	cvBool
)

type cv struct {
	k cvKind
	i int64
	s string
	b bool
}

func cvI(i int64) cv  { return cv{k: cvInt, i: i} }
func cvS(s string) cv { return cv{k: cvStr, s: s} }
func cvB(b bool) cv   { return cv{k: cvBool, b: b} }

// ceEnv: values of rendered expressions ("p.recordSep") and of local names.
type ceEnv struct {
	info  *types.Info
	vals  map[string]cv
	alias map[string]string // local name -> rendered expression it was defined from
}

func (e *ceEnv) eval(x ast.Expr) cv {
	switch v := x.(type) {
	case *ast.ParenExpr:
		return e.eval(v.X)
	case *ast.BasicLit:
		switch v.Kind {
		case token.INT:
			if n, err := strconv.ParseInt(v.Value, 0, 64); err == nil {
				return cvI(n)
			}
		case token.STRING:
			if s, err := strconv.Unquote(v.Value); err == nil {
				return cvS(s)
			}
		case token.CHAR:
			if s, err := strconv.Unquote(v.Value); err == nil && len(s) > 0 {
				r, _ := utf8.DecodeRuneInString(s)
				return cvI(int64(r))
			}
		}
	case *ast.Ident:
		if val, ok := e.vals[v.Name]; ok {
			return val
		}
		if a, ok := e.alias[v.Name]; ok {
			if val, ok := e.vals[a]; ok {
				return val
			}
		}
		if v.Name == "true" {
			return cvB(true)
		}
		if v.Name == "false" {
			return cvB(false)
		}
		if k, ok := e.info.Uses[v].(*types.Const); ok {
			return constToCV(k.Val())
		}
	case *ast.SelectorExpr:
		key := types.ExprString(v)
		if val, ok := e.vals[key]; ok {
			return val
		}
		if k, ok := e.info.Uses[v.Sel].(*types.Const); ok {
			return constToCV(k.Val())
		}
	case *ast.UnaryExpr:
		a := e.eval(v.X)
		switch {
		case v.Op == token.NOT && a.k == cvBool:
			return cvB(!a.b)
		case v.Op == token.SUB && a.k == cvInt:
			return cvI(-a.i)
		}
	case *ast.IndexExpr:
		a, i := e.eval(v.X), e.eval(v.Index)
		if a.k == cvStr && i.k == cvInt && i.i >= 0 && int(i.i) < len(a.s) {
			return cvI(int64(a.s[i.i]))
		}
	case *ast.CallExpr:
		if len(v.Args) == 1 {
			a := e.eval(v.Args[0])
			switch types.ExprString(v.Fun) {
			case "len":
				if a.k == cvStr {
					return cvI(int64(len(a.s)))
				}
			case "utf8.RuneCountInString":
				if a.k == cvStr {
					return cvI(int64(utf8.RuneCountInString(a.s)))
				}
			}
			// conversions
			if tv, ok := e.info.Types[v.Fun]; ok && tv.IsType() {
				return a
			}
		}
	case *ast.BinaryExpr:
		switch v.Op {
		case token.LAND, token.LOR:
			a := e.eval(v.X)
			if a.k == cvBool {
				if v.Op == token.LAND && !a.b {
					return cvB(false)
				}
				if v.Op == token.LOR && a.b {
					return cvB(true)
				}
			}
			b := e.eval(v.Y)
			if b.k == cvBool {
				if v.Op == token.LAND && !b.b {
					return cvB(false)
				}
				if v.Op == token.LOR && b.b {
					return cvB(true)
				}
			}
			if a.k == cvBool && b.k == cvBool {
				if v.Op == token.LAND {
					return cvB(a.b && b.b)
				}
				return cvB(a.b || b.b)
			}
			return cv{}
		}
		a, b := e.eval(v.X), e.eval(v.Y)
		if a.k == cvInt && b.k == cvInt {
			switch v.Op {
			case token.EQL:
				return cvB(a.i == b.i)
			case token.NEQ:
				return cvB(a.i != b.i)
			case token.LSS:
				return cvB(a.i < b.i)
			case token.LEQ:
				return cvB(a.i <= b.i)
			case token.GTR:
				return cvB(a.i > b.i)
			case token.GEQ:
				return cvB(a.i >= b.i)
			case token.ADD:
				return cvI(a.i + b.i)
			case token.SUB:
				return cvI(a.i - b.i)
			}
		}
		if a.k == cvStr && b.k == cvStr {
			switch v.Op {
			case token.EQL:
				return cvB(a.s == b.s)
			case token.NEQ:
				return cvB(a.s != b.s)
			case token.ADD:
				return cvS(a.s + b.s)
			}
		}
	}
	return cv{}
}

func constToCV(v constant.Value) cv {
	switch v.Kind() {
	case constant.Int:
		if n, ok := constant.Int64Val(v); ok {
			return cvI(n)
		}
	case constant.String:
		return cvS(constant.StringVal(v))
	case constant.Bool:
		return cvB(constant.BoolVal(v))
	}
	return cv{}
}

// pathCond is a condition that holds (sense=true) or fails (sense=false) wherever the node executes.
type pathCond struct {
	e     ast.Expr
	sense bool
}

// pathConds collects the conditions of the if/else chains and tag-less switch clauses that enclose node
// inside its function (innermost first). A tagged switch contributes tag == label.
func pathConds(file *ast.File, node ast.Node) []pathCond {
	path, _ := astutil.PathEnclosingInterval(file, node.Pos(), node.End())
	var out []pathCond
	for i := 1; i < len(path); i++ {
		child := path[i-1]
		switch p := path[i].(type) {
		case *ast.IfStmt:
			if child == ast.Node(p.Body) {
				out = append(out, pathCond{p.Cond, true})
			} else if p.Else != nil && child == ast.Node(p.Else) {
				out = append(out, pathCond{p.Cond, false})
			}
		case *ast.CaseClause:
			// the switch is two levels up (CaseClause -> BlockStmt -> SwitchStmt)
			if i+2 < len(path) {
				if sw, ok := path[i+2].(*ast.SwitchStmt); ok {
					for _, cs := range sw.Body.List {
						cc := cs.(*ast.CaseClause)
						if cc == p {
							break
						}
						for _, l := range cc.List {
							out = append(out, pathCond{condOf(sw, l), false})
						}
					}
					if p.List != nil {
						if len(p.List) == 1 {
							out = append(out, pathCond{condOf(sw, p.List[0]), true})
						} else {
							// one of several labels holds
							var or ast.Expr
							for _, l := range p.List {
								cnd := condOf(sw, l)
								if or == nil {
									or = cnd
								} else {
									or = &ast.BinaryExpr{X: or, Op: token.LOR, Y: cnd}
								}
							}
							out = append(out, pathCond{or, true})
						}
					} else {
						// default: every other clause (also later ones) fails
						for _, cs := range sw.Body.List {
							cc := cs.(*ast.CaseClause)
							for _, l := range cc.List {
								out = append(out, pathCond{condOf(sw, l), false})
							}
						}
					}
				}
			}
		case *ast.FuncDecl, *ast.FuncLit:
			return out
		}
	}
	return out
}

func condOf(sw *ast.SwitchStmt, label ast.Expr) ast.Expr {
	if sw.Tag == nil {
		return label
	}
	return &ast.BinaryExpr{X: sw.Tag, Op: token.EQL, Y: label}
}

// holds: 1 all conditions evaluate to their sense, 0 some condition certainly fails, -1 unknown.
func (e *ceEnv) holds(conds []pathCond) int {
	res := 1
	for _, pc := range conds {
		v := e.eval(pc.e)
		if v.k != cvBool {
			if res == 1 {
				res = -1
			}
			continue
		}
		if v.b != pc.sense {
			return 0
		}
	}
	return res
}

// localAliases: locals of fd defined exactly once as a copy of a selector expression (rs := p.recordSep).
func localAliases(fd *ast.FuncDecl) map[string]string {
	out := map[string]string{}
	cnt := map[string]int{}
	ast.Inspect(fd.Body, func(n ast.Node) bool {
		as, ok := n.(*ast.AssignStmt)
		if !ok || len(as.Lhs) != len(as.Rhs) {
			return true
		}
		for i, l := range as.Lhs {
			id, ok := l.(*ast.Ident)
			if !ok {
				continue
			}
			cnt[id.Name]++
			switch r := as.Rhs[i].(type) {
			case *ast.SelectorExpr:
				out[id.Name] = types.ExprString(r)
			case *ast.CallExpr:
				// x := p.toString(v): the value being assigned (treated as "the new value")
				out[id.Name] = "#new"
			}
		}
		return true
	})
	for k, n := range cnt {
		if n != 1 {
			delete(out, k)
		}
	}
	return out
}

func fileOf(c *Ctx, pkgShort string, n ast.Node) *ast.File {
	p := c.pkg(pkgShort)
	if p == nil {
		return nil
	}
	for _, f := range p.Syntax {
		if f.Pos() <= n.Pos() && n.Pos() < f.End() {
			return f
		}
	}
	return nil
}
