package main

import (
	"go/token"
	"go/types"

	"golang.org/x/tools/go/ssa"
)

// everyRecordRunsCode (part of R-CTX, C15): the context is polled by the instruction loop, so the main loop is
// interruptible only because every record runs at least one instruction: a rule has a pattern or a body (the parser
// guarantees one of them), and the compiler keeps what the source has - the compiled pattern list is nil only when
// the source rule has no pattern, the compiled body only when it has no block. A rule compiled to neither (a
// constant pattern "optimised" away) makes `1` copy an endless input without ever looking at the context.
func everyRecordRunsCode(c *Ctx) {
	fn := c.ssaFunc("internal/compiler", "Compile")
	if fn == nil {
		c.undecided("every-record:anchor", token.NoPos, "compiler.Compile not found")
		return
	}
	// tests of the source rule: len(action.Pattern) == k, action.Stmts == nil, len(action.Stmts) == 0
	type srcTest struct {
		blk   *ssa.BasicBlock
		field string
		kind  string // "len==k" or "nil"
		k     int64
		edge  int // the successor on which the test holds
	}
	var tests []srcTest
	srcField := func(v ssa.Value) string {
		// a load of a field of an ast.Action (directly or of the loop variable's copy)
		if f, base := loadedField(v); f != nil && isNamed(deref(base.Type()), modPath+"/internal/ast", "Action") {
			return f.Name()
		}
		if fv, ok := v.(*ssa.Field); ok && isNamed(deref(fv.X.Type()), modPath+"/internal/ast", "Action") {
			return fieldNameOf(fv.X.Type(), fv.Field)
		}
		return ""
	}
	for _, b := range fn.Blocks {
		if len(b.Instrs) == 0 {
			continue
		}
		iff, ok := b.Instrs[len(b.Instrs)-1].(*ssa.If)
		if !ok {
			continue
		}
		bo, ok := iff.Cond.(*ssa.BinOp)
		if !ok || (bo.Op != token.EQL && bo.Op != token.NEQ) {
			continue
		}
		edge := 0
		if bo.Op == token.NEQ {
			edge = 1
		}
		k, isK := bo.Y.(*ssa.Const)
		if !isK {
			continue
		}
		if call, ok := bo.X.(*ssa.Call); ok {
			if bi, ok := call.Call.Value.(*ssa.Builtin); ok && bi.Name() == "len" && len(call.Call.Args) == 1 {
				if f := srcField(call.Call.Args[0]); f != "" && k.Value != nil {
					tests = append(tests, srcTest{b, f, "len==k", k.Int64(), edge})
				}
			}
			continue
		}
		if f := srcField(bo.X); f != "" && k.Value == nil {
			tests = append(tests, srcTest{b, f, "nil", 0, edge})
		}
	}
	// the stores into the compiled rule
	n := 0
	allInstrs(fn, func(in ssa.Instruction) {
		st, ok := in.(*ssa.Store)
		if !ok {
			return
		}
		f, base := fieldOfAddr(st.Addr)
		if f == nil || !isNamed(deref(base.Type()), modPath+"/internal/compiler", "Action") {
			return
		}
		var srcName string
		switch f.Name() {
		case "Pattern":
			srcName = "Pattern"
		case "Body":
			srcName = "Stmts"
		default:
			return
		}
		n++
		// the nil edges of the stored value
		type nilEdge struct{ pred *ssa.BasicBlock }
		var nils []nilEdge
		seen := map[ssa.Value]bool{}
		var walk func(v ssa.Value, at *ssa.BasicBlock, depth int)
		walk = func(v ssa.Value, at *ssa.BasicBlock, depth int) {
			if depth > 6 {
				return
			}
			switch x := v.(type) {
			case *ssa.Const:
				if x.Value == nil {
					nils = append(nils, nilEdge{at})
				}
			case *ssa.Phi:
				if seen[v] {
					return
				}
				seen[v] = true
				for i, e := range x.Edges {
					walk(e, x.Block().Preds[i], depth+1)
				}
			}
		}
		walk(st.Val, in.Block(), 0)
		bad := token.NoPos
		why := ""
		for _, ne := range nils {
			for _, t := range tests {
				if t.field != srcName {
					continue
				}
				present := (t.kind == "len==k" && t.k >= 1 && srcName == "Pattern") || (t.kind == "len==k" && srcName == "Stmts" && t.k == 0)
				if !present {
					continue
				}
				// the nil comes from a path on which the source has this part
				tgt := t.blk.Succs[t.edge]
				if (tgt == ne.pred || tgt.Dominates(ne.pred)) && len(tgt.Preds) == 1 {
					bad = posOr(in.Pos(), fn.Pos())
					if srcName == "Pattern" {
						why = "a rule whose source has a pattern can be compiled without one"
					} else {
						why = "a rule whose source has an (empty) block can be compiled without a body"
					}
				}
			}
			if srcName == "Stmts" {
				// the block is present on the false edge of `Stmts == nil`
				for _, t := range tests {
					if t.field == "Stmts" && t.kind == "nil" {
						tgt := t.blk.Succs[1-t.edge]
						if (tgt == ne.pred || tgt.Dominates(ne.pred)) && len(tgt.Preds) == 1 {
							bad = posOr(in.Pos(), fn.Pos())
							why = "a rule whose source has a block can be compiled without a body"
						}
					}
				}
			}
		}
		_ = types.Typ
		c.check(bad == token.NoPos && len(tests) > 0, "every-record:"+f.Name(), posOr(bad, in.Pos()), "the compiled rule keeps the "+f.Name()+" part whenever the source rule has it",
			"Compile: "+why+": with neither pattern nor body code the main loop handles a record (prints it) without executing a single instruction, and the instruction loop is the only place the context is polled - `1` on an endless input is then never cancelled (and a bare `{}` would print)")
	})
	c.atLeast("parts of a compiled rule stored by Compile", n, 2)
}

// compiledBlocksNonEmpty (R-CTX every-record, also C01): the interpreter takes a rule whose compiled body is empty
// for a rule without a block (and prints the record), and a program whose compiled END code is empty for a program
// without END (and does not read the input). The code stored as a rule's body or appended to the END code is
// therefore never empty when the source has the block: the finish() that yields it is dominated by an unconditional
// emission on the same compiler, or by the guard `if len(c.code) == 0 { c.add(...) }`.
func compiledBlocksNonEmpty(c *Ctx) {
	fn := c.ssaFunc("internal/compiler", "Compile")
	if fn == nil {
		return
	}
	// finish calls and what becomes of their result
	type site struct {
		call *ssa.Call
		role string
	}
	var sites []site
	roleOf := func(call *ssa.Call) string {
		seen := map[ssa.Value]bool{}
		role := ""
		var walk func(v ssa.Value, depth int)
		walk = func(v ssa.Value, depth int) {
			if seen[v] || depth > 5 || role != "" {
				return
			}
			seen[v] = true
			refs := v.Referrers()
			if refs == nil {
				return
			}
			for _, r := range *refs {
				switch x := r.(type) {
				case *ssa.Store:
					if f, base := fieldOfAddr(x.Addr); f != nil && x.Val == v {
						if isNamed(deref(base.Type()), modPath+"/internal/compiler", "Action") && f.Name() == "Body" {
							role = "Body"
						}
						if isNamed(deref(base.Type()), modPath+"/internal/compiler", "Program") && f.Name() == "End" {
							role = "End"
						}
					}
				case *ssa.Phi:
					walk(x, depth+1)
				case *ssa.Call:
					if b, ok := x.Call.Value.(*ssa.Builtin); ok && b.Name() == "append" && len(x.Call.Args) == 2 && x.Call.Args[1] == v {
						// append(p.End, code...)
						if interpLikeFieldLoad(x.Call.Args[0], "End") {
							role = "End"
						}
						walk(x, depth+1)
					}
				}
			}
		}
		walk(call, 0)
		return role
	}
	allInstrs(fn, func(in ssa.Instruction) {
		call, ok := in.(*ssa.Call)
		if !ok {
			return
		}
		if cal := call.Call.StaticCallee(); cal == nil || cal.Name() != "finish" {
			return
		}
		if r := roleOf(call); r != "" {
			sites = append(sites, site{call, r})
		}
	})
	k := map[string]int{}
	for _, s := range sites {
		k[s.role]++
		key := "every-record:nonempty:" + s.role
		if k[s.role] > 1 {
			key += "#" + itoa(int64(k[s.role]))
		}
		recv := s.call.Call.Args[0]
		okNonEmpty := false
		how := ""
		for _, b := range fn.Blocks {
			if !(b == s.call.Block() || b.Dominates(s.call.Block())) {
				continue
			}
			for _, in := range b.Instrs {
				if in == ssa.Instruction(s.call) {
					break
				}
				if call, ok := in.(*ssa.Call); ok {
					cal := call.Call.StaticCallee()
					if cal == nil || len(call.Call.Args) == 0 || call.Call.Args[0] != recv {
						continue
					}
					// an unconditional emission: add(...) or an expression (which always pushes a value)
					if cal.Name() == "add" || cal.Name() == "expr" {
						okNonEmpty, how = true, "an unconditional "+cal.Name()+" on the same compiler precedes it"
					}
				}
			}
			// the guard: len(recv.code) == 0 with an add on the zero edge
			if len(b.Instrs) == 0 {
				continue
			}
			iff, ok := b.Instrs[len(b.Instrs)-1].(*ssa.If)
			if !ok {
				continue
			}
			bo, ok := iff.Cond.(*ssa.BinOp)
			if !ok || (bo.Op != token.EQL && bo.Op != token.NEQ) {
				continue
			}
			kz, isK := bo.Y.(*ssa.Const)
			lc, isCall := bo.X.(*ssa.Call)
			if !isK || !isCall || kz.Value == nil || kz.Int64() != 0 {
				continue
			}
			if bi, ok := lc.Call.Value.(*ssa.Builtin); !ok || bi.Name() != "len" {
				continue
			}
			f, base := loadedField(lc.Call.Args[0])
			if f == nil || f.Name() != "code" || base != recv {
				continue
			}
			zero := b.Succs[0]
			if bo.Op == token.NEQ {
				zero = b.Succs[1]
			}
			for _, in := range zero.Instrs {
				if call, ok := in.(*ssa.Call); ok {
					if cal := call.Call.StaticCallee(); cal != nil && cal.Name() == "add" && len(call.Call.Args) > 0 && call.Call.Args[0] == recv {
						okNonEmpty, how = true, "guarded by `if len(code) == 0 { add(...) }`"
					}
				}
			}
		}
		c.check(okNonEmpty, key, s.call.Pos(), "the compiled "+s.role+" code is never empty ("+how+")",
			"Compile can store empty code as a rule's "+s.role+" although the source has the block (a block of empty blocks, `{ {} }`, compiles to nothing): the interpreter takes an empty body for \"no action\" and prints the record, an empty END for \"no END block\" and skips the input - and a record handled without executing an instruction is never polled for cancellation")
	}
	c.atLeast("compiled blocks whose emptiness has a meaning", len(sites), 2)
}

// interpLikeFieldLoad: v is a load of the named field of some struct.
func interpLikeFieldLoad(v ssa.Value, name string) bool {
	f, _ := loadedField(v)
	return f != nil && f.Name() == name
}
