package main

import (
	"go/token"
	"go/types"

	"golang.org/x/tools/go/ssa"
)

// everyRecordRunsCode (part of R-CTX, C15): the context is polled by the instruction loop, so the main loop is
// interruptible only because every record runs at least one instruction: a rule has a pattern or a body (the parser
// guarantees one of them), and the compiler keeps what the source has - the compiled pattern list is nil only when
// the source rule has no pattern, the compiled body only when it has no block. A rule compiled to neither (a
// constant pattern "optimised" away) makes `1` copy an endless input without ever looking at the context.
func everyRecordRunsCode(c *Ctx) {
	fn := c.ssaFunc("internal/compiler", "Compile")
	if fn == nil {
		c.undecided("every-record:anchor", token.NoPos, "compiler.Compile not found")
		return
	}
	// tests of the source rule: len(action.Pattern) == k, action.Stmts == nil, len(action.Stmts) == 0
	type srcTest struct {
		blk   *ssa.BasicBlock
		field string
		kind  string // "len==k" or "nil"
		k     int64
		edge  int // the successor on which the test holds
	}
	var tests []srcTest
	srcField := func(v ssa.Value) string {
		// a load of a field of an ast.Action (directly or of the loop variable's copy)
		if f, base := loadedField(v); f != nil && isNamed(deref(base.Type()), modPath+"/internal/ast", "Action") {
			return f.Name()
		}
		if fv, ok := v.(*ssa.Field); ok && isNamed(deref(fv.X.Type()), modPath+"/internal/ast", "Action") {
			return fieldNameOf(fv.X.Type(), fv.Field)
		}
		return ""
	}
	for _, b := range fn.Blocks {
		if len(b.Instrs) == 0 {
			continue
		}
		iff, ok := b.Instrs[len(b.Instrs)-1].(*ssa.If)
		if !ok {
			continue
		}
		bo, ok := iff.Cond.(*ssa.BinOp)
		if !ok || (bo.Op != token.EQL && bo.Op != token.NEQ) {
			continue
		}
		edge := 0
		if bo.Op == token.NEQ {
			edge = 1
		}
		k, isK := bo.Y.(*ssa.Const)
		if !isK {
			continue
		}
		if call, ok := bo.X.(*ssa.Call); ok {
			if bi, ok := call.Call.Value.(*ssa.Builtin); ok && bi.Name() == "len" && len(call.Call.Args) == 1 {
				if f := srcField(call.Call.Args[0]); f != "" && k.Value != nil {
					tests = append(tests, srcTest{b, f, "len==k", k.Int64(), edge})
				}
			}
			continue
		}
		if f := srcField(bo.X); f != "" && k.Value == nil {
			tests = append(tests, srcTest{b, f, "nil", 0, edge})
		}
	}
	// the stores into the compiled rule
	n := 0
	allInstrs(fn, func(in ssa.Instruction) {
		st, ok := in.(*ssa.Store)
		if !ok {
			return
		}
		f, base := fieldOfAddr(st.Addr)
		if f == nil || !isNamed(deref(base.Type()), modPath+"/internal/compiler", "Action") {
			return
		}
		var srcName string
		switch f.Name() {
		case "Pattern":
			srcName = "Pattern"
		case "Body":
			srcName = "Stmts"
		default:
			return
		}
		n++
		// the nil edges of the stored value
		type nilEdge struct{ pred *ssa.BasicBlock }
		var nils []nilEdge
		seen := map[ssa.Value]bool{}
		var walk func(v ssa.Value, at *ssa.BasicBlock, depth int)
		walk = func(v ssa.Value, at *ssa.BasicBlock, depth int) {
			if depth > 6 {
				return
			}
			switch x := v.(type) {
			case *ssa.Const:
				if x.Value == nil {
					nils = append(nils, nilEdge{at})
				}
			case *ssa.Phi:
				if seen[v] {
					return
				}
				seen[v] = true
				for i, e := range x.Edges {
					walk(e, x.Block().Preds[i], depth+1)
				}
			}
		}
		walk(st.Val, in.Block(), 0)
		bad := token.NoPos
		why := ""
		for _, ne := range nils {
			for _, t := range tests {
				if t.field != srcName {
					continue
				}
				present := (t.kind == "len==k" && t.k >= 1 && srcName == "Pattern") || (t.kind == "len==k" && srcName == "Stmts" && t.k == 0)
				if !present {
					continue
				}
				// the nil comes from a path on which the source has this part
				tgt := t.blk.Succs[t.edge]
				if (tgt == ne.pred || tgt.Dominates(ne.pred)) && len(tgt.Preds) == 1 {
					bad = posOr(in.Pos(), fn.Pos())
					if srcName == "Pattern" {
						why = "a rule whose source has a pattern can be compiled without one"
					} else {
						why = "a rule whose source has an (empty) block can be compiled without a body"
					}
				}
			}
			if srcName == "Stmts" {
				// the block is present on the false edge of `Stmts == nil`
				for _, t := range tests {
					if t.field == "Stmts" && t.kind == "nil" {
						tgt := t.blk.Succs[1-t.edge]
						if (tgt == ne.pred || tgt.Dominates(ne.pred)) && len(tgt.Preds) == 1 {
							bad = posOr(in.Pos(), fn.Pos())
							why = "a rule whose source has a block can be compiled without a body"
						}
					}
				}
			}
		}
		_ = types.Typ
		c.check(bad == token.NoPos && len(tests) > 0, "every-record:"+f.Name(), posOr(bad, in.Pos()), "the compiled rule keeps the "+f.Name()+" part whenever the source rule has it",
			"Compile: "+why+": with neither pattern nor body code the main loop handles a record (prints it) without executing a single instruction, and the instruction loop is the only place the context is polled - `1` on an endless input is then never cancelled (and a bare `{}` would print)")
	})
	c.atLeast("parts of a compiled rule stored by Compile", n, 2)
}
