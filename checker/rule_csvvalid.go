package main

import (
	"go/token"
	"strings"

	"golang.org/x/tools/go/ssa"
)

// R-CSVVALID (C02, C08): a CSV separator or comment character reaches the splitter only validated.
//
// The CSV splitter and writer assume what validateCSVInputConfig / validateCSVOutputConfig
// establish (a valid, non-conflicting rune). The configuration fields are written from three
// sources (Config, the INPUTMODE/OUTPUTMODE variables, the -i/-o options via Config), and every
// function that stores a non-constant value into one of them must run the matching validator on
// every path from that store to a successful return; an unvalidated separator such as an
// invalid UTF-8 byte makes csvSplitter.scan slice out of range.

func init() {
	register("R-CSVVALID", "CSV configuration is validated wherever it is set: in every function of package interp that stores a non-constant value into the csvInputConfig (csvOutputConfig) field, each path from the store to a return with a nil error passes through a call of validateCSVInputConfig (validateCSVOutputConfig); the validators are called nowhere with their result ignored", ruleCSVValid)
}

func ruleCSVValid(c *Ctx) {
	csvHeaderCallback(c)
	pairs := map[string]string{"csvInputConfig": "validateCSVInputConfig", "csvOutputConfig": "validateCSVOutputConfig"}
	nStores := 0
	for _, fn := range c.srcFuncs("interp") {
		idx := map[string]int{}
		for _, b := range fn.Blocks {
			for _, in := range b.Instrs {
				st, ok := in.(*ssa.Store)
				if !ok {
					continue
				}
				f, x := fieldOfAddr(st.Addr)
				if f == nil || !isInterp(x.Type()) && !isInterp(deref(x.Type())) {
					continue
				}
				validator, ok := pairs[f.Name()]
				if !ok {
					continue
				}
				if _, isConst := st.Val.(*ssa.Const); isConst {
					continue // zero value: the defaults
				}
				nStores++
				idx[f.Name()]++
				key := "csvvalid:" + fnKey(fn) + ":" + f.Name()
				if idx[f.Name()] > 1 {
					key += "#" + itoa(int64(idx[f.Name()]))
				}
				// blocks with the validator call (result used)
				valid := map[*ssa.BasicBlock]bool{}
				for _, vb := range fn.Blocks {
					for _, vin := range vb.Instrs {
						if call, ok := vin.(*ssa.Call); ok {
							if cal := call.Call.StaticCallee(); cal != nil && cal.Name() == validator {
								if refs := call.Referrers(); refs != nil && len(*refs) > 0 {
									valid[vb] = true
								}
							}
						}
					}
				}
				// the store's own block may hold the validator after the store
				afterStore := false
				seen := false
				for _, in2 := range b.Instrs {
					if in2 == ssa.Instruction(st) {
						seen = true
						continue
					}
					if seen {
						if call, ok := in2.(*ssa.Call); ok {
							if cal := call.Call.StaticCallee(); cal != nil && cal.Name() == validator {
								afterStore = true
							}
						}
					}
				}
				bad := ""
				if !afterStore {
					// search success returns reachable from b without passing a validator block
					visited := map[*ssa.BasicBlock]bool{b: true}
					work := []*ssa.BasicBlock{b}
					for len(work) > 0 && bad == "" {
						cur := work[len(work)-1]
						work = work[:len(work)-1]
						if cur != b && valid[cur] {
							continue
						}
						if len(cur.Instrs) > 0 {
							if ret, ok := cur.Instrs[len(cur.Instrs)-1].(*ssa.Return); ok {
								rr := retResults(ret)
								if len(rr) == 0 {
									bad = "a return without an error result"
								} else if isNilConst(rr[len(rr)-1]) {
									bad = "a successful return at " + c.relPos(ret.Pos())
								} else if ph, ok := rr[len(rr)-1].(*ssa.Phi); ok {
									for _, e := range ph.Edges {
										if isNilConst(e) {
											bad = "a successful return at " + c.relPos(ret.Pos())
										}
									}
								}
							}
						}
						for _, s := range cur.Succs {
							if !visited[s] {
								visited[s] = true
								work = append(work, s)
							}
						}
					}
				}
				c.check(bad == "", key, st.Pos(),
					"every successful return after this store passes through "+validator,
					fnKey(fn)+" stores a new "+strings.TrimPrefix(f.Name(), "csv")+" and can reach "+bad+" without calling "+validator+": an invalid separator or comment character (for example an invalid UTF-8 byte, or one equal to the quote) reaches the CSV splitter/writer, which slices the input out of range")
			}
		}
	}
	c.atLeast("stores of CSV configuration", nStores, 4)
	_ = token.NoPos
}
