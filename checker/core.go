// Core of sverif: loading, obligations, evidence, known findings, replay.
package main

import (
	"crypto/sha1"
	_ "embed"
	"encoding/hex"
	"encoding/json"
	"fmt"
	"go/ast"
	"go/token"
	"go/types"
	"os"
	"path/filepath"
	"runtime/debug"
	"sort"
	"strings"
	"time"

	"golang.org/x/tools/go/callgraph"
	"golang.org/x/tools/go/callgraph/cha"
	"golang.org/x/tools/go/callgraph/vta"
	"golang.org/x/tools/go/packages"
	"golang.org/x/tools/go/ssa"
	"golang.org/x/tools/go/ssa/ssautil"
)

const modPath = "github.com/benhoyt/goawk"

type Verdict int

const (
	Discharged Verdict = iota
	Violated
	Undecided
)

func (v Verdict) String() string {
	switch v {
	case Discharged:
		return "discharged"
	case Violated:
		return "violated"
	default:
		return "undecided"
	}
}

// Obligation is one decided instance of a rule. Key identifies the construct
// (never a line number) so that known findings and replays stay stable.
type Obligation struct {
	Rule       string `json:"rule"`
	Key        string `json:"key"`
	Pos        string `json:"pos"`
	Verdict    string `json:"verdict"`
	Detail     string `json:"detail"`
	Nontrivial bool   `json:"nontrivial"`
	verdict    Verdict
}

// Ctx is the loaded program plus the obligation sink for the running rule.
type Ctx struct {
	Repo    string
	Tier    string
	Fset    *token.FileSet
	Pkgs    map[string]*packages.Package
	All     []*packages.Package
	Prog    *ssa.Program
	SSA     map[string]*ssa.Package
	cg      *callgraph.Graph
	cgKind  string
	curRule string
	obs     []*Obligation
	stats   map[string]int
	memo    map[string]interface{}
}

func (c *Ctx) relPos(p token.Pos) string {
	if !p.IsValid() {
		return "-"
	}
	pos := c.Fset.Position(p)
	rel, err := filepath.Rel(c.Repo, pos.Filename)
	if err != nil {
		rel = pos.Filename
	}
	return fmt.Sprintf("%s:%d", rel, pos.Line)
}

func (c *Ctx) add(v Verdict, key string, pos token.Pos, nontrivial bool, format string, args ...interface{}) {
	o := &Obligation{Rule: c.curRule, Key: key, Pos: c.relPos(pos), Verdict: v.String(),
		Detail: fmt.Sprintf(format, args...), Nontrivial: nontrivial, verdict: v}
	c.obs = append(c.obs, o)
}

// ok/bad/undecided are the three ways a rule reports.
func (c *Ctx) ok(key string, pos token.Pos, format string, args ...interface{}) {
	c.add(Discharged, key, pos, true, format, args...)
}
func (c *Ctx) trivial(key string, pos token.Pos, format string, args ...interface{}) {
	c.add(Discharged, key, pos, false, format, args...)
}
func (c *Ctx) bad(key string, pos token.Pos, format string, args ...interface{}) {
	c.add(Violated, key, pos, true, format, args...)
}
func (c *Ctx) undecided(key string, pos token.Pos, format string, args ...interface{}) {
	c.add(Undecided, key, pos, true, format, args...)
}

// check is a shorthand: cond true => discharged else violated.
func (c *Ctx) check(cond bool, key string, pos token.Pos, okMsg, badMsg string) {
	if cond {
		c.ok(key, pos, "%s", okMsg)
	} else {
		c.bad(key, pos, "%s", badMsg)
	}
}

func (c *Ctx) stat(name string, n int) { c.stats[c.curRule+"."+name] += n }

// note records what a textual (shape-dependent) comparison saw without letting it decide: the deciding
// obligation for the same fact is a semantic one that does not depend on the layout of the code.
func (c *Ctx) note(cond bool, key string, pos token.Pos, okMsg, otherMsg string) {
	if cond {
		c.trivial(key, pos, "%s", okMsg)
	} else {
		c.trivial(key, pos, "layout not recognised by the textual comparison (not deciding): %s", otherMsg)
	}
}

// minimum instance count: a rule that matches fewer sites than confirmed by
// hand fails (never passes vacuously).
func (c *Ctx) atLeast(what string, got, min int) {
	key := "census:" + what
	if got >= min {
		c.trivial(key, token.NoPos, "%d instances of %s (minimum %d)", got, what, min)
	} else {
		c.bad(key, token.NoPos, "only %d instances of %s found, expected at least %d: the rule's anchors no longer match the code", got, what, min)
	}
}

func load(repo string) (*Ctx, error) {
	cfg := &packages.Config{
		Mode:       packages.LoadAllSyntax,
		Dir:        repo,
		Tests:      false,
		BuildFlags: []string{"-tags=verif"},
		Env: append(os.Environ(), "GOFLAGS=-mod=mod", "GOPROXY=off", "GOSUMDB=off",
			"GOTOOLCHAIN=local", "GOWORK=off"),
	}
	pkgs, err := packages.Load(cfg, "./...")
	if err != nil {
		return nil, err
	}
	c := &Ctx{Repo: repo, Pkgs: map[string]*packages.Package{}, SSA: map[string]*ssa.Package{},
		stats: map[string]int{}, memo: map[string]interface{}{}}
	n := 0
	var errs []string
	for _, p := range pkgs {
		if !strings.HasPrefix(p.PkgPath, modPath) {
			continue
		}
		for _, e := range p.Errors {
			errs = append(errs, e.Error())
		}
		c.Pkgs[p.PkgPath] = p
		c.All = append(c.All, p)
		c.Fset = p.Fset
		n++
	}
	if len(errs) > 0 {
		return nil, fmt.Errorf("type-check/load errors in %s: %s", repo, strings.Join(errs, "; "))
	}
	if n < 9 {
		return nil, fmt.Errorf("only %d packages of %s loaded from %s (expected >= 9)", n, modPath, repo)
	}
	for _, need := range []string{"", "/interp", "/parser", "/lexer", "/internal/ast", "/internal/compiler", "/internal/resolver", "/internal/cover"} {
		if c.Pkgs[modPath+need] == nil {
			return nil, fmt.Errorf("package %s%s not loaded", modPath, need)
		}
	}
	sort.Slice(c.All, func(i, j int) bool { return c.All[i].PkgPath < c.All[j].PkgPath })
	var osPkg *types.Package
	for _, imp := range c.Pkgs[modPath+"/interp"].Types.Imports() {
		if imp.Path() == "os" {
			osPkg = imp
		}
	}
	if osPkg == nil {
		return nil, fmt.Errorf("package interp does not import os: open-flag constants not resolvable")
	}
	if err := setOpenFlags(osPkg); err != nil {
		return nil, err
	}
	prog, spkgs := ssautil.AllPackages(pkgs, ssa.InstantiateGenerics)
	prog.Build()
	c.Prog = prog
	for i, p := range pkgs {
		if spkgs[i] != nil {
			c.SSA[p.PkgPath] = spkgs[i]
		}
	}
	curCtx = c
	return c, nil
}

func (c *Ctx) callgraph() *callgraph.Graph {
	want := "cha"
	if c.Tier == "thorough" {
		want = "vta"
	}
	if c.cg != nil && c.cgKind == want {
		return c.cg
	}
	g := cha.CallGraph(c.Prog)
	if want == "vta" {
		g = vta.CallGraph(ssautil.AllFunctions(c.Prog), g)
	}
	c.cg, c.cgKind = g, want
	return g
}

// ---------------------------------------------------------------- lookup helpers

func (c *Ctx) pkg(short string) *packages.Package {
	if short == "main" || short == "" {
		return c.Pkgs[modPath]
	}
	return c.Pkgs[modPath+"/"+short]
}

func (c *Ctx) ssaPkg(short string) *ssa.Package {
	if short == "main" || short == "" {
		return c.SSA[modPath]
	}
	return c.SSA[modPath+"/"+short]
}

// funcDecl finds a function or method declaration. name is "f" or "T.m".
func (c *Ctx) funcDecl(pkgShort, name string) *ast.FuncDecl {
	p := c.pkg(pkgShort)
	if p == nil {
		return nil
	}
	recv, fn := "", name
	if i := strings.Index(name, "."); i >= 0 {
		recv, fn = name[:i], name[i+1:]
	}
	for _, f := range p.Syntax {
		for _, d := range f.Decls {
			fd, ok := d.(*ast.FuncDecl)
			if !ok || fd.Name.Name != fn {
				continue
			}
			if recv == "" && fd.Recv == nil {
				return fd
			}
			if recv != "" && fd.Recv != nil && len(fd.Recv.List) == 1 && recvTypeName(fd.Recv.List[0].Type) == recv {
				return fd
			}
		}
	}
	return nil
}

func recvTypeName(e ast.Expr) string {
	switch t := e.(type) {
	case *ast.StarExpr:
		return recvTypeName(t.X)
	case *ast.Ident:
		return t.Name
	case *ast.IndexExpr:
		return recvTypeName(t.X)
	}
	return ""
}

// allFuncDecls lists every function declaration of the package (non-test).
func (c *Ctx) allFuncDecls(pkgShort string) []*ast.FuncDecl {
	var out []*ast.FuncDecl
	p := c.pkg(pkgShort)
	if p == nil {
		return nil
	}
	for _, f := range p.Syntax {
		for _, d := range f.Decls {
			if fd, ok := d.(*ast.FuncDecl); ok {
				out = append(out, fd)
			}
		}
	}
	return out
}

func declName(fd *ast.FuncDecl) string {
	if fd.Recv != nil && len(fd.Recv.List) == 1 {
		return recvTypeName(fd.Recv.List[0].Type) + "." + fd.Name.Name
	}
	return fd.Name.Name
}

// ssaFunc finds the SSA function for "f" or "T.m" (pointer or value receiver).
func (c *Ctx) ssaFunc(pkgShort, name string) *ssa.Function {
	sp := c.ssaPkg(pkgShort)
	if sp == nil {
		return nil
	}
	if i := strings.Index(name, "."); i >= 0 {
		tn, mn := name[:i], name[i+1:]
		m := sp.Members[tn]
		t, ok := m.(*ssa.Type)
		if !ok {
			return nil
		}
		// LookupMethod panics on a method that does not exist: ask the method sets first
		has := func(recv types.Type) bool {
			ms := types.NewMethodSet(recv)
			for i := 0; i < ms.Len(); i++ {
				if ms.At(i).Obj().Name() == mn && ms.At(i).Obj().Pkg() == sp.Pkg {
					return true
				}
			}
			return false
		}
		if has(types.NewPointer(t.Type())) {
			if f := c.Prog.LookupMethod(types.NewPointer(t.Type()), sp.Pkg, mn); f != nil && f.Synthetic == "" {
				return f
			}
		}
		// a method with a value receiver: the pointer method set only holds a synthetic wrapper
		if has(t.Type()) {
			return c.Prog.LookupMethod(t.Type(), sp.Pkg, mn)
		}
		return nil
	}
	f, _ := sp.Members[name].(*ssa.Function)
	return f
}

// srcFuncs returns every source-level SSA function (incl. anonymous) of a package.
func (c *Ctx) srcFuncs(pkgShort string) []*ssa.Function {
	sp := c.ssaPkg(pkgShort)
	var out []*ssa.Function
	if sp == nil {
		return nil
	}
	seen := map[*ssa.Function]bool{}
	var addFn func(f *ssa.Function)
	addFn = func(f *ssa.Function) {
		if f == nil || seen[f] || f.Blocks == nil {
			return
		}
		seen[f] = true
		out = append(out, f)
		for _, a := range f.AnonFuncs {
			addFn(a)
		}
	}
	for _, m := range sp.Members {
		switch m := m.(type) {
		case *ssa.Function:
			addFn(m)
		case *ssa.Type:
			for _, t := range []types.Type{m.Type(), types.NewPointer(m.Type())} {
				ms := c.Prog.MethodSets.MethodSet(t)
				for i := 0; i < ms.Len(); i++ {
					f := c.Prog.MethodValue(ms.At(i))
					if f != nil && f.Synthetic == "" {
						addFn(f)
					}
				}
			}
		}
	}
	sort.Slice(out, func(i, j int) bool { return out[i].String() < out[j].String() })
	return out
}

func (c *Ctx) structType(pkgShort, name string) (*types.Named, *types.Struct) {
	p := c.pkg(pkgShort)
	if p == nil {
		return nil, nil
	}
	o := p.Types.Scope().Lookup(name)
	if o == nil {
		return nil, nil
	}
	n, ok := o.Type().(*types.Named)
	if !ok {
		return nil, nil
	}
	s, _ := n.Underlying().(*types.Struct)
	return n, s
}

func fieldByName(s *types.Struct, name string) *types.Var {
	if s == nil {
		return nil
	}
	for i := 0; i < s.NumFields(); i++ {
		if s.Field(i).Name() == name {
			return s.Field(i)
		}
	}
	return nil
}

// constsOfType lists the package-level constants whose type is the named type.
func (c *Ctx) constsOfType(pkgShort, typeName string) []*types.Const {
	p := c.pkg(pkgShort)
	var out []*types.Const
	if p == nil {
		return nil
	}
	sc := p.Types.Scope()
	for _, n := range sc.Names() {
		if k, ok := sc.Lookup(n).(*types.Const); ok {
			if nt, ok := k.Type().(*types.Named); ok && nt.Obj().Name() == typeName && nt.Obj().Pkg() == p.Types {
				out = append(out, k)
			}
		}
	}
	return out
}

func nodeStr(fset *token.FileSet, n ast.Node) string {
	return types.ExprString(n.(ast.Expr))
}

// ---------------------------------------------------------------- rules and properties

type Rule struct {
	Name string
	Doc  string // the rule text shown in reports
	Run  func(c *Ctx)
}

var rules = map[string]*Rule{}

func register(name, doc string, run func(c *Ctx)) {
	rules[name] = &Rule{Name: name, Doc: doc, Run: run}
}

type Property struct {
	ID         string
	Rules      []string
	Explain    string // coverage.explanation: what is decided and what is not
	Assumption []string
}

var properties = map[string]*Property{}

func runRule(c *Ctx, r *Rule) (obs []*Obligation) {
	c.curRule = r.Name
	c.obs = nil
	func() {
		defer func() {
			if e := recover(); e != nil {
				c.undecided("checker-panic", token.NoPos, "rule %s panicked: %v\n%s", r.Name, e, debug.Stack())
			}
		}()
		r.Run(c)
	}()
	if len(c.obs) == 0 {
		c.bad("census:empty", token.NoPos, "rule %s produced no obligations (vacuous)", r.Name)
	}
	// every clause that produces obligations on the reference tree must produce some on this tree too: a clause
	// that no longer finds its subject fails the check instead of passing vacuously
	have := map[string]bool{}
	for _, o := range c.obs {
		have[keyClass(o.Key)] = true
	}
	if !have["checker-panic"] {
		for _, cl := range expectedClasses()[r.Name] {
			if !have[cl] {
				c.undecided("clause-missing:"+cl, token.NoPos, "rule %s produced no obligation of class %q on this tree although it does on the reference tree: the clause no longer finds its subject in the code, and a vacuous pass is not accepted", r.Name, cl)
			}
		}
	}
	obs = c.obs
	c.obs = nil
	// obligations keys must be unique within a rule; disambiguate duplicates deterministically
	seen := map[string]int{}
	for _, o := range obs {
		seen[o.Key]++
		if seen[o.Key] > 1 {
			o.Key = fmt.Sprintf("%s#%d", o.Key, seen[o.Key])
		}
	}
	return obs
}

// keyClass: the clause an obligation key belongs to (its first segment).
func keyClass(key string) string {
	if i := strings.Index(key, ":"); i >= 0 {
		return key[:i]
	}
	if i := strings.Index(key, "#"); i >= 0 {
		return key[:i]
	}
	return key
}

//go:embed expected_classes.json
var expectedClassesJSON []byte

var expectedClassesMemo map[string][]string

func expectedClasses() map[string][]string {
	if expectedClassesMemo == nil {
		expectedClassesMemo = map[string][]string{}
		_ = json.Unmarshal(expectedClassesJSON, &expectedClassesMemo)
	}
	return expectedClassesMemo
}

// ---------------------------------------------------------------- known findings

type Finding struct {
	Property     string `json:"property"`
	Rule         string `json:"rule"`
	Key          string `json:"key"`
	What         string `json:"what"`
	FailingInput string `json:"failing_input"`
}

type KnownFile struct {
	Comment  string    `json:"comment"`
	Findings []Finding `json:"findings"`
	Fixed    []string  `json:"fixed"`
}

func loadKnown(path string) (*KnownFile, error) {
	b, err := os.ReadFile(path)
	if err != nil {
		if os.IsNotExist(err) {
			return &KnownFile{}, nil
		}
		return nil, err
	}
	k := &KnownFile{}
	if err := json.Unmarshal(b, k); err != nil {
		return nil, fmt.Errorf("%s: %v", path, err)
	}
	return k, nil
}

func (k *KnownFile) match(prop string, o *Obligation) *Finding {
	for i := range k.Findings {
		f := &k.Findings[i]
		if f.Property == prop && f.Rule == o.Rule && f.Key == o.Key {
			return f
		}
	}
	return nil
}

// ---------------------------------------------------------------- evidence

type Evidence struct {
	PropertyID  string                 `json:"property_id"`
	Tier        string                 `json:"tier"`
	Seed        int                    `json:"seed"`
	Level       string                 `json:"level"`
	Coverage    map[string]interface{} `json:"coverage"`
	Assumptions []string               `json:"assumptions"`
	WallS       float64                `json:"wall_s"`
	Violations  int                    `json:"violations"`
}

type replayFile struct {
	Property string      `json:"property"`
	Rule     string      `json:"rule"`
	RuleText string      `json:"rule_text"`
	Key      string      `json:"key"`
	Pos      string      `json:"pos"`
	Verdict  string      `json:"verdict"`
	Detail   string      `json:"detail"`
	Repo     string      `json:"repo"`
	Ob       *Obligation `json:"obligation"`
}

func hashKey(s string) string {
	h := sha1.Sum([]byte(s))
	return hex.EncodeToString(h[:])[:10]
}

// checkProperty runs the property's rules and reports. Returns the exit code.
func checkProperty(c *Ctx, verifDir string, prop *Property, known *KnownFile, seed int, start time.Time) int {
	var all []*Obligation
	ruleCounts := map[string]map[string]int{}
	for _, spec := range prop.Rules {
		// a rule may be restricted to some of its clauses: "R-RECSTATE:alias,reads-effect-free"
		rn, filter := spec, ""
		if k := strings.Index(spec, ":"); k >= 0 {
			rn, filter = spec[:k], spec[k+1:]
		}
		r := rules[rn]
		if r == nil {
			fmt.Printf("internal: rule %s not registered\n", rn)
			return 2
		}
		obs := runRule(c, r)
		if filter != "" {
			var kept []*Obligation
			for _, o := range obs {
				keep := o.verdict == Undecided && strings.HasPrefix(o.Key, "checker-panic")
				positives, excluded := 0, false
				for _, pre := range strings.Split(filter, ",") {
					// "!clause" leaves that clause to the other properties of the rule
					neg := strings.HasPrefix(pre, "!")
					pre = strings.TrimPrefix(pre, "!")
					if !neg {
						positives++
					}
					hit := strings.HasPrefix(o.Key, pre+":") || o.Key == pre
					// a trailing * makes the filter a plain key prefix
					if strings.HasSuffix(pre, "*") && strings.HasPrefix(o.Key, strings.TrimSuffix(pre, "*")) {
						hit = true
					}
					if hit && neg {
						excluded = true
					} else if hit {
						keep = true
					}
				}
				if positives == 0 {
					keep = true
				}
				if excluded {
					keep = false
				}
				if keep {
					kept = append(kept, o)
				}
			}
			obs = kept
		}
		all = append(all, obs...)
		rc := map[string]int{}
		for _, o := range obs {
			rc[o.Verdict]++
		}
		ruleCounts[rn] = rc
	}
	exit := 0
	nviol := 0
	discharged := 0
	distinct := map[string]bool{}
	var samples []interface{}
	var knownLines []string
	perRuleSample := map[string]int{}
	os.MkdirAll(filepath.Join(verifDir, "violations"), 0o755)
	for _, o := range all {
		switch o.verdict {
		case Discharged:
			discharged++
			if o.Nontrivial {
				distinct[o.Rule+"|"+o.Key] = true
			}
			if o.Nontrivial && perRuleSample[o.Rule] < 3 {
				perRuleSample[o.Rule]++
				samples = append(samples, o)
			}
		default:
			if f := known.match(prop.ID, o); f != nil && o.verdict == Violated {
				knownLines = append(knownLines, fmt.Sprintf("KNOWN-FINDING: property=%s %s [%s %s at %s] failing input: %s", prop.ID, f.What, o.Rule, o.Key, o.Pos, f.FailingInput))
				distinct[o.Rule+"|"+o.Key] = true
				samples = append(samples, o)
				continue
			}
			nviol++
			exit = 1
			rf := replayFile{Property: prop.ID, Rule: o.Rule, RuleText: rules[o.Rule].Doc, Key: o.Key, Pos: o.Pos,
				Verdict: o.Verdict, Detail: o.Detail, Repo: c.Repo, Ob: o}
			path := filepath.Join(verifDir, "violations", fmt.Sprintf("%s-%s.json", prop.ID, hashKey(o.Rule+"|"+o.Key)))
			b, _ := json.MarshalIndent(rf, "", " ")
			os.WriteFile(path, b, 0o644)
			fmt.Printf("%s: %s %s [%s]: %s\n", o.Pos, strings.ToUpper(o.Verdict), o.Rule, o.Key, o.Detail)
			fmt.Printf("VIOLATION property=%s replay=%s\n", prop.ID, path)
			samples = append(samples, o)
		}
	}
	for _, l := range knownLines {
		fmt.Println(l)
	}
	stats := map[string]int{}
	for k, v := range c.stats {
		for _, spec := range prop.Rules {
			if strings.HasPrefix(k, strings.SplitN(spec, ":", 2)[0]+".") {
				stats[k] = v
			}
		}
	}
	nfuncs := 0
	for _, p := range c.All {
		for _, f := range p.Syntax {
			for _, d := range f.Decls {
				if _, ok := d.(*ast.FuncDecl); ok {
					nfuncs++
				}
			}
		}
	}
	ruleTexts := map[string]string{}
	for _, spec := range prop.Rules {
		ruleTexts[spec] = rules[strings.SplitN(spec, ":", 2)[0]].Doc
	}
	ev := Evidence{
		PropertyID: prop.ID, Tier: c.Tier, Seed: seed, Level: "other",
		Coverage: map[string]interface{}{
			"explanation":         prop.Explain,
			"rule":                "every rule enumerates its finite site set in /repo's current source completely (no sampling); an obligation is one (rule, resolved construct) pair; it is non-trivial when discharging it needed an argument about the code (not a census line)",
			"rules_applied":       ruleTexts,
			"obligations":         len(all),
			"discharged":          discharged,
			"evaluations":         len(all),
			"distinct_nontrivial": len(distinct),
			"known_findings":      len(knownLines),
			"per_rule":            ruleCounts,
			"analysed":            map[string]interface{}{"packages": len(c.All), "function_decls": nfuncs, "callgraph": c.cgKind, "counts": stats},
			"samples":             samples,
			"exhaustive":          true,
			"checker_cmd":         fmt.Sprintf("bin/sverif check -p %s -tier %s", prop.ID, c.Tier),
			"trusted_base":        []string{"go/types, go/ssa, go/cfg, callgraph/cha|vta of golang.org/x/tools v0.29.0", "Go language specification facts named in DESIGN.md section 2.5", "oracle tables embedded in the checker (POSIX precedence, builtin arities, printf conversion classes)"},
		},
		Assumptions: prop.Assumption,
		WallS:       time.Since(start).Seconds(),
		Violations:  nviol,
	}
	os.MkdirAll(filepath.Join(verifDir, "evidence"), 0o755)
	b, _ := json.MarshalIndent(ev, "", " ")
	os.WriteFile(filepath.Join(verifDir, "evidence", prop.ID+".json"), b, 0o644)
	fmt.Printf("property %s tier %s: %d obligations, %d discharged, %d known findings, %d violations (%.1fs)\n",
		prop.ID, c.Tier, len(all), discharged, len(knownLines), nviol, time.Since(start).Seconds())
	return exit
}
