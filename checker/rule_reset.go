package main

import (
	"fmt"
	"go/ast"
	"go/constant"
	"go/token"
	"go/types"
	"sort"
	"strings"

	"golang.org/x/tools/go/ssa"
)

// R-RESET (C14): every field of struct interp that is dirtied during a run is
// re-established at the start of the next one.

// scratch: semantics-free buffers and pure memo caches; one line of reason each.
var resetScratch = map[string]string{
	"stack":            "only stack[0:sp] is live and sp is reset by resetCore",
	"frame":            "set at every call entry before any Local opcode can read it; top-level code has no locals",
	"inputBuffer":      "scanner buffer, contents overwritten by every read",
	"splitBuffer":      "scanner buffer for split(), contents overwritten by every use",
	"csvOutput":        "Reset(output) before each use in writeCSV",
	"csvJoinFieldsBuf": "Reset() before each use in joinFields",
	"regexCache":       "pure memo: compiled regex is a function of its key",
	"formatCache":      "pure memo: parsed format is a function of its key",
	"nativeFuncs":      "documented as fixed for the life of the Interpreter (Config.Funcs must not change)",
	"reparseCSV":       "assigned by setLine/execActions before any ensureFields that reads it; haveFields is reset so the stale value is never consulted for a stale record",
}

// special variables that legitimately persist without ResetVars (program variables).
var varsSpecials = []string{"V_CONVFMT", "V_FS", "V_OFMT", "V_OFS", "V_ORS", "V_RS", "V_RT", "V_SUBSEP"}

func init() {
	register("R-RESET", "for every field of struct interp: the set of functions that can dirty it (stores, nested stores, map/slice content writes, address escapes, mutating calls on its referent); a field dirtied outside construction must be definitely re-established on every path of resetCore (core), of setExecuteConfig's success paths (config), of resetVars (program variables only: globals, arrays, the string-valued specials and their derived companions), of ResetRand (random state), of Execute and ExecuteContext (context fields), or be in the scratch table with its reason; anything else leaks from one Execute into the next", ruleReset)
}

type fieldWrite struct {
	fn   *ssa.Function
	kind string
	pos  token.Pos
	val  ssa.Value
}

// interpFieldWrites collects, per interp field, the instructions that can dirty it.
func interpFieldWrites(c *Ctx) map[string][]fieldWrite {
	out := map[string][]fieldWrite{}
	addw := func(f string, fn *ssa.Function, kind string, pos token.Pos, val ssa.Value) {
		out[f] = append(out[f], fieldWrite{fn, kind, pos, val})
	}
	// rootField: follow FieldAddr/IndexAddr chains back to &p.f ; returns field name and whether through a load (content)
	var rootField func(v ssa.Value, depth int) (string, bool)
	rootField = func(v ssa.Value, depth int) (string, bool) {
		if depth > 6 {
			return "", false
		}
		switch v := v.(type) {
		case *ssa.FieldAddr:
			if f, x := fieldOfAddr(v); f != nil && isInterp(x.Type()) {
				return f.Name(), false
			}
			return rootField(v.X, depth+1)
		case *ssa.IndexAddr:
			return rootField(v.X, depth+1)
		case *ssa.UnOp:
			if v.Op == token.MUL {
				n, _ := rootField(v.X, depth+1)
				return n, true
			}
		case *ssa.Slice:
			return rootField(v.X, depth+1)
		case *ssa.ChangeType:
			return rootField(v.X, depth+1)
		}
		return "", false
	}
	for _, fn := range c.srcFuncs("interp") {
		fn := fn
		allInstrs(fn, func(in ssa.Instruction) {
			switch in := in.(type) {
			case *ssa.Store:
				if f, x := fieldOfAddr(in.Addr); f != nil && isInterp(x.Type()) {
					addw(f.Name(), fn, "store", in.Pos(), in.Val)
					// a component struct stored as a whole: every field of it is stored (with its zero value when the
					// component's zero value is stored)
					if names, _, zeroed := interpFieldStores(in); len(names) > 1 {
						for _, nm := range names[1:] {
							var v ssa.Value = in.Val
							if zeroed {
								v = ssa.NewConst(nil, types.Typ[types.UntypedNil])
							} else if fv := componentFieldValue(in.Val, nm, 0); fv != nil {
								v = fv // what the constructor (or the literal) puts into this field
							}
							addw(nm, fn, "store", in.Pos(), v)
						}
					}
				} else if n, content := rootField(in.Addr, 0); n != "" {
					k := "nested-store"
					if content {
						k = "content-store"
					}
					addw(n, fn, k, in.Pos(), in.Val)
				}
				// &p.f stored as a value => escape
				if fa, ok := in.Val.(*ssa.FieldAddr); ok {
					if f, x := fieldOfAddr(fa); f != nil && isInterp(x.Type()) {
						if holder, _ := fieldOfAddr(in.Addr); holder != nil && !writtenThrough(c, holder) {
							// the holder field is never stored through: a read-only alias
							c.stat("read-only-aliases", 1)
						} else {
							addw(f.Name(), fn, "address-escape(stored)", in.Pos(), nil)
						}
					}
				}
			case *ssa.MapUpdate:
				if n, _ := rootField(in.Map, 0); n != "" {
					addw(n, fn, "map-update", in.Pos(), nil)
				}
			case ssa.CallInstruction:
				cc := in.Common()
				// delete(m,k)
				if b, ok := cc.Value.(*ssa.Builtin); ok && b.Name() == "delete" && len(cc.Args) > 0 {
					if n, _ := rootField(cc.Args[0], 0); n != "" {
						addw(n, fn, "map-delete", in.Pos(), nil)
					}
				}
				if b, ok := cc.Value.(*ssa.Builtin); ok && b.Name() == "copy" && len(cc.Args) > 0 {
					if n, _ := rootField(cc.Args[0], 0); n != "" {
						addw(n, fn, "copy-into", in.Pos(), nil)
					}
				}
				args := cc.Args
				for i, a := range args {
					// &p.f passed to a call (incl. as receiver): escape / mutation through pointer
					if fa, ok := a.(*ssa.FieldAddr); ok {
						if f, x := fieldOfAddr(fa); f != nil && isInterp(x.Type()) {
							if isInterp(f.Type()) {
								// a component struct of the interpreter handed to one of its own methods: its fields are
								// followed there as fields of the interpreter
								continue
							}
							addw(f.Name(), fn, "address-passed", in.Pos(), nil)
						}
					}
					// mutating method call on the referent: receiver (arg 0 of a static method call) is a loaded pointer field
					if i == 0 && !cc.IsInvoke() && cc.StaticCallee() != nil && cc.Signature().Recv() != nil {
						if f, x := loadedField(a); f != nil && isInterp(x.Type()) {
							if _, isPtr := f.Type().Underlying().(*types.Pointer); isPtr && !pureReferentMethod(cc.StaticCallee()) {
								addw(f.Name(), fn, "referent-method:"+cc.StaticCallee().Name(), in.Pos(), nil)
							}
						}
					}
				}
			case *ssa.MakeClosure:
				for _, b := range in.Bindings {
					if fa, ok := b.(*ssa.FieldAddr); ok {
						if f, x := fieldOfAddr(fa); f != nil && isInterp(x.Type()) {
							addw(f.Name(), fn, "address-escape(closure)", in.Pos(), nil)
						}
					}
				}
			}
		})
	}
	return out
}

// pureReferentMethod: methods documented not to mutate their receiver's referent.
func pureReferentMethod(f *ssa.Function) bool {
	full := f.String()
	if strings.HasPrefix(full, "(*regexp.Regexp).") {
		return f.Name() != "Longest" // Regexp is safe for concurrent use except Longest
	}
	switch full {
	case "(*bufio.Scanner).Err", "(*bufio.Scanner).Text", "(*bufio.Scanner).Bytes":
		return true
	}
	return false
}

// writtenThrough: is there any store through the pointer held in struct field (S, f)?
func writtenThrough(c *Ctx, fld *types.Var) bool {
	found := false
	for _, fn := range c.srcFuncs("interp") {
		allInstrs(fn, func(in ssa.Instruction) {
			st, ok := in.(*ssa.Store)
			if !ok {
				return
			}
			if f, _ := loadedField(st.Addr); f == fld {
				found = true
			}
		})
	}
	return found
}

// astClears: fields cleared by the loop idioms at top level of a function body.
func astClears(c *Ctx, fd *ast.FuncDecl) map[string]bool {
	out := map[string]bool{}
	if fd == nil || fd.Body == nil {
		return out
	}
	selField := func(e ast.Expr) string {
		for {
			switch x := e.(type) {
			case *ast.SelectorExpr:
				if id, ok := x.X.(*ast.Ident); ok && id.Obj != nil {
					return x.Sel.Name
				}
				// p.interp.f
				if inner, ok := x.X.(*ast.SelectorExpr); ok && inner.Sel.Name == "interp" {
					return x.Sel.Name
				}
				return ""
			case *ast.ParenExpr:
				e = x.X
			default:
				return ""
			}
		}
	}
	isDeleteOf := func(s ast.Stmt, target string) bool {
		es, ok := s.(*ast.ExprStmt)
		if !ok {
			return false
		}
		call, ok := es.X.(*ast.CallExpr)
		if !ok || len(call.Args) != 2 {
			return false
		}
		id, ok := call.Fun.(*ast.Ident)
		if !ok || id.Name != "delete" {
			return false
		}
		return types.ExprString(call.Args[0]) == target
	}
	for _, s := range fd.Body.List {
		rs, ok := s.(*ast.RangeStmt)
		if !ok || len(rs.Body.List) != 1 {
			continue
		}
		f := selField(rs.X)
		if f == "" {
			continue
		}
		xs := types.ExprString(rs.X)
		inner := rs.Body.List[0]
		// for k := range p.f { delete(p.f, k) }
		if isDeleteOf(inner, xs) {
			out[f] = true
			continue
		}
		// for i := range p.f { p.f[i] = <expr> }
		if as, ok := inner.(*ast.AssignStmt); ok && len(as.Lhs) == 1 {
			if ix, ok := as.Lhs[0].(*ast.IndexExpr); ok && types.ExprString(ix.X) == xs && rs.Key != nil && types.ExprString(ix.Index) == types.ExprString(rs.Key) {
				out[f] = true
				continue
			}
		}
		// for _, a := range p.f { for k := range a { delete(a, k) } }
		if rs2, ok := inner.(*ast.RangeStmt); ok && rs.Value != nil && len(rs2.Body.List) == 1 &&
			types.ExprString(rs2.X) == types.ExprString(rs.Value) && isDeleteOf(rs2.Body.List[0], types.ExprString(rs.Value)) {
			out[f] = true
			continue
		}
	}
	return out
}

// ssaClears: interp fields whose every element is overwritten / deleted by a loop in fn, recognised on the SSA
// form (so a local alias of the field, a counted loop or a range loop make no difference):
//
//	loop over i in [0, len(p.f)):  p.f[i] = v            (store into the element, in the loop body's first block)
//	range over the map p.f:        delete(p.f, key)
//	loop over the slice p.f:       range over p.f[i]: delete(p.f[i], key)
func ssaClears(fn *ssa.Function) map[string]bool {
	out := map[string]bool{}
	if fn == nil {
		return out
	}
	// the field a slice/map value was loaded from
	fieldOf := func(v ssa.Value) string { return interpFieldLoad(v) }
	// loopIndex: v is the index of a loop that runs over all of [0, len(X)); returns X and the body block
	loopIndex := func(v ssa.Value) (ssa.Value, *ssa.BasicBlock) {
		var ph *ssa.Phi
		cmpOn := v // the value compared with len(X)
		if bo, ok := v.(*ssa.BinOp); ok && bo.Op == token.ADD {
			if p2, ok := bo.X.(*ssa.Phi); ok { // rangeindex: phi starts at -1, body uses phi+1
				ph = p2
			}
		} else if p2, ok := v.(*ssa.Phi); ok { // counted loop: phi starts at 0, body uses phi
			ph = p2
		}
		if ph == nil || len(ph.Edges) != 2 {
			return nil, nil
		}
		start := int64(-99)
		for _, e := range ph.Edges {
			if k, ok := e.(*ssa.Const); ok && k.Value != nil {
				if n, ok2 := constant.Int64Val(k.Value); ok2 {
					start = n
				}
			}
		}
		if !((start == -1 && cmpOn != ssa.Value(ph)) || (start == 0 && cmpOn == ssa.Value(ph))) {
			return nil, nil
		}
		refs := cmpOn.Referrers()
		if refs == nil {
			return nil, nil
		}
		for _, r := range *refs {
			bo, ok := r.(*ssa.BinOp)
			if !ok || bo.Op != token.LSS || bo.X != cmpOn {
				continue
			}
			ln, ok := bo.Y.(*ssa.Call)
			if !ok {
				continue
			}
			if b, isB := ln.Call.Value.(*ssa.Builtin); !isB || b.Name() != "len" {
				continue
			}
			for _, r2 := range *bo.Referrers() {
				if iff, ok := r2.(*ssa.If); ok {
					return ln.Call.Args[0], iff.Block().Succs[0]
				}
			}
		}
		return nil, nil
	}
	allInstrs(fn, func(in ssa.Instruction) {
		switch x := in.(type) {
		case *ssa.Store:
			ia, ok := x.Addr.(*ssa.IndexAddr)
			if !ok {
				return
			}
			f := fieldOf(ia.X)
			if f == "" {
				return
			}
			over, body := loopIndex(ia.Index)
			if over != nil && fieldOf(over) == f && x.Block() == body {
				out[f] = true
			}
		case *ssa.Call:
			b, ok := x.Call.Value.(*ssa.Builtin)
			if !ok || b.Name() != "delete" || len(x.Call.Args) != 2 {
				return
			}
			m := x.Call.Args[0]
			// the key comes from a range over the same map
			key := x.Call.Args[1]
			ex, ok := key.(*ssa.Extract)
			if !ok {
				return
			}
			nx, ok := ex.Tuple.(*ssa.Next)
			if !ok {
				return
			}
			rg, ok := nx.Iter.(*ssa.Range)
			if !ok {
				return
			}
			if f := fieldOf(m); f != "" && fieldOf(rg.X) == f {
				out[f] = true
				return
			}
			// the map is an element of a slice field that an enclosing loop runs over completely
			if m == rg.X {
				if ld, ok := m.(*ssa.UnOp); ok && ld.Op == token.MUL {
					if ia, ok := ld.X.(*ssa.IndexAddr); ok {
						if f := fieldOf(ia.X); f != "" {
							if over, _ := loopIndex(ia.Index); over != nil && fieldOf(over) == f {
								out[f] = true
							}
						}
					}
				}
			}
		}
	})
	return out
}

func ruleReset(c *Ctx) {
	_, st := c.structType("interp", "interp")
	if st == nil {
		c.undecided("anchor:interp", token.NoPos, "struct interp not found")
		return
	}
	c.atLeast("fields of struct interp", st.NumFields(), 60)
	writes := interpFieldWrites(c)

	get := func(name string) *ssa.Function { return c.ssaFunc("interp", name) }
	resetCore, setCfg, resetVars := get("interp.resetCore"), get("interp.setExecuteConfig"), get("interp.resetVars")
	resetRand, exec, execCtx := get("Interpreter.ResetRand"), get("Interpreter.Execute"), get("Interpreter.ExecuteContext")
	newInterp := get("newInterp")
	for n, f := range map[string]*ssa.Function{"resetCore": resetCore, "setExecuteConfig": setCfg, "resetVars": resetVars, "ResetRand": resetRand, "Execute": exec, "ExecuteContext": execCtx, "newInterp": newInterp} {
		if f == nil {
			c.undecided("anchor:"+n, token.NoPos, "function %s not found in package interp", n)
			return
		}
	}
	// Execute/ExecuteContext must call resetCore before executeAll on every path (either may be reached through a
	// helper of the package)
	for _, e := range []*ssa.Function{exec, execCtx} {
		key := "entry:" + e.Name()
		if !reachesCall(e, "executeAll", 0, map[*ssa.Function]bool{}) {
			c.bad(key, e.Pos(), "%s does not reach executeAll", e.Name())
			continue
		}
		before := mustStoreBeforeCall(e, "executeAll")
		c.check(before["call:resetCore"], key, e.Pos(), e.Name()+": resetCore is called on every path before executeAll", e.Name()+": resetCore is not called on every path before executeAll")
	}

	core := mustStoreAtSuccess(resetCore)
	for _, fd := range resetHelpers(c, "interp.resetCore") {
		for k := range astClears(c, fd) {
			core[k] = true
		}
		for k := range ssaClears(c.ssaFunc("interp", "interp."+fd.Name.Name)) {
			core[k] = true
		}
	}
	cfg := mustStoreAtSuccess(setCfg)
	vars := mustStoreAtSuccess(resetVars)
	for _, fd := range resetHelpers(c, "interp.resetVars") {
		for k := range astClears(c, fd) {
			vars[k] = true
		}
		for k := range ssaClears(c.ssaFunc("interp", "interp."+fd.Name.Name)) {
			vars[k] = true
		}
	}
	// ResetRand accesses p.interp.f: must-store works on FieldAddr of *interp too.
	rnd := mustStoreAtSuccess(resetRand)
	allInstrs(resetRand, func(in ssa.Instruction) {
		if call, ok := in.(ssa.CallInstruction); ok {
			cc := call.Common()
			if f := cc.StaticCallee(); f != nil && f.Name() == "Seed" && len(cc.Args) > 0 {
				if fld, x := loadedField(cc.Args[0]); fld != nil && isInterp(x.Type()) {
					rnd[fld.Name()] = true
				}
			}
		}
	})
	ctxBoth := intersect(mustStoreBeforeCall(exec, "executeAll"), mustStoreBeforeCall(execCtx, "executeAll"))
	ctxOnly := mustStoreBeforeCall(execCtx, "executeAll")

	// fields of the specials that may persist: from getSpecial's switch
	varsFields := map[string]bool{"globals": true, "arrays": true}
	specialField := specialFieldMap(c)
	for _, v := range varsSpecials {
		for _, f := range specialField[v] {
			varsFields[f] = true
		}
	}
	// companions: every store outside the reset functions takes its value from a vars field, or sits in setSpecial's case of a vars special
	setSpecialCaseFields := setSpecialCaseStores(c)
	setSpecialRegion := c.exclusiveRegion("interp", c.ssaFunc("interp", "interp.setSpecial"))
	resetFns := map[*ssa.Function]bool{resetCore: true, resetVars: true, resetRand: true, newInterp: true}
	// a helper whose only callers are reset/construction functions is part of them
	for changed := true; changed; {
		changed = false
		for _, g := range c.srcFuncs("interp") {
			if resetFns[g] || g.Parent() != nil {
				continue
			}
			callers, all := 0, true
			for _, h := range c.srcFuncs("interp") {
				h := h
				allInstrs(h, func(in ssa.Instruction) {
					if call, ok := in.(ssa.CallInstruction); ok && call.Common().StaticCallee() == g {
						callers++
						root := h
						for root.Parent() != nil {
							root = root.Parent()
						}
						if !resetFns[root] {
							all = false
						}
					}
				})
			}
			if callers > 0 && all {
				resetFns[g] = true
				changed = true
			}
		}
	}

	stackByRole, _ := valueStackFields(c)
	names := make([]string, 0, st.NumFields())
	fieldPos := map[string]token.Pos{}
	var addFields func(s *types.Struct, depth int)
	addFields = func(s *types.Struct, depth int) {
		for i := 0; i < s.NumFields(); i++ {
			f := s.Field(i)
			// the fields of a component struct of the interpreter (ssahelp.go isInterp) are fields of the interpreter
			if inner, ok := f.Type().Underlying().(*types.Struct); ok && isInterp(f.Type()) && depth < 3 {
				addFields(inner, depth+1)
				continue
			}
			names = append(names, f.Name())
			fieldPos[f.Name()] = f.Pos()
		}
	}
	addFields(st, 0)
	sort.Strings(names)
	nDirty := 0
	dirtOf := map[string][]fieldWrite{}
	for _, f := range names {
		for _, w := range writes[f] {
			root := w.fn
			for root.Parent() != nil {
				root = root.Parent()
			}
			if resetFns[root] {
				continue
			}
			dirtOf[f] = append(dirtOf[f], w)
		}
	}
	isCompanion := func(f string) bool {
		if len(dirtOf[f]) == 0 {
			return false
		}
		for _, w := range dirtOf[f] {
			okv := false
			if w.kind == "store" && w.val != nil {
				if lf, x := loadedField(w.val); lf != nil && isInterp(x.Type()) && varsFields[lf.Name()] {
					okv = true
				}
			}
			for _, v := range varsSpecials {
				if setSpecialCaseFields[v][f] && setSpecialRegion[w.fn] {
					okv = true
				}
			}
			if !okv {
				return false
			}
		}
		return true
	}
	companion := map[string]bool{}
	for changed := true; changed; {
		changed = false
		for _, f := range names {
			if !varsFields[f] && isCompanion(f) {
				varsFields[f], companion[f], changed = true, true, true
			}
		}
	}
	// nil-sensitive fields: where some reader distinguishes nil from empty (compares the field with nil), a reset
	// that merely empties the container leaves the next run in a state a fresh Interpreter is never in; the reset
	// must store nil (what construction leaves there)
	nilSensitive := map[string]token.Pos{}
	for _, fn := range c.srcFuncs("interp") {
		root := fn
		for root.Parent() != nil {
			root = root.Parent()
		}
		if resetFns[root] {
			continue
		}
		allInstrs(fn, func(in ssa.Instruction) {
			bo, ok := in.(*ssa.BinOp)
			if !ok || (bo.Op != token.EQL && bo.Op != token.NEQ) {
				return
			}
			for _, pair := range [][2]ssa.Value{{bo.X, bo.Y}, {bo.Y, bo.X}} {
				if !isNilConst(pair[1]) {
					continue
				}
				if n := interpFieldLoad(pair[0]); n != "" {
					if _, isMap := pair[0].Type().Underlying().(*types.Map); isMap {
						nilSensitive[n] = in.Pos()
					}
					if _, isSl := pair[0].Type().Underlying().(*types.Slice); isSl {
						nilSensitive[n] = in.Pos()
					}
				}
			}
		})
	}
	for f := range nilSensitive {
		// every store of the field inside the reset functions must be nil, and there must be one on every path
		onlyNil, any := true, false
		for _, w := range writes[f] {
			root := w.fn
			for root.Parent() != nil {
				root = root.Parent()
			}
			if !resetFns[root] || root == newInterp {
				continue
			}
			if w.kind == "store" {
				any = true
				if !isNilConst(w.val) {
					onlyNil = false
				}
			}
		}
		constructed := false
		for _, w := range writes[f] {
			if w.fn == newInterp && w.kind == "store" && !isNilConst(w.val) {
				constructed = true
			}
		}
		if constructed || len(dirtOf[f]) == 0 {
			continue // construction installs a container: empty and fresh are the same state
		}
		mustNil := core[f] && any && onlyNil && mustStoreAtSuccess(resetCore)[f]
		if !core[f] {
			continue // not a field the reset re-establishes at all (a buffer or cache kept across runs by design: decided by its own class below)
		}
		c.check(mustNil || cfg[f], "nil-reset:"+f, nilSensitive[f], "field "+f+" is compared with nil by a reader and is set back to nil (not merely emptied) by the reset", "field "+f+" is compared with nil somewhere (nil and empty mean different things to that reader), a fresh Interpreter has it nil, but the reset only empties it (or does not store nil on every path): a reused Interpreter then behaves differently from a fresh one")
	}

	for _, f := range names {
		dirt := dirtOf[f]
		key := "field:" + f
		if len(dirt) == 0 {
			c.trivial(key, fieldPos[f], "never written outside construction/reset functions")
			continue
		}
		nDirty++
		who := map[string]bool{}
		for _, w := range dirt {
			who[fnKey(w.fn)+"("+w.kind+")"] = true
		}
		whoS := strings.Join(keys(who), ", ")
		pos := dirt[0].pos
		switch {
		case core[f]:
			c.ok(key, pos, "class core: definitely re-established by resetCore; dirtied by %s", whoS)
		case cfg[f]:
			c.ok(key, pos, "class config: definitely assigned on every successful path of setExecuteConfig; dirtied by %s", whoS)
		case vars[f] && varsFields[f] && !companion[f]:
			// a special variable only the program assigns is a program variable; one the interpreter itself writes while
			// it runs (outside the assignment path) is state of the run - like NR, RSTART - and belongs to the core reset
			produced := ""
			for _, w := range dirt {
				if setSpecialRegion != nil && setSpecialRegion[w.fn] {
					continue
				}
				if w.fn.Name() == "setSpecial" {
					continue
				}
				produced = fnKey(w.fn)
			}
			if produced != "" && f != "globals" && f != "arrays" {
				c.bad("field-produced:"+f, pos, "field %s holds a special variable that the interpreter itself writes during a run (in %s), not only the program's assignments, yet only resetVars resets it: without ResetVars the value the previous run left (RT of its last record) is visible to the next run, while NR, RSTART and RLENGTH start afresh", f, produced)
			} else {
				c.ok(key, pos, "class vars: program variable storage, reset by resetVars; dirtied by %s", whoS)
			}
		case vars[f] && companion[f]:
			c.ok(key, pos, "class vars (derived companion of a persisting special): reset by resetVars; dirtied by %s", whoS)
		case rnd[f]:
			c.ok(key, pos, "class rand: re-established by ResetRand; dirtied by %s", whoS)
		case ctxBoth[f]:
			c.ok(key, pos, "class ctx: assigned by both Execute and ExecuteContext before executeAll; dirtied by %s", whoS)
		case ctxOnly[f] && strings.HasPrefix(f, "ctx"):
			c.ok(key, pos, "class ctx: assigned by ExecuteContext before executeAll; only read when checkCtx is true (R-CTX); dirtied by %s", whoS)
		case resetScratch[f] != "":
			c.ok(key, pos, "class scratch: %s; dirtied by %s", resetScratch[f], whoS)
		case stackByRole != nil && f == stackByRole.Name():
			// the value stack under whatever name and in whatever struct it lives (found by role: the []value indexed
			// through the stack pointer)
			c.ok(key, pos, "class scratch: %s; dirtied by %s", resetScratch["stack"], whoS)
		case vars[f]:
			c.bad(key, pos, "field %s is reset only by resetVars but is not program-variable storage: without ResetVars it carries over from one Execute to the next (dirtied by %s)", f, whoS)
		default:
			c.bad(key, pos, "field %s is dirtied by %s and is not re-established by resetCore, setExecuteConfig, resetVars or ResetRand: its value leaks from one Execute into the next", f, whoS)
		}
	}
	c.stat("fields", st.NumFields())
	c.stat("dirtied-fields", nDirty)
	c.atLeast("fields dirtied during a run", nDirty, 40)
	_ = fmt.Sprint
}

// mustStoreBeforeCall: interp fields definitely stored before the (first) call of the named function.
// mustStoreBeforeCall: the interp fields (and "call:g" pseudo-facts) established on every path before fn reaches
// a call of the function named callee - directly, or inside a function of the package it calls (then what that
// function establishes before its own call is added).
func mustStoreBeforeCall(fn *ssa.Function, callee string) map[string]bool {
	return mustStoreBeforeCallD(fn, callee, 0)
}

func reachesCall(fn *ssa.Function, callee string, depth int, seen map[*ssa.Function]bool) bool {
	if depth > 4 || seen[fn] {
		return false
	}
	seen[fn] = true
	found := false
	allInstrs(fn, func(in ssa.Instruction) {
		if call, ok := in.(ssa.CallInstruction); ok && !found {
			if cal := call.Common().StaticCallee(); cal != nil {
				if cal.Name() == callee {
					found = true
				} else if cal.Pkg == fn.Pkg && len(cal.Blocks) > 0 && reachesCall(cal, callee, depth+1, seen) {
					found = true
				}
			}
		}
	})
	return found
}

func mustStoreBeforeCallD(fn *ssa.Function, callee string, depth int) map[string]bool {
	out := mustStoreOut(fn)
	var result map[string]bool
	for _, b := range fn.Blocks {
		for i, in := range b.Instrs {
			call, ok := in.(ssa.CallInstruction)
			if !ok || call.Common().StaticCallee() == nil {
				continue
			}
			cal := call.Common().StaticCallee()
			direct := cal.Name() == callee
			via := !direct && depth < 4 && cal.Pkg == fn.Pkg && len(cal.Blocks) > 0 && reachesCall(cal, callee, 0, map[*ssa.Function]bool{})
			if !direct && !via {
				continue
			}
			var fact map[string]bool
			if len(b.Preds) == 0 {
				fact = map[string]bool{}
			}
			for j, p := range b.Preds {
				if j == 0 {
					fact = copySet(out[p])
				} else {
					fact = intersect(fact, out[p])
				}
			}
			if fact == nil {
				fact = map[string]bool{}
			}
			for _, prev := range b.Instrs[:i] {
				if ns, _, _ := interpFieldStores(prev); len(ns) > 0 {
					for _, n := range ns {
						fact[n] = true
					}
				}
				if pc, ok := prev.(*ssa.Call); ok {
					if g := pc.Call.StaticCallee(); g != nil && g.Pkg == fn.Pkg && len(g.Blocks) > 0 {
						fact["call:"+g.Name()] = true
						for k := range mustStoreAtSuccess(g) {
							fact[k] = true
						}
					}
				}
			}
			if via {
				// boolean constants passed here select the branches of the helper that can run
				saved := curParamBind
				bind := map[*ssa.Parameter]bool{}
				for k, v := range saved {
					bind[k] = v
				}
				for ai, a := range call.Common().Args {
					if k, ok := a.(*ssa.Const); ok && k.Value != nil && k.Value.Kind() == constant.Bool && ai < len(cal.Params) {
						bind[cal.Params[ai]] = constant.BoolVal(k.Value)
					}
				}
				curParamBind = bind
				for k := range mustStoreBeforeCallD(cal, callee, depth+1) {
					fact[k] = true
				}
				curParamBind = saved
			}
			if result == nil {
				result = fact
			} else {
				result = intersect(result, fact)
			}
		}
	}
	if result == nil {
		return map[string]bool{}
	}
	return result
}

// resetHelpers: the reset function and the methods of the same receiver it calls as top-level statements
// (a reset split into parts), transitively.
func resetHelpers(c *Ctx, name string) []*ast.FuncDecl {
	var out []*ast.FuncDecl
	seen := map[string]bool{}
	var add func(n string)
	add = func(n string) {
		if seen[n] {
			return
		}
		seen[n] = true
		fd := c.funcDecl("interp", n)
		if fd == nil || fd.Body == nil {
			return
		}
		out = append(out, fd)
		for _, st := range fd.Body.List {
			if es, ok := st.(*ast.ExprStmt); ok {
				if call, ok := es.X.(*ast.CallExpr); ok {
					if se, ok := call.Fun.(*ast.SelectorExpr); ok {
						add("interp." + se.Sel.Name)
					}
				}
			}
		}
	}
	add(name)
	return out
}

func indexOfField(st *types.Struct, name string) int {
	for i := 0; i < st.NumFields(); i++ {
		if st.Field(i).Name() == name {
			return i
		}
	}
	return 0
}

// specialFieldMap: V_X -> interp fields read in getSpecial's case for V_X.
func specialFieldMap(c *Ctx) map[string][]string {
	out := map[string][]string{}
	fd := c.funcDecl("interp", "interp.getSpecial")
	if fd == nil {
		return out
	}
	info := c.pkg("interp").TypesInfo
	ast.Inspect(fd.Body, func(n ast.Node) bool {
		cc, ok := n.(*ast.CaseClause)
		if !ok {
			return true
		}
		for _, e := range cc.List {
			name := constName(info, e)
			if name == "" {
				continue
			}
			for _, s := range cc.Body {
				ast.Inspect(s, func(m ast.Node) bool {
					if se, ok := m.(*ast.SelectorExpr); ok {
						if v, ok := info.Uses[se.Sel].(*types.Var); ok && v.IsField() {
							if tv, ok := info.Types[se.X]; ok && isInterp(tv.Type) {
								out[name] = append(out[name], se.Sel.Name)
							}
						}
					}
					return true
				})
			}
		}
		return true
	})
	return out
}

// setSpecialCaseStores: V_X -> fields assigned in setSpecial's case for V_X.
func setSpecialCaseStores(c *Ctx) map[string]map[string]bool {
	out := map[string]map[string]bool{}
	fd := c.funcDecl("interp", "interp.setSpecial")
	if fd == nil {
		return out
	}
	info := c.pkg("interp").TypesInfo
	root := c.ssaFunc("interp", "interp.setSpecial")
	region := c.exclusiveRegion("interp", root)
	ast.Inspect(fd.Body, func(n ast.Node) bool {
		cc, ok := n.(*ast.CaseClause)
		if !ok {
			return true
		}
		for _, e := range cc.List {
			name := constName(info, e)
			if name == "" {
				continue
			}
			if out[name] == nil {
				out[name] = map[string]bool{}
			}
			// the assignments of the clause, and of the setter helpers it calls that belong to setSpecial alone
			var collect func(n ast.Node, depth int)
			collect = func(n ast.Node, depth int) {
				ast.Inspect(n, func(m ast.Node) bool {
					if as, ok := m.(*ast.AssignStmt); ok {
						for _, l := range as.Lhs {
							if se, ok := l.(*ast.SelectorExpr); ok {
								if tv, ok := info.Types[se.X]; ok && isInterp(tv.Type) {
									out[name][se.Sel.Name] = true
								}
							}
						}
					}
					if call, ok := m.(*ast.CallExpr); ok && depth < 3 {
						if f := calleeOf(info, call); f != nil && f.Pkg() == c.pkg("interp").Types {
							for g := range region {
								if g.Object() == types.Object(f) && g != root {
									if hd, ok := g.Syntax().(*ast.FuncDecl); ok && hd.Body != nil {
										collect(hd.Body, depth+1)
									}
								}
							}
						}
					}
					return true
				})
			}
			for _, s := range cc.Body {
				collect(s, 0)
			}
		}
		return true
	})
	return out
}

// constName: the name of the constant object an expression refers to ("V_NF", "Add" ...).
func constName(info *types.Info, e ast.Expr) string {
	switch x := e.(type) {
	case *ast.SelectorExpr:
		if k, ok := info.Uses[x.Sel].(*types.Const); ok {
			return k.Name()
		}
	case *ast.Ident:
		if k, ok := info.Uses[x].(*types.Const); ok {
			return k.Name()
		}
	case *ast.ParenExpr:
		return constName(info, x.X)
	}
	return ""
}

// componentFieldValue: v is a struct value built by a composite literal (a load of a local that was filled field by
// field) or returned by a constructor function of the package that builds it that way: the value put into the field
// named name; a nil constant when the literal leaves the field out (zero value); nil when the value is not of that form.
func componentFieldValue(v ssa.Value, name string, depth int) ssa.Value {
	if depth > 3 {
		return nil
	}
	switch x := v.(type) {
	case *ssa.UnOp:
		if x.Op != token.MUL {
			return nil
		}
		al, ok := x.X.(*ssa.Alloc)
		if !ok || al.Referrers() == nil {
			return nil
		}
		st, ok := deref(al.Type()).Underlying().(*types.Struct)
		if !ok {
			return nil
		}
		has := false
		for i := 0; i < st.NumFields(); i++ {
			if st.Field(i).Name() == name {
				has = true
			}
		}
		if !has {
			return nil
		}
		var found ssa.Value
		for _, r := range *al.Referrers() {
			fa, ok := r.(*ssa.FieldAddr)
			if !ok || fa.Referrers() == nil {
				continue
			}
			if st.Field(fa.Field).Name() != name {
				continue
			}
			for _, r2 := range *fa.Referrers() {
				if s2, ok := r2.(*ssa.Store); ok && s2.Addr == ssa.Value(fa) {
					found = s2.Val
				}
			}
		}
		if found == nil {
			return ssa.NewConst(nil, types.Typ[types.UntypedNil])
		}
		return found
	case *ssa.Call:
		g := x.Call.StaticCallee()
		if g == nil || len(g.Blocks) == 0 {
			return nil
		}
		var res ssa.Value
		n := 0
		for _, b := range g.Blocks {
			if len(b.Instrs) == 0 {
				continue
			}
			if ret, ok := b.Instrs[len(b.Instrs)-1].(*ssa.Return); ok && len(ret.Results) == 1 {
				n++
				res = ret.Results[0]
			}
		}
		if n != 1 {
			return nil
		}
		return componentFieldValue(res, name, depth+1)
	}
	return nil
}
