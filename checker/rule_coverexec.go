package main

import (
	"go/token"

	"golang.org/x/tools/go/ssa"
)

// coverExecuteError (part of R-COVER, C18): with coverage on, a program ends the way it does without it. In package
// main the error that Execute returns is tested as it comes out of the call (or handed straight back to the caller):
// nothing that runs between the call and that test - writing the profile, say - can replace it. A test of a merged
// value (the error of Execute on one path, the error of the profile writer on the other) lets a successful profile
// write turn a failed run into exit status 0.
func coverExecuteError(c *Ctx) {
	n := 0
	for _, fn := range c.srcFuncs("main") {
		fn := fn
		allInstrs(fn, func(in ssa.Instruction) {
			call, ok := in.(*ssa.Call)
			if !ok {
				return
			}
			cal := call.Call.StaticCallee()
			if cal == nil || (cal.Name() != "Execute" && cal.Name() != "ExecuteContext") || cal.Pkg == nil || cal.Pkg.Pkg.Path() != modPath+"/interp" {
				return
			}
			if call.Type().String() == "error" {
				return
			}
			n++
			key := "transparent:execute-error:" + fnKey(fn)
			// the error component
			var errEx *ssa.Extract
			if refs := call.Referrers(); refs != nil {
				for _, r := range *refs {
					if ex, ok := r.(*ssa.Extract); ok && ex.Type().String() == "error" {
						errEx = ex
					}
				}
			}
			if errEx == nil {
				c.bad(key, in.Pos(), "%s drops the error of %s", fnKey(fn), cal.Name())
				return
			}
			tested := false
			if refs := errEx.Referrers(); refs != nil {
				for _, r := range *refs {
					switch x := r.(type) {
					case *ssa.BinOp:
						if k, ok := x.Y.(*ssa.Const); ok && k.Value == nil && (x.Op == token.NEQ || x.Op == token.EQL) {
							if xr := x.Referrers(); xr != nil {
								for _, u := range *xr {
									if _, isIf := u.(*ssa.If); isIf {
										tested = true
									}
								}
							}
						}
					case *ssa.Return:
						tested = true
					}
				}
			}
			c.check(tested, key, in.Pos(), "the error of "+cal.Name()+" is tested (or returned) as it comes out of the call",
				fnKey(fn)+" does not test the error of "+cal.Name()+" itself: the test that follows sees a value that other code (the coverage profile writer) may have replaced, so a run that failed with a run-time error exits with status 0 and no message once the profile was written successfully - coverage changes how the program ends")
		})
	}
	c.atLeast("calls of Execute in package main", n, 1)
}
