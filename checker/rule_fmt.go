package main

import (
	"fmt"
	"go/ast"
	"go/constant"
	"go/token"
	"go/types"
	"golang.org/x/tools/go/ssa"
	"os"
	"sort"
	"strings"
)

// R-FMT (C09): the printf translation tables.

func init() {
	register("R-FMT", "printf translation: (LETTERS) the conversion letters with a case in parseFmtTypes are exactly d i o x X u c s e E f g G (plus the documented a A) and the default returns an error; (TAGS, COUNT, CHAR: sprintf evaluated on its SSA form for one conversion at a time) for every type tag parseFmtTypes can emit, every successful path appends a converted (non-nil) argument; with a conversion and no argument every path ends in an error and the argument list is never indexed; (STAR) each `*` in a specification appends one integer tag, inside the flag-scanning loop; %c classifies its argument with the same classifier comparisons use (isTrueStr) before anything else; (GPREC) some control flow depends on 'verb is g/G and no precision was given', because Go's default %g precision (shortest) differs from C's (6); (FASTPATH) value.str's strconv fast path is guarded by equality with the exact constant format whose precision it hard-codes", ruleFmt)
}

func ruleFmt(c *Ctx) {
	_ = c.pkg("interp")
	_ = c.pkg("interp").TypesInfo
	pf := c.funcDecl("interp", "interp.parseFmtTypes")
	sf := c.funcDecl("interp", "interp.sprintf")
	if pf == nil || sf == nil {
		c.undecided("anchor:parseFmtTypes", token.NoPos, "parseFmtTypes/sprintf not found")
		return
	}
	facts := fmtParseFactsOf(c)
	if os.Getenv("SVERIF_DEBUG_FMT") != "" {
		fmt.Fprintf(os.Stderr, "fmtparse: ok=%v undecided=%v accepted=%d rejected=%d tags=%v goUnknown=%v gBare=%v gPrecKept=%v gAfterPrec=%v star=%v earlyEnd=%v percent=%v\n", facts.ok, facts.undecided, len(facts.accepted), len(facts.rejected), facts.tags, facts.goUnknown, facts.gBare, facts.gPrecKept, facts.gAfterPrec, facts.star, facts.earlyEnd, facts.percent)
		for l, o := range facts.accepted {
			fmt.Fprintf(os.Stderr, "  %%%s -> %q tags %q\n", l, o.format, o.tags)
		}
	}
	var tags map[string]bool
	if facts.ok {
		// decided on the evaluation of parseFmtTypes for one format per conversion byte and the formats that separate the clauses
		tags = facts.tags
		want := []string{"d", "i", "o", "x", "X", "u", "c", "s", "e", "E", "f", "g", "G"}
		var missing, extra []string
		allowed := map[string]bool{"a": true, "A": true}
		for _, w := range want {
			allowed[w] = true
			if _, ok := facts.accepted[w]; !ok {
				missing = append(missing, w)
			}
		}
		for l := range facts.accepted {
			if !allowed[l] {
				extra = append(extra, fmt.Sprintf("%q", l))
			}
		}
		sort.Strings(extra)
		c.check(len(missing) == 0 && len(extra) == 0, "letters", pf.Pos(), fmt.Sprintf("conversion letters accepted: d i o x X u c s e E f g G (+ a A): %d of the 238 possible conversion bytes", len(facts.accepted)), fmt.Sprintf("conversion letters handled differ from C printf's set: missing %v, unexpected %v", missing, extra))
		c.check(len(facts.rejected)+len(facts.accepted) == 238 && facts.earlyEnd, "letters:default-error", pf.Pos(), fmt.Sprintf("each of the other %d conversion bytes, and a format that ends inside a conversion, is a run-time error", len(facts.rejected)), "an unknown conversion letter, or a format that ends inside a conversion, is not reported as an error (it would be passed to fmt and print garbage)")
		c.check(len(facts.goUnknown) == 0, "letters:go-verb", pf.Pos(), "no accepted conversion leaves a letter in the translated format that Go's fmt does not know (i u a A are rewritten)", fmt.Sprintf("the conversion(s) %v are accepted but left as they are in the format handed to fmt.Sprintf, which does not know them: the output is %%!i(int=5) instead of the number", facts.goUnknown))
		c.check(facts.gBare && facts.gPrecKept, "gprec", pf.Pos(), "%g/%G without a precision are translated to %.6g/%.6G (with any flags and width kept), and left alone when a precision is given", "%g/%G without a precision are not given C's default precision 6 (or one with a precision is changed): Go's fmt prints the shortest exact representation (0.3333333333333333) where C printf prints 6 significant digits (0.333333)")
		c.check(facts.gAfterPrec, "gprec:per-conversion", pf.Pos(), "a bare %g after a conversion with a precision still gets .6", "a bare %g/%G that follows a conversion with a precision in the same format is not given C's default precision 6: the flag that records the precision survives from one conversion to the next (printf \"%.2f %g\", 1/3, 1/3 prints 0.33 0.3333333333333333)")
		c.check(facts.compositional, "letters:compositional", pf.Pos(), fmt.Sprintf("a format of two conversions translates to the translations of its conversions, in place (%d ordered pairs, 4 triples)", len(facts.accepted)*len(facts.accepted)), fmt.Sprintf("the translation of a format with several conversions is not the translation of each conversion in place (formats %v): what one conversion inserts or rewrites lands on a byte of another, so the format handed to fmt.Sprintf is garbage (printf \"%%g %%c\", 1/3, 65)", facts.nonComp))
		c.check(facts.star && facts.percent, "star", pf.Pos(), "each `*` adds one integer argument tag before the conversion's own; %% takes no argument", "a `*` (dynamic width/precision) does not add one integer argument tag per occurrence (or %% consumes an argument): `%*.*d` then consumes too few arguments and the too-few-arguments error is lost")
	} else {
		tags = func() map[string]bool {
			// the switch over the conversion letter: the switch whose cases are byte constants incl. 's' and 'd'
			var letterSw *ast.SwitchStmt
			ast.Inspect(pf.Body, func(n ast.Node) bool {
				sw, ok := n.(*ast.SwitchStmt)
				if !ok || sw.Tag == nil {
					return true
				}
				has := map[string]bool{}
				for _, cs := range sw.Body.List {
					for _, e := range cs.(*ast.CaseClause).List {
						if bl, ok := e.(*ast.BasicLit); ok {
							has[bl.Value] = true
						}
					}
				}
				if has["'s'"] && has["'d'"] {
					letterSw = sw
				}
				return true
			})
			if letterSw == nil {
				c.undecided("letters", pf.Pos(), "conversion-letter switch not found in parseFmtTypes (and the evaluation of parseFmtTypes on representative formats was not conclusive: %v)", facts.undecided)
				return nil
			}
			letters := map[string]bool{}
			tags := map[string]bool{}
			defaultErr := false
			gClauseDistinct := false
			for _, cs := range letterSw.Body.List {
				cc := cs.(*ast.CaseClause)
				if cc.List == nil {
					for _, s := range cc.Body {
						if r, ok := s.(*ast.ReturnStmt); ok && len(r.Results) > 0 && !isIdent(r.Results[len(r.Results)-1], "nil") {
							defaultErr = true
						}
					}
					continue
				}
				var ls []string
				for _, e := range cc.List {
					if bl, ok := e.(*ast.BasicLit); ok {
						l := strings.Trim(bl.Value, "'")
						letters[l] = true
						ls = append(ls, l)
					}
				}
				for _, s := range cc.Body {
					if as, ok := s.(*ast.AssignStmt); ok && len(as.Lhs) == 1 && isIdent(as.Lhs[0], "t") {
						if bl, ok := as.Rhs[0].(*ast.BasicLit); ok {
							tags[strings.Trim(bl.Value, "'")] = true
						}
					}
				}
				// the clause holding g/G must not also hold e/f (or must branch on the precision)
				hasG, hasEF := false, false
				for _, l := range ls {
					if l == "g" || l == "G" {
						hasG = true
					}
					if l == "e" || l == "E" || l == "f" {
						hasEF = true
					}
				}
				if hasG {
					branches := false
					for _, s := range cc.Body {
						if _, ok := s.(*ast.IfStmt); ok {
							branches = true
						}
					}
					if !hasEF && branches {
						gClauseDistinct = true
					}
					if hasEF {
						// same clause as e/f: acceptable only if it inspects the verb and precision itself
						for _, s := range cc.Body {
							if is, ok := s.(*ast.IfStmt); ok && strings.Contains(types.ExprString(is.Cond), "'g'") {
								gClauseDistinct = true
							}
						}
					}
				}
			}
			want := []string{"d", "i", "o", "x", "X", "u", "c", "s", "e", "E", "f", "g", "G"}
			var missing, extra []string
			for _, w := range want {
				if !letters[w] {
					missing = append(missing, w)
				}
			}
			allowed := map[string]bool{"a": true, "A": true}
			for _, w := range want {
				allowed[w] = true
			}
			for l := range letters {
				if !allowed[l] {
					extra = append(extra, l)
				}
			}
			sort.Strings(extra)
			c.check(len(missing) == 0 && len(extra) == 0, "letters", letterSw.Pos(), "conversion letters handled: d i o x X u c s e E f g G (+ a A)", fmt.Sprintf("conversion letters handled differ from C printf's set: missing %v, unexpected %v", missing, extra))
			c.check(defaultErr, "letters:default-error", letterSw.Pos(), "an unknown conversion letter is a run-time error", "an unknown conversion letter is not reported as an error (it would be passed to fmt and print garbage)")
			c.check(gClauseDistinct, "gprec", letterSw.Pos(), "the g/G conversion is treated separately when no precision is given (C's default precision 6 vs Go's shortest form)", "%g/%G are translated exactly like %e/%f even when no precision is given: Go's fmt then prints the shortest exact representation (0.3333333333333333) where C printf prints 6 significant digits (0.333333)")

			// the flags the g/G clause consults describe this conversion only: a local variable its conditions read is
			// declared inside the loop over the format (fresh for every conversion) or assigned unconditionally, before the
			// switch, in a block that encloses it; a flag that survives from one conversion to the next makes a bare %g
			// after a %.2f look as if it had a precision
			{
				info := c.pkg("interp").TypesInfo
				var outer *ast.ForStmt
				ast.Inspect(pf.Body, func(n ast.Node) bool {
					if f, ok := n.(*ast.ForStmt); ok && outer == nil && f.Pos() <= letterSw.Pos() && letterSw.End() <= f.End() {
						outer = f
					}
					return true
				})
				var carried []string
				nFlags := 0
				if outer != nil {
					for _, cs := range letterSw.Body.List {
						cc := cs.(*ast.CaseClause)
						isG := false
						for _, e := range cc.List {
							if bl, ok := e.(*ast.BasicLit); ok && (bl.Value == "'g'" || bl.Value == "'G'") {
								isG = true
							}
						}
						if !isG {
							continue
						}
						for _, st := range cc.Body {
							is, ok := st.(*ast.IfStmt)
							if !ok {
								continue
							}
							ast.Inspect(is.Cond, func(n ast.Node) bool {
								id, ok := n.(*ast.Ident)
								if !ok {
									return true
								}
								v, ok := info.Uses[id].(*types.Var)
								if !ok || v.IsField() || v.Parent() == nil || v.Parent() == v.Pkg().Scope() {
									return true
								}
								if b, isB := v.Type().Underlying().(*types.Basic); !isB || b.Kind() != types.Bool {
									return true
								}
								nFlags++
								if outer.Body.Pos() <= v.Pos() && v.Pos() < outer.Body.End() {
									return true // declared per iteration
								}
								// assigned unconditionally before the switch in an enclosing block of the loop body
								reset := false
								var scan func(b *ast.BlockStmt)
								scan = func(b *ast.BlockStmt) {
									for _, s2 := range b.List {
										if s2.Pos() > letterSw.Pos() {
											break
										}
										if as, ok := s2.(*ast.AssignStmt); ok {
											for _, l := range as.Lhs {
												if lid, ok := l.(*ast.Ident); ok && (info.Uses[lid] == v || info.Defs[lid] == v) {
													reset = true
												}
											}
										}
										if s2.Pos() <= letterSw.Pos() && letterSw.End() <= s2.End() {
											switch x := s2.(type) {
											case *ast.IfStmt:
												scan(x.Body)
											case *ast.BlockStmt:
												scan(x)
											}
										}
									}
								}
								scan(outer.Body)
								if !reset {
									carried = append(carried, id.Name)
								}
								return true
							})
						}
					}
				}
				if outer != nil && nFlags > 0 {
					c.check(len(carried) == 0, "gprec:per-conversion", letterSw.Pos(), "the flags the g/G clause consults are fresh for every conversion",
						fmt.Sprintf("the g/G clause of parseFmtTypes decides on %v, which is declared outside the loop over the format and not reset for each conversion: once one conversion of a format has a precision, a later bare %%g/%%G of the same format is no longer given C's default precision 6 (printf \"%%.2f %%g\", 1/3, 1/3 prints 0.33 0.3333333333333333)", carried))
				}
			}

			// STAR: append(types, <int tag>) under `== '*'` inside a for loop
			starOK := false
			ast.Inspect(pf.Body, func(n ast.Node) bool {
				fs, ok := n.(*ast.ForStmt)
				if !ok {
					return true
				}
				ast.Inspect(fs.Body, func(m ast.Node) bool {
					is, ok := m.(*ast.IfStmt)
					if !ok || !strings.Contains(types.ExprString(is.Cond), "'*'") {
						return true
					}
					for _, s := range is.Body.List {
						if as, ok := s.(*ast.AssignStmt); ok && len(as.Rhs) == 1 {
							if call, ok := as.Rhs[0].(*ast.CallExpr); ok && isIdent(call.Fun, "append") && len(call.Args) == 2 && types.ExprString(call.Args[0]) == "types" {
								starOK = true
							}
						}
					}
					return true
				})
				return true
			})
			c.check(starOK, "star", pf.Pos(), "each `*` appends an integer argument tag inside the flag-scanning loop", "a `*` (dynamic width/precision) does not append one integer tag per occurrence inside the flag loop: `%*.*d` then consumes too few arguments and the too-few-arguments error is lost")
			return tags
		}()
		if tags == nil {
			return
		}
	}
	// TAGS, COUNT, CHAR: sprintf evaluated per argument tag on the SSA form (rule_fmtsem.go)
	tags["d"] = true // also appended for '*'
	sem := fmtSprintfSem(c, tags)
	if len(sem.problems) > 0 {
		c.undecided("tags", sf.Pos(), "sprintf could not be evaluated per argument tag: %s", strings.Join(sem.problems, "; "))
	} else {
		c.check(len(sem.unhandled) == 0 && len(tags) >= 5, "tags", sf.Pos(), fmt.Sprintf("every argument tag parseFmtTypes emits (%d) is converted by sprintf: %v", len(tags), sem.calls), fmt.Sprintf("sprintf has no conversion for argument tag(s) %v emitted by parseFmtTypes: the argument would be passed as nil and print %%!d(<nil>)", sem.unhandled))
		c.check(sem.countOK, "count", sf.Pos(), "with one conversion and no argument every path ends in an error, and the argument list is never indexed", "sprintf indexes args[i] for every conversion without first rejecting `len(types) > len(args)`: too few arguments would panic (index out of range) instead of being a run-time error")
		c.check(sem.charOK, "char", sf.Pos(), "%c classifies its argument with isTrueStr before anything else (numeric strings are numbers)", "%c does not use isTrueStr to decide between a string and a number: a numeric input field such as \"65\" prints its first character instead of the character with that code")
	}

	// FASTPATH: every strconv.FormatFloat(x, verb, prec, 64) with constant verb and precision in package interp is
	// reached only where the format in force is known to be exactly "%.<prec><verb>": a dominating test of the format
	// string against that constant, or of a boolean struct field whose every write is such a comparison (the test
	// made once when the format is set)
	{
		var vpos token.Pos
		if vs := c.funcDecl("interp", "value.str"); vs != nil {
			vpos = vs.Pos()
		}
		found, fastOK := 0, true
		for _, fn := range c.srcFuncs("interp") {
			fn := fn
			allInstrs(fn, func(in ssa.Instruction) {
				call, ok := in.(*ssa.Call)
				if !ok {
					return
				}
				cal := call.Call.StaticCallee()
				if cal == nil || cal.Pkg == nil || cal.Pkg.Pkg.Path() != "strconv" || (cal.Name() != "FormatFloat" && cal.Name() != "AppendFloat") {
					return
				}
				// FormatFloat(f, verb, prec, bits) / AppendFloat(dst, f, verb, prec, bits): a second implementation of the
				// number-to-string conversion, whichever of the two it uses, is held to the same guard
				off := 0
				if cal.Name() == "AppendFloat" {
					off = 1
				}
				if len(call.Call.Args) != 4+off {
					return
				}
				vk, ok1 := call.Call.Args[1+off].(*ssa.Const)
				pk, ok2 := call.Call.Args[2+off].(*ssa.Const)
				if !ok1 || !ok2 || vk.Value == nil || pk.Value == nil {
					return
				}
				vv, _ := constant.Int64Val(vk.Value)
				pv, _ := constant.Int64Val(pk.Value)
				want := fmt.Sprintf("%%.%d%c", pv, rune(vv))
				found++
				vpos = in.Pos()
				isWant := func(v ssa.Value) bool {
					k, ok := v.(*ssa.Const)
					return ok && k.Value != nil && k.Value.Kind() == constant.String && constant.StringVal(k.Value) == want
				}
				cmpWant := func(v ssa.Value) bool {
					bo, ok := v.(*ssa.BinOp)
					return ok && bo.Op == token.EQL && (isWant(bo.X) || isWant(bo.Y))
				}
				condMeans := func(cnd ssa.Value) bool {
					if cmpWant(cnd) {
						return true
					}
					if fv := structFieldRead(cnd); fv != nil {
						ws := structFieldWrites(c, "interp", fv)
						if len(ws) == 0 {
							return false
						}
						for _, w := range ws {
							if !cmpWant(w) {
								return false
							}
						}
						return true
					}
					return false
				}
				guarded := false
				for _, g := range fn.Blocks {
					if len(g.Instrs) == 0 || !g.Dominates(in.Block()) || g == in.Block() {
						continue
					}
					ifi, ok := g.Instrs[len(g.Instrs)-1].(*ssa.If)
					if !ok || !condMeans(ifi.Cond) {
						continue
					}
					if !reachableAvoiding(g.Succs[1], g)[in.Block()] {
						guarded = true
					}
				}
				if !guarded {
					fastOK = false
				}
			})
		}
		if found == 0 {
			c.undecided("fastpath", vpos, "no strconv.FormatFloat call with constant verb and precision found in package interp")
		} else {
			c.check(fastOK, "fastpath", vpos, "the strconv fast path is taken only for the exact format whose verb and precision it hard-codes", "value.str's strconv.FormatFloat fast path is not guarded by equality with the exact constant format it implements: other CONVFMT/OFMT values (e.g. %.10g) would be formatted with the wrong precision")
		}
	}
}
