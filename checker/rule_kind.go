package main

import (
	"fmt"
	"go/ast"
	"go/token"
	"go/types"
	_ "sort"
	"strings"

	"golang.org/x/tools/go/ssa"
)

// R-KIND (C17): native Go functions - validation and conversion tables.

func init() {
	register("R-KIND", "native-function tables, decided per reflect kind on the SSA form (comparisons of the subject's Kind()/NumOut() with constants are decided, impossible branches pruned, helpers that receive the subject entered): (SETS) validNativeType, toNative and fromNative, evaluated for every reflect kind, accept exactly the documented set (bool, all int/uint widths, float32/64, string, []byte), a slice only after the element kind was tested to be Uint8; (TO) for each kind toNative calls the AWK conversion the documentation names (truth value for bool, number for numeric kinds, string form for string kinds), converts the number to exactly the kind's width, and every value handed back passed through Convert(typ); (FROM) for each kind fromNative reads the result with the one reflect accessor of its kind class; (CHECK) in checkNativeFunc success is unreachable for a value whose kind is not Func, for more than two results, and once the passing edge of each validation test is cut (keyword name, validNativeType of the value result, second result exactly error, validNativeType of every parameter or of its element type under IsVariadic); (GUARD) reflection on a Funcs value happens only after its kind has been tested to be Func or after checkNativeFunc validated it, at every call site of a helper that does it; (INDEX) on both sides the index of a native function is its position in a slice that was sorted (also through a helper), and setup verifies that each native function the program uses sits at its compiled index; the per-native table is indexed by FuncInfo.Index only under a test of FuncInfo.Native and assigned only after every check has passed; (ARITY) the parse-time argument-count check dominates the indexing of parameter types", ruleKind)
}

var docKinds = []string{"Bool", "Int", "Int8", "Int16", "Int32", "Int64", "Uint", "Uint8", "Uint16", "Uint32", "Uint64", "Float32", "Float64", "String", "Slice"}

// kindCases: for a function with `switch X.Kind() { case reflect.A, reflect.B: ... }` returns clause list.
type kindClause struct {
	kinds []string
	body  []ast.Stmt
	pos   token.Pos
}

func kindSwitch(fd *ast.FuncDecl) ([]kindClause, bool) {
	var out []kindClause
	found := false
	ast.Inspect(fd.Body, func(n ast.Node) bool {
		sw, ok := n.(*ast.SwitchStmt)
		if !ok || sw.Tag == nil || found {
			return true
		}
		if call, ok := sw.Tag.(*ast.CallExpr); !ok || !strings.HasSuffix(types.ExprString(call.Fun), ".Kind") {
			return true
		}
		found = true
		for _, cs := range sw.Body.List {
			cc := cs.(*ast.CaseClause)
			var ks []string
			for _, e := range cc.List {
				if se, ok := e.(*ast.SelectorExpr); ok && types.ExprString(se.X) == "reflect" {
					ks = append(ks, se.Sel.Name)
				}
			}
			if cc.List == nil {
				ks = []string{"default"}
			}
			out = append(out, kindClause{ks, cc.Body, cc.Pos()})
		}
		return false
	})
	return out, found
}

func ruleKind(c *Ctx) {
	// SETS, slice-elem, TO, FROM, CHECK: per-kind evaluation on the SSA form (kindspec.go)
	kindSpecClauses(c)

	// GUARD: reflection on Funcs values
	nRef := 0
	for _, short := range []string{"interp", "internal/resolver", "parser", "internal/compiler"} {
		for _, fn := range c.srcFuncs(short) {
			fn := fn
			allInstrs(fn, func(in ssa.Instruction) {
				call, ok := in.(ssa.CallInstruction)
				if !ok || !call.Common().IsInvoke() {
					return
				}
				m := call.Common().Method
				if m.Pkg() == nil || m.Pkg().Path() != "reflect" {
					return
				}
				switch m.Name() {
				case "NumIn", "In", "IsVariadic", "NumOut", "Out":
				default:
					return
				}
				nRef++
				key := fmt.Sprintf("reflect-guard:%s:%s", fnKey(fn), m.Name())
				guarded := kindGuardedAt(c, fn, in, 0)
				c.check(guarded, key, in.Pos(), "reflection on the function type happens only after its kind is known to be Func", fnKey(fn)+" calls reflect.Type."+m.Name()+" on a Funcs value before its kind has been tested: for a non-function value reflect panics (with a plain string, which the parser's recover cannot convert)")
			})
		}
	}
	c.atLeast("reflect.Type signature queries on Funcs values", nRef, 6)

	// INDEX-SPACE: AWK-defined and native functions are numbered separately (FuncInfo.Index counts within its kind).
	// A slice that is per native function may be indexed by info.Index only where info.Native is known to hold.
	nIdx := 0
	for _, pk := range []string{"internal/compiler", "interp", "internal/resolver"} {
		for _, fn := range c.srcFuncs(pk) {
			fn := fn
			allInstrs(fn, func(in ssa.Instruction) {
				ia, ok := in.(*ssa.IndexAddr)
				if !ok {
					return
				}
				// the indexed slice is a field whose name says "native"
				base := ia.X
				if u, ok := base.(*ssa.UnOp); ok {
					base = u.X
				}
				fa, ok := base.(*ssa.FieldAddr)
				if !ok {
					return
				}
				f, _ := fieldOfAddr(fa)
				if f == nil || !strings.Contains(strings.ToLower(f.Name()), "native") {
					return
				}
				// the index is FuncInfo.Index of some value v
				var holder ssa.Value
				switch ix := ia.Index.(type) {
				case *ssa.Field:
					if isNamed(ix.X.Type(), modPath+"/internal/resolver", "FuncInfo") && fieldNameOf(ix.X.Type(), ix.Field) == "Index" {
						holder = ix.X
					}
				case *ssa.UnOp:
					if fa2, ok := ix.X.(*ssa.FieldAddr); ok {
						if f2, x2 := fieldOfAddr(fa2); f2 != nil && f2.Name() == "Index" && isNamed(deref(x2.Type()), modPath+"/internal/resolver", "FuncInfo") {
							holder = x2
						}
					}
				}
				if holder == nil {
					return
				}
				nIdx++
				// a dominating test of holder.Native
				guarded := false
				for _, d := range fn.Blocks {
					if len(d.Instrs) == 0 {
						continue
					}
					iff, ok := d.Instrs[len(d.Instrs)-1].(*ssa.If)
					if !ok {
						continue
					}
					cond := iff.Cond
					sense := 0
					for {
						if u, ok := cond.(*ssa.UnOp); ok && u.Op == token.NOT {
							cond = u.X
							sense = 1 - sense
							continue
						}
						break
					}
					isNative := false
					switch cv := cond.(type) {
					case *ssa.Field:
						isNative = cv.X == holder && fieldNameOf(cv.X.Type(), cv.Field) == "Native"
					case *ssa.UnOp:
						if fa3, ok := cv.X.(*ssa.FieldAddr); ok {
							if f3, x3 := fieldOfAddr(fa3); f3 != nil && f3.Name() == "Native" && x3 == holder {
								isNative = true
							}
						}
					}
					if isNative && (edgeDominates(d, sense, in.Block()) || d.Succs[sense] == in.Block()) {
						guarded = true
					}
				}
				c.check(guarded, "index-space:"+fnKey(fn)+":"+f.Name(), in.Pos(), "indexed by FuncInfo.Index only where the function is known to be native",
					fnKey(fn)+" indexes "+f.Name()+" by FuncInfo.Index without having tested FuncInfo.Native: AWK-defined and native functions are numbered separately, so an AWK function overwrites or reads the entry of the native function with the same number (which one wins depends on map iteration order)")
			})
		}
	}
	c.atLeast("per-native-function tables indexed by FuncInfo.Index", nIdx, 1)

	// the setup function, by role: the function of the package that makes the slice of per-native-function entries
	var builder *ssa.Function
	for _, fn := range c.srcFuncs("interp") {
		fn := fn
		allInstrs(fn, func(in ssa.Instruction) {
			if ms, ok := in.(*ssa.MakeSlice); ok {
				if sl, ok := ms.Type().Underlying().(*types.Slice); ok && isNamed(sl.Elem(), modPath+"/interp", "nativeFunc") {
					builder = fn
				}
			}
		})
	}
	if builder == nil {
		builder = c.ssaFunc("interp", "interp.initNativeFuncs")
	}
	// ATOMIC: setExecuteConfig runs the setup only while p.nativeFuncs is nil, so the table must not
	// be assigned before every check has passed - no error return may follow a store to it; when the setup
	// function returns the table instead, its caller assigns it only on the path where the error is nil
	if inf := builder; inf != nil {
		stored := false
		bad := token.NoPos
		if !interpFieldStoredIn(inf, "nativeFuncs") {
			for _, g := range c.srcFuncs("interp") {
				g := g
				allInstrs(g, func(in ssa.Instruction) {
					name, val := interpFieldStore(in)
					if name != "nativeFuncs" {
						return
					}
					ex, ok := val.(*ssa.Extract)
					if !ok {
						return
					}
					call, ok := ex.Tuple.(*ssa.Call)
					if !ok || call.Call.StaticCallee() != inf {
						return
					}
					stored = true
					// dominated by the nil edge of a test of the call's error
					okEdge := false
					for _, d := range g.Blocks {
						if len(d.Instrs) == 0 {
							continue
						}
						iff, ok := d.Instrs[len(d.Instrs)-1].(*ssa.If)
						if !ok {
							continue
						}
						bo, ok := iff.Cond.(*ssa.BinOp)
						if !ok {
							continue
						}
						isErrOfCall := func(v ssa.Value) bool {
							e2, ok := v.(*ssa.Extract)
							return ok && e2.Tuple == ex.Tuple && e2.Index != ex.Index
						}
						if !(isErrOfCall(bo.X) && isNilConst(bo.Y)) && !(isErrOfCall(bo.Y) && isNilConst(bo.X)) {
							continue
						}
						nilEdge := 1
						if bo.Op == token.EQL {
							nilEdge = 0
						}
						if edgeDominates(d, nilEdge, in.Block()) || d.Succs[nilEdge] == in.Block() {
							okEdge = true
						}
					}
					if !okEdge {
						bad = posOr(in.Pos(), g.Pos())
					}
				})
			}
		}
		for _, b := range inf.Blocks {
			for _, in := range b.Instrs {
				if name, _ := interpFieldStore(in); name != "nativeFuncs" {
					continue
				}
				stored = true
				reach := reachableFrom(b)
				for rb := range reach {
					if len(rb.Instrs) == 0 {
						continue
					}
					if ret, ok := rb.Instrs[len(rb.Instrs)-1].(*ssa.Return); ok {
						rr := retResults(ret)
						if len(rr) > 0 && !isNilConst(rr[len(rr)-1]) {
							bad = posOr(ret.Pos(), inf.Pos())
						}
					}
				}
			}
		}
		if !stored {
			c.undecided("init-atomic", inf.Pos(), "initNativeFuncs does not assign p.nativeFuncs")
		} else {
			c.check(bad == token.NoPos, "init-atomic", bad, "the native-function table is assigned only after every check has passed",
				"initNativeFuncs can return an error after it has assigned p.nativeFuncs: the next Execute of the same Interpreter sees a non-nil table, skips validation, and a call of the rejected function indexes out of range or panics in reflect")
		}
	}

	// INDEX: setup verifies the program's native functions against the sorted key list
	var ifd *ast.FuncDecl
	if builder != nil {
		ifd, _ = builder.Syntax().(*ast.FuncDecl)
	}
	if ifd == nil {
		c.undecided("anchor:initNativeFuncs", token.NoPos, "the function that builds the table of native functions (initNativeFuncs) was not found")
	} else {
		txt := nodeSrc(ifd.Body)
		for _, g := range localCallees(builder) {
			if gd, ok := g.Syntax().(*ast.FuncDecl); ok && gd.Body != nil {
				txt += "\n" + nodeSrc(gd.Body)
			}
		}
		// the table entry of a native function is stored at the position of its name in a sorted list
		if inf := builder; inf != nil {
			n, good := 0, true
			for _, fn := range append([]*ssa.Function{inf}, localCallees(inf)...) {
				fn := fn
				allInstrs(fn, func(in ssa.Instruction) {
					st, ok := in.(*ssa.Store)
					if !ok {
						return
					}
					addr := st.Addr
					if fa, isFA := addr.(*ssa.FieldAddr); isFA {
						addr = fa.X // a field of the entry, through a pointer to the element
					}
					ia, ok := addr.(*ssa.IndexAddr)
					if !ok || traceInterpField(ia.X, 0) != "nativeFuncs" {
						if !ok {
							return
						}
						// a local slice that becomes the field later: make([]nativeFunc, ...)
						if sl, isSl := ia.X.Type().Underlying().(*types.Slice); !isSl || !isNamed(sl.Elem(), modPath+"/interp", "nativeFunc") {
							return
						}
					}
					n++
					if sl, ok := rangedSliceOfIndex(ia.Index); !ok || !isSortedSlice(sl, in.Block(), 0) {
						good = false
					}
				})
			}
			c.check(n > 0 && good, "index:sorted", ifd.Pos(), "native functions are stored at the position of their name in the name-sorted key list (as in the resolver)", "initNativeFuncs no longer indexes native functions by the name-sorted key list the resolver uses")
		}
		c.check(strings.Contains(txt, "IterFuncs(") && strings.Contains(txt, ".Native") && strings.Contains(txt, "info.Index"), "index:verified", ifd.Pos(), "setup checks that every native function the program calls sits at its compiled index", "the native-function table is sized from Config.Funcs alone, with no check against the native functions the program was compiled with: executing with a different Funcs map indexes out of range (panic) or calls the wrong function")
	}
	// resolver side: FuncInfo{Native: true, Index: i} takes i from the position in a sorted list
	{
		n, good := 0, true
		var pos token.Pos
		for _, fn := range c.srcFuncs("internal/resolver") {
			fn := fn
			nativeAllocs := map[ssa.Value]bool{}
			allInstrs(fn, func(in ssa.Instruction) {
				if st, ok := in.(*ssa.Store); ok {
					if f, x := fieldOfAddr(st.Addr); f != nil && f.Name() == "Native" && isNamed(deref(x.Type()), modPath+"/internal/resolver", "FuncInfo") {
						if k, isK := st.Val.(*ssa.Const); isK && k.Value != nil && k.Value.String() == "true" {
							nativeAllocs[x] = true
						}
					}
				}
			})
			allInstrs(fn, func(in ssa.Instruction) {
				st, ok := in.(*ssa.Store)
				if !ok {
					return
				}
				f, x := fieldOfAddr(st.Addr)
				if f == nil || f.Name() != "Index" || !nativeAllocs[x] {
					return
				}
				n++
				pos = in.Pos()
				if sl, ok := rangedSliceOfIndex(st.Val); !ok || !isSortedSlice(sl, in.Block(), 0) {
					good = false
				}
			})
		}
		c.check(n > 0 && good, "index:resolver-sorted", pos, "the resolver numbers native functions by their position in the name-sorted key list", "the resolver no longer numbers native functions in sorted name order")
	}
	// ARITY: in the resolver every lookup of parameter number i of the callee (an index into a FuncInfo's Params with a
	// position that is not a constant) is dominated by a test `len(<call>.Args) > <limit>` whose true branch panics with
	// the positioned "too many arguments" error - decided on the SSA form of the visitor
	{
		n, good := 0, true
		var pos token.Pos
		for _, fn := range c.srcFuncs("internal/resolver") {
			fn := fn
			allInstrs(fn, func(in ssa.Instruction) {
				var base, idx ssa.Value
				switch x := in.(type) {
				case *ssa.IndexAddr:
					base, idx = x.X, x.Index
				case *ssa.Index:
					base, idx = x.X, x.Index
				default:
					return
				}
				if _, isK := idx.(*ssa.Const); isK {
					return
				}
				f, hx := loadedField(base)
				if f == nil || f.Name() != "Params" || hx == nil || !isNamed(deref(hx.Type()), modPath+"/internal/resolver", "FuncInfo") {
					return
				}
				if sl := loopBoundSlice(idx); sl != nil {
					if rf, _ := loadedField(sl); rf != nil && rf.Name() == "Params" {
						return // a range over the parameter list itself: the position is within it by construction
					}
				}
				n++
				pos = in.Pos()
				guarded := false
				for _, g := range fn.Blocks {
					if len(g.Instrs) == 0 || !g.Dominates(in.Block()) || g == in.Block() {
						continue
					}
					ifi, ok := g.Instrs[len(g.Instrs)-1].(*ssa.If)
					if !ok {
						continue
					}
					bo, ok := ifi.Cond.(*ssa.BinOp)
					if !ok || bo.Op != token.GTR {
						continue
					}
					lc, ok := bo.X.(*ssa.Call)
					if !ok {
						continue
					}
					if b, isB := lc.Call.Value.(*ssa.Builtin); !isB || b.Name() != "len" {
						continue
					}
					if af, _ := loadedField(lc.Call.Args[0]); af == nil || af.Name() != "Args" {
						continue
					}
					// the true branch never falls through to the use (it panics)
					if reachableAvoiding(g.Succs[0], g)[in.Block()] {
						continue
					}
					guarded = true
				}
				if !guarded {
					good = false
				}
			})
		}
		var vpos token.Pos
		if vfd := c.funcDecl("internal/resolver", "mainVisitor.Visit"); vfd != nil {
			vpos = vfd.Pos()
		}
		if n == 0 {
			c.undecided("arity:parse-time", vpos, "no lookup of a callee's parameter by argument position found in the resolver")
		} else {
			c.check(good, "arity:parse-time", posOr(pos, vpos), "too many arguments is a parse error, raised before parameter i is looked up", "the resolver indexes the callee's parameter list by argument position without first rejecting calls with more arguments than parameters")
		}
	}
}

// kindGuardedAt: the instruction runs only after the Funcs value's kind is known to be Func: a dominating test
// of Kind() against Func, an earlier call of checkNativeFunc in the same function, the cached signature in
// callNative, or - for a helper - the same at every one of its call sites in the package.
func kindGuardedAt(c *Ctx, fn *ssa.Function, in ssa.Instruction, depth int) bool {
	for _, b := range fn.Blocks {
		if len(b.Instrs) == 0 || !b.Dominates(in.Block()) || b == in.Block() {
			continue
		}
		if ifi, ok := b.Instrs[len(b.Instrs)-1].(*ssa.If); ok && condMentionsKindFunc(ifi.Cond, 0) {
			return true
		}
	}
	// validated earlier by checkNativeFunc (initNativeFuncs: validation loop precedes)
	for _, b := range fn.Blocks {
		for _, i2 := range b.Instrs {
			if callsNamed(i2, "checkNativeFunc") && (b.Dominates(in.Block()) || reachableFromStrict(b)[in.Block()]) && b != in.Block() {
				return true
			}
		}
	}
	if fn.Name() == "callNative" {
		// uses the cached, already validated signature; no reflection on the raw value
		return true
	}
	if depth >= 3 || fn.Pkg == nil {
		return false
	}
	sites, good := 0, 0
	for _, m := range fn.Pkg.Members {
		_ = m
	}
	for _, g := range c.srcFuncs(strings.TrimPrefix(strings.TrimPrefix(fn.Pkg.Pkg.Path(), modPath), "/")) {
		g := g
		allInstrs(g, func(i2 ssa.Instruction) {
			call, ok := i2.(ssa.CallInstruction)
			if !ok || call.Common().StaticCallee() != fn {
				return
			}
			sites++
			if kindGuardedAt(c, g, i2, depth+1) {
				good++
			}
		})
	}
	return sites > 0 && sites == good
}

// rangedSliceOfIndex: v is the index variable of a loop over a slice (range or counted); returns that slice.
func rangedSliceOfIndex(v ssa.Value) (ssa.Value, bool) {
	// the value itself, or the phi it is the increment of, indexes the slice somewhere
	cands := []ssa.Value{v}
	if bo, ok := v.(*ssa.BinOp); ok && bo.Op == token.ADD {
		cands = append(cands, bo.X)
	}
	if ph, ok := v.(*ssa.Phi); ok {
		for _, e := range ph.Edges {
			cands = append(cands, e)
		}
	}
	for _, cnd := range cands {
		refs := cnd.Referrers()
		if refs == nil {
			continue
		}
		for _, r := range *refs {
			if ia, ok := r.(*ssa.IndexAddr); ok && ia.Index == cnd {
				if _, isSl := ia.X.Type().Underlying().(*types.Slice); isSl {
					if b, isB := sliceElemBasic(ia.X); isB && b == types.String {
						return ia.X, true
					}
				}
			}
		}
	}
	return nil, false
}

func sliceElemBasic(v ssa.Value) (types.BasicKind, bool) {
	sl, ok := v.Type().Underlying().(*types.Slice)
	if !ok {
		return 0, false
	}
	b, ok := sl.Elem().Underlying().(*types.Basic)
	if !ok {
		return 0, false
	}
	return b.Kind(), true
}

// isSortedSlice: the slice value was sorted (sort.Strings / slices.Sort / sort.Sort) before the use in block
// `at`, or is the result of a helper of the package all of whose returns hand back a slice it sorted.
func isSortedSlice(s ssa.Value, at *ssa.BasicBlock, depth int) bool {
	if depth > 2 {
		return false
	}
	isSortCall := func(in ssa.Instruction, arg ssa.Value) bool {
		call, ok := in.(*ssa.Call)
		if !ok {
			return false
		}
		fo := calleeObj(call)
		if fo == nil {
			return false
		}
		switch funcFullName(fo) {
		case "sort.Strings", "slices.Sort", "sort.Sort", "sort.Stable":
		default:
			return false
		}
		for _, a := range call.Call.Args {
			if a == arg {
				return true
			}
			if mi, ok := a.(*ssa.MakeInterface); ok && mi.X == arg {
				return true
			}
			if cv, ok := a.(*ssa.ChangeType); ok && cv.X == arg {
				return true
			}
		}
		return false
	}
	if refs := s.Referrers(); refs != nil {
		for _, r := range *refs {
			if isSortCall(r, s) && (at == nil || r.Block().Dominates(at)) {
				return true
			}
		}
	}
	// a variable that lives in a cell (captured by a closure): another load of the same cell was sorted, and the
	// cell is not stored to afterwards
	if ld, ok := s.(*ssa.UnOp); ok && ld.Op == token.MUL {
		if refs := ld.X.Referrers(); refs != nil {
			for _, r := range *refs {
				other, ok := r.(*ssa.UnOp)
				if !ok || other.Op != token.MUL || other == ld {
					continue
				}
				orefs := other.Referrers()
				if orefs == nil {
					continue
				}
				for _, or := range *orefs {
					if !isSortCall(or, other) || (at != nil && !or.Block().Dominates(at)) {
						continue
					}
					// no store to the cell after the sort
					after := reachableFrom(or.Block())
					after[or.Block()] = true
					clean := true
					for _, r2 := range *refs {
						if st, isSt := r2.(*ssa.Store); isSt && st.Addr == ld.X && after[st.Block()] {
							if st.Block() != or.Block() || instrIndex(st.Block(), st) > instrIndex(or.Block(), or) {
								clean = false
							}
						}
					}
					if clean {
						return true
					}
				}
			}
		}
	}
	if call, ok := s.(*ssa.Call); ok {
		if cal := call.Call.StaticCallee(); cal != nil && len(cal.Blocks) > 0 {
			n, good := 0, true
			for _, b := range cal.Blocks {
				if len(b.Instrs) == 0 {
					continue
				}
				ret, ok := b.Instrs[len(b.Instrs)-1].(*ssa.Return)
				if !ok {
					continue
				}
				for _, rv := range ret.Results {
					if _, isSl := rv.Type().Underlying().(*types.Slice); isSl {
						n++
						if !isSortedSlice(rv, b, depth+1) {
							good = false
						}
					}
				}
			}
			return n > 0 && good
		}
	}
	return false
}

// localCallees: the functions of the same package fn calls directly.
func localCallees(fn *ssa.Function) []*ssa.Function {
	seen := map[*ssa.Function]bool{}
	var out []*ssa.Function
	allInstrs(fn, func(in ssa.Instruction) {
		if call, ok := in.(ssa.CallInstruction); ok {
			if cal := call.Common().StaticCallee(); cal != nil && cal.Pkg == fn.Pkg && !seen[cal] && cal != fn {
				seen[cal] = true
				out = append(out, cal)
			}
		}
	})
	return out
}

func condMentionsKindFunc(v ssa.Value, depth int) bool {
	if depth > 4 || v == nil {
		return false
	}
	switch x := v.(type) {
	case *ssa.BinOp:
		for _, op := range []ssa.Value{x.X, x.Y} {
			if call, ok := op.(*ssa.Call); ok && call.Call.IsInvoke() && call.Call.Method.Name() == "Kind" {
				other := x.Y
				if op == x.Y {
					other = x.X
				}
				if k, ok := other.(*ssa.Const); ok && k.Value != nil && k.Value.ExactString() == "19" { // reflect.Func
					return true
				}
			}
		}
		return condMentionsKindFunc(x.X, depth+1) || condMentionsKindFunc(x.Y, depth+1)
	case *ssa.UnOp:
		return condMentionsKindFunc(x.X, depth+1)
	case *ssa.Phi:
		for _, e := range x.Edges {
			if condMentionsKindFunc(e, depth+1) {
				return true
			}
		}
	}
	return false
}

// nodeSrc: a compact source-like rendering of a statement (call and selector texts) for containment tests.
func nodeSrc(n ast.Node) string {
	var sb strings.Builder
	ast.Inspect(n, func(x ast.Node) bool {
		switch e := x.(type) {
		case *ast.CallExpr:
			sb.WriteString(types.ExprString(e))
			sb.WriteString(" ")
		case *ast.BinaryExpr:
			sb.WriteString(types.ExprString(e))
			sb.WriteString(" ")
		}
		return true
	})
	return sb.String()
}

// loopBoundSlice: idx is the position variable of a loop that runs while idx < len(S): S, else nil.
func loopBoundSlice(idx ssa.Value) ssa.Value {
	refs := idx.Referrers()
	if refs == nil {
		return nil
	}
	for _, r := range *refs {
		bo, ok := r.(*ssa.BinOp)
		if !ok || bo.Op != token.LSS || bo.X != idx {
			continue
		}
		if lc, ok := bo.Y.(*ssa.Call); ok {
			if b, isB := lc.Call.Value.(*ssa.Builtin); isB && b.Name() == "len" && len(lc.Call.Args) == 1 {
				return lc.Call.Args[0]
			}
		}
	}
	return nil
}

// interpFieldStoredIn: fn stores the named field of the interpreter.
func interpFieldStoredIn(fn *ssa.Function, field string) bool {
	found := false
	allInstrs(fn, func(in ssa.Instruction) {
		if name, _ := interpFieldStore(in); name == field {
			found = true
		}
	})
	return found
}
