package main

import (
	"go/constant"
	"go/token"
	"go/types"

	"golang.org/x/tools/go/ssa"
)

// lookupOrder (part of R-RESOLVE-OWNER, C16): a name is looked up as a local of the enclosing function first, then
// as a special variable, then as a global - a parameter or local named NR or NF shadows the special variable, and
// the verdict on a program does not change when a parameter is renamed. In the function that answers with the
// scope constants, the answer "special" is given only after the test whether there is an enclosing function (the
// local lookup), and the answer "global" only after the special-variable lookup.
func lookupOrder(c *Ctx) {
	rp := c.pkg("internal/resolver")
	if rp == nil {
		return
	}
	scopeVal := func(name string) (int64, bool) {
		k, ok := rp.Types.Scope().Lookup(name).(*types.Const)
		if !ok {
			return 0, false
		}
		return constant.Int64Val(k.Val())
	}
	special, ok1 := scopeVal("Special")
	global, ok2 := scopeVal("Global")
	local, ok3 := scopeVal("Local")
	if !ok1 || !ok2 || !ok3 {
		c.undecided("lookup-order:anchor", token.NoPos, "scope constants Local/Special/Global not found in the resolver")
		return
	}
	n := 0
	for _, fn := range c.srcFuncs("internal/resolver") {
		fn := fn
		// the function that returns all three scope constants as its first result
		rets := map[int64][]*ssa.Return{}
		allInstrs(fn, func(in ssa.Instruction) {
			r, ok := in.(*ssa.Return)
			if !ok || len(r.Results) < 2 {
				return
			}
			if k, ok := r.Results[0].(*ssa.Const); ok && k.Value != nil && isNamed(k.Type(), modPath+"/internal/resolver", "Scope") {
				rets[k.Int64()] = append(rets[k.Int64()], r)
			}
		})
		if len(rets[special]) == 0 || len(rets[global]) == 0 || len(rets[local]) == 0 {
			continue
		}
		n++
		// the local lookup: the test of the enclosing function's name against ""
		var localTest, specialTest *ssa.BasicBlock
		for _, b := range fn.Blocks {
			if len(b.Instrs) == 0 {
				continue
			}
			iff, ok := b.Instrs[len(b.Instrs)-1].(*ssa.If)
			if !ok {
				continue
			}
			bo, ok := iff.Cond.(*ssa.BinOp)
			if !ok {
				continue
			}
			if p, ok := bo.X.(*ssa.Parameter); ok {
				if k, ok := bo.Y.(*ssa.Const); ok && k.Value != nil && k.Value.Kind() == constant.String && constant.StringVal(k.Value) == "" && p.Type().String() == "string" {
					localTest = b
				}
			}
			if call, ok := bo.X.(*ssa.Call); ok {
				if cal := call.Call.StaticCallee(); cal != nil && cal.Name() == "SpecialVarIndex" {
					specialTest = b
				}
			}
		}
		if localTest == nil || specialTest == nil {
			c.undecided("lookup-order:"+fnKey(fn), fn.Pos(), "the tests for an enclosing function and for a special variable were not found in %s", fnKey(fn))
			continue
		}
		bad := token.NoPos
		why := ""
		for _, r := range rets[special] {
			if !localTest.Dominates(r.Block()) {
				bad, why = posOr(r.Pos(), fn.Pos()), "answers \"special variable\" before it has looked for a local of the enclosing function"
			}
		}
		for _, r := range rets[global] {
			if !specialTest.Dominates(r.Block()) {
				bad, why = posOr(r.Pos(), fn.Pos()), "answers \"global\" before it has looked for a special variable"
			}
		}
		c.check(bad == token.NoPos, "lookup-order:"+fnKey(fn), posOr(bad, fn.Pos()), "a name is resolved as local, then special, then global",
			fnKey(fn)+" "+why+": a parameter or local named like a special variable (NR, NF) no longer shadows it, so the same function is typed and run differently when a parameter is renamed - an array passed to it is rejected, and assignments go to the special variable")
	}
	c.atLeast("functions that resolve a name to a scope", n, 1)
}
