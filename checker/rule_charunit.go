package main

import (
	"go/token"
	"go/types"
	"strings"

	"golang.org/x/tools/go/ssa"
)

// R-CHARUNIT (C10): one definition of "character" in character mode.
//
// length, index, match, substr and printf %c must count the same units, otherwise
// substr(s, index(s, t)) no longer starts at t and substr(s, m) differs from
// substr(s, m, huge). Today every such computation decodes with the language's own
// UTF-8 decoder (range over a string, utf8.RuneCountInString, utf8.DecodeRuneInString),
// for which an invalid byte is one character. A hand-written decoder (byte indexing of
// the subject string with lead-byte arithmetic) defines a different unit on invalid
// input. The rule finds the character-mode code (blocks dominated by the chars flag, and
// the helpers called only from there) and allows no byte indexing of a string in it.

func init() {
	register("R-CHARUNIT", "character mode counts one unit: in every block of package interp that runs only when the chars flag is set, and in the helpers called only from such blocks, characters are counted or skipped only with range-over-string, utf8.RuneCountInString, utf8.DecodeRuneInString or utf8.EncodeRune; indexing a string by byte there (a hand-written UTF-8 decoder) is reported, because it counts invalid or truncated sequences differently from the other builtins", ruleCharUnit)
}

func ruleCharUnit(c *Ctx) {
	runesRoundTrip(c)
	runeSearchGuarded(c)
	fns := c.srcFuncs("interp")
	// blocks dominated by `chars` being true
	type region struct {
		fn     *ssa.Function
		blocks map[*ssa.BasicBlock]bool
	}
	var regions []region
	charBlocks := map[*ssa.BasicBlock]bool{}
	for _, fn := range fns {
		r := region{fn: fn, blocks: map[*ssa.BasicBlock]bool{}}
		for _, b := range fn.Blocks {
			if len(b.Instrs) == 0 {
				continue
			}
			iff, ok := b.Instrs[len(b.Instrs)-1].(*ssa.If)
			if !ok {
				continue
			}
			name, pos := condField(iff.Cond)
			if name != "chars" {
				continue
			}
			k := 0
			if !pos {
				k = 1
			}
			for _, t := range fn.Blocks {
				if t != b && edgeDominates(b, k, t) {
					r.blocks[t] = true
					charBlocks[t] = true
				}
			}
		}
		if len(r.blocks) > 0 {
			regions = append(regions, r)
		}
	}
	// helpers called only from character-mode blocks
	callers := map[*ssa.Function][]*ssa.BasicBlock{}
	for _, fn := range fns {
		for _, b := range fn.Blocks {
			for _, in := range b.Instrs {
				if call, ok := in.(ssa.CallInstruction); ok {
					if cal := call.Common().StaticCallee(); cal != nil && cal.Pkg == fn.Pkg {
						callers[cal] = append(callers[cal], b)
					}
				}
			}
		}
	}
	var helpers []*ssa.Function
	for _, fn := range fns {
		bs := callers[fn]
		if len(bs) == 0 || fn.Parent() != nil {
			continue
		}
		all := true
		for _, b := range bs {
			if !charBlocks[b] {
				all = false
			}
		}
		if all {
			helpers = append(helpers, fn)
		}
	}
	nRegions, nHelpers, nDecoders := 0, 0, 0
	checkInstr := func(in ssa.Instruction, where string, idx map[string]int) {
		switch x := in.(type) {
		case *ssa.Index:
			if b, ok := x.X.Type().Underlying().(*types.Basic); ok && b.Info()&types.IsString != 0 {
				idx[where]++
				key := "charunit:byte-index:" + where
				if idx[where] > 1 {
					key += "#" + itoa(int64(idx[where]))
				}
				c.bad(key, in.Pos(), "%s indexes a string by byte in character mode: a hand-written UTF-8 decoder counts invalid or truncated sequences differently from range/utf8.RuneCountInString, which length(), index() and the three-argument substr() use, so the builtins no longer agree on character positions", where)
			}
		case *ssa.Lookup:
			if b, ok := x.X.Type().Underlying().(*types.Basic); ok && b.Info()&types.IsString != 0 {
				idx[where]++
				c.bad("charunit:byte-index:"+where, in.Pos(), "%s indexes a string by byte in character mode", where)
			}
		case *ssa.Range:
			if b, ok := x.X.Type().Underlying().(*types.Basic); ok && b.Info()&types.IsString != 0 {
				nDecoders++
			}
		case *ssa.Call:
			if f := calleeObj(x); f != nil && f.Pkg() != nil && f.Pkg().Path() == "unicode/utf8" {
				nDecoders++
			}
		}
	}
	idx := map[string]int{}
	for _, r := range regions {
		nRegions++
		for b := range r.blocks {
			for _, in := range b.Instrs {
				checkInstr(in, fnKey(r.fn), idx)
			}
		}
	}
	var hn []string
	for _, h := range helpers {
		nHelpers++
		hn = append(hn, h.Name())
		for _, b := range h.Blocks {
			for _, in := range b.Instrs {
				checkInstr(in, fnKey(h), idx)
			}
		}
	}
	c.atLeast("functions with character-mode blocks", nRegions, 1)
	c.atLeast("character-mode helpers", nHelpers, 1)
	c.atLeast("uses of the language's UTF-8 decoder in character mode", nDecoders, 3) // the byte/character choice may be shared by one helper
	if len(idx) == 0 {
		c.ok("charunit:decoder", token.NoPos, "character-mode code (%d functions, helpers %s) decodes only with range/unicode/utf8 (%d uses); no string is indexed by byte there", nRegions, strings.Join(hn, ", "), nDecoders)
	}
}

// runesRoundTrip (part of R-CHARUNIT, C10): a subject string is never rebuilt from its runes. Converting a string to
// []rune and (a part of) that back to a string re-encodes it: every byte that is not valid UTF-8 comes back as U+FFFD
// (three other bytes), so a substring is no longer made of bytes of its subject and substr(s,1,m-1) substr(s,m) != s.
// The character-mode helpers index the original string by byte offsets found while decoding. Expected count: zero
// (the seeded change C10-m13 is the positive example replayed by the thorough tier).
func runesRoundTrip(c *Ctx) {
	isRunes := func(t types.Type) bool {
		sl, ok := t.Underlying().(*types.Slice)
		if !ok {
			return false
		}
		b, ok := sl.Elem().Underlying().(*types.Basic)
		return ok && b.Kind() == types.Int32
	}
	isString := func(t types.Type) bool {
		b, ok := t.Underlying().(*types.Basic)
		return ok && b.Kind() == types.String
	}
	nFn := 0
	for _, fn := range c.srcFuncs("interp") {
		fn := fn
		nFn++
		allInstrs(fn, func(in ssa.Instruction) {
			back, ok := in.(*ssa.Convert)
			if !ok || !isString(back.Type()) || !isRunes(back.X.Type()) {
				return
			}
			// does the rune slice come from a string?
			fromString := false
			seen := map[ssa.Value]bool{}
			var walk func(v ssa.Value, d int)
			walk = func(v ssa.Value, d int) {
				if v == nil || seen[v] || d > 6 {
					return
				}
				seen[v] = true
				switch x := v.(type) {
				case *ssa.Convert:
					if isString(x.X.Type()) && isRunes(x.Type()) {
						fromString = true
					}
				case *ssa.Slice:
					walk(x.X, d+1)
				case *ssa.Phi:
					for _, e := range x.Edges {
						walk(e, d+1)
					}
				}
			}
			walk(back.X, 0)
			if fromString {
				c.bad("runes:roundtrip:"+fnKey(fn), in.Pos(), "%s converts a string to runes and (part of) them back to a string: every byte of the subject that is not valid UTF-8 is replaced by U+FFFD, so in character mode the result is no longer made of bytes of its subject (substr(s,1,m-1) substr(s,m) differs from s, and from what the three-argument form and match() give)", fnKey(fn))
			}
		})
	}
	c.atLeast("functions scanned for a string->runes->string round trip", nFn, 50)
}

// runeSearchGuarded (part of R-CHARUNIT, C10): a rune obtained by decoding program data is utf8.RuneError both for the
// valid character U+FFFD and for every invalid byte; searching for it with strings.IndexRune (or ContainsRune/IndexFunc)
// finds the first invalid byte of any kind. A decoded rune that reaches such a search has been compared with
// utf8.RuneError (65533) on the way. Expected count: zero searches of this kind on today's tree.
func runeSearchGuarded(c *Ctx) {
	n := 0
	for _, fn := range c.srcFuncs("interp") {
		fn := fn
		n++
		allInstrs(fn, func(in ssa.Instruction) {
			call, ok := in.(*ssa.Call)
			if !ok {
				return
			}
			f := calleeObj(call)
			if f == nil {
				return
			}
			switch funcFullName(f) {
			case "strings.IndexRune", "strings.ContainsRune", "bytes.IndexRune", "bytes.ContainsRune", "strings.LastIndexRune":
			default:
				return
			}
			if len(call.Call.Args) < 2 {
				return
			}
			// does the rune come from a decode?
			r := call.Call.Args[1]
			ex, ok := r.(*ssa.Extract)
			if !ok {
				return
			}
			dc, ok := ex.Tuple.(*ssa.Call)
			if !ok {
				return
			}
			df := calleeObj(dc)
			if df == nil || !(funcFullName(df) == "unicode/utf8.DecodeRuneInString" || funcFullName(df) == "unicode/utf8.DecodeRune" || funcFullName(df) == "unicode/utf8.DecodeLastRuneInString") {
				return
			}
			guarded := false
			if refs := ex.Referrers(); refs != nil {
				for _, u := range *refs {
					if bo, ok := u.(*ssa.BinOp); ok {
						for _, side := range []ssa.Value{bo.X, bo.Y} {
							if k, ok := side.(*ssa.Const); ok && k.Value != nil && k.Int64() == 65533 {
								guarded = true
							}
						}
					}
				}
			}
			c.check(guarded, "rune-search:"+fnKey(fn), in.Pos(), "a decoded rune that is searched for has been compared with utf8.RuneError",
				fnKey(fn)+" searches for a rune it decoded from program data without having compared it with utf8.RuneError: for a needle that is one invalid byte (or U+FFFD) the search finds the first invalid byte of any kind, so index(s, t) points at something that is not t and substr(s, index(s,t), length(t)) != t")
		})
	}
	c.atLeast("functions scanned for searches of decoded runes", n, 50)
}
