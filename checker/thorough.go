package main

import (
	"encoding/json"
	"fmt"
	"io"
	"os"
	"os/exec"
	"path/filepath"
	"sort"
	"strings"
	"time"
)

// The thorough tier runs, after the quick obligations (already decided with the VTA call graph):
//
//  1. platform variants: the same property is decided again with the program loaded for other
//     GOOS/GOARCH pairs, so files and constants selected by build constraints are covered;
//  2. checker self-validation: every seeded source change for this property under
//     <verif>/seeded/<id>-m*/patch.diff is applied to a scratch copy of the repository (under the
//     system temp directory, removed at once) and the property is decided on that copy in a
//     separate process; the check is expected to report a violation there. goawk itself is never
//     executed. A patch that no longer applies is skipped; a change that is not detected is listed
//     in the evidence as a weakness of the check - it is not a violation of the property on the
//     tree under test, so it does not change the exit status.

func init() { thoroughExtras = runThorough }

type variantResult struct {
	GOOS, GOARCH string
	Exit         int
	Summary      string
}

type selfTestResult struct {
	Mutant  string
	Outcome string // caught | missed | skipped
	Rules   string
}

func copyTree(src, dst string) error {
	return filepath.Walk(src, func(path string, info os.FileInfo, err error) error {
		if err != nil {
			return err
		}
		rel, _ := filepath.Rel(src, path)
		if rel == ".git" || strings.HasPrefix(rel, ".git"+string(filepath.Separator)) {
			if info.IsDir() {
				return filepath.SkipDir
			}
			return nil
		}
		target := filepath.Join(dst, rel)
		if info.IsDir() {
			return os.MkdirAll(target, 0o755)
		}
		if !info.Mode().IsRegular() {
			return nil
		}
		in, err := os.Open(path)
		if err != nil {
			return err
		}
		defer in.Close()
		out, err := os.OpenFile(target, os.O_CREATE|os.O_WRONLY|os.O_TRUNC, info.Mode().Perm())
		if err != nil {
			return err
		}
		defer out.Close()
		_, err = io.Copy(out, in)
		return err
	})
}

func runThorough(c *Ctx, verif string, p *Property, known *KnownFile, seed int, start time.Time) int {
	self, err := os.Executable()
	if err != nil {
		fmt.Println("thorough: cannot locate own executable:", err)
		return 0
	}
	exit := 0
	// ---- 1. platform variants
	var variants []variantResult
	for _, v := range [][2]string{{"linux", "386"}, {"windows", "amd64"}, {"darwin", "arm64"}} {
		tmpVerif, err := os.MkdirTemp("", "sverif-variant-")
		if err != nil {
			continue
		}
		copyFile(filepath.Join(verif, "known_findings.json"), filepath.Join(tmpVerif, "known_findings.json"))
		os.MkdirAll(filepath.Join(tmpVerif, "violations"), 0o755)
		cmd := exec.Command(self, "check", "-p", p.ID, "-tier", "quick", "-repo", c.Repo, "-verif", tmpVerif)
		cmd.Env = append(os.Environ(), "GOOS="+v[0], "GOARCH="+v[1], "CGO_ENABLED=0", "VERIF_TIER=quick")
		out, _ := cmd.CombinedOutput()
		code := 0
		if cmd.ProcessState != nil {
			code = cmd.ProcessState.ExitCode()
		}
		lines := strings.Split(strings.TrimSpace(string(out)), "\n")
		vr := variantResult{GOOS: v[0], GOARCH: v[1], Exit: code, Summary: lines[len(lines)-1]}
		variants = append(variants, vr)
		if code != 0 {
			// a violation that exists only on another platform is still a violation of the property
			for _, l := range lines {
				if strings.Contains(l, "VIOLATED") || strings.Contains(l, "UNDECIDED") || strings.HasPrefix(l, "load failed") {
					fmt.Printf("[%s/%s] %s\n", v[0], v[1], l)
				}
			}
			// keep a replay file under the real verif dir
			path := filepath.Join(verif, "violations", fmt.Sprintf("%s-variant-%s-%s.json", p.ID, v[0], v[1]))
			b, _ := json.MarshalIndent(map[string]interface{}{"property": p.ID, "variant": v[0] + "/" + v[1], "output": lines,
				"replay": fmt.Sprintf("GOOS=%s GOARCH=%s bin/sverif check -p %s", v[0], v[1], p.ID)}, "", " ")
			os.WriteFile(path, b, 0o644)
			fmt.Printf("VIOLATION property=%s replay=%s\n", p.ID, path)
			exit = 1
		}
		os.RemoveAll(tmpVerif)
	}
	// ---- 2. self-validation on the seeded changes
	var results []selfTestResult
	dirs, _ := filepath.Glob(filepath.Join(verif, "seeded", p.ID+"-m*"))
	sort.Strings(dirs)
	for _, d := range dirs {
		patch := filepath.Join(d, "patch.diff")
		if _, err := os.Stat(patch); err != nil {
			continue
		}
		res := selfTestResult{Mutant: filepath.Base(d)}
		if _, err := os.Stat(filepath.Join(d, "OBSOLETE")); err == nil {
			res.Outcome = "skipped (obsolete: no longer breaks the property on the repaired tree)"
			results = append(results, res)
			continue
		}
		scratch, err := os.MkdirTemp("", "sverif-selftest-")
		if err != nil {
			continue
		}
		func() {
			defer os.RemoveAll(scratch)
			repoCopy := filepath.Join(scratch, "repo")
			tmpVerif := filepath.Join(scratch, "verif")
			os.MkdirAll(filepath.Join(tmpVerif, "violations"), 0o755)
			copyFile(filepath.Join(verif, "known_findings.json"), filepath.Join(tmpVerif, "known_findings.json"))
			if err := copyTree(c.Repo, repoCopy); err != nil {
				res.Outcome = "skipped (copy failed: " + err.Error() + ")"
				return
			}
			ap := exec.Command("git", "apply", "--whitespace=nowarn", patch)
			ap.Dir = repoCopy
			ap.Env = append(os.Environ(), "GIT_DIR=/nonexistent", "GIT_CEILING_DIRECTORIES="+scratch)
			if out, err := ap.CombinedOutput(); err != nil {
				res.Outcome = "skipped (patch does not apply: " + firstLine(string(out)) + ")"
				return
			}
			cmd := exec.Command(self, "check", "-p", p.ID, "-tier", "quick", "-repo", repoCopy, "-verif", tmpVerif)
			cmd.Env = append(os.Environ(), "VERIF_TIER=quick")
			out, _ := cmd.CombinedOutput()
			code := 0
			if cmd.ProcessState != nil {
				code = cmd.ProcessState.ExitCode()
			}
			if code == 1 && strings.Contains(string(out), "VIOLATION property="+p.ID) {
				res.Outcome = "caught"
				seen := map[string]bool{}
				var rs []string
				for _, l := range strings.Split(string(out), "\n") {
					if i := strings.Index(l, " R-"); i >= 0 && (strings.Contains(l, "VIOLATED") || strings.Contains(l, "UNDECIDED")) {
						f := strings.Fields(l[i+1:])
						if len(f) > 0 && !seen[f[0]] {
							seen[f[0]] = true
							rs = append(rs, f[0])
						}
					}
				}
				res.Rules = strings.Join(rs, ",")
			} else {
				res.Outcome = "missed"
			}
		}()
		results = append(results, res)
	}
	caught, missed, skipped := 0, 0, 0
	for _, r := range results {
		switch {
		case r.Outcome == "caught":
			caught++
		case r.Outcome == "missed":
			missed++
			fmt.Printf("SELFTEST-MISS property=%s seeded change %s is not detected by this check (a weakness of the check, not a violation on the tree under test)\n", p.ID, r.Mutant)
		default:
			skipped++
		}
	}
	fmt.Printf("property %s thorough: %d platform variants decided; self-validation on %d seeded changes: %d caught, %d missed, %d skipped\n", p.ID, len(variants), len(results), caught, missed, skipped)
	// ---- add to the evidence file
	evPath := filepath.Join(verif, "evidence", p.ID+".json")
	if b, err := os.ReadFile(evPath); err == nil {
		var ev map[string]interface{}
		if json.Unmarshal(b, &ev) == nil {
			if cov, ok := ev["coverage"].(map[string]interface{}); ok {
				cov["platform_variants"] = variants
				cov["self_validation"] = map[string]interface{}{
					"what":    "each seeded source change under seeded/" + p.ID + "-m* applied to a scratch copy of the repository and decided there in a separate process; goawk is not executed",
					"caught":  caught,
					"missed":  missed,
					"skipped": skipped,
					"results": results,
				}
				if exit != 0 {
					if n, ok := ev["violations"].(float64); ok {
						ev["violations"] = n + 1
					}
				}
				ev["wall_s"] = time.Since(start).Seconds()
				if nb, err := json.MarshalIndent(ev, "", " "); err == nil {
					os.WriteFile(evPath, nb, 0o644)
				}
			}
		}
	}
	return exit
}

func firstLine(s string) string {
	s = strings.TrimSpace(s)
	if i := strings.IndexByte(s, '\n'); i >= 0 {
		return s[:i]
	}
	return s
}

func copyFile(src, dst string) {
	b, err := os.ReadFile(src)
	if err == nil {
		os.WriteFile(dst, b, 0o644)
	}
}
