package main

import (
	"fmt"
	"go/ast"
	"go/constant"
	"go/token"
	"go/types"
	"sort"
	"strconv"
	"strings"

	"golang.org/x/tools/go/packages"
	"golang.org/x/tools/go/ssa"
)

// R-EXH and R-PANIC.

func init() {
	register("R-EXH", "exhaustiveness: (a) every type switch over an interface of internal/ast whose default clause panics covers every concrete type of package ast that implements the interface; ast.Walk visits every field of every node type whose type is Expr, Stmt, []Expr or Stmts; (b) the switches over the special-variable enumeration (getSpecial, setSpecial, SpecialVarName) and the specialVars map cover every V_* constant; the builtin-function switches of the compiler cover every F_* token for which the parser builds a CallExpr; compiler.binaryOp and the short-circuit/concat cases cover every token the parser puts into BinaryExpr.Op; every BuiltinOp the compiler emits has a case in callBuiltin; lvalue type switches without default have exactly the case set of ast.IsLValue", ruleExh)
	register("R-PANIC", "every explicit panic in lexer, parser, internal/* and interp either carries a typed error that a recover on the stack converts (*ast.PositionError under ParseProgram, *compileError under Compile), or sits in the default clause of a switch that R-EXH proves exhaustive, or is tabled with the invariant that makes it unreachable; every Must* call with a non-constant argument and every unchecked type assertion is tabled with its validity argument; every call of the panicking resolver API runs under a recover; the CLI indexes the source by an error position only within bounds", rulePanic)
}

// node types that never leave the parser (each with the reason)
var parseInternalNodes = map[string]string{
	"MultiExpr": "comma-separated pseudo-expression: consumed by print/printf or rejected by parser.checkMultiExprs before parsing ends (checked: ParseProgram's program() calls checkMultiExprs)",
}

type exhProof struct {
	pos  token.Pos // position of the switch statement
	what string
}

// exhaustiveSwitches computes the switches proved exhaustive (memoised) and reports obligations when c != nil.
func exhaustiveSwitches(c *Ctx, report bool) map[token.Pos]string {
	if !report {
		if v, ok := c.memo["exhProved"].(map[token.Pos]string); ok {
			return v
		}
	}
	proved := map[token.Pos]string{}
	astPkg := c.pkg("internal/ast")
	// concrete node types of package ast
	var nodeTypes []*types.TypeName
	sc := astPkg.Types.Scope()
	for _, n := range sc.Names() {
		if tn, ok := sc.Lookup(n).(*types.TypeName); ok {
			if _, isStruct := tn.Type().Underlying().(*types.Struct); isStruct {
				nodeTypes = append(nodeTypes, tn)
			} else if _, isSlice := tn.Type().Underlying().(*types.Slice); isSlice {
				nodeTypes = append(nodeTypes, tn)
			}
		}
	}
	implementers := func(iface *types.Interface) map[string]bool {
		out := map[string]bool{}
		for _, tn := range nodeTypes {
			if types.Implements(types.NewPointer(tn.Type()), iface) || types.Implements(tn.Type(), iface) {
				out[tn.Name()] = true
			}
		}
		return out
	}
	nTypeSw := 0
	for _, p := range c.All {
		short := strings.TrimPrefix(strings.TrimPrefix(p.PkgPath, modPath), "/")
		if strings.HasPrefix(short, "scripts") {
			continue
		}
		for _, fd := range c.allFuncDecls(short) {
			if fd.Body == nil {
				continue
			}
			idx := 0
			ast.Inspect(fd.Body, func(n ast.Node) bool {
				ts, ok := n.(*ast.TypeSwitchStmt)
				if !ok {
					return true
				}
				var subj ast.Expr
				switch a := ts.Assign.(type) {
				case *ast.AssignStmt:
					subj = a.Rhs[0].(*ast.TypeAssertExpr).X
				case *ast.ExprStmt:
					subj = a.X.(*ast.TypeAssertExpr).X
				}
				st := p.TypesInfo.TypeOf(subj)
				nt, isNamed := st.(*types.Named)
				if !isNamed || nt.Obj().Pkg() != astPkg.Types {
					return true
				}
				iface, isIface := nt.Underlying().(*types.Interface)
				if !isIface {
					return true
				}
				idx++
				var def *ast.CaseClause
				got := map[string]bool{}
				for _, cs := range ts.Body.List {
					cc := cs.(*ast.CaseClause)
					if cc.List == nil {
						def = cc
					}
					for _, e := range cc.List {
						if t := concreteASTType(p.TypesInfo.TypeOf(e)); t != "" {
							got[t] = true
						} else if n2 := named(p.TypesInfo.TypeOf(e)); n2 != nil {
							got[n2.Obj().Name()] = true
						}
					}
				}
				key := fmt.Sprintf("typeswitch:%s.%s:%s#%d", short, declName(fd), nt.Obj().Name(), idx)
				panics := def != nil && containsPanic(def.Body)
				if !panics {
					// lvalue switches (no default, cases subset of lvalue kinds) must have exactly IsLValue's set
					if def == nil {
						lv := lvalueTypeSet(c)
						sub := len(got) > 0
						for t := range got {
							if !lv[t] {
								sub = false
							}
						}
						if sub && len(got) >= 2 {
							nTypeSw++
							missing := []string{}
							for t := range lv {
								if !got[t] {
									missing = append(missing, t)
								}
							}
							sort.Strings(missing)
							if report {
								if len(missing) == 0 {
									c.ok(key, ts.Pos(), "lvalue switch lists exactly the types ast.IsLValue accepts: %v", keys(got))
								} else {
									c.bad(key, ts.Pos(), "switch over lvalue kinds has no default and does not handle %v, which ast.IsLValue accepts: that lvalue kind would silently compile to nothing", missing)
								}
							}
						}
					}
					return true
				}
				nTypeSw++
				want := implementers(iface)
				var missing []string
				for t := range want {
					if !got[t] && parseInternalNodes[t] == "" {
						missing = append(missing, t)
					}
				}
				sort.Strings(missing)
				if len(missing) == 0 {
					proved[ts.Pos()] = fmt.Sprintf("type switch over ast.%s lists all %d implementing types", nt.Obj().Name(), len(want))
					if report {
						c.ok(key, ts.Pos(), "all %d types of package ast implementing %s have a case; the panicking default is unreachable", len(want), nt.Obj().Name())
					}
				} else if report {
					c.bad(key, ts.Pos(), "type switch over ast.%s panics by default but has no case for %v: a program using that node reaches the panic", nt.Obj().Name(), missing)
				}
				return true
			})
		}
	}
	if report {
		c.atLeast("type switches over ast interfaces (panicking default or lvalue sets)", nTypeSw, 6)
	}

	// ---- value switches
	vvals := specialVarConsts(c) // value -> name
	checkVSwitch := func(pkgShort, fn string) {
		fd := c.funcDecl(pkgShort, fn)
		key := "valueswitch:" + pkgShort + "." + fn + ":V_*"
		if fd == nil {
			if report {
				c.undecided(key, token.NoPos, "function %s.%s not found", pkgShort, fn)
			}
			return
		}
		info := c.pkg(pkgShort).TypesInfo
		var sw *ast.SwitchStmt
		ast.Inspect(fd.Body, func(n ast.Node) bool {
			if s, ok := n.(*ast.SwitchStmt); ok && sw == nil && s.Tag != nil {
				sw = s
			}
			return true
		})
		if sw == nil {
			if report {
				c.undecided(key, fd.Pos(), "no switch in %s", fn)
			}
			return
		}
		got := map[int64]bool{}
		for _, cs := range sw.Body.List {
			for _, e := range cs.(*ast.CaseClause).List {
				if v, ok := constInt(info, e); ok {
					got[v] = true
				}
			}
		}
		var missing []string
		for v, n := range vvals {
			if !got[v] {
				missing = append(missing, n)
			}
		}
		sort.Strings(missing)
		if len(missing) == 0 {
			proved[sw.Pos()] = fmt.Sprintf("%s handles all %d special variables", fn, len(vvals))
			if report {
				c.ok(key, sw.Pos(), "%s has a case for each of the %d special variables", fn, len(vvals))
			}
		} else if report {
			c.bad(key, sw.Pos(), "%s has no case for %v", fn, missing)
		}
	}
	checkVSwitch("interp", "interp.getSpecial")
	checkVSwitch("interp", "interp.setSpecial")
	checkVSwitch("internal/ast", "SpecialVarName")
	// specialVars map
	if report {
		mapVals := map[int64]bool{}
		for _, f := range astPkg.Syntax {
			ast.Inspect(f, func(n ast.Node) bool {
				vs, ok := n.(*ast.ValueSpec)
				if !ok || len(vs.Names) != 1 || vs.Names[0].Name != "specialVars" || len(vs.Values) != 1 {
					return true
				}
				if cl, ok := vs.Values[0].(*ast.CompositeLit); ok {
					for _, el := range cl.Elts {
						if kv, ok := el.(*ast.KeyValueExpr); ok {
							if v, ok := constInt(astPkg.TypesInfo, kv.Value); ok {
								mapVals[v] = true
							}
						}
					}
				}
				return false
			})
		}
		var missing []string
		for v, n := range vvals {
			if !mapVals[v] {
				missing = append(missing, n)
			}
		}
		sort.Strings(missing)
		c.check(len(missing) == 0, "map:specialVars", token.NoPos, fmt.Sprintf("specialVars names all %d special variables", len(vvals)), fmt.Sprintf("specialVars has no entry for %v (the variable would resolve as an ordinary global)", missing))
		c.atLeast("special variable constants", len(vvals), 15)
	}

	// F_* tokens: union of the case lists in compiler.expr's CallExpr clause
	cm := buildCompModelLite(c)
	ar := cm.builtinArity()
	lexPkg := c.pkg("lexer")
	fTok := map[int64]string{}
	for _, n := range lexPkg.Types.Scope().Names() {
		if k, ok := lexPkg.Types.Scope().Lookup(n).(*types.Const); ok && strings.HasPrefix(n, "F_") {
			if v, ok := constantInt(k); ok {
				fTok[v] = n
			}
		}
	}
	cinfo := c.pkg("internal/compiler").TypesInfo
	efd := c.funcDecl("internal/compiler", "compiler.expr")
	if efd != nil {
		ast.Inspect(efd.Body, func(n ast.Node) bool {
			cc, ok := n.(*ast.CaseClause)
			if !ok || len(cc.List) != 1 || concreteASTType(cinfo.TypeOf(cc.List[0])) != "CallExpr" {
				return true
			}
			handled := map[int64]bool{}
			var lastSw *ast.SwitchStmt
			ast.Inspect(&ast.BlockStmt{List: cc.Body}, func(m ast.Node) bool {
				sw, ok := m.(*ast.SwitchStmt)
				if !ok || sw.Tag == nil || !strings.HasSuffix(types.ExprString(sw.Tag), ".Func") {
					return true
				}
				lastSw = sw
				for _, cs := range sw.Body.List {
					for _, e := range cs.(*ast.CaseClause).List {
						if v, ok := constInt(cinfo, e); ok {
							handled[v] = true
						}
					}
				}
				return true
			})
			var missing []string
			for v, name := range fTok {
				if _, parserBuilds := ar[v]; parserBuilds && !handled[v] {
					missing = append(missing, name)
				}
			}
			sort.Strings(missing)
			var notBuilt []string
			for v, name := range fTok {
				if _, ok := ar[v]; !ok {
					notBuilt = append(notBuilt, name)
				}
			}
			sort.Strings(notBuilt)
			if lastSw != nil && len(missing) == 0 {
				proved[lastSw.Pos()] = "builtin switches of compiler.expr handle every F_ token the parser builds a CallExpr for"
			}
			if report {
				c.check(len(missing) == 0, "valueswitch:internal/compiler.compiler.expr:F_*", cc.Pos(),
					fmt.Sprintf("every builtin-function token the parser builds a CallExpr for (%d) has a case in compiler.expr", len(ar)),
					fmt.Sprintf("compiler.expr has no case for builtin %v: calling it reaches the 'unexpected function' panic", missing))
				c.check(len(notBuilt) == 0, "parser:F_*", token.NoPos, "the parser builds a CallExpr for every F_ token", fmt.Sprintf("the parser builds no CallExpr for %v", notBuilt))
			}
			return false
		})
	}
	// BinaryExpr.Op tokens
	binToks := binaryOpTokens(c)
	bfd := c.funcDecl("internal/compiler", "compiler.binaryOp")
	if bfd != nil && efd != nil {
		handled := map[int64]bool{}
		var bsw *ast.SwitchStmt
		ast.Inspect(bfd.Body, func(n ast.Node) bool {
			if sw, ok := n.(*ast.SwitchStmt); ok {
				bsw = sw
				for _, cs := range sw.Body.List {
					for _, e := range cs.(*ast.CaseClause).List {
						if v, ok := constInt(cinfo, e); ok {
							handled[v] = true
						}
					}
				}
			}
			return true
		})
		// AND/OR/CONCAT handled in expr's BinaryExpr clause
		ast.Inspect(efd.Body, func(n ast.Node) bool {
			cc, ok := n.(*ast.CaseClause)
			if !ok || len(cc.List) != 1 || concreteASTType(cinfo.TypeOf(cc.List[0])) != "BinaryExpr" {
				return true
			}
			ast.Inspect(&ast.BlockStmt{List: cc.Body}, func(m ast.Node) bool {
				if sw, ok := m.(*ast.SwitchStmt); ok && sw.Tag != nil && strings.HasSuffix(types.ExprString(sw.Tag), ".Op") {
					for _, cs := range sw.Body.List {
						for _, e := range cs.(*ast.CaseClause).List {
							if v, ok := constInt(cinfo, e); ok {
								handled[v] = true
							}
						}
					}
				}
				return true
			})
			return false
		})
		var missing []string
		for v, name := range binToks {
			if !handled[v] {
				missing = append(missing, name)
			}
		}
		sort.Strings(missing)
		if bsw != nil && len(missing) == 0 && len(binToks) >= 10 {
			proved[bsw.Pos()] = "binaryOp handles every token the parser puts into BinaryExpr.Op (beyond AND/OR/CONCAT)"
		}
		if report {
			c.check(len(missing) == 0 && len(binToks) >= 10, "valueswitch:internal/compiler.compiler.binaryOp:tokens", bfd.Pos(),
				fmt.Sprintf("all %d tokens the parser can put into BinaryExpr.Op are compiled", len(binToks)),
				fmt.Sprintf("tokens %v can appear in BinaryExpr.Op but are not handled by the compiler (reaches 'unexpected binary operation' panic); tokens found: %d", missing, len(binToks)))
		}
	}
	// BuiltinOp: every constant has a case in callBuiltin
	if report {
		vm := buildVMModel(c)
		fd := c.funcDecl("interp", "interp.callBuiltin")
		got := map[string]bool{}
		if fd != nil {
			ast.Inspect(fd.Body, func(n ast.Node) bool {
				if cc, ok := n.(*ast.CaseClause); ok {
					for _, e := range cc.List {
						if nm := constName(vm.pkg.TypesInfo, e); nm != "" {
							got[nm] = true
						}
					}
				}
				return true
			})
		}
		var missing []string
		all := c.constsOfType("internal/compiler", "BuiltinOp")
		for _, k := range all {
			if !got[k.Name()] {
				missing = append(missing, k.Name())
			}
		}
		sort.Strings(missing)
		c.check(len(missing) == 0 && len(all) >= 20, "valueswitch:interp.callBuiltin:BuiltinOp", token.NoPos,
			fmt.Sprintf("callBuiltin has a case for each of the %d BuiltinOp constants", len(all)),
			fmt.Sprintf("callBuiltin has no case for %v (the call silently does nothing and leaves its arguments on the stack)", missing))
	}
	c.memo["exhProved"] = proved
	return proved
}

func buildCompModelLite(c *Ctx) *compModel {
	if m, ok := c.memo["compmodel"].(*compModel); ok {
		return m
	}
	return &compModel{c: c, pkg: c.pkg("internal/compiler"), info: c.pkg("internal/compiler").TypesInfo}
}

func lvalueTypeSet(c *Ctx) map[string]bool {
	m := buildCompModelLite(c)
	return m.lvalueTypes()
}

func containsPanic(list []ast.Stmt) bool {
	found := false
	for _, s := range list {
		ast.Inspect(s, func(n ast.Node) bool {
			if call, ok := n.(*ast.CallExpr); ok && isIdent(call.Fun, "panic") {
				found = true
			}
			return true
		})
	}
	return found
}

// specialVarConsts: value -> name for V_* (excluding V_ILLEGAL and aliases).
func specialVarConsts(c *Ctx) map[int64]string {
	out := map[int64]string{}
	sc := c.pkg("internal/ast").Types.Scope()
	for _, n := range sc.Names() {
		k, ok := sc.Lookup(n).(*types.Const)
		if !ok || !strings.HasPrefix(n, "V_") || n == "V_ILLEGAL" || n == "V_LAST" {
			continue
		}
		if k.Val().Kind() == constant.Int {
			v, _ := constant.Int64Val(k.Val())
			if _, dup := out[v]; !dup {
				out[v] = n
			}
		}
	}
	return out
}

// binaryOpTokens: tokens the parser can store in BinaryExpr.Op: literal Op values, and the token sets
// tested by p.matches(...) / passed to binaryLeft(...) / _compare(...) in functions that build BinaryExpr from p.tok.
func binaryOpTokens(c *Ctx) map[int64]string {
	if m, ok := c.memo["binaryOpTokens"].(map[int64]string); ok {
		return m
	}
	out := map[int64]string{}
	c.memo["binaryOpTokens"] = out
	// what the parser can store into BinaryExpr.Op, by the per-token evaluation of its node builders (gramssa.go):
	// independent of how the operator lists are written (matches(...) lists, predicates, tables)
	if g := newGssa(c); g != nil {
		doms, _ := c.memo["gssa.tokenDomains"].(map[string][]string)
		if doms == nil {
			doms = g.tokenDomains()
			c.memo["gssa.tokenDomains"] = doms
		}
		known := len(doms["BinaryExpr.Op"]) > 0
		for _, t := range doms["BinaryExpr.Op"] {
			if v, ok := g.toks[t]; ok {
				out[v] = t
			} else {
				known = false
			}
		}
		if known {
			return out
		}
		for k := range out {
			delete(out, k)
		}
	}
	pp := c.pkg("parser")
	info := pp.TypesInfo
	addTok := func(e ast.Expr) {
		if v, ok := constInt(info, e); ok {
			out[v] = constName(info, e)
		}
	}
	for _, fd := range c.allFuncDecls("parser") {
		if fd.Body == nil {
			continue
		}
		builds := false
		ast.Inspect(fd.Body, func(n ast.Node) bool {
			cl, ok := n.(*ast.CompositeLit)
			if !ok || !isNamed(info.TypeOf(cl), modPath+"/internal/ast", "BinaryExpr") {
				return true
			}
			builds = true
			for _, el := range cl.Elts {
				if kv, ok := el.(*ast.KeyValueExpr); ok && isIdent(kv.Key, "Op") {
					addTok(kv.Value)
				}
			}
			return true
		})
		if builds {
			// tokens in p.matches(...) calls and `p.tok == X` tests of this function
			ast.Inspect(fd.Body, func(n ast.Node) bool {
				switch x := n.(type) {
				case *ast.CallExpr:
					if se, ok := x.Fun.(*ast.SelectorExpr); ok && se.Sel.Name == "matches" && !x.Ellipsis.IsValid() {
						for _, a := range x.Args {
							addTok(a)
						}
					}
				case *ast.CaseClause:
					// `switch binary.Op { case AND, OR ...}` re-uses existing ops: nothing new
				}
				return true
			})
		}
	}
	// call sites passing token lists to the variadic builders
	for _, fd := range c.allFuncDecls("parser") {
		if fd.Body == nil {
			continue
		}
		ast.Inspect(fd.Body, func(n ast.Node) bool {
			call, ok := n.(*ast.CallExpr)
			if !ok {
				return true
			}
			se, ok := call.Fun.(*ast.SelectorExpr)
			if !ok {
				return true
			}
			if se.Sel.Name == "binaryLeft" || se.Sel.Name == "_compare" {
				for _, a := range call.Args {
					if t := info.TypeOf(a); t != nil && isNamed(t, modPath+"/lexer", "Token") {
						addTok(a)
					}
				}
			}
			return true
		})
	}
	// p.matches in concat() lists *start* tokens of the right operand, not operators: remove non-operator tokens
	ops := map[string]bool{"ADD": true, "SUB": true, "MUL": true, "DIV": true, "MOD": true, "POW": true, "EQUALS": true, "NOT_EQUALS": true,
		"LESS": true, "LTE": true, "GREATER": true, "GTE": true, "MATCH": true, "NOT_MATCH": true, "AND": true, "OR": true, "CONCAT": true}
	for v, n := range out {
		if !ops[n] {
			delete(out, v)
		}
	}
	return out
}

func ruleExh(c *Ctx) {
	exhaustiveSwitches(c, true)
	// ast.Walk covers every child field
	astPkg := c.pkg("internal/ast")
	wfd := c.funcDecl("internal/ast", "Walk")
	if wfd == nil {
		c.undecided("anchor:Walk", token.NoPos, "ast.Walk not found")
		return
	}
	info := astPkg.TypesInfo
	visited := map[string]map[string]bool{}
	ast.Inspect(wfd.Body, func(n ast.Node) bool {
		cc, ok := n.(*ast.CaseClause)
		if !ok || cc.List == nil {
			return true
		}
		for _, e := range cc.List {
			tn := ""
			if t := concreteASTType(info.TypeOf(e)); t != "" {
				tn = t
			} else if n2 := named(info.TypeOf(e)); n2 != nil {
				tn = n2.Obj().Name()
			}
			if tn == "" {
				continue
			}
			if visited[tn] == nil {
				visited[tn] = map[string]bool{}
			}
			// a field counts as visited only when it is mentioned unconditionally in the clause: at its top
			// level, in a range loop, or under a nil test of that same field (a visit that depends on
			// anything else - another field, the kind of redirect - hides some programs' sub-expressions)
			var scan func(list []ast.Stmt, only string)
			mention := func(nd ast.Node, only string) {
				ast.Inspect(nd, func(m ast.Node) bool {
					switch x := m.(type) {
					case *ast.IfStmt, *ast.SwitchStmt, *ast.TypeSwitchStmt:
						_ = x
						return false // handled by scan
					case *ast.SelectorExpr:
						if v, ok := info.Uses[x.Sel].(*types.Var); ok && v.IsField() && (only == "" || only == x.Sel.Name) {
							visited[tn][x.Sel.Name] = true
						}
					}
					return true
				})
			}
			scan = func(list []ast.Stmt, only string) {
				for _, st := range list {
					switch s := st.(type) {
					case *ast.IfStmt:
						// if n.F != nil { ... n.F ... }
						if b, ok := s.Cond.(*ast.BinaryExpr); ok && b.Op == token.NEQ && isIdent(b.Y, "nil") {
							if se, ok := b.X.(*ast.SelectorExpr); ok && s.Else == nil && (only == "" || only == se.Sel.Name) {
								scan(s.Body.List, se.Sel.Name)
							}
						}
					case *ast.RangeStmt:
						mention(s.X, only)
						scan(s.Body.List, only)
					case *ast.ForStmt:
						scan(s.Body.List, only)
					case *ast.BlockStmt:
						scan(s.List, only)
					case *ast.SwitchStmt, *ast.TypeSwitchStmt:
						// conditional: nothing inside counts
					default:
						mention(st, only)
					}
				}
			}
			scan(cc.Body, "")
		}
		return true
	})
	nf := 0
	sc := astPkg.Types.Scope()
	for _, n := range sc.Names() {
		tn, ok := sc.Lookup(n).(*types.TypeName)
		if !ok {
			continue
		}
		st, ok := tn.Type().Underlying().(*types.Struct)
		if !ok || n == "PositionError" {
			continue
		}
		for i := 0; i < st.NumFields(); i++ {
			f := st.Field(i)
			ts := types.TypeString(f.Type(), func(p *types.Package) string { return "" })
			child := ts == "Expr" || ts == "Stmt" || ts == "[]Expr" || ts == "Stmts" || ts == "[]Stmt" || ts == "[]*Action" || ts == "[]*Function" || ts == "[]Stmts"
			if !child {
				continue
			}
			nf++
			key := fmt.Sprintf("walk:%s.%s", n, f.Name())
			c.check(visited[n][f.Name()], key, f.Pos(), "ast.Walk descends into "+n+"."+f.Name(), "ast.Walk does not visit "+n+"."+f.Name()+": variables and calls inside it are invisible to the resolver (wrong scalar/array typing, unresolved names)")
		}
	}
	c.atLeast("child fields of AST nodes", nf, 35)
}

// ---------------------------------------------------------------- R-PANIC

var panicTable = map[string]string{
	"lexer.Lexer.scanRegex":                         "API precondition: called only by parser.nextRegex, which is reached only when the current token is DIV or DIV_ASSIGN (checked below)",
	"internal/compiler.compiler.scalarInfo":         "resolver invariant: every VarExpr the compiler asks about was recorded as Scalar by the resolver (a variable used both ways is a parse error)",
	"internal/compiler.compiler.arrayInfo":          "resolver invariant: every array name the compiler asks about was recorded as Array by the resolver",
	"internal/compiler.disassembler.localName":      "debug-only (-da): index comes from the compiler's own local numbering",
	"internal/compiler.disassembler.localArrayName": "debug-only (-da): index comes from the compiler's own local numbering",
	"interp.interp.callNative":                      "NumOut is validated to be 0..2 by checkNativeFunc at setup (R-KIND)",
	"interp.interp.toNative":                        "parameter kinds are validated by checkNativeFunc at setup (R-KIND)",
	"interp.fromNative":                             "result kinds are validated by checkNativeFunc at setup (R-KIND)",
	"interp.interp.getOutputStream":                 "redirect operand of Print/Printf is ILLEGAL, GREATER, APPEND or PIPE: the parser assigns PrintStmt.Redirect only from those tokens (checked below) and ILLEGAL never reaches getOutputStream",
}

// panicMsgTable: the same exemptions keyed by what the panic says rather than by the function it sits in, so
// that moving the site into a helper does not lose the argument; a panic with another message is a new site.
var panicMsgTable = map[string]string{
	"ScanRegex should only be called after DIV or DIV_ASSIGN token": "lexer.Lexer.scanRegex",
	"internal error: found %s when expecting scalar %q":             "internal/compiler.compiler.scalarInfo",
	"internal error: found %s when expecting array %q":              "internal/compiler.compiler.arrayInfo",
	"unexpected local variable index %d":                            "internal/compiler.disassembler.localName",
	"unexpected local array index %d":                               "internal/compiler.disassembler.localArrayName",
	"unexpected number of return values: %d":                        "interp.interp.callNative",
	"unexpected argument slice: %s":                                 "interp.interp.toNative",
	"unexpected argument type: %s":                                  "interp.interp.toNative",
	"unexpected return slice: %s":                                   "interp.fromNative",
	"unexpected return type: %s":                                    "interp.fromNative",
	"unexpected redirect type %s":                                   "interp.interp.getOutputStream",
}

// panicMessage: the constant message (or format string) of a plain-message panic.
func panicMessage(arg ast.Expr) string {
	arg = stripParens(arg)
	if call, ok := arg.(*ast.CallExpr); ok && len(call.Args) > 0 {
		arg = stripParens(call.Args[0])
	}
	if lit, ok := arg.(*ast.BasicLit); ok && lit.Kind == token.STRING {
		if s, err := strconv.Unquote(lit.Value); err == nil {
			return s
		}
	}
	return ""
}

var mustTable = map[string]string{
	"interp.interp.setSpecial:regexp.MustCompile":              "only in the branch RuneCountInString(RS)==1 with len(RS)>1, i.e. RS is the valid UTF-8 encoding of one rune; QuoteMeta of a valid rune is a valid pattern (checked: the call is dominated by that comparison)",
	"internal/compiler.compiler.regexIndex:regexp.MustCompile": "the same string was compiled successfully by regexp.Compile in parser.nextRegex (with the same AddRegexFlags wrapper) before the RegExpr node was built",
}

var assertTable = map[string]string{
	"internal/compiler.Compile$1:*compileError":    "inside the recover: re-panics on anything that is not a compile error (intended)",
	"parser.ParseProgram$1:*PositionError":         "inside the recover: re-panics on anything that is not a positioned error (intended); R-PANIC shows every parse-side panic is positioned or unreachable",
	"internal/compiler.compiler.expr:*VarExpr":     "split()'s second argument and array-typed call arguments are VarExpr: the parser parses split's 2nd argument as a name, and the resolver rejects a non-variable passed to an array parameter",
	"internal/resolver.mainVisitor.Visit:*VarExpr": "split()'s second argument is parsed as a bare name by the parser",
	"interp.interp.callNative:error":               "Out(1) is validated to be exactly the error type by checkNativeFunc",
	"role:error<-reflect-results[1]":               "Out(1) is validated to be exactly the error type by checkNativeFunc",
}

// assertRole: names an unchecked assertion by what is asserted rather than where: the second element of a
// []reflect.Value (the results of a reflect call) asserted to error.
func assertRole(x *ssa.TypeAssert) string {
	if types.TypeString(x.AssertedType, nil) != "error" {
		return ""
	}
	call, ok := x.X.(*ssa.Call)
	if !ok {
		return ""
	}
	fo := calleeObj(call)
	if fo == nil || funcFullName(fo) != "(reflect.Value).Interface" || len(call.Call.Args) != 1 {
		return ""
	}
	ld, ok := call.Call.Args[0].(*ssa.UnOp)
	if !ok || ld.Op != token.MUL {
		return ""
	}
	ia, ok := ld.X.(*ssa.IndexAddr)
	if !ok {
		return ""
	}
	if is := constInts(ia.Index, 0); len(is) == 1 && is[0] == 1 {
		if sl, ok := ia.X.Type().Underlying().(*types.Slice); ok && types.TypeString(sl.Elem(), nil) == "reflect.Value" {
			return "role:error<-reflect-results[1]"
		}
	}
	return ""
}

func panicArgClass(p *packages.Package, makers map[string]bool, arg ast.Expr) string {
	arg = stripParens(arg)
	switch x := arg.(type) {
	case *ast.CallExpr:
		if f := calleeOf(p.TypesInfo, x); f != nil {
			if makers[f.FullName()] {
				return "positioned"
			}
			if f.FullName() == "fmt.Sprintf" {
				return "internal"
			}
		}
	case *ast.UnaryExpr:
		if cl, ok := x.X.(*ast.CompositeLit); ok && x.Op == token.AND {
			if n := named(p.TypesInfo.TypeOf(cl)); n != nil {
				switch n.Obj().Name() {
				case "PositionError":
					return "positioned"
				case "compileError":
					return "compile"
				}
			}
		}
	case *ast.BasicLit:
		return "internal"
	}
	if t := p.TypesInfo.TypeOf(arg); t != nil {
		if b, ok := t.Underlying().(*types.Basic); ok && b.Kind() == types.String {
			return "internal"
		}
	}
	return "unknown"
}

// positionErrorMakers: functions all of whose returns are &PositionError{} or calls of other makers.
func positionErrorMakers(c *Ctx) map[string]bool {
	makers := map[string]bool{}
	for changed := true; changed; {
		changed = false
		for _, short := range []string{"internal/ast", "parser", "lexer", "internal/resolver"} {
			p := c.pkg(short)
			for _, fd := range c.allFuncDecls(short) {
				if fd.Body == nil || fd.Type.Results == nil || len(fd.Type.Results.List) != 1 {
					continue
				}
				obj, _ := p.TypesInfo.Defs[fd.Name].(*types.Func)
				if obj == nil || makers[obj.FullName()] {
					continue
				}
				all, n := true, 0
				ast.Inspect(fd.Body, func(x ast.Node) bool {
					if _, ok := x.(*ast.FuncLit); ok {
						return false
					}
					r, ok := x.(*ast.ReturnStmt)
					if !ok || len(r.Results) != 1 {
						return true
					}
					n++
					if panicArgClass(p, makers, r.Results[0]) != "positioned" {
						all = false
					}
					return true
				})
				if all && n > 0 {
					makers[obj.FullName()] = true
					changed = true
				}
			}
		}
	}
	return makers
}

func rulePanic(c *Ctx) {
	proved := exhaustiveSwitches(c, false)
	makers := positionErrorMakers(c)
	c.atLeast("positioned-error constructors", len(makers), 2)
	parseSide := map[string]bool{"lexer": true, "parser": true, "internal/resolver": true, "internal/ast": true}
	nP := 0
	for _, short := range []string{"lexer", "parser", "internal/ast", "internal/resolver", "internal/compiler", "internal/cover", "internal/parseutil", "interp"} {
		p := c.pkg(short)
		if p == nil {
			continue
		}
		for _, fd := range c.allFuncDecls(short) {
			if fd.Body == nil {
				continue
			}
			fname := short + "." + declName(fd)
			idx := map[string]int{}
			// collect (panic call, enclosing default-clause switch)
			var stack []ast.Node
			ast.Inspect(fd.Body, func(n ast.Node) bool {
				if n == nil {
					stack = stack[:len(stack)-1]
					return true
				}
				stack = append(stack, n)
				call, ok := n.(*ast.CallExpr)
				if !ok || !isIdent(call.Fun, "panic") || len(call.Args) != 1 {
					return true
				}
				if _, isB := p.TypesInfo.Uses[call.Fun.(*ast.Ident)].(*types.Builtin); !isB {
					return true
				}
				nP++
				class := panicArgClass(p, makers, call.Args[0])
				idx[class]++
				key := fmt.Sprintf("panic:%s:%s#%d", fname, class, idx[class])
				switch class {
				case "positioned":
					if parseSide[short] {
						c.ok(key, call.Pos(), "panics with a positioned error; converted to *ParseError by the recover in ParseProgram")
					} else {
						c.bad(key, call.Pos(), "positioned-error panic outside the packages that run under ParseProgram's recover")
					}
				case "compile":
					c.check(short == "internal/compiler", key, call.Pos(), "panics with *compileError; converted by the recover in Compile", "*compileError panic outside package compiler")
				case "internal":
					// enclosing default clause of a proved switch?
					why := ""
					for i := len(stack) - 1; i >= 0 && why == ""; i-- {
						cc, ok := stack[i].(*ast.CaseClause)
						if !ok || cc.List != nil {
							continue
						}
						for j := i - 1; j >= 0; j-- {
							switch sw := stack[j].(type) {
							case *ast.SwitchStmt:
								if w, ok := proved[sw.Pos()]; ok {
									why = w
								}
								j = -1
							case *ast.TypeSwitchStmt:
								if w, ok := proved[sw.Pos()]; ok {
									why = w
								}
								j = -1
							}
						}
					}
					if why != "" {
						c.ok(key, call.Pos(), "internal-error panic is unreachable: %s (R-EXH)", why)
					} else if t, ok := panicTable[fname]; ok {
						c.ok(key, call.Pos(), "internal-error panic tabled: %s", t)
					} else if home, ok := panicMsgTable[panicMessage(call.Args[0])]; ok && strings.HasPrefix(home, short+".") {
						c.ok(key, call.Pos(), "internal-error panic tabled by its message (moved out of %s): %s", home, panicTable[home])
					} else {
						c.bad(key, call.Pos(), "panic with a plain message in %s is not in the default clause of a switch proved exhaustive and is not tabled: if reachable it crashes the host (parse side: it is not a *PositionError, so ParseProgram re-panics)", fname)
					}
				default:
					c.undecided(key, call.Pos(), "panic argument %s is not a recognised error constructor", types.ExprString(call.Args[0]))
				}
				return true
			})
		}
	}
	c.atLeast("explicit panic sites", nP, 45)
	// parse-internal node types: the parser's top-level function rejects leftovers
	{
		called := false
		if fd := c.funcDecl("parser", "parser.program"); fd != nil {
			ast.Inspect(fd.Body, func(n ast.Node) bool {
				if call, ok := n.(*ast.CallExpr); ok {
					if se, ok := call.Fun.(*ast.SelectorExpr); ok && se.Sel.Name == "checkMultiExprs" {
						called = true
					}
				}
				return true
			})
		}
		c.check(called, "parse-internal:MultiExpr", token.NoPos, "parser.program() calls checkMultiExprs, so no MultiExpr node survives parsing", "parser.program() no longer calls checkMultiExprs: a stray (a, b) list reaches the resolver/compiler, whose type switches have no case for MultiExpr")
	}

	// side conditions of tabled panics
	// (0) the compiler's MustCompile of a regex literal is tabled because the parser compiled the same text
	// first: in every function of the parser that scans a regex literal (calls the lexer's ScanRegex), a call of
	// regexp.Compile on AddRegexFlags(<the text returned>) dominates every normal return
	{
		n := 0
		for _, fn := range c.srcFuncs("parser") {
			scans := false
			allInstrs(fn, func(in ssa.Instruction) {
				if call, ok := in.(ssa.CallInstruction); ok {
					if fo := calleeObj(call); fo != nil && fo.Name() == "ScanRegex" {
						scans = true
					}
				}
			})
			if !scans {
				continue
			}
			n++
			var compileBlk *ssa.BasicBlock
			var compiled ssa.Value
			allInstrs(fn, func(in ssa.Instruction) {
				call, ok := in.(*ssa.Call)
				if !ok {
					return
				}
				if fo := calleeObj(call); fo != nil && funcFullName(fo) == "regexp.Compile" && len(call.Call.Args) == 1 {
					if inner, ok := call.Call.Args[0].(*ssa.Call); ok {
						if io := calleeObj(inner); io != nil && io.Name() == "AddRegexFlags" && len(inner.Call.Args) == 1 {
							compileBlk, compiled = in.Block(), inner.Call.Args[0]
						}
					}
				}
			})
			good := compileBlk != nil
			for _, b := range fn.Blocks {
				if len(b.Instrs) == 0 {
					continue
				}
				ret, ok := b.Instrs[len(b.Instrs)-1].(*ssa.Return)
				if !ok {
					continue
				}
				if compileBlk == nil || !compileBlk.Dominates(b) {
					good = false
				}
				if len(ret.Results) == 1 && compiled != nil && ret.Results[0] != compiled {
					good = false
				}
			}
			c.check(good, "must-side:regexIndex:parser-validates:"+fn.Name(), fn.Pos(), "every regex literal the parser hands on was compiled (with the compiler's flags) before, on every path", fnKey(fn)+" can return a regex literal's text without having compiled it with regexp.Compile(AddRegexFlags(text)): the compiler's regexp.MustCompile of the same text then panics, and that panic is not a parse error (it escapes ParseProgram)")
		}
		c.atLeast("parser functions that scan a regex literal", n, 1)
	}
	// (1) the function that hands over to Lexer.ScanRegex (nextRegex) is reached only when the current token is DIV or
	// DIV_ASSIGN: every parser function that calls it is run from its entry once per token (gramssa.go) and the
	// token current at the call is recorded - however the guard is written (case list, matches(...), a predicate
	// function, a table)
	pp := c.pkg("parser")
	nNR := 0
	if g := newGssa(c); g == nil {
		c.undecided("precondition:nextRegex", token.NoPos, "package parser is not resolvable for the per-token evaluation")
	} else {
		// by role: the parser functions that call the lexer's ScanRegex
		var targets []*ssa.Function
		for _, fn := range c.srcFuncs("parser") {
			fn := fn
			allInstrs(fn, func(in ssa.Instruction) {
				if ci, ok := in.(ssa.CallInstruction); ok {
					if cal := ci.Common().StaticCallee(); cal != nil && cal.Name() == "ScanRegex" && cal.Pkg != nil && cal.Pkg.Pkg.Path() == modPath+"/lexer" {
						for _, t := range targets {
							if t == fn {
								return
							}
						}
						targets = append(targets, fn)
					}
				}
			})
		}
		for _, target := range targets {
			at := g.tokensAtCalls(target)
			var hosts []*ssa.Function
			for h := range at {
				hosts = append(hosts, h)
			}
			sort.Slice(hosts, func(i, j int) bool { return fnKey(hosts[i]) < fnKey(hosts[j]) })
			for _, h := range hosts {
				toks := at[h]
				if len(toks) == 0 {
					continue // the call is not reachable under any token
				}
				nNR++
				guard := true
				for _, t := range toks {
					if t != "DIV" && t != "DIV_ASSIGN" {
						guard = false
					}
				}
				k := strings.ReplaceAll(fnKey(h), "(*", "")
				k = strings.ReplaceAll(k, ")", "")
				c.check(guard, "precondition:nextRegex:"+k, h.Pos(), fmt.Sprintf("%s (hence Lexer.ScanRegex) is called only when the token is DIV or DIV_ASSIGN (tokens at the call: %v)", target.Name(), toks), fmt.Sprintf("%s is called while the current token can be %v, not only DIV/DIV_ASSIGN: Lexer.ScanRegex panics", target.Name(), toks))
			}
		}
	}
	_ = pp
	c.atLeast("nextRegex call sites", nNR, 2)
	// (2) PrintStmt/PrintfStmt.Redirect is assigned only from tokens GREATER/APPEND/PIPE
	for _, fd := range c.allFuncDecls("parser") {
		if fd.Body == nil {
			continue
		}
		ast.Inspect(fd.Body, func(n ast.Node) bool {
			cl, ok := n.(*ast.CompositeLit)
			if !ok {
				return true
			}
			tn := named(pp.TypesInfo.TypeOf(cl))
			if tn == nil || (tn.Obj().Name() != "PrintStmt" && tn.Obj().Name() != "PrintfStmt") {
				return true
			}
			for _, el := range cl.Elts {
				kv, ok := el.(*ast.KeyValueExpr)
				if !ok || !isIdent(kv.Key, "Redirect") {
					continue
				}
				// value must be a variable assigned p.tok under p.matches(GREATER, APPEND, PIPE), initial ILLEGAL
				okSrc := false
				if id, ok := kv.Value.(*ast.Ident); ok {
					obj := pp.TypesInfo.Uses[id]
					good, bad := 0, 0
					ast.Inspect(fd.Body, func(m ast.Node) bool {
						is, ok := m.(*ast.IfStmt)
						if ok {
							if mc, ok := is.Cond.(*ast.CallExpr); ok {
								if ms, ok := mc.Fun.(*ast.SelectorExpr); ok && ms.Sel.Name == "matches" {
									set := map[string]bool{}
									for _, a := range mc.Args {
										set[constName(pp.TypesInfo, a)] = true
									}
									allowed := true
									for t := range set {
										if t != "GREATER" && t != "APPEND" && t != "PIPE" {
											allowed = false
										}
									}
									ast.Inspect(is.Body, func(q ast.Node) bool {
										if as, ok := q.(*ast.AssignStmt); ok && len(as.Lhs) == 1 {
											if lid, ok := as.Lhs[0].(*ast.Ident); ok && pp.TypesInfo.Uses[lid] == obj {
												if allowed {
													good++
												} else {
													bad++
												}
											}
										}
										return true
									})
								}
							}
						}
						return true
					})
					okSrc = good > 0 && bad == 0
				}
				c.check(okSrc, "redirect-source:"+tn.Obj().Name(), kv.Pos(), tn.Obj().Name()+".Redirect is assigned only under p.matches(GREATER, APPEND, PIPE)", tn.Obj().Name()+".Redirect can hold a token other than GREATER/APPEND/PIPE: getOutputStream's default clause panics")
			}
			return true
		})
	}

	// Must* calls with non-constant arguments, unchecked type assertions (SSA)
	nMust, nAssert := 0, 0
	for _, short := range []string{"lexer", "parser", "internal/ast", "internal/resolver", "internal/compiler", "interp"} {
		for _, fn := range c.srcFuncs(short) {
			fn := fn
			allInstrs(fn, func(in ssa.Instruction) {
				switch x := in.(type) {
				case ssa.CallInstruction:
					callee := x.Common().StaticCallee()
					if callee == nil || !strings.HasPrefix(callee.Name(), "Must") || callee.Pkg == nil || strings.HasPrefix(callee.Pkg.Pkg.Path(), modPath) {
						return
					}
					if fn.Name() == "init" {
						return // package-level constant patterns, evaluated once at start-up
					}
					allConst := true
					for _, a := range x.Common().Args {
						if _, ok := a.(*ssa.Const); !ok {
							allConst = false
						}
					}
					if allConst {
						return
					}
					nMust++
					k := strings.ReplaceAll(fnKey(fn), "(*", "")
					k = strings.ReplaceAll(k, ")", "")
					key := "must:" + k + ":" + callee.Pkg.Pkg.Name() + "." + callee.Name()
					if why, ok := mustTable[k+":"+callee.Pkg.Pkg.Name()+"."+callee.Name()]; ok {
						if k == "interp.interp.setSpecial" && !dominatedByOneRune(in) {
							c.bad(key, in.Pos(), "MustCompile in setSpecial is tabled as safe only under `utf8.RuneCountInString(RS) == 1`, but that test no longer dominates it")
						} else {
							c.ok(key, in.Pos(), "tabled: %s", why)
						}
					} else if why, ok := mustTabledThroughCallers(c, short, fn, callee.Pkg.Pkg.Name()+"."+callee.Name(), 0); ok {
						// a helper that only tabled functions call (the call moved into a function of its own)
						c.ok(key, in.Pos(), "tabled through its only caller(s): %s", why)
					} else if callee.Name() == "MustCompile" && callee.Pkg.Pkg.Path() == "regexp" && quoteMetaOfOneRune(in, x.Common().Args[0]) {
						// the same argument by role, wherever the code sits: the pattern is QuoteMeta(s) and the call is
						// dominated by utf8.RuneCountInString(s) == 1 for the same s
						c.ok(key, in.Pos(), "by role: the pattern is regexp.QuoteMeta(s) of a string s that the dominating test utf8.RuneCountInString(s) == 1 shows to be one valid rune, which is a valid pattern")
					} else {
						c.bad(key, in.Pos(), "%s.%s is called with a run-time value: it panics when the value is invalid (e.g. a script-controlled string that is not a valid regular expression / not valid UTF-8)", callee.Pkg.Pkg.Name(), callee.Name())
					}
				case *ssa.TypeAssert:
					if x.CommaOk {
						return
					}
					if _, isIface := x.AssertedType.Underlying().(*types.Interface); isIface && !isNamed(x.AssertedType, "", "error") {
						if types.TypeString(x.AssertedType, nil) != "error" {
							return
						}
					}
					nAssert++
					k := strings.ReplaceAll(fnKey(fn), "(*", "")
					k = strings.ReplaceAll(k, ")", "")
					tn := types.TypeString(x.AssertedType, func(*types.Package) string { return "" })
					key := "assert:" + k + ":" + tn
					if why, ok := assertTable[k+":"+tn]; ok {
						c.ok(key, x.Pos(), "tabled: %s", why)
					} else if role := assertRole(x); role != "" && assertTable[role] != "" && strings.HasPrefix(k, "interp.") {
						c.ok(key, x.Pos(), "tabled by role %s: %s", role, assertTable[role])
					} else if why, ok := tabledThroughCallers(c, assertTable, short, fn, tn, 0); ok {
						c.ok(key, x.Pos(), "tabled through its only callers: %s", why)
					} else {
						c.bad(key, x.Pos(), "unchecked type assertion to %s in %s panics if the dynamic type differs and is not tabled with an argument why it cannot", tn, k)
					}
				}
			})
		}
	}
	c.stat("must-calls", nMust)
	c.atLeast("unchecked type assertions", nAssert, 4)

	// callers of the panicking resolver API must have a recover on the stack
	res := c.ssaFunc("internal/resolver", "Resolve")
	if res == nil {
		c.undecided("anchor:Resolve", token.NoPos, "resolver.Resolve not found")
	} else {
		node := c.callgraph().Nodes[res]
		nCallers := 0
		if node != nil {
			for _, e := range node.In {
				caller := e.Caller.Func
				if caller.Pkg == nil || !strings.HasPrefix(caller.Pkg.Pkg.Path(), modPath) {
					continue
				}
				nCallers++
				has := false
				allInstrs(caller, func(in ssa.Instruction) {
					if d, ok := in.(*ssa.Defer); ok {
						if mc, ok := d.Call.Value.(*ssa.MakeClosure); ok {
							allInstrs(mc.Fn.(*ssa.Function), func(i2 ssa.Instruction) {
								if call, ok := i2.(ssa.CallInstruction); ok {
									if b, ok := call.Common().Value.(*ssa.Builtin); ok && b.Name() == "recover" {
										has = true
									}
								}
							})
						} else if f, ok := d.Call.Value.(*ssa.Function); ok {
							allInstrs(f, func(i2 ssa.Instruction) {
								if call, ok := i2.(ssa.CallInstruction); ok {
									if b, ok := call.Common().Value.(*ssa.Builtin); ok && b.Name() == "recover" {
										has = true
									}
								}
							})
						}
					}
				})
				key := "recover:" + fnKey(caller) + "->Resolve"
				c.check(has, key, e.Site.Pos(), fnKey(caller)+" calls resolver.Resolve under a deferred recover", fnKey(caller)+" calls resolver.Resolve (which reports errors by panicking) with no recover: a resolver error crashes the process")
			}
		}
		c.atLeast("callers of resolver.Resolve", nCallers, 1)
	}

	// CLI: indexing the source by the reported position must be bounds-guarded. The Line and Column of a
	// lexer.Position are followed through arithmetic with constants and through the parameters of the functions of
	// package main they are handed to; wherever such a value (or one derived from it) is an index or a slice bound,
	// a comparison of a value derived from the same field with a length dominates the use.
	cliIndexGuarded(c)
}

// dominatedByOneRune: the instruction is reached only through the true edge of `RuneCountInString(x) == 1`.
func dominatedByOneRune(in ssa.Instruction) bool {
	blk := in.Block()
	for _, b := range blk.Parent().Blocks {
		if len(b.Instrs) == 0 {
			continue
		}
		ifi, ok := b.Instrs[len(b.Instrs)-1].(*ssa.If)
		if !ok {
			continue
		}
		bo, ok := ifi.Cond.(*ssa.BinOp)
		if !ok || bo.Op != token.EQL {
			continue
		}
		call, ok := bo.X.(*ssa.Call)
		if !ok || call.Call.StaticCallee() == nil || call.Call.StaticCallee().Name() != "RuneCountInString" {
			continue
		}
		if k, ok := bo.Y.(*ssa.Const); !ok || k.Value == nil || k.Value.ExactString() != "1" {
			continue
		}
		if b.Dominates(blk) && !reachableAvoiding(b.Succs[1], b)[blk] {
			return true
		}
	}
	return false
}

// quoteMetaOfOneRune: pat is regexp.QuoteMeta(s) and the instruction is dominated by the true edge of
// utf8.RuneCountInString(s) == 1 for the same value s.
func quoteMetaOfOneRune(in ssa.Instruction, pat ssa.Value) bool {
	qm, ok := pat.(*ssa.Call)
	if !ok || qm.Call.StaticCallee() == nil || qm.Call.StaticCallee().Name() != "QuoteMeta" || len(qm.Call.Args) != 1 {
		return false
	}
	subject := qm.Call.Args[0]
	blk := in.Block()
	for _, b := range blk.Parent().Blocks {
		if len(b.Instrs) == 0 {
			continue
		}
		ifi, ok := b.Instrs[len(b.Instrs)-1].(*ssa.If)
		if !ok {
			continue
		}
		bo, ok := ifi.Cond.(*ssa.BinOp)
		if !ok || bo.Op != token.EQL {
			continue
		}
		call, ok := bo.X.(*ssa.Call)
		if !ok || call.Call.StaticCallee() == nil || call.Call.StaticCallee().Name() != "RuneCountInString" || len(call.Call.Args) != 1 || call.Call.Args[0] != subject {
			continue
		}
		if k, ok := bo.Y.(*ssa.Const); !ok || k.Value == nil || k.Value.ExactString() != "1" {
			continue
		}
		if b.Dominates(blk) && !reachableAvoiding(b.Succs[1], b)[blk] {
			return true
		}
	}
	return false
}

// mustTabledThroughCallers: every static caller of fn (there is at least one, and fn is not used as a value) is in the
// table of accepted Must* sites for the same callee - directly or, again, through its own callers.
func mustTabledThroughCallers(c *Ctx, short string, fn *ssa.Function, what string, depth int) (string, bool) {
	return tabledThroughCallers(c, mustTable, short, fn, what, depth)
}

func tabledThroughCallers(c *Ctx, table map[string]string, short string, fn *ssa.Function, what string, depth int) (string, bool) {
	if depth > 2 || fn == nil {
		return "", false
	}
	var callers []*ssa.Function
	escaped := false
	for _, g := range c.srcFuncs(short) {
		g := g
		allInstrs(g, func(in ssa.Instruction) {
			if ci, ok := in.(ssa.CallInstruction); ok && ci.Common().StaticCallee() == fn {
				callers = append(callers, g)
				return
			}
			for _, op := range in.Operands(nil) {
				if *op == ssa.Value(fn) {
					if _, isCall := in.(ssa.CallInstruction); isCall {
						callers = append(callers, g) // handed to a callee as the function to apply: g decides that it runs
					} else {
						escaped = true
					}
				}
			}
		})
	}
	if escaped || len(callers) == 0 {
		return "", false
	}
	reason := ""
	for _, g := range callers {
		if g == fn {
			continue
		}
		k := strings.ReplaceAll(fnKey(g), "(*", "")
		k = strings.ReplaceAll(k, ")", "")
		if why, ok := table[k+":"+what]; ok {
			if k == "interp.interp.setSpecial" {
				return "", false // that entry has a side condition on the call site itself
			}
			reason = why
			continue
		}
		why, ok := tabledThroughCallers(c, table, short, g, what, depth+1)
		if !ok {
			return "", false
		}
		reason = why
	}
	return reason, reason != ""
}

func cliIndexGuarded(c *Ctx) {
	fns := c.srcFuncs("main")
	if len(fns) == 0 {
		c.undecided("anchor:showSourceLine", token.NoPos, "package main not loaded")
		return
	}
	// taint: value -> "pos.Line" / "pos.Column"
	taint := map[ssa.Value]string{}
	isPosField := func(v ssa.Value) string {
		switch x := v.(type) {
		case *ssa.Field:
			if isNamed(x.X.Type(), modPath+"/lexer", "Position") {
				return "pos." + fieldNameOf(x.X.Type(), x.Field)
			}
		case *ssa.UnOp:
			if x.Op == token.MUL {
				if f, base := fieldOfAddr(x.X); f != nil && isNamed(deref(base.Type()), modPath+"/lexer", "Position") {
					return "pos." + f.Name()
				}
			}
		}
		return ""
	}
	changed := true
	for round := 0; changed && round < 6; round++ {
		changed = false
		for _, fn := range fns {
			fn := fn
			allInstrs(fn, func(in ssa.Instruction) {
				v, ok := in.(ssa.Value)
				if ok && taint[v] == "" {
					if f := isPosField(v); f == "pos.Line" || f == "pos.Column" {
						taint[v] = f
						changed = true
					}
					switch x := v.(type) {
					case *ssa.BinOp:
						if (x.Op == token.ADD || x.Op == token.SUB) && (taint[x.X] != "" || taint[x.Y] != "") {
							taint[v] = taint[x.X] + taint[x.Y]
							changed = true
						}
					case *ssa.Convert:
						if taint[x.X] != "" {
							taint[v] = taint[x.X]
							changed = true
						}
					case *ssa.Phi:
						for _, e := range x.Edges {
							if taint[e] != "" && taint[v] == "" {
								taint[v] = taint[e]
								changed = true
							}
						}
					}
				}
				if call, ok := in.(ssa.CallInstruction); ok {
					if g := call.Common().StaticCallee(); g != nil && g.Pkg == fn.Pkg && len(g.Blocks) > 0 {
						for i, a := range call.Common().Args {
							if taint[a] != "" && i < len(g.Params) && taint[g.Params[i]] == "" {
								taint[g.Params[i]] = taint[a]
								changed = true
							}
						}
					}
				}
			})
		}
	}
	n := 0
	for _, fn := range fns {
		fn := fn
		k := map[string]int{}
		allInstrs(fn, func(in ssa.Instruction) {
			var uses []ssa.Value
			var base ssa.Value // the sequence that is indexed or sliced: the guarding comparison must measure this very value
			what := ""
			switch x := in.(type) {
			case *ssa.IndexAddr:
				uses, what, base = []ssa.Value{x.Index}, "an index", x.X
			case *ssa.Index:
				uses, what, base = []ssa.Value{x.Index}, "an index", x.X
			case *ssa.Slice:
				uses, what, base = []ssa.Value{x.Low, x.High}, "a slice bound", x.X
			}
			// identity modulo representation changes that keep the length (type changes, string<->[]byte conversions)
			var strip func(v ssa.Value) ssa.Value
			strip = func(v ssa.Value) ssa.Value {
				switch y := v.(type) {
				case *ssa.ChangeType:
					return strip(y.X)
				case *ssa.Convert:
					return strip(y.X)
				}
				return v
			}
			for _, u := range uses {
				if u == nil || taint[u] == "" {
					continue
				}
				fld := taint[u]
				n++
				k[fld]++
				key := "cli-index:" + fld
				if fn.Name() != "showSourceLine" {
					key += ":" + fn.Name()
				}
				if k[fld] > 1 {
					key += "#" + itoa(int64(k[fld]))
				}
				guarded := false
				for _, d := range fn.Blocks {
					if len(d.Instrs) == 0 || !d.Dominates(in.Block()) {
						continue
					}
					iff, ok := d.Instrs[len(d.Instrs)-1].(*ssa.If)
					if !ok {
						continue
					}
					var hasT, hasLen bool
					seen := map[ssa.Value]bool{}
					var walk func(v ssa.Value, depth int)
					walk = func(v ssa.Value, depth int) {
						if v == nil || seen[v] || depth > 6 {
							return
						}
						seen[v] = true
						if taint[v] == fld {
							hasT = true
						}
						switch x := v.(type) {
						case *ssa.BinOp:
							walk(x.X, depth+1)
							walk(x.Y, depth+1)
						case *ssa.UnOp:
							walk(x.X, depth+1)
						case *ssa.Convert:
							walk(x.X, depth+1)
						case *ssa.Phi:
							for _, e := range x.Edges {
								walk(e, depth+1)
							}
						case *ssa.Call:
							if b, ok := x.Call.Value.(*ssa.Builtin); ok && b.Name() == "len" && len(x.Call.Args) == 1 {
								// the length compared with must be the length of the value that is indexed: a length
								// taken before the sequence was shortened (trimmed, re-sliced) guards nothing
								if base != nil && strip(x.Call.Args[0]) == strip(base) {
									hasLen = true
								}
							}
						}
					}
					walk(iff.Cond, 0)
					if hasT && hasLen {
						guarded = true
					}
				}
				c.check(guarded, key, in.Pos(), what+" derived from "+fld+" is preceded by a comparison of "+fld+" with the length of the very value that is indexed", fnKey(fn)+" uses a value derived from "+fld+" of the reported error as "+what+" without a dominating comparison with a length: a position outside the source makes the CLI panic instead of printing the error")
			}
		})
	}
	if n == 0 {
		c.undecided("anchor:showSourceLine", token.NoPos, "no index or slice bound derived from the position of a reported error was found in package main")
	}
}
