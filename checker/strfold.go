package main

import (
	"go/types"
	"regexp"
	"strings"
	"unicode/utf8"

	"golang.org/x/tools/go/ssa"
)

// foldStringCall: a standard-library function applied to concrete strings (representative values run through the code
// under analysis) is computed; the result of compiling a regular expression is the symbol "regex" (non-nil) with a nil
// error, or nil with the symbol "error", according to whether the concrete pattern compiles.
func foldStringCall(callee *ssa.Function, args []iv) (iv, bool) {
	if callee == nil || callee.Pkg == nil {
		// methods of library types have a package too; synthetic wrappers do not
		if callee == nil || callee.Object() == nil || callee.Object().Pkg() == nil {
			return iv{}, false
		}
	}
	name := callee.String()
	str := func(i int) (string, bool) {
		if i < len(args) && args[i].k == 'S' {
			return args[i].s, true
		}
		return "", false
	}
	switch name {
	case "unicode/utf8.RuneCountInString":
		if s, ok := str(0); ok {
			return ivInt(int64(utf8.RuneCountInString(s))), true
		}
	case "unicode/utf8.ValidString":
		if s, ok := str(0); ok {
			return ivBool(utf8.ValidString(s)), true
		}
	case "regexp.QuoteMeta":
		if s, ok := str(0); ok {
			return iv{k: 'S', s: regexp.QuoteMeta(s)}, true
		}
	case "regexp.Compile":
		if s, ok := str(0); ok {
			if _, err := regexp.Compile(s); err != nil {
				return ivTuple(iv{k: 'n'}, ivSym("error")), true
			}
			return ivTuple(ivSym("regex"), iv{k: 'n'}), true
		}
	case "regexp.MustCompile":
		if s, ok := str(0); ok {
			if _, err := regexp.Compile(s); err == nil {
				return ivSym("regex"), true
			}
		}
	case "(*regexp.Regexp).Longest":
		return iv{}, true
	case "strings.HasPrefix":
		if a, ok := str(0); ok {
			if b, ok := str(1); ok {
				return ivBool(strings.HasPrefix(a, b)), true
			}
		}
	case "strings.HasSuffix":
		if a, ok := str(0); ok {
			if b, ok := str(1); ok {
				return ivBool(strings.HasSuffix(a, b)), true
			}
		}
	case "strings.IndexByte", "strings.IndexRune":
		if a, ok := str(0); ok && len(args) > 1 && args[1].k == 'i' {
			if name == "strings.IndexByte" {
				return ivInt(int64(strings.IndexByte(a, byte(args[1].i)))), true
			}
			return ivInt(int64(strings.IndexRune(a, rune(args[1].i)))), true
		}
	case "strings.ContainsRune":
		if a, ok := str(0); ok && len(args) > 1 && args[1].k == 'i' {
			return ivBool(strings.ContainsRune(a, rune(args[1].i))), true
		}
	case "strings.Contains":
		if a, ok := str(0); ok {
			if b, ok := str(1); ok {
				return ivBool(strings.Contains(a, b)), true
			}
		}
	}
	return iv{}, false
}

func isByteSlice(t types.Type) bool {
	sl, ok := t.Underlying().(*types.Slice)
	if !ok {
		return false
	}
	b, ok := sl.Elem().Underlying().(*types.Basic)
	return ok && b.Kind() == types.Uint8
}
