package main

import (
	"go/constant"
	"go/token"
	"go/types"
	"sort"
	"strings"

	"golang.org/x/tools/go/ssa"
)

// named returns the *types.Named behind t (through one pointer), or nil.
func named(t types.Type) *types.Named {
	if p, ok := t.(*types.Pointer); ok {
		t = p.Elem()
	}
	n, _ := t.(*types.Named)
	return n
}

func isNamed(t types.Type, pkgPath, name string) bool {
	n := named(t)
	return n != nil && n.Obj().Name() == name && n.Obj().Pkg() != nil && n.Obj().Pkg().Path() == pkgPath
}

// isInterp: the interpreter struct, or a component of it: a struct type of package interp that is embedded in struct
// interp, or an unexported one that is the type of exactly one of its fields (state of the interpreter moved into a
// struct of its own, such as an evaluation stack, is still state of the interpreter: p.part.f is treated like p.f).
func isInterp(t types.Type) bool {
	if isNamed(t, modPath+"/interp", "interp") {
		return true
	}
	n := named(t)
	if n == nil || n.Obj().Pkg() == nil || n.Obj().Pkg().Path() != modPath+"/interp" {
		return false
	}
	if v, ok := interpComponentMemo[n]; ok {
		return v
	}
	res := false
	if _, isStruct := n.Underlying().(*types.Struct); isStruct {
		if io, ok := n.Obj().Pkg().Scope().Lookup("interp").(*types.TypeName); ok {
			if st, ok := io.Type().Underlying().(*types.Struct); ok {
				count, embedded := 0, false
				for i := 0; i < st.NumFields(); i++ {
					if named(st.Field(i).Type()) == n {
						count++
						if st.Field(i).Embedded() {
							embedded = true
						}
					}
				}
				res = embedded || (count == 1 && !n.Obj().Exported())
			}
		}
	}
	interpComponentMemo[n] = res
	return res
}

var interpComponentMemo = map[*types.Named]bool{}

// fieldOfAddr: v is &X.f  -> (f, X)
func fieldOfAddr(v ssa.Value) (*types.Var, ssa.Value) {
	fa, ok := v.(*ssa.FieldAddr)
	if !ok {
		return nil, nil
	}
	st, ok := deref(fa.X.Type()).Underlying().(*types.Struct)
	if !ok {
		return nil, nil
	}
	return st.Field(fa.Field), fa.X
}

func deref(t types.Type) types.Type {
	if p, ok := t.Underlying().(*types.Pointer); ok {
		return p.Elem()
	}
	return t
}

// loadedField: v is *(&X.f) or X.f -> (f, X)
func loadedField(v ssa.Value) (*types.Var, ssa.Value) {
	switch v := v.(type) {
	case *ssa.UnOp:
		if v.Op == token.MUL {
			return fieldOfAddr(v.X)
		}
	case *ssa.Field:
		st, ok := v.X.Type().Underlying().(*types.Struct)
		if ok {
			return st.Field(v.Field), v.X
		}
	}
	return nil, nil
}

// interpFieldLoad: v loads field `name` of an *interp value.
func interpFieldLoad(v ssa.Value) string {
	f, x := loadedField(v)
	if f != nil && isInterp(x.Type()) {
		return f.Name()
	}
	return ""
}

// interpFieldStore: instr stores into a field of an *interp value; returns field name.
func interpFieldStore(in ssa.Instruction) (string, ssa.Value) {
	st, ok := in.(*ssa.Store)
	if !ok {
		return "", nil
	}
	f, x := fieldOfAddr(st.Addr)
	if f != nil && isInterp(x.Type()) {
		return f.Name(), st.Val
	}
	return "", nil
}

// interpFieldStores: like interpFieldStore, but a store of a whole component struct of the interpreter
// (`p.contextState = newContextState(ctx)`, `p.recordState = recordState{}`) counts as a store of every field of the
// component; zeroed reports that the value stored is the zero value of the component (all its fields are cleared).
func interpFieldStores(in ssa.Instruction) (names []string, val ssa.Value, zeroed bool) {
	st, ok := in.(*ssa.Store)
	if !ok {
		return nil, nil, false
	}
	f, x := fieldOfAddr(st.Addr)
	if f == nil || !isInterp(x.Type()) {
		return nil, nil, false
	}
	if cs, ok := f.Type().Underlying().(*types.Struct); ok && isInterp(f.Type()) {
		var flat func(s *types.Struct, d int)
		flat = func(s *types.Struct, d int) {
			for i := 0; i < s.NumFields(); i++ {
				names = append(names, s.Field(i).Name())
				if inner, ok := s.Field(i).Type().Underlying().(*types.Struct); ok && isInterp(s.Field(i).Type()) && d < 3 {
					flat(inner, d+1)
				}
			}
		}
		names = append(names, f.Name())
		flat(cs, 0)
		if k, ok := st.Val.(*ssa.Const); ok && k.Value == nil {
			zeroed = true
		}
		return names, st.Val, zeroed
	}
	return []string{f.Name()}, st.Val, false
}

func reachableFrom(b *ssa.BasicBlock) map[*ssa.BasicBlock]bool {
	seen := map[*ssa.BasicBlock]bool{}
	var walk func(x *ssa.BasicBlock)
	walk = func(x *ssa.BasicBlock) {
		if seen[x] {
			return
		}
		seen[x] = true
		for _, s := range x.Succs {
			walk(s)
		}
	}
	walk(b)
	return seen
}

// reachableAvoiding: blocks reachable from `from` without passing through `avoid`.
func reachableAvoiding(from, avoid *ssa.BasicBlock) map[*ssa.BasicBlock]bool {
	seen := map[*ssa.BasicBlock]bool{}
	var walk func(x *ssa.BasicBlock)
	walk = func(x *ssa.BasicBlock) {
		if seen[x] || x == avoid {
			return
		}
		seen[x] = true
		for _, s := range x.Succs {
			walk(s)
		}
	}
	walk(from)
	return seen
}

// condField analyses an If condition: is it (a possibly negated) load of an interp
// field? Returns field name and whether the true branch is the "field is true" branch.
func condField(v ssa.Value) (string, bool) {
	pos := true
	for {
		if u, ok := v.(*ssa.UnOp); ok && u.Op == token.NOT {
			pos = !pos
			v = u.X
			continue
		}
		break
	}
	if n := interpFieldLoad(v); n != "" {
		return n, pos
	}
	return "", false
}

func isNilConst(v ssa.Value) bool {
	c, ok := v.(*ssa.Const)
	return ok && c.Value == nil
}

// returnsNonNilError: every Return reachable from b has a non-nil-constant last result.
func returnsOnlyErrors(b *ssa.BasicBlock) (bool, int) {
	n := 0
	for blk := range reachableFrom(b) {
		if len(blk.Instrs) == 0 {
			continue
		}
		switch last := blk.Instrs[len(blk.Instrs)-1].(type) {
		case *ssa.Return:
			n++
			if len(last.Results) == 0 {
				return false, n
			}
			rr := retResults(last)
			r := rr[len(rr)-1]
			if isNilConst(r) {
				return false, n
			}
			if _, isPhi := r.(*ssa.Phi); isPhi {
				for _, e := range r.(*ssa.Phi).Edges {
					if isNilConst(e) {
						return false, n
					}
				}
			}
		case *ssa.Panic:
			n++
		}
	}
	return n > 0, n
}

// guardedLocally: is instruction `sink` in fn protected by `if p.<flag> { return err }`?
// Accepts: a block B ending in If on the flag, whose denied successor reaches only
// error returns and cannot reach the sink's block, and B dominates the sink's block.
func guardedLocally(sink ssa.Instruction, flag string) (bool, string) {
	sb := sink.Block()
	fn := sb.Parent()
	for _, b := range fn.Blocks {
		if len(b.Instrs) == 0 {
			continue
		}
		ifi, ok := b.Instrs[len(b.Instrs)-1].(*ssa.If)
		if !ok {
			continue
		}
		name, pos := condField(ifi.Cond)
		if name != flag {
			continue
		}
		denied, allowed := b.Succs[0], b.Succs[1]
		if !pos {
			denied, allowed = allowed, denied
		}
		if !b.Dominates(sb) {
			continue
		}
		if reachableFrom(denied)[sb] {
			continue
		}
		okErr, _ := returnsOnlyErrors(denied)
		if !okErr {
			continue
		}
		_ = allowed
		return true, fn.Name()
	}
	return false, ""
}

// guarded: locally or, transitively, at every call site of the enclosing function.
func (c *Ctx) guarded(sink ssa.Instruction, flag string, depth int, visiting map[*ssa.Function]bool) (bool, string) {
	if ok, where := guardedLocally(sink, flag); ok {
		return true, "guard `if p." + flag + " { return error }` in " + where + " dominates it"
	}
	fn := sink.Parent()
	if fn.Parent() != nil {
		// closure: treat the MakeClosure site's function as the caller context
		return false, "sink inside a closure of " + fn.Parent().Name() + " without a local guard"
	}
	if visiting[fn] || depth > 6 {
		return false, "recursive/too deep caller chain at " + fn.Name()
	}
	visiting[fn] = true
	defer delete(visiting, fn)
	node := c.callgraph().Nodes[fn]
	if node == nil || len(node.In) == 0 {
		return false, "no local guard in " + fn.Name() + " and it has no callers to guard it"
	}
	if fn.Object() != nil && fn.Object().Exported() && fn.Signature.Recv() == nil {
		return false, "exported function " + fn.Name() + " can be called from outside without the guard"
	}
	var via []string
	for _, e := range node.In {
		if e.Caller.Func.Pkg == nil || !strings.HasPrefix(e.Caller.Func.Pkg.Pkg.Path(), modPath) {
			continue
		}
		if e.Caller.Func.Synthetic != "" {
			// wrappers/thunks: follow through
			ok, why := c.guardedFuncEntry(e.Caller.Func, flag, depth+1, visiting)
			if !ok {
				return false, why
			}
			continue
		}
		ok, why := c.guarded(e.Site, flag, depth+1, visiting)
		if !ok {
			return false, "call from " + e.Caller.Func.Name() + " (" + c.relPos(e.Site.Pos()) + ") is not guarded: " + why
		}
		via = append(via, e.Caller.Func.Name())
	}
	sort.Strings(via)
	return true, "no local guard in " + fn.Name() + "; every caller guards the call: " + strings.Join(via, ",")
}

func (c *Ctx) guardedFuncEntry(fn *ssa.Function, flag string, depth int, visiting map[*ssa.Function]bool) (bool, string) {
	node := c.callgraph().Nodes[fn]
	if node == nil || len(node.In) == 0 {
		return false, "synthetic " + fn.Name() + " has no callers"
	}
	for _, e := range node.In {
		ok, why := c.guarded(e.Site, flag, depth+1, visiting)
		if !ok {
			return false, why
		}
	}
	return true, ""
}

// constInts: possible constant integer values of v (through phi and |, +), or nil if unknown.
func constInts(v ssa.Value, depth int) []int64 {
	if depth > 8 {
		return nil
	}
	switch v := v.(type) {
	case *ssa.Const:
		if v.Value != nil && v.Value.Kind() == constant.Int {
			i, _ := constant.Int64Val(v.Value)
			return []int64{i}
		}
	case *ssa.Phi:
		var out []int64
		for _, e := range v.Edges {
			s := constInts(e, depth+1)
			if s == nil {
				return nil
			}
			out = append(out, s...)
		}
		return out
	case *ssa.BinOp:
		xs, ys := constInts(v.X, depth+1), constInts(v.Y, depth+1)
		if xs == nil || ys == nil {
			return nil
		}
		var out []int64
		for _, x := range xs {
			for _, y := range ys {
				switch v.Op {
				case token.OR:
					out = append(out, x|y)
				case token.ADD:
					out = append(out, x+y)
				case token.AND:
					out = append(out, x&y)
				default:
					return nil
				}
			}
		}
		return out
	case *ssa.Convert:
		return constInts(v.X, depth+1)
	case *ssa.ChangeType:
		return constInts(v.X, depth+1)
	case *ssa.Parameter:
		// the union over the arguments at every static call of the function (none known: not decided)
		fn := v.Parent()
		if fn == nil || curCtx == nil || fn.Pkg == nil {
			return nil
		}
		idx := -1
		for i, p := range fn.Params {
			if p == v {
				idx = i
			}
		}
		if idx < 0 {
			return nil
		}
		var out []int64
		sites := 0
		for _, caller := range curCtx.srcFuncs(strings.TrimPrefix(strings.TrimPrefix(fn.Pkg.Pkg.Path(), modPath), "/")) {
			for _, b := range caller.Blocks {
				for _, in := range b.Instrs {
					ci, ok := in.(ssa.CallInstruction)
					if !ok || ci.Common().StaticCallee() != fn || idx >= len(ci.Common().Args) {
						continue
					}
					sites++
					s := constInts(ci.Common().Args[idx], depth+2)
					if s == nil {
						return nil
					}
					out = append(out, s...)
				}
			}
		}
		if sites == 0 {
			return nil
		}
		return out
	case *ssa.Extract:
		if lk, ok := v.Tuple.(*ssa.Lookup); ok && v.Index == 0 {
			return constTableValues(lk, false)
		}
		return nil
	case *ssa.Lookup:
		return constTableValues(v, !v.CommaOk)
	case *ssa.Call:
		// a helper that computes the constant: the union over its returns
		cal := v.Call.StaticCallee()
		if cal == nil || len(cal.Blocks) == 0 || cal.Signature.Results().Len() != 1 {
			return nil
		}
		var out []int64
		for _, b := range cal.Blocks {
			if len(b.Instrs) == 0 {
				continue
			}
			if ret, ok := b.Instrs[len(b.Instrs)-1].(*ssa.Return); ok && len(ret.Results) == 1 {
				s := constInts(ret.Results[0], depth+2)
				if s == nil {
					return nil
				}
				out = append(out, s...)
			}
		}
		return out
	}
	return nil
}

// calleeObj: the types.Func statically called by a call instruction, or nil.
func calleeObj(call ssa.CallInstruction) *types.Func {
	cc := call.Common()
	if cc.IsInvoke() {
		return cc.Method
	}
	if f := cc.StaticCallee(); f != nil {
		if o, ok := f.Object().(*types.Func); ok {
			return o
		}
	}
	return nil
}

func funcFullName(f *types.Func) string {
	if f == nil {
		return ""
	}
	return f.FullName()
}

// allInstrs iterates the instructions of fn.
func allInstrs(fn *ssa.Function, visit func(ssa.Instruction)) {
	for _, b := range fn.Blocks {
		for _, in := range b.Instrs {
			visit(in)
		}
	}
}

func fnKey(fn *ssa.Function) string {
	if fn == nil {
		return "?"
	}
	s := fn.String()
	s = strings.ReplaceAll(s, modPath+"/", "")
	s = strings.ReplaceAll(s, modPath, "main")
	return s
}

// retResults resolves the operands of a Return through go/ssa's defer spilling: in a function with
// defers the results are stored to local cells, `rundefers` runs, and the cells are re-loaded.
func retResults(ret *ssa.Return) []ssa.Value {
	out := make([]ssa.Value, len(ret.Results))
	for i, r := range ret.Results {
		out[i] = r
		u, ok := r.(*ssa.UnOp)
		if !ok || u.Op != token.MUL {
			continue
		}
		cell, ok := u.X.(*ssa.Alloc)
		if !ok {
			continue
		}
		// last store to the cell in the same block before the load
		for _, in := range ret.Block().Instrs {
			if in == ssa.Instruction(u) {
				break
			}
			if st, ok := in.(*ssa.Store); ok && st.Addr == cell {
				out[i] = st.Val
			}
		}
	}
	return out
}

// fieldNameOf: name of field i of the struct type t (or of the struct t points to).
func fieldNameOf(t types.Type, i int) string {
	st, ok := deref(t).Underlying().(*types.Struct)
	if !ok || i < 0 || i >= st.NumFields() {
		return ""
	}
	return st.Field(i).Name()
}

// posOr: p, or fallback when p is not a valid position (synthetic instructions carry none). A position used as an
// "is there a violation" flag must never be NoPos.
func posOr(p, fallback token.Pos) token.Pos {
	if p != token.NoPos {
		return p
	}
	if fallback != token.NoPos {
		return fallback
	}
	return token.Pos(1)
}

// exclusiveRegion: root plus the functions of its package that are reached only from it: every static call of such a
// function lies in the region and the function is never used as a value. A clause of root moved out into a helper
// of its own is still part of the region.
func (c *Ctx) exclusiveRegion(pkgShort string, root *ssa.Function) map[*ssa.Function]bool {
	region := map[*ssa.Function]bool{}
	if root == nil {
		return region
	}
	key := "exclusiveRegion:" + fnKey(root)
	if r, ok := c.memo[key].(map[*ssa.Function]bool); ok {
		return r
	}
	region[root] = true
	fns := c.srcFuncs(pkgShort)
	callers := map[*ssa.Function]map[*ssa.Function]bool{}
	escapes := map[*ssa.Function]bool{}
	for _, fn := range fns {
		fn := fn
		allInstrs(fn, func(in ssa.Instruction) {
			var callee *ssa.Function
			if ci, ok := in.(ssa.CallInstruction); ok {
				callee = ci.Common().StaticCallee()
				if callee != nil {
					if callers[callee] == nil {
						callers[callee] = map[*ssa.Function]bool{}
					}
					callers[callee][fn] = true
				}
			}
			for _, op := range in.Operands(nil) {
				if g, ok := (*op).(*ssa.Function); ok && g != callee {
					escapes[g] = true
				}
				if mc, ok := (*op).(*ssa.MakeClosure); ok {
					if g, ok := mc.Fn.(*ssa.Function); ok {
						escapes[g] = true
					}
				}
			}
		})
	}
	for changed := true; changed; {
		changed = false
		for _, fn := range fns {
			if region[fn] || escapes[fn] || len(callers[fn]) == 0 {
				continue
			}
			if fn.Object() != nil && fn.Object().Exported() {
				continue
			}
			all := true
			for cl := range callers[fn] {
				if !region[cl] && cl != fn {
					all = false
				}
			}
			if all {
				region[fn] = true
				changed = true
			}
		}
	}
	c.memo[key] = region
	return region
}

// curCtx: the program under analysis, for the helpers that resolve values across functions.
var curCtx *Ctx

// constTableValues: the values a lookup in a package-level table that is never written can yield (plus the zero value
// when a missing key is not told apart).
func constTableValues(lk *ssa.Lookup, withZero bool) []int64 {
	if curCtx == nil {
		return nil
	}
	ld, ok := lk.X.(*ssa.UnOp)
	if !ok || ld.Op != token.MUL {
		return nil
	}
	g, ok := ld.X.(*ssa.Global)
	if !ok {
		return nil
	}
	ct := curCtx.constTableOf(g.Object())
	if ct == nil || !ct.isMap || len(ct.strs) > 0 || len(ct.ints) == 0 {
		return nil
	}
	if k, ok := lk.Index.(*ssa.Const); ok && k.Value != nil {
		if kv, ok := constant.Int64Val(k.Value); ok {
			if v, found := ct.ints[kv]; found {
				return []int64{v}
			}
			return []int64{0}
		}
	}
	var out []int64
	for _, v := range ct.ints {
		out = append(out, v)
	}
	sort.Slice(out, func(i, j int) bool { return out[i] < out[j] })
	if withZero {
		out = append(out, 0)
	}
	return out
}
