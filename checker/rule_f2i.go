package main

import (
	"go/constant"
	"fmt"
	"go/token"
	"go/types"
	"sort"
	"strings"

	"golang.org/x/tools/go/ssa"
)

// R-F2I (C02, C09, C10, C17): every float->integer conversion in non-test code.

func init() {
	register("R-F2I", "every float->integer conversion (SSA Convert) in the module's non-test code is (a) a round-trip test `x == float64(int(x))`, (b) dominated by such a test or by explicit lower, upper and NaN range guards on the same operand (the saturating helper), or (c) in the table of sites where any result is acceptable, with the reason; an out-of-range conversion is implementation-defined in Go (amd64: MinInt64, arm64: saturates), so any other site makes results of script-controlled numbers platform-dependent and wrong for large values", ruleF2I)
}

// tabled sites: function -> sink -> reason. Any-result-benign or documented truncation.
var f2iTable = map[string]string{
	"(*interp.interp).execute->getField":         "getField(i): every int yields \"\" or an existing field; no allocation, no error",
	"(*interp.interp).execute->store:exitStatus": "exit status: the OS keeps the low 8 bits; an out-of-range expression has no portable meaning in any awk",
	"(*interp.interp).setSpecial":                "NF/ARGC assignment: the converted value is only range-checked (negative / too large both end in an error or are ignored); no allocation before the check",
	"(*interp.interp).nextLine->compare":         "ARGC used as an operand-count bound; ARGC > maxFieldIndex is rejected at assignment, a negative bound just ends the operand walk",
	"(*interp.interp).sprintf->MakeInterface":    "printf %d/%i/%u/%o/%x of a value outside the int64 range: C printf has undefined behaviour there; any digits are acceptable, no crash",
	"(*interp.interp).sprintf->slice-literal":    "printf %c of a number outside the byte/rune range: any character is acceptable, no crash",
	"(*interp.interp).sprintf->EncodeRune":       "printf %c of a number outside the rune range: EncodeRune substitutes U+FFFD, no crash",
	"(*interp.interp).toNative":                  "documented truncation of AWK numbers to the Go parameter's integer kind (Config.Funcs)",
	"internal/cover.dataToInts":                  "coverage counter read from interpreter state that the instrumented program itself incremented by 1 each time; never script-controlled beyond 2^53",
}

func isFloatToInt(cv *ssa.Convert) bool {
	from, fok := cv.X.Type().Underlying().(*types.Basic)
	to, tok := cv.Type().Underlying().(*types.Basic)
	return fok && tok && from.Info()&types.IsFloat != 0 && to.Info()&types.IsInteger != 0
}

// srcKey identifies "the same float operand" structurally.
func srcKey(v ssa.Value, depth int) string {
	if depth > 6 {
		return v.Name()
	}
	switch x := v.(type) {
	case *ssa.UnOp:
		if x.Op == token.MUL {
			return "*" + srcKey(x.X, depth+1)
		}
	case *ssa.FieldAddr:
		if f, _ := fieldOfAddr(x); f != nil {
			return srcKey(x.X, depth+1) + "." + f.Name()
		}
	case *ssa.IndexAddr:
		return srcKey(x.X, depth+1) + "[" + srcKey(x.Index, depth+1) + "]"
	case *ssa.Const:
		if x.Value != nil {
			return x.Value.ExactString()
		}
		return "nil"
	case *ssa.Field:
		return srcKey(x.X, depth+1) + ".#" + fmt.Sprint(x.Field)
	case *ssa.Parameter:
		return "param:" + x.Name()
	case *ssa.Call:
		if f := x.Call.StaticCallee(); f != nil {
			var as []string
			for _, a := range x.Call.Args {
				as = append(as, srcKey(a, depth+1))
			}
			return f.Name() + "(" + strings.Join(as, ",") + ")"
		}
	case *ssa.Extract:
		return fmt.Sprintf("extract(%s,%d)", x.Tuple.Name(), x.Index)
	}
	return v.Name()
}

// roundTripTest: cv is used only as int -> float -> compared (==/!=) with the same source.
func roundTripTest(cv *ssa.Convert) (*ssa.BinOp, bool) {
	refs := *cv.Referrers()
	if len(refs) != 1 {
		return nil, false
	}
	back, ok := refs[0].(*ssa.Convert)
	if !ok {
		return nil, false
	}
	if b, ok := back.Type().Underlying().(*types.Basic); !ok || b.Info()&types.IsFloat == 0 {
		return nil, false
	}
	brefs := *back.Referrers()
	if len(brefs) != 1 {
		return nil, false
	}
	bo, ok := brefs[0].(*ssa.BinOp)
	if !ok || (bo.Op != token.EQL && bo.Op != token.NEQ) {
		return nil, false
	}
	other := bo.X
	if other == ssa.Value(back) {
		other = bo.Y
	}
	if srcKey(other, 0) != srcKey(cv.X, 0) {
		return nil, false
	}
	return bo, true
}

// edgeDominates: the successor `succ` of block b (an If) is taken on every path to target.
func edgeDominates(b *ssa.BasicBlock, succIdx int, target *ssa.BasicBlock) bool {
	s := b.Succs[succIdx]
	other := b.Succs[1-succIdx]
	if !b.Dominates(target) {
		return false
	}
	// target must be unreachable from the other successor without passing b again
	return !reachableAvoiding(other, b)[target] || (len(s.Preds) == 1 && s.Dominates(target) && !reachableAvoiding(other, b)[target])
}

func ruleF2I(c *Ctx) {
	n := 0
	for _, p := range c.All {
		short := strings.TrimPrefix(strings.TrimPrefix(p.PkgPath, modPath), "/")
		if strings.HasPrefix(short, "scripts") {
			continue
		}
		for _, fn := range c.srcFuncs(short) {
			fn := fn
			// round-trip tests and range guards of this function, keyed by source
			type guard struct {
				blk  *ssa.BasicBlock
				succ int
			}
			rt := map[string][]guard{}
			upper, lower, nan := map[string][]guard{}, map[string][]guard{}, map[string][]guard{}
			for _, b := range fn.Blocks {
				if len(b.Instrs) == 0 {
					continue
				}
				ifi, ok := b.Instrs[len(b.Instrs)-1].(*ssa.If)
				if !ok {
					continue
				}
				bo, ok := ifi.Cond.(*ssa.BinOp)
				if !ok {
					continue
				}
				// x == float64(int(x))
				for _, side := range []ssa.Value{bo.X, bo.Y} {
					if back, ok := side.(*ssa.Convert); ok {
						if inner, ok := back.X.(*ssa.Convert); ok && isFloatToInt(inner) {
							if _, ok := roundTripTest(inner); ok {
								idx := 0
								if bo.Op == token.NEQ {
									idx = 1
								}
								rt[srcKey(inner.X, 0)] = append(rt[srcKey(inner.X, 0)], guard{b, idx})
							}
						}
					}
				}
				// range guards on float operands: x >= K / x <= K / x != x
				if bt, ok := bo.X.Type().Underlying().(*types.Basic); ok && bt.Info()&types.IsFloat != 0 {
					k := srcKey(bo.X, 0)
					_, yConst := bo.Y.(*ssa.Const)
					if cvt, ok := bo.Y.(*ssa.Convert); ok {
						_, yConst = cvt.X.(*ssa.Const)
					}
					// the bound itself matters at the edge of the 64-bit range: float64(MaxInt64) is 2^63, which does
					// not fit, so what passes an upper guard must be < 2^63 (x >= K with K <= 2^63, or x > K with
					// K < 2^63), and what passes a lower guard must be >= -2^63
					kv, kvKnown := constFloat(bo.Y)
					const lim = 9223372036854775808.0
					switch {
					case bo.Op == token.NEQ && srcKey(bo.Y, 0) == k:
						nan[k] = append(nan[k], guard{b, 1}) // false edge: not NaN
					case yConst && bo.Op == token.GEQ && (!kvKnown || kv <= lim):
						upper[k] = append(upper[k], guard{b, 1})
					case yConst && bo.Op == token.GTR && (!kvKnown || kv < lim):
						upper[k] = append(upper[k], guard{b, 1})
					case yConst && bo.Op == token.LEQ && (!kvKnown || kv >= -lim-1):
						lower[k] = append(lower[k], guard{b, 1})
					case yConst && bo.Op == token.LSS && (!kvKnown || kv >= -lim):
						lower[k] = append(lower[k], guard{b, 1})
					}
				}
			}
			guardedBy := func(gs []guard, blk *ssa.BasicBlock) bool {
				for _, g := range gs {
					if g.blk.Dominates(blk) && !reachableAvoiding(g.blk.Succs[1-g.succ], g.blk)[blk] {
						return true
					}
				}
				return false
			}
			allInstrs(fn, func(in ssa.Instruction) {
				cv, ok := in.(*ssa.Convert)
				if !ok || !isFloatToInt(cv) {
					return
				}
				n++
				k := srcKey(cv.X, 0)
				sink := f2iSink(cv)
				key := fmt.Sprintf("f2i:%s->%s", fnKey(fn), sink)
				if _, ok := roundTripTest(cv); ok {
					c.ok(key+":roundtrip", cv.Pos(), "round-trip test %s == float(int(%s)): the comparison is false for every value that does not fit", k, k)
					return
				}
				if guardedBy(rt[k], cv.Block()) {
					c.ok(key, cv.Pos(), "dominated by the round-trip test on the same operand %s", k)
					return
				}
				if guardedBy(upper[k], cv.Block()) && guardedBy(lower[k], cv.Block()) && guardedBy(nan[k], cv.Block()) {
					c.ok(key, cv.Pos(), "dominated by lower, upper and NaN guards on %s (saturating conversion)", k)
					return
				}
				if onlyTested(cv) {
					c.ok(key+":only-tested", cv.Pos(), "the converted value is only compared with bounds and quoted in the resulting error message; no index, length or stored value derives from it")
					return
				}
				if postRangeChecked(cv) {
					c.ok(key+":post-check", cv.Pos(), "the converted value is compared with a lower and an upper bound, both leaving the function, before anything else uses it: whatever integer an out-of-range %s converts to, it is rejected or lies within the accepted range", k)
					return
				}
				if short == "interp" && onlyToReflectValueOf(cv) {
					c.ok(key, cv.Pos(), "tabled by role (the converted value only becomes the argument of reflect.ValueOf, i.e. a native function's parameter): %s", f2iTable["(*interp.interp).toNative"])
					return
				}
				why, ok := f2iTable[fnKey(fn)+"->"+sink]
				if !ok {
					why, ok = f2iTable[fnKey(fn)]
				}
				if ok {
					c.ok(key, cv.Pos(), "tabled: %s", why)
					return
				}
				// a helper extracted from a tabled function: every caller is tabled for this sink
				// (also through several levels, and through the entries of a package-level function table)
				var tabledVia func(g *ssa.Function, depth int) (string, bool)
				tabledVia = func(g *ssa.Function, depth int) (string, bool) {
					if w, ok := f2iTable[fnKey(g)+"->"+sink]; ok {
						return w, true
					}
					if w, ok := f2iTable[fnKey(g)]; ok {
						return w, true
					}
					if depth >= 3 {
						return "", false
					}
					callers := f2iCallers(c, short, g)
					if len(callers) == 0 {
						return "", false
					}
					reason := ""
					for _, cal := range callers {
						w, ok := tabledVia(cal, depth+1)
						if !ok {
							return "", false
						}
						reason = w
					}
					return reason, true
				}
				if callers := f2iCallers(c, short, fn); len(callers) > 0 {
					all, reason := true, ""
					for _, cal := range callers {
						w, ok := tabledVia(cal, 1)
						if !ok {
							all = false
						}
						reason = w
					}
					if all {
						c.ok(key, cv.Pos(), "tabled through its only caller(s): %s", reason)
						return
					}
				}
				_ = why
				c.bad(key, cv.Pos(), "float->%s conversion of %s is neither range-guarded nor tabled: for a value outside the target range (or NaN) the result is implementation-defined (amd64 yields the minimum integer), so a script-controlled number gives a wrong, platform-dependent result here", cv.Type(), k)
			})
		}
	}
	c.atLeast("float->int conversions", n, 30)
	var ks []string
	for k := range f2iTable {
		ks = append(ks, k)
	}
	sort.Strings(ks)
	c.stat("tabled-sites", len(ks))
}

// f2iCallers: the functions of the package that call fn statically (nil when fn's address is taken elsewhere is
// not considered: only direct calls are looked at, and a function without any direct caller yields nil).
func f2iCallers(c *Ctx, short string, fn *ssa.Function) []*ssa.Function {
	seen := map[*ssa.Function]bool{}
	var out []*ssa.Function
	for _, g := range c.srcFuncs(short) {
		g := g
		allInstrs(g, func(in ssa.Instruction) {
			if call, ok := in.(ssa.CallInstruction); ok && call.Common().StaticCallee() == fn && !seen[g] && g != fn {
				seen[g] = true
				out = append(out, g)
			}
		})
	}
	// calls through an entry of a package-level function table that holds fn
	for _, cl := range resultCallsOf(fn) {
		if in, ok := cl.(ssa.Instruction); ok {
			if g := in.Parent(); g != nil && !seen[g] && g != fn {
				seen[g] = true
				out = append(out, g)
			}
		}
	}
	return out
}

// onlyToReflectValueOf: every use of the converted value (through integer conversions, boxing and phis) ends as
// the argument of reflect.ValueOf: the conversion of an AWK number to a native function's parameter kind,
// wherever that code sits.
func onlyToReflectValueOf(cv *ssa.Convert) bool {
	seen := map[ssa.Value]bool{}
	ends := 0
	var walk func(v ssa.Value) bool
	walk = func(v ssa.Value) bool {
		if seen[v] {
			return true
		}
		seen[v] = true
		refs := v.Referrers()
		if refs == nil {
			return false
		}
		for _, r := range *refs {
			switch x := r.(type) {
			case *ssa.DebugRef:
			case *ssa.Convert:
				if b, ok := x.Type().Underlying().(*types.Basic); !ok || b.Info()&types.IsInteger == 0 {
					return false
				}
				if !walk(x) {
					return false
				}
			case *ssa.MakeInterface:
				if !walk(x) {
					return false
				}
			case *ssa.Phi:
				if !walk(x) {
					return false
				}
			case *ssa.Call:
				fo := calleeObj(x)
				if fo == nil || funcFullName(fo) != "reflect.ValueOf" {
					return false
				}
				ends++
			case *ssa.Return:
				// handed back to the callers: every call that can reach this function (a static call, or a call
				// through the entry of a package-level function table that holds it) must use the result the same way
				calls := resultCallsOf(x.Parent())
				if len(calls) == 0 {
					return false
				}
				for _, cl := range calls {
					if !walk(cl) {
						return false
					}
				}
			default:
				return false
			}
		}
		return true
	}
	return walk(cv) && ends > 0
}

// resultCallsOf: the call instructions of fn's package whose callee can be fn: static calls, and calls through an
// entry of a package-level function table (tables.go) that contains fn. nil when fn may be called in some other way
// (its value is used elsewhere).
func resultCallsOf(fn *ssa.Function) []ssa.Value {
	if fn == nil || curCtx == nil || fn.Pkg == nil {
		return nil
	}
	short := strings.TrimPrefix(strings.TrimPrefix(fn.Pkg.Pkg.Path(), modPath), "/")
	var out []ssa.Value
	for _, g := range curCtx.srcFuncs(short) {
		allInstrs(g, func(in ssa.Instruction) {
			call, ok := in.(*ssa.Call)
			if !ok {
				return
			}
			if call.Call.StaticCallee() == fn {
				out = append(out, call)
				return
			}
			if call.Call.StaticCallee() != nil || call.Call.IsInvoke() {
				return
			}
			ft, _, field, _ := curCtx.tableLookupOf(call.Call.Value)
			if ft == nil {
				return
			}
			holds := false
			if field >= 0 {
				for _, fs := range ft.fields {
					if fs[field] == fn {
						holds = true
					}
				}
			} else {
				for _, f := range ft.fns {
					if f == fn {
						holds = true
					}
				}
			}
			if holds {
				out = append(out, call)
			}
		})
	}
	return out
}

// onlyTested: every use of the converted value is a comparison, or its appearance as an argument of an
// error-constructing call (newError / fmt.Errorf / Sprintf) - nothing is computed from it.
func onlyTested(cv *ssa.Convert) bool {
	refs := cv.Referrers()
	if refs == nil || len(*refs) == 0 {
		return false
	}
	tests := 0
	for _, r := range *refs {
		switch x := r.(type) {
		case *ssa.DebugRef:
		case *ssa.BinOp:
			switch x.Op {
			case token.LSS, token.LEQ, token.GTR, token.GEQ, token.EQL, token.NEQ:
				tests++
			default:
				return false
			}
		case *ssa.MakeInterface:
			// boxed for a variadic formatting call: stored into the argument array of newError/Errorf/Sprintf
			ok := true
			if mrefs := x.Referrers(); mrefs != nil {
				for _, mr := range *mrefs {
					st, isSt := mr.(*ssa.Store)
					if !isSt {
						ok = false
						continue
					}
					ia, isIA := st.Addr.(*ssa.IndexAddr)
					if !isIA {
						ok = false
						continue
					}
					// the array is sliced and passed to a formatting function
					fmtCall := false
					if al, isAl := ia.X.(*ssa.Alloc); isAl {
						if arefs := al.Referrers(); arefs != nil {
							for _, ar := range *arefs {
								if sl, isSl := ar.(*ssa.Slice); isSl {
									if srefs := sl.Referrers(); srefs != nil {
										for _, sr := range *srefs {
											if call, isCall := sr.(*ssa.Call); isCall {
												if f := call.Call.StaticCallee(); f != nil && (f.Name() == "newError" || f.Name() == "Errorf" || f.Name() == "Sprintf" || f.Name() == "PosErrorf") {
													fmtCall = true
												}
											}
										}
									}
								}
							}
						}
					}
					if !fmtCall {
						ok = false
					}
				}
			}
			if !ok {
				return false
			}
		default:
			return false
		}
	}
	return tests > 0
}

// postRangeChecked: the idiom  n := int(f); if n < lo { return err }; if n > hi { return err }; ...use n...
// Both tests compare the converted value itself, each leaves the function on its failing side, and every
// other use of the value is dominated by the passing sides of both tests.
func postRangeChecked(cv *ssa.Convert) bool {
	refs := cv.Referrers()
	if refs == nil {
		return false
	}
	type test struct {
		blk  *ssa.BasicBlock
		pass int // successor index taken when the test passes (value within bound)
	}
	var lows, highs []test
	leaves := func(b *ssa.BasicBlock) bool {
		// every path from b ends in a return without passing back through a use of cv
		n := 0
		for blk := range reachableFrom(b) {
			if len(blk.Instrs) > 0 {
				if _, ok := blk.Instrs[len(blk.Instrs)-1].(*ssa.Return); ok {
					n++
				}
			}
		}
		if len(b.Instrs) > 0 {
			if _, ok := b.Instrs[len(b.Instrs)-1].(*ssa.Return); ok {
				n++
			}
		}
		return n > 0 && len(reachableFrom(b)) <= 3
	}
	for _, r := range *refs {
		bo, ok := r.(*ssa.BinOp)
		if !ok {
			continue
		}
		brefs := bo.Referrers()
		if brefs == nil {
			continue
		}
		for _, br := range *brefs {
			iff, ok := br.(*ssa.If)
			if !ok {
				continue
			}
			b := iff.Block()
			// normalise to  cv OP other
			op := bo.Op
			if bo.Y == ssa.Value(cv) {
				switch op {
				case token.LSS:
					op = token.GTR
				case token.LEQ:
					op = token.GEQ
				case token.GTR:
					op = token.LSS
				case token.GEQ:
					op = token.LEQ
				}
			} else if bo.X != ssa.Value(cv) {
				continue
			}
			switch op {
			case token.LSS, token.LEQ: // cv < lo : failing side is the true edge
				if leaves(b.Succs[0]) {
					lows = append(lows, test{b, 1})
				}
			case token.GTR, token.GEQ: // cv > hi
				if leaves(b.Succs[0]) {
					highs = append(highs, test{b, 1})
				}
			}
		}
	}
	if len(lows) == 0 || len(highs) == 0 {
		return false
	}
	// every other use is dominated by a passing low and a passing high test
	for _, r := range *refs {
		if _, ok := r.(*ssa.DebugRef); ok {
			continue
		}
		if bo, ok := r.(*ssa.BinOp); ok {
			isTest := false
			for _, t := range append(append([]test{}, lows...), highs...) {
				if bo.Block() == t.blk {
					isTest = true
				}
			}
			if isTest {
				continue
			}
		}
		// values only formatted into the error message on the failing side are fine
		inFail := false
		for _, t := range append(append([]test{}, lows...), highs...) {
			fail := t.blk.Succs[1-t.pass]
			if r.Block() == fail || reachableFrom(fail)[r.Block()] && !reachableFrom(t.blk.Succs[t.pass])[r.Block()] {
				inFail = true
			}
		}
		if inFail {
			continue
		}
		okLow, okHigh := false, false
		for _, t := range lows {
			if edgeDominates(t.blk, t.pass, r.Block()) || t.blk.Succs[t.pass] == r.Block() {
				okLow = true
			}
		}
		for _, t := range highs {
			if edgeDominates(t.blk, t.pass, r.Block()) || t.blk.Succs[t.pass] == r.Block() {
				okHigh = true
			}
		}
		if !okLow || !okHigh {
			return false
		}
	}
	return true
}

// f2iSink: what consumes the converted value (for a stable, line-free key).
func f2iSink(cv *ssa.Convert) string {
	var v ssa.Value = cv
	for depth := 0; depth < 4; depth++ {
		refs := v.Referrers()
		if refs == nil || len(*refs) == 0 {
			return "unused"
		}
		var names []string
		var next ssa.Value
		for _, r := range *refs {
			switch x := r.(type) {
			case *ssa.Call:
				if f := x.Call.StaticCallee(); f != nil {
					names = append(names, f.Name())
				} else {
					names = append(names, "dyncall")
				}
			case *ssa.Store:
				if f, _ := fieldOfAddr(x.Addr); f != nil {
					names = append(names, "store:"+f.Name())
				} else if _, ok := x.Addr.(*ssa.IndexAddr); ok {
					names = append(names, "slice-literal")
				} else {
					names = append(names, "store")
				}
			case *ssa.Convert:
				next = x
			case *ssa.ChangeType:
				next = x
			case *ssa.BinOp:
				switch x.Op {
				case token.LSS, token.GTR, token.LEQ, token.GEQ, token.EQL, token.NEQ:
					names = append(names, "compare")
				default:
					names = append(names, "arith")
				}
			case *ssa.MakeInterface:
				names = append(names, "MakeInterface")
			case *ssa.Phi:
				next = x
			case *ssa.DebugRef:
			default:
				names = append(names, fmt.Sprintf("%T", r))
			}
		}
		if len(names) > 0 {
			sort.Strings(names)
			// dedupe
			var u []string
			for i, s := range names {
				if i == 0 || s != names[i-1] {
					u = append(u, s)
				}
			}
			return strings.Join(u, "+")
		}
		if next == nil {
			return "unused"
		}
		v = next
	}
	return "deep"
}

// constFloat: the float64 value of a constant operand (also of an integer constant converted to a float type).
func constFloat(v ssa.Value) (float64, bool) {
	if cv, ok := v.(*ssa.Convert); ok {
		v = cv.X
	}
	k, ok := v.(*ssa.Const)
	if !ok || k.Value == nil {
		return 0, false
	}
	f := constant.ToFloat(k.Value)
	if f.Kind() != constant.Float {
		return 0, false
	}
	x, _ := constant.Float64Val(f)
	return x, true
}
