package main

import (
	"fmt"
	"go/ast"
	"go/constant"
	"go/token"
	"go/types"
	"sort"
	"strings"
)

// R-ARITY, R-CMP, R-ARITH: tables of the compiler, the VM and the disassembler that must agree.

func init() {
	register("R-ARITY", "operand layout, three ways: for every opcode the number of operands written at every emission site of the compiler (checked per site by R-STACK's walker), the number consumed by the VM handler (static ip advance = operands read), and the number consumed by the disassembler clause (d.fetch() calls) are equal, including CallUser's variadic tail; every opcode constant has a VM handler and is either emitted somewhere or tabled as a sentinel; opcodes with operands have a disassembler clause", ruleArity)
	register("R-CMP", "comparison semantics, decided by evaluating the SSA form over a finite domain: each of the six comparison handlers and six fused compare-and-jump handlers of the VM, entered at its dispatch block and evaluated for all 48 combinations of (left is a true string, right is a true string, string order lt/eq/gt, numeric order lt/eq/gt/unordered), yields exactly the AWK operator that the compiler maps to that opcode, applied to (left,right) in pop order, as strings iff either operand is a true string (helpers entered, negations folded); compiler.condition, evaluated for each comparison token and both polarities, returns only JumpTrue/JumpFalse of the right polarity or a fused jump whose table equals the comparison (inverted: its negation) on all 48 scenarios, unordered included", ruleCmp)
	register("R-ARITH", "operator tables: token -> opcode (compiler.binaryOp), token -> augmented-assignment code (statement shortcut), opcode -> Go operator / math.Pow / math.Mod in the VM clause and in augAssignOp, all compose to the operator the AWK token text names, with operands in (left, right) order, and division/modulo are preceded by the zero test returning an error; incrAmount maps ++ to +1 and -- to -1, and the expression form of ++/-- uses Add/Subtract accordingly", ruleArith)
}

// disasmCounts: opcode name -> (static fetch count, variadic Lin over opK, ok)
func disasmCounts(c *Ctx) (map[string]int, map[string]string, []string) {
	counts := map[string]int{}
	variadic := map[string]string{}
	var issues []string
	fd := c.funcDecl("internal/compiler", "disassembler.disassemble")
	if fd == nil {
		return counts, variadic, []string{"disassembler.disassemble not found"}
	}
	info := c.pkg("internal/compiler").TypesInfo
	var sw *ast.SwitchStmt
	ast.Inspect(fd.Body, func(n ast.Node) bool {
		if s, ok := n.(*ast.SwitchStmt); ok && sw == nil && s.Tag != nil && isNamed(info.TypeOf(s.Tag), modPath+"/internal/compiler", "Opcode") {
			sw = s
		}
		return true
	})
	if sw == nil {
		return counts, variadic, []string{"opcode switch of the disassembler not found"}
	}
	isFetch := func(call *ast.CallExpr) bool {
		se, ok := call.Fun.(*ast.SelectorExpr)
		return ok && se.Sel.Name == "fetch"
	}
	for _, cs := range sw.Body.List {
		cc := cs.(*ast.CaseClause)
		if cc.List == nil {
			continue
		}
		// sequential walk: count fetches at top level; loops multiply
		n := 0
		vari := ""
		fetchVar := map[types.Object]int{} // variable bound to the k-th fetch
		var walk func(list []ast.Stmt, inLoop bool, loopCount *int) bool
		walk = func(list []ast.Stmt, inLoop bool, loopCount *int) bool {
			for _, s := range list {
				switch s := s.(type) {
				case *ast.ForStmt:
					lc := 0
					walk(s.Body.List, true, &lc)
					if lc > 0 {
						// trip variable
						if be, ok := s.Cond.(*ast.BinaryExpr); ok && be.Op == token.LSS {
							if id, ok := be.Y.(*ast.Ident); ok {
								if k, ok := fetchVar[info.Uses[id]]; ok {
									vari = fmt.Sprintf("%d*op%d", lc, k)
									continue
								}
							}
						}
						issues = append(issues, "disassembler loop with fetches whose trip count is not an operand")
					}
					continue
				case *ast.IfStmt:
					// branches must not fetch (today: none does)
					bad := false
					ast.Inspect(s, func(x ast.Node) bool {
						if call, ok := x.(*ast.CallExpr); ok && isFetch(call) {
							bad = true
						}
						return true
					})
					if bad {
						issues = append(issues, "disassembler fetches an operand conditionally at "+c.relPos(s.Pos()))
					}
					continue
				}
				// count fetches in this statement in source order, bind `x := conv(d.fetch())`
				var firstFetchIdx = -1
				ast.Inspect(s, func(x ast.Node) bool {
					if call, ok := x.(*ast.CallExpr); ok && isFetch(call) {
						if inLoop {
							*loopCount++
						} else {
							if firstFetchIdx < 0 {
								firstFetchIdx = n
							}
							n++
						}
					}
					return true
				})
				if as, ok := s.(*ast.AssignStmt); ok && len(as.Lhs) == 1 && firstFetchIdx >= 0 {
					if id, ok := as.Lhs[0].(*ast.Ident); ok {
						if o := info.Defs[id]; o != nil {
							fetchVar[o] = firstFetchIdx
						}
					}
				}
			}
			return true
		}
		zero := 0
		walk(cc.Body, false, &zero)
		for _, e := range cc.List {
			name := constName(info, e)
			if name != "" {
				counts[name] = n
				if vari != "" {
					variadic[name] = vari
				}
			}
		}
	}
	return counts, variadic, issues
}

func ruleArity(c *Ctx) {
	vm := buildVMModel(c)
	cm := buildCompModel(c)
	dis, disVar, issues := disasmCounts(c)
	for i, is := range issues {
		c.undecided(fmt.Sprintf("disasm-model:%d", i), token.NoPos, "%s", is)
	}
	for _, is := range vm.issues {
		c.undecided("vm-model", token.NoPos, "%s", is)
	}
	var names []string
	for n := range vm.opVals {
		names = append(names, n)
	}
	sort.Strings(names)
	sentinels := map[string]string{"Nop": "emitted for empty action/END bodies; the VM's switch has no clause and falls through", "EndOpcode": "marks the end of the enumeration; never emitted"}
	nChecked := 0
	for _, n := range names {
		s := vm.ops[n]
		key := "opcode:" + n
		if s == nil {
			if why, ok := sentinels[n]; ok {
				if n == "EndOpcode" && cm.emits[n] > 0 {
					c.bad(key, token.NoPos, "EndOpcode is emitted by the compiler")
				} else {
					c.trivial(key, token.NoPos, "no VM clause: %s", why)
				}
				continue
			}
			if cm.emits[n] > 0 {
				c.bad(key, token.NoPos, "opcode %s is emitted at %d sites but interp.execute has no clause for it (silently skipped at run time)", n, cm.emits[n])
			} else {
				c.bad(key, token.NoPos, "opcode %s has neither a VM clause nor an emission site", n)
			}
			continue
		}
		nChecked++
		if !s.ReadsOK {
			c.bad(key+":vm-reads", s.Pos, "VM handler of %s: %s", n, strings.Join(s.Issues, "; "))
		}
		// disassembler
		d, has := dis[n]
		switch {
		case !has && s.NOper == 0:
			c.ok(key+":disasm", s.Pos, "%s: 0 operands in VM; disassembler default clause", n)
		case !has:
			c.bad(key+":disasm", s.Pos, "%s consumes %d operands in the VM but has no disassembler clause (default prints it as operand-less and desynchronises)", n, s.NOper)
		case d != s.NOper:
			c.bad(key+":disasm", s.Pos, "%s: VM consumes %d operands, disassembler fetches %d", n, s.NOper, d)
		default:
			vv := ""
			if !s.VarOper.IsZero() {
				vv = s.VarOper.String()
			}
			if vv != disVar[n] {
				c.bad(key+":disasm", s.Pos, "%s: variadic operand tail differs: VM %q, disassembler %q", n, vv, disVar[n])
			} else {
				c.ok(key+":disasm", s.Pos, "%s: VM and disassembler both consume %d operands%s", n, d, map[bool]string{true: " + " + vv, false: ""}[vv != ""])
			}
		}
		if cm.emits[n] == 0 {
			c.trivial(key+":emitted", s.Pos, "note: opcode %s has a VM handler but no analysed emission site (dead handler)", n)
		} else {
			c.ok(key+":emitted", s.Pos, "%s emitted at %d analysed sites, each with the VM's operand count (R-STACK arity obligations)", n, cm.emits[n])
		}
	}
	// per-site arity obligations come from the compiler walker
	nSites := 0
	seen := map[string]bool{}
	for _, o := range cm.obs {
		if !strings.HasPrefix(o.key, "arity:") || seen[o.key] {
			continue
		}
		seen[o.key] = true
		nSites++
		switch {
		case o.undec:
			c.undecided(o.key, o.pos, "%s", o.detail)
		case o.ok:
			c.ok(o.key, o.pos, "%s", o.detail)
		default:
			c.bad(o.key, o.pos, "%s", o.detail)
		}
	}
	c.atLeast("opcodes with a VM handler", nChecked, 90)
	c.atLeast("distinct (method, opcode) emission obligations", nSites, 90)
	c.stat("emission-sites", cm.sites)
}

// ---------------------------------------------------------------- R-CMP / R-ARITH

// tokenText: lexer token constant name -> its text from lexer.tokenNames.
func tokenTexts(c *Ctx) map[string]string {
	out := map[string]string{}
	p := c.pkg("lexer")
	for _, f := range p.Syntax {
		ast.Inspect(f, func(n ast.Node) bool {
			vs, ok := n.(*ast.ValueSpec)
			if !ok || len(vs.Names) != 1 || vs.Names[0].Name != "tokenNames" || len(vs.Values) != 1 {
				return true
			}
			cl, ok := vs.Values[0].(*ast.CompositeLit)
			if !ok {
				return true
			}
			for _, el := range cl.Elts {
				kv := el.(*ast.KeyValueExpr)
				k := constName(p.TypesInfo, kv.Key)
				if tv, ok := p.TypesInfo.Types[kv.Value]; ok && tv.Value != nil {
					out[k] = strings.Trim(tv.Value.ExactString(), `"`)
				}
			}
			return false
		})
	}
	return out
}

// tokenToOpcode: token name -> the opcode the expression compiler emits for a BinaryExpr with that operator, for
// the tokens where that is a single opcode. Read off the emission records of the compiler model (every path of
// compiler.expr with what it knows about e.Op), so the dispatch may be a switch, an if chain, a lookup table or a
// helper of any name.
func tokenToOpcode(c *Ctx) map[string]string {
	if m, ok := c.memo["tokenToOpcode"].(map[string]string); ok {
		return m
	}
	out := map[string]string{}
	c.memo["tokenToOpcode"] = out
	cm := buildCompModel(c)
	for _, k := range c.constsOfType("lexer", "Token") {
		v, ok := constant.Int64Val(k.Val())
		if !ok {
			continue
		}
		ops := map[string]bool{}
		for _, r := range cm.emittedUnder("expr", "BinaryExpr", v, nil) {
			if _, pinned := r.under("BinaryExpr", v); pinned {
				ops[r.op] = true
			}
		}
		if len(ops) == 0 {
			// a token that only a default branch handles
			for _, r := range cm.emittedUnder("expr", "BinaryExpr", v, nil) {
				ops[r.op] = true
			}
			if len(ops) != 1 {
				continue
			}
		}
		if len(ops) == 1 {
			for op := range ops {
				out[k.Name()] = op
			}
		}
	}
	return out
}

type cmpFacts struct {
	strOp, numOp string
	order        string // "lr" when operands are (first-popped-pair left, right) in order
	selector     bool   // string branch chosen by lIsStr || rIsStr
	problems     []string
}

// analyseCmpClause extracts the comparison structure from a handler clause.
func analyseCmpClause(info *types.Info, cc *ast.CaseClause) *cmpFacts {
	f := &cmpFacts{}
	var lName, rName, lnName, rnName, lStr, rStr string
	for _, s := range cc.Body {
		as, ok := s.(*ast.AssignStmt)
		if !ok || len(as.Rhs) != 1 {
			continue
		}
		call, ok := as.Rhs[0].(*ast.CallExpr)
		if !ok {
			continue
		}
		se, ok := call.Fun.(*ast.SelectorExpr)
		if !ok {
			continue
		}
		switch se.Sel.Name {
		case "peekPop", "popTwo":
			if len(as.Lhs) == 2 {
				lName, rName = as.Lhs[0].(*ast.Ident).Name, as.Lhs[1].(*ast.Ident).Name
			}
		case "isTrueStr":
			if id, ok := se.X.(*ast.Ident); ok && len(as.Lhs) == 2 {
				if id.Name == lName {
					lnName, lStr = as.Lhs[0].(*ast.Ident).Name, as.Lhs[1].(*ast.Ident).Name
				} else if id.Name == rName {
					rnName, rStr = as.Lhs[0].(*ast.Ident).Name, as.Lhs[1].(*ast.Ident).Name
				}
			}
		}
	}
	if lName == "" || lnName == "" || rnName == "" {
		f.problems = append(f.problems, "operands are not taken with peekPop/popTwo followed by isTrueStr on each")
		return f
	}
	isToStr := func(e ast.Expr, of string) bool {
		call, ok := e.(*ast.CallExpr)
		if !ok || len(call.Args) != 1 {
			return false
		}
		se, ok := call.Fun.(*ast.SelectorExpr)
		if !ok || se.Sel.Name != "toString" {
			return false
		}
		id, ok := call.Args[0].(*ast.Ident)
		return ok && id.Name == of
	}
	ast.Inspect(&ast.BlockStmt{List: cc.Body}, func(n ast.Node) bool {
		switch x := n.(type) {
		case *ast.IfStmt:
			if be, ok := x.Cond.(*ast.BinaryExpr); ok && be.Op == token.LOR {
				a, aok := be.X.(*ast.Ident)
				b, bok := be.Y.(*ast.Ident)
				if aok && bok && ((a.Name == lStr && b.Name == rStr) || (a.Name == rStr && b.Name == lStr)) {
					f.selector = true
					// string op must be in the then-branch, numeric in the else-branch
					thenHasStr, elseHasNum := false, false
					ast.Inspect(x.Body, func(m ast.Node) bool {
						if b2, ok := m.(*ast.BinaryExpr); ok && isToStr(b2.X, lName) && isToStr(b2.Y, rName) {
							thenHasStr = true
						}
						return true
					})
					if x.Else != nil {
						ast.Inspect(x.Else, func(m ast.Node) bool {
							if b2, ok := m.(*ast.BinaryExpr); ok {
								if a, ok := b2.X.(*ast.Ident); ok && a.Name == lnName {
									elseHasNum = true
								}
							}
							return true
						})
					}
					if !thenHasStr || !elseHasNum {
						f.problems = append(f.problems, "string comparison is not under the `either is a true string` branch / numeric comparison not under its else")
					}
				}
			}
		case *ast.BinaryExpr:
			switch {
			case isToStr(x.X, lName) && isToStr(x.Y, rName):
				f.strOp = x.Op.String()
			case isToStr(x.X, rName) && isToStr(x.Y, lName):
				f.strOp = x.Op.String()
				f.problems = append(f.problems, "string branch compares (right, left)")
			}
			a, aok := x.X.(*ast.Ident)
			b, bok := x.Y.(*ast.Ident)
			if aok && bok {
				switch {
				case a.Name == lnName && b.Name == rnName:
					f.numOp = x.Op.String()
				case a.Name == rnName && b.Name == lnName:
					f.numOp = x.Op.String()
					f.problems = append(f.problems, "numeric branch compares (right, left)")
				}
			}
		}
		return true
	})
	if f.strOp == "" || f.numOp == "" {
		f.problems = append(f.problems, "string and/or numeric comparison expression not found")
	}
	if !f.selector {
		f.problems = append(f.problems, "branch selector is not `lIsStr || rIsStr`")
	}
	return f
}

var outcomeSets = map[string][]string{
	"<": {"lt"}, "<=": {"lt", "eq"}, ">": {"gt"}, ">=": {"gt", "eq"}, "==": {"eq"}, "!=": {"lt", "gt", "un"},
}

func complementOK(a, b string, numeric bool) (bool, string) {
	dom := []string{"lt", "eq", "gt"}
	if numeric {
		dom = append(dom, "un")
	}
	in := func(set []string, x string) bool {
		for _, s := range set {
			if s == x {
				return true
			}
		}
		return false
	}
	for _, o := range dom {
		ia, ib := in(outcomeSets[a], o), in(outcomeSets[b], o)
		if ia == ib {
			return false, o
		}
	}
	return true, ""
}

func ruleCmp(c *Ctx) {
	vm := buildVMModel(c)
	sem := newCmpSem(c)
	if sem.exec == nil || sem.valueT == nil || sem.opcodeT == nil || len(sem.entry) < 50 {
		c.undecided("anchor:execute-ssa", token.NoPos, "interp.execute / its opcode dispatch is not resolvable on the SSA form (%d handler blocks)", len(sem.entry))
		return
	}
	texts := tokenTexts(c)
	t2o := tokenToOpcode(c)
	c.atLeast("token texts", len(texts), 40)
	cmpTokens := []string{"EQUALS", "NOT_EQUALS", "LESS", "LTE", "GREATER", "GTE"}
	plainOf := map[string]string{} // token -> plain opcode
	facts := map[string]*cmpFacts{}
	posOfOp := func(op string) token.Pos {
		if cc := vm.clauses[op]; cc != nil {
			return cc.Pos()
		}
		return token.NoPos
	}
	n := 0
	for _, tk := range cmpTokens {
		op := t2o[tk]
		if op == "" {
			c.bad("token:"+tk, token.NoPos, "compiler.binaryOp has no opcode for comparison token %s", tk)
			continue
		}
		plainOf[tk] = op
		if vm.clauses[op] == nil {
			c.bad("handler:"+op, token.NoPos, "no VM clause for %s", op)
			continue
		}
		f := sem.facts(vm, op)
		facts[op] = f
		n++
		key := "handler:" + op
		want := texts[tk]
		switch {
		case len(f.problems) > 0:
			c.bad(key, posOfOp(op), "%s: %s", op, strings.Join(f.problems, "; "))
		case f.strOp != want || f.numOp != want:
			c.bad(key, posOfOp(op), "%s implements AWK %q but applies %q to strings and %q to numbers", op, want, f.strOp, f.numOp)
		default:
			c.ok(key, posOfOp(op), "%s (token %s %q): evaluated over all 48 combinations of operand kinds and orders, it applies %q to (left,right), as strings iff either is a true string", op, tk, want, want)
		}
	}
	// fused jumps: what compiler.condition returns for each comparison token and polarity
	tokVals := map[string]int64{}
	for _, k := range c.constsOfType("lexer", "Token") {
		for _, tk := range cmpTokens {
			if k.Name() == tk {
				if v, ok := constant.Int64Val(k.Val()); ok {
					tokVals[tk] = v
				}
			}
		}
	}
	dec, derr := conditionDecisions(c, vm, tokVals)
	if derr != "" {
		c.undecided("anchor:condition", token.NoPos, "%s", derr)
		return
	}
	cpos := token.NoPos
	if fn := c.ssaFunc("internal/compiler", "compiler.condition"); fn != nil {
		cpos = fn.Pos()
	}
	pairs := 0
	for _, tk := range cmpTokens {
		want := texts[tk]
		for _, pol := range []string{"normal", "inverted"} {
			key := "fused:" + tk + ":" + pol
			ops := dec[tk+"/"+pol]
			if len(ops) == 0 {
				c.undecided(key, cpos, "condition() returns nothing for %s (%s)", tk, pol)
				continue
			}
			good, detail := true, ""
			for _, op := range ops {
				switch {
				case op == "?":
					good, detail = false, "a value that is not an opcode constant"
				case (op == "JumpTrue" && pol == "normal") || (op == "JumpFalse" && pol == "inverted"):
					// unfused: the comparison is evaluated by its plain handler and the truth value tested
				case op == "JumpTrue" || op == "JumpFalse":
					good, detail = false, op+" for the "+pol+" polarity"
				default:
					tab, problems := sem.table(vm, op)
					if len(problems) > 0 {
						good, detail = false, "fused jump handler "+op+": "+strings.Join(problems, "; ")
						break
					}
					pairs++
					for sc, taken := range tab {
						holds := cmpApply(want, sc.nOut)
						if sc.lStr || sc.rStr {
							holds = cmpApply(want, sc.sOut)
						}
						wantTaken := holds
						if pol == "inverted" {
							wantTaken = !holds
						}
						if taken != wantTaken {
							good = false
							kind, out := "numbers", sc.nOut
							if sc.lStr || sc.rStr {
								kind, out = "strings", sc.sOut
							}
							detail = fmt.Sprintf("%s jumps=%v for %s with order %q (%s operand when unordered), but `a %s b` is %v there", op, taken, kind, out, "NaN", want, holds)
							break
						}
					}
				}
			}
			if good {
				c.ok(key, cpos, "%s, %s polarity: condition() returns %v - exactly `a %s b`%s over all operand kinds and orders (incl. unordered)", tk, pol, ops, want, map[string]string{"normal": "", "inverted": " negated"}[pol])
			} else {
				c.bad(key, cpos, "for %s (%s polarity) condition() can return %v: %s, so `if (a %s b)` and its negation/loop forms disagree with the comparison itself", tk, pol, ops, detail, want)
			}
		}
	}
	c.atLeast("comparison handlers", n, 6)
	c.atLeast("fused jump pairs", pairs, 2)
	// every Jump<cmp> handler must equal its plain sibling even if condition() no longer pairs it
	for _, tk := range cmpTokens {
		plain := plainOf[tk]
		j := "Jump" + plain
		if vm.clauses[j] == nil {
			continue
		}
		fj := sem.facts(vm, j)
		pf := facts[plain]
		key := "jump-sibling:" + j
		if fj == nil || pf == nil {
			continue
		}
		if len(fj.problems) > 0 {
			c.bad(key, posOfOp(j), "%s: %s", j, strings.Join(fj.problems, "; "))
		} else if fj.strOp != pf.strOp || fj.numOp != pf.numOp {
			c.bad(key, posOfOp(j), "%s applies %q/%q but its sibling %s applies %q/%q", j, fj.strOp, fj.numOp, plain, pf.strOp, pf.numOp)
		} else {
			c.ok(key, posOfOp(j), "%s computes the same predicate as %s", j, plain)
		}
	}
}

func handlerCmp(vm *vmModel, info *types.Info, op string) *cmpFacts {
	cc := vm.clauses[op]
	if cc == nil {
		return nil
	}
	return analyseCmpClause(info, cc)
}

// arithOfClause: the arithmetic applied by a statement list: operator text or "Pow"/"Mod", operand order, zero check.
type arithFacts struct {
	op        string
	orderOK   bool
	zeroCheck bool
}

func analyseArith(info *types.Info, stmts []ast.Stmt, lExpr, rExpr func(ast.Expr) bool) *arithFacts {
	f := &arithFacts{}
	// rf := r.num(); if rf == 0.0 { return error }
	rfNames := map[string]bool{}
	for _, s := range stmts {
		switch s := s.(type) {
		case *ast.AssignStmt:
			if len(s.Lhs) == 1 && len(s.Rhs) == 1 && rExpr(s.Rhs[0]) {
				if id, ok := s.Lhs[0].(*ast.Ident); ok {
					rfNames[id.Name] = true
				}
			}
		case *ast.IfStmt:
			if be, ok := s.Cond.(*ast.BinaryExpr); ok && be.Op == token.EQL {
				if id, ok := be.X.(*ast.Ident); ok && rfNames[id.Name] {
					if tv, ok := info.Types[be.Y]; ok && tv.Value != nil && (tv.Value.ExactString() == "0") {
						// body must return a non-nil error
						for _, b := range s.Body.List {
							if r, ok := b.(*ast.ReturnStmt); ok && len(r.Results) > 0 && !isIdent(r.Results[len(r.Results)-1], "nil") {
								f.zeroCheck = true
							}
						}
					}
				}
			}
		}
	}
	isR := func(e ast.Expr) bool {
		if id, ok := e.(*ast.Ident); ok && rfNames[id.Name] {
			return true
		}
		return rExpr(e)
	}
	ast.Inspect(&ast.BlockStmt{List: stmts}, func(n ast.Node) bool {
		switch x := n.(type) {
		case *ast.BinaryExpr:
			if lExpr(x.X) && isR(x.Y) {
				f.op, f.orderOK = x.Op.String(), true
			} else if isR(x.X) && lExpr(x.Y) {
				f.op, f.orderOK = x.Op.String(), false
			}
		case *ast.CallExpr:
			if se, ok := x.Fun.(*ast.SelectorExpr); ok && len(x.Args) == 2 {
				if id, ok := se.X.(*ast.Ident); ok && id.Name == "math" && (se.Sel.Name == "Pow" || se.Sel.Name == "Mod") {
					if lExpr(x.Args[0]) && isR(x.Args[1]) {
						f.op, f.orderOK = se.Sel.Name, true
					} else if isR(x.Args[0]) && lExpr(x.Args[1]) {
						f.op, f.orderOK = se.Sel.Name, false
					}
				}
			}
		}
		return true
	})
	return f
}

func numCallOn(name string) func(ast.Expr) bool {
	return func(e ast.Expr) bool {
		call, ok := e.(*ast.CallExpr)
		if !ok || len(call.Args) != 0 {
			return false
		}
		se, ok := call.Fun.(*ast.SelectorExpr)
		if !ok || se.Sel.Name != "num" {
			return false
		}
		id, ok := se.X.(*ast.Ident)
		return ok && id.Name == name
	}
}

var arithWant = map[string]string{"+": "+", "-": "-", "*": "*", "/": "/", "^": "Pow", "%": "Mod"}

func ruleArith(c *Ctx) {
	numPoolLiteralOnly(c)
	compilerBuildsNoOperatorNodes(c)
	vm := buildVMModel(c)
	info := vm.pkg.TypesInfo
	texts := tokenTexts(c)
	t2o := tokenToOpcode(c)
	arithTokens := []string{"ADD", "SUB", "MUL", "DIV", "POW", "MOD"}
	n := 0
	for _, tk := range arithTokens {
		op := t2o[tk]
		key := "binary:" + tk
		if op == "" {
			c.bad(key, token.NoPos, "compiler.binaryOp has no opcode for %s", tk)
			continue
		}
		cc := vm.clauses[op]
		if cc == nil {
			c.bad(key, token.NoPos, "no VM clause for %s", op)
			continue
		}
		// operands: l, r := p.peekPop()
		var lName, rName string
		for _, s := range cc.Body {
			if as, ok := s.(*ast.AssignStmt); ok && len(as.Lhs) == 2 && len(as.Rhs) == 1 {
				if call, ok := as.Rhs[0].(*ast.CallExpr); ok {
					if se, ok := call.Fun.(*ast.SelectorExpr); ok && (se.Sel.Name == "peekPop" || se.Sel.Name == "popTwo") {
						lName, rName = as.Lhs[0].(*ast.Ident).Name, as.Lhs[1].(*ast.Ident).Name
					}
				}
			}
		}
		if lName == "" {
			c.bad(key, cc.Pos(), "%s does not take its operands with peekPop/popTwo", op)
			continue
		}
		f := analyseArith(info, cc.Body, numCallOn(lName), numCallOn(rName))
		want := arithWant[texts[tk]]
		n++
		needZero := tk == "DIV" || tk == "MOD"
		switch {
		case f.op != want:
			c.bad(key, cc.Pos(), "token %s %q is compiled to %s, whose handler computes %q instead of %q", tk, texts[tk], op, f.op, want)
		case !f.orderOK:
			c.bad(key, cc.Pos(), "%s applies %q to (right, left)", op, f.op)
		case needZero && !f.zeroCheck:
			c.bad(key, cc.Pos(), "%s does not return an error when the divisor is zero", op)
		default:
			c.ok(key, cc.Pos(), "token %s %q -> %s -> %s on (left,right)%s", tk, texts[tk], op, f.op, map[bool]string{true: " after zero test", false: ""}[needZero])
		}
	}
	c.atLeast("arithmetic opcodes", n, 6)

	// augmented assignment: which AugOp operand the statement compiler emits with the AugAssign* opcodes when the
	// operator of the AugAssignExpr is each token (read off the emission records of the compiler model, so a switch,
	// an if chain, a lookup table or a helper are all the same), then the augAssignOp clauses
	tokToAug := map[string]string{}
	tokAmbig := map[string]string{}
	{
		cm := buildCompModel(c)
		tokVal := map[string]int64{}
		for _, k := range c.constsOfType("lexer", "Token") {
			if v, ok := constant.Int64Val(k.Val()); ok {
				tokVal[k.Name()] = v
			}
		}
		augName := map[int64]string{}
		for _, k := range c.constsOfType("internal/compiler", "AugOp") {
			if v, ok := constant.Int64Val(k.Val()); ok {
				augName[v] = k.Name()
			}
		}
		// the augmented-assignment opcodes read the variable after the right-hand side has been evaluated; a plain
		// assignment `x = x + f()` reads it before. The opcodes are therefore emitted only for augmented-assignment
		// nodes: a shortcut that compiles `x = x OP e` to them changes the result whenever e changes x.
		{
			nAug, badPos := 0, token.NoPos
			for i := range cm.recs {
				r := &cm.recs[i]
				if !strings.HasPrefix(r.op, "AugAssign") {
					continue
				}
				nAug++
				forAug := false
				for _, t := range r.types {
					if t == "AugAssignExpr" {
						forAug = true
					}
				}
				if !forAug {
					badPos = r.pos
				}
			}
			if nAug > 0 {
				c.check(badPos == token.NoPos, "augassign:only-for-augassign", badPos, "the augmented-assignment opcodes are emitted only for augmented-assignment nodes",
					"the compiler emits an augmented-assignment opcode on a path where the node is not an AugAssignExpr (a shortcut for `x = x OP e`): those opcodes read x after e has been evaluated, the plain assignment reads it before, so `x = x + f()` with an f that assigns x gives a different result as a statement than as an expression")
			}
		}
		for _, tk := range arithTokens {
			seen := map[string]bool{}
			for _, method := range []string{"stmt", "expr"} {
				for _, r := range cm.emittedUnder(method, "AugAssignExpr", tokVal[tk], func(r *emitRec) bool { return strings.HasPrefix(r.op, "AugAssign") }) {
					if len(r.operands) == 0 || r.operands[0].k != cvConst {
						seen["?"] = true
						continue
					}
					if n, ok := augName[r.operands[0].c]; ok {
						seen[n] = true
					} else {
						seen["?"] = true
					}
				}
			}
			var names []string
			for n := range seen {
				names = append(names, n)
			}
			sort.Strings(names)
			if len(names) == 1 && names[0] != "?" {
				tokToAug[tk] = names[0]
			} else if len(names) > 0 {
				tokAmbig[tk] = strings.Join(names, ",")
			}
		}
	}
	afd := c.funcDecl("interp", "interp.augAssignOp")
	augClause := map[string][]ast.Stmt{}
	var lN, rN string
	if afd != nil {
		if len(afd.Type.Params.List) >= 2 {
			last := afd.Type.Params.List[len(afd.Type.Params.List)-1]
			if len(last.Names) == 2 {
				lN, rN = last.Names[0].Name, last.Names[1].Name
			}
		}
		ast.Inspect(afd.Body, func(nd ast.Node) bool {
			cc, ok := nd.(*ast.CaseClause)
			if !ok {
				return true
			}
			if cc.List == nil {
				augClause["default"] = cc.Body
			}
			for _, e := range cc.List {
				augClause[constName(info, e)] = cc.Body
			}
			return true
		})
	}
	if lN == "" {
		c.undecided("anchor:augAssignOp", token.NoPos, "augAssignOp(op, l, r) not recognised")
		return
	}
	allAug := map[string]bool{}
	for _, k := range c.constsOfType("internal/compiler", "AugOp") {
		allAug[k.Name()] = true
	}
	explicitAug := map[string]bool{}
	for a := range augClause {
		explicitAug[a] = true
	}
	na := 0
	for _, tk := range arithTokens {
		key := "augassign:" + tk
		a := tokToAug[tk]
		if a == "" {
			if amb := tokAmbig[tk]; amb != "" {
				c.bad(key, token.NoPos, "for `%s=` the compiler emits an AugAssign opcode with different or unknown AugOp operands on different paths: %s", texts[tk], amb)
			} else {
				c.undecided(key, token.NoPos, "no emission of an AugAssign opcode found for an AugAssignExpr whose operator is %s", tk)
			}
			continue
		}
		body := augClause[a]
		if body == nil {
			body = augClause["default"]
			rest := 0
			for x := range allAug {
				if !explicitAug[x] {
					rest++
				}
			}
			if rest != 1 {
				c.bad(key, token.NoPos, "%d AugOp values fall into augAssignOp's default clause", rest)
				continue
			}
		}
		f := analyseArith(info, body, numCallOn(lN), numCallOn(rN))
		want := arithWant[texts[tk]]
		na++
		needZero := tk == "DIV" || tk == "MOD"
		switch {
		case f.op != want:
			c.bad(key, afd.Pos(), "`%s=` is compiled to %s, for which augAssignOp computes %q instead of %q", texts[tk], a, f.op, want)
		case !f.orderOK:
			c.bad(key, afd.Pos(), "augAssignOp(%s) applies %q to (right, left)", a, f.op)
		case needZero && !f.zeroCheck:
			c.bad(key, afd.Pos(), "augAssignOp(%s) does not return an error when the divisor is zero", a)
		default:
			c.ok(key, afd.Pos(), "`%s=` -> %s -> %s on (current value, right)", texts[tk], a, f.op)
		}
	}
	c.atLeast("augmented assignment operators", na, 6)

	// statement form of ++/--: the amount operand emitted with the Incr* opcodes is +1 when the operator of the
	// IncrExpr is INCR and -1 when it is DECR (emission records: wherever and however the amount is chosen)
	{
		cm := buildCompModel(c)
		tokVal := map[string]int64{}
		for _, k := range c.constsOfType("lexer", "Token") {
			if v, ok := constant.Int64Val(k.Val()); ok {
				tokVal[k.Name()] = v
			}
		}
		var ipos token.Pos
		nrec := 0
		good := true
		detail := ""
		for tk, want := range map[string]int64{"INCR": 1, "DECR": -1} {
			for _, method := range []string{"stmt", "expr"} {
				for _, r := range cm.emittedUnder(method, "IncrExpr", tokVal[tk], func(r *emitRec) bool { return strings.HasPrefix(r.op, "Incr") }) {
					nrec++
					ipos = r.pos
					if len(r.operands) == 0 || r.operands[0].k != cvConst || r.operands[0].c != want {
						good = false
						detail = fmt.Sprintf("%s emitted for %s with amount operand %v instead of %d", r.op, tk, func() interface{} {
							if len(r.operands) > 0 && r.operands[0].k == cvConst {
								return r.operands[0].c
							}
							return "unknown"
						}(), want)
					}
				}
			}
		}
		if nrec == 0 {
			c.undecided("incrAmount", token.NoPos, "no emission of an Incr* opcode found that depends on the operator of an IncrExpr")
		} else {
			c.check(good, "incrAmount", ipos, fmt.Sprintf("statement ++/--: amount +1 for ++, -1 for -- on all %d emissions of Incr* opcodes", nrec), "statement form of ++/--: "+detail)
		}
	}
	// VM Incr* clauses add float64(amount)
	for _, op := range []string{"IncrField", "IncrGlobal", "IncrLocal", "IncrSpecial", "IncrArrayGlobal", "IncrArrayLocal"} {
		cc := vm.clauses[op]
		if cc == nil {
			continue
		}
		found := false
		ast.Inspect(cc, func(nd ast.Node) bool {
			be, ok := nd.(*ast.BinaryExpr)
			if ok && be.Op == token.ADD && strings.Contains(types.ExprString(be.Y), "amount") && strings.Contains(types.ExprString(be.X), ".num()") {
				found = true
			}
			return true
		})
		c.check(found, "incr-handler:"+op, cc.Pos(), op+" adds its amount operand to the current numeric value", op+" does not compute current.num() + amount")
	}
	// expression form of ++/--: under e.Op == INCR the expression compiler emits the opcode of "+" and not that of "-",
	// under DECR the reverse (read off the emission records, whatever the selection looks like)
	{
		cm := buildCompModel(c)
		tokVal := map[string]int64{}
		for _, k := range c.constsOfType("lexer", "Token") {
			if v, ok := constant.Int64Val(k.Val()); ok {
				tokVal[k.Name()] = v
			}
		}
		emitted := func(tk string) map[string]bool {
			ops := map[string]bool{}
			for _, r := range cm.emittedUnder("expr", "IncrExpr", tokVal[tk], nil) {
				ops[r.op] = true
			}
			return ops
		}
		inc, dec := emitted("INCR"), emitted("DECR")
		add, sub := t2o["ADD"], t2o["SUB"]
		var epos token.Pos
		if efd := c.funcDecl("internal/compiler", "compiler.expr"); efd != nil {
			epos = efd.Pos()
		}
		switch {
		case add == "" || sub == "" || (len(inc) == 0 && len(dec) == 0):
			c.undecided("incr-expression", epos, "no emission found in compiler.expr that depends on the operator of an IncrExpr (or no opcode known for + and -)")
		default:
			okExpr := inc[add] && !inc[sub] && dec[sub] && !dec[add]
			c.check(okExpr, "incr-expression", epos, "expression ++/--: "+add+" for ++, "+sub+" for --", "expression form of ++/-- does not select "+add+" for ++ and "+sub+" for --")
		}
	}
}
