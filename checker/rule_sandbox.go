package main

import (
	"fmt"
	"go/ast"
	"go/constant"
	"go/token"
	"go/types"
	"sort"
	"strings"

	"golang.org/x/tools/go/ssa"
)

// R-SANDBOX (C12): deny flags dominate every process start and file open.

// Open-flag values of the platform the program was loaded for. They are read from the loaded package os
// (setOpenFlags, called by load): O_CREATE, O_TRUNC and O_APPEND differ between linux, darwin and windows, and the
// flag constants in the analysed code are folded with the target platform's values.
var (
	oWRONLY int64 = 0x1
	oRDWR   int64 = 0x2
	oAPPEND int64 = 0x400
	oCREATE int64 = 0x40
	oTRUNC  int64 = 0x200
)

// setOpenFlags reads os.O_* from the type-checked package os of the loaded program. An unresolvable constant is an error
// (the flag clauses would otherwise be decided with another platform's values).
func setOpenFlags(osPkg *types.Package) error {
	for name, dst := range map[string]*int64{"O_WRONLY": &oWRONLY, "O_RDWR": &oRDWR, "O_APPEND": &oAPPEND, "O_CREATE": &oCREATE, "O_TRUNC": &oTRUNC} {
		k, ok := osPkg.Scope().Lookup(name).(*types.Const)
		if !ok {
			return fmt.Errorf("os.%s is not a constant of the loaded package os", name)
		}
		v, exact := constant.Int64Val(k.Val())
		if !exact || v == 0 {
			return fmt.Errorf("os.%s has no usable value", name)
		}
		*dst = v
	}
	return nil
}

var procStartMethods = map[string]bool{
	"(*os/exec.Cmd).Start": true, "(*os/exec.Cmd).Run": true, "(*os/exec.Cmd).Output": true,
	"(*os/exec.Cmd).CombinedOutput": true, "os.StartProcess": true, "syscall.Exec": true,
	"syscall.ForkExec": true, "syscall.StartProcess": true,
}

// OS-facing packages whose functions may be referenced in package interp only if listed.
var osPkgs = map[string]bool{"os": true, "os/exec": true, "syscall": true, "io/ioutil": true, "net": true,
	"net/http": true, "plugin": true, "os/signal": true, "io/fs": true, "path/filepath": true, "unsafe": true}

// allowed function/method references (full names) with the reason.
var osAllowed = map[string]string{
	"os.Environ":                       "reads the environment only",
	"os.Getenv":                        "reads the environment only",
	"os.LookupEnv":                     "reads the environment only",
	"(*os/exec.Cmd).StdinPipe":         "pipe set-up on a Cmd; the start itself is the guarded sink",
	"(*os/exec.Cmd).StdoutPipe":        "pipe set-up on a Cmd; the start itself is the guarded sink",
	"(*os/exec.Cmd).StderrPipe":        "pipe set-up on a Cmd; the start itself is the guarded sink",
	"(*os/exec.Cmd).Wait":              "waits for an already started (guarded) process",
	"(*os/exec.Cmd).Start":             "process-start sink, checked by dominance",
	"(*os/exec.Cmd).Run":               "process-start sink, checked by dominance",
	"(*os/exec.Cmd).Output":            "process-start sink, checked by dominance",
	"(*os/exec.Cmd).CombinedOutput":    "process-start sink, checked by dominance",
	"os/exec.Command":                  "only inside the single process helper (checked)",
	"os/exec.CommandContext":           "only inside the single process helper (checked)",
	"os.OpenFile":                      "only as the default value of the configurable open function (checked)",
	"(*os.ProcessState).Sys":           "inspects a finished process",
	"(*os.ProcessState).ExitCode":      "inspects a finished process",
	"(syscall.WaitStatus).CoreDump":    "inspects a wait status",
	"(syscall.WaitStatus).Signaled":    "inspects a wait status",
	"(syscall.WaitStatus).Signal":      "inspects a wait status",
	"(syscall.WaitStatus).Exited":      "inspects a wait status",
	"(syscall.WaitStatus).ExitStatus":  "inspects a wait status",
	"(*os.File).Close":                 "closes an already opened (guarded) file",
	"(*os.File).Read":                  "reads an already opened (guarded) file",
	"(*os.File).Write":                 "writes an already opened (guarded) file",
	"(*os.File).Name":                  "pure",
	"(*os/exec.ExitError).Error":       "pure",
	"(*os/exec.ExitError).ExitCode":    "pure",
	"(*os/exec.ExitError).Sys":         "pure",
	"(*os.ProcessState).Success":       "pure",
	"(*os.ProcessState).String":        "pure",
	"(*os/exec.ExitError).String":      "pure",
	"(*os/exec.ExitError).Success":     "pure",
	"(*os/exec.ExitError).Exited":      "pure",
	"(*os/exec.Cmd).String":            "pure",
	"(os.FileMode).String":             "pure",
	"(syscall.Signal).String":          "pure",
	"(syscall.Errno).Error":            "pure",
	"(*io/fs.PathError).Error":         "pure",
	"(*io/fs.PathError).Unwrap":        "pure",
	"(io/fs.FileMode).String":          "pure",
	"(syscall.WaitStatus).Stopped":     "inspects a wait status",
	"(syscall.WaitStatus).StopSignal":  "inspects a wait status",
	"(syscall.WaitStatus).Continued":   "inspects a wait status",
	"(syscall.WaitStatus).TrapCause":   "inspects a wait status",
	"(*os.ProcessState).Exited":        "inspects a finished process",
	"(*os.ProcessState).Pid":           "inspects a finished process",
	"(*os.ProcessState).SysUsage":      "inspects a finished process",
	"(*os.ProcessState).SystemTime":    "inspects a finished process",
	"(*os.ProcessState).UserTime":      "inspects a finished process",
	"(*os/exec.ExitError).Pid":         "pure",
	"(*os/exec.ExitError).SysUsage":    "pure",
	"(*os/exec.ExitError).SystemTime":  "pure",
	"(*os/exec.ExitError).UserTime":    "pure",
	"(*os/exec.ExitError).ExitStatus_": "placeholder",
}

func init() {
	register("R-SANDBOX", "every process start in package interp is dominated (locally or at every call site, transitively) by `if p.noExec {return error}`; every call through the configurable open function is dominated by the noFileWrites guard when its flag can contain a write bit and by the noFileReads guard otherwise; OS APIs are referenced only from the tabled places; the three flags and the open function are assigned from the like-named Config fields on every successful path of setExecuteConfig and written nowhere else; '>' maps to O_TRUNC and '>>' to O_APPEND, never both; the stdin name \"-\" is exempt from the read deny", ruleSandbox)
}

func ruleSandbox(c *Ctx) {
	fns := c.srcFuncs("interp")
	nStart, nOpen, nOpenW, nOpenR := 0, 0, 0, 0
	execCmdFuncs := map[string]bool{}
	for _, fn := range fns {
		fn := fn
		allInstrs(fn, func(in ssa.Instruction) {
			call, ok := in.(ssa.CallInstruction)
			if !ok {
				return
			}
			cc := call.Common()
			// (1) process-start sinks
			if o := calleeObj(call); o != nil {
				full := o.FullName()
				if procStartMethods[full] {
					nStart++
					key := "start:" + fnKey(fn) + ":" + full
					ok, why := c.guarded(in, "noExec", 0, map[*ssa.Function]bool{})
					if ok {
						c.ok(key, in.Pos(), "%s", why)
					} else {
						c.bad(key, in.Pos(), "process start %s is not dominated by the NoExec guard: %s", full, why)
					}
				}
				if full == "os/exec.Command" || full == "os/exec.CommandContext" {
					execCmdFuncs[fnKey(fn)] = true
				}
			}
			// (2) calls through a value of type OpenFileFunc
			if !cc.IsInvoke() && cc.StaticCallee() == nil && isNamed(cc.Value.Type(), modPath+"/interp", "OpenFileFunc") {
				nOpen++
				if len(cc.Args) < 2 {
					c.undecided("open:"+fnKey(fn), in.Pos(), "call through OpenFileFunc with unexpected arity")
					return
				}
				flags := constInts(cc.Args[1], 0)
				if flags == nil {
					c.bad(fmt.Sprintf("open:%s:flags", fnKey(fn)), in.Pos(), "open flag is not a compile-time constant set; cannot tell read from write")
					return
				}
				anyW, anyR := false, false
				both := false
				for _, f := range flags {
					if f&(oWRONLY|oRDWR|oCREATE|oTRUNC|oAPPEND) != 0 {
						anyW = true
					} else {
						anyR = true
					}
					if f&oTRUNC != 0 && f&oAPPEND != 0 {
						both = true
					}
				}
				kind := "read"
				if anyW {
					kind = "write"
				}
				key := fmt.Sprintf("open:%s:%s", fnKey(fn), kind)
				if anyW {
					nOpenW++
					ok, why := c.guarded(in, "noFileWrites", 0, map[*ssa.Function]bool{})
					if ok {
						c.ok(key, in.Pos(), "flags %v contain write bits; %s", flags, why)
					} else {
						c.bad(key, in.Pos(), "open with write flags %v is not dominated by the NoFileWrites guard: %s", flags, why)
					}
					c.check(!both, key+":trunc-xor-append", in.Pos(), "no flag value has both O_TRUNC and O_APPEND", "a flag value has both O_TRUNC and O_APPEND")
				}
				if anyR {
					nOpenR++
					ok, why := c.guarded(in, "noFileReads", 0, map[*ssa.Function]bool{})
					if ok {
						c.ok(key, in.Pos(), "flags %v read-only; %s", flags, why)
					} else {
						c.bad(key, in.Pos(), "open for reading (flags %v) is not dominated by the NoFileReads guard: %s", flags, why)
					}
				}
			}
		})
	}
	c.atLeast("process-start sinks", nStart, 3)
	c.atLeast("calls through OpenFileFunc", nOpen, 2) // at least one for reading and one for writing; readers may share a helper
	c.atLeast("write opens", nOpenW, 1)
	c.atLeast("read opens", nOpenR, 1)
	c.check(len(execCmdFuncs) == 1, "exec.Command:single-helper", token.NoPos,
		fmt.Sprintf("exec.Command/CommandContext referenced in exactly one function %v", keys(execCmdFuncs)),
		fmt.Sprintf("exec.Command/CommandContext referenced in %d functions %v (expected the single helper)", len(execCmdFuncs), keys(execCmdFuncs)))

	// (1b) who-may-reference OS APIs
	p := c.pkg("interp")
	type use struct {
		full string
		pos  token.Pos
		fn   string
	}
	var uses []use
	for _, f := range p.Syntax {
		var cur string
		ast.Inspect(f, func(n ast.Node) bool {
			if fd, ok := n.(*ast.FuncDecl); ok {
				cur = declName(fd)
			}
			id, ok := n.(*ast.Ident)
			if !ok {
				return true
			}
			obj := p.TypesInfo.Uses[id]
			fo, ok := obj.(*types.Func)
			if !ok || fo.Pkg() == nil || !osPkgs[fo.Pkg().Path()] {
				return true
			}
			uses = append(uses, use{fo.FullName(), id.Pos(), cur})
			return true
		})
	}
	c.stat("os-api-references", len(uses))
	openFileRefs := 0
	for _, u := range uses {
		key := "osref:" + u.fn + ":" + u.full
		reason, ok := osAllowed[u.full]
		if !ok {
			c.bad(key, u.pos, "OS-facing API %s referenced in package interp (function %s) is not in the allowed table: it could reach the file system or start a process outside the deny-flag checks", u.full, u.fn)
			continue
		}
		if u.full == "os.OpenFile" {
			openFileRefs++
			c.check(u.fn == "interp.setExecuteConfig", key, u.pos, "os.OpenFile only taken as the default for the configurable open function", "os.OpenFile referenced outside setExecuteConfig: files could be opened without going through Config.OpenFile")
			continue
		}
		c.trivial(key, u.pos, "%s", reason)
	}
	c.atLeast("os.OpenFile references", openFileRefs, 1)
	// no dot/blank imports of io/ioutil etc. beyond function refs: also flag package-level use of os.Root-like types via method values
	for _, f := range p.Syntax {
		for _, im := range f.Imports {
			path := strings.Trim(im.Path.Value, `"`)
			if path == "unsafe" || path == "plugin" || path == "net" || path == "net/http" || path == "io/ioutil" {
				c.bad("import:"+path, im.Pos(), "package interp imports %s", path)
			}
		}
	}

	// (3) config assignment + (5) who-may-write
	want := map[string]string{"noExec": "NoExec", "noFileWrites": "NoFileWrites", "noFileReads": "NoFileReads", "openFile": "OpenFile"}
	sec := c.ssaFunc("interp", "interp.setExecuteConfig")
	if sec == nil {
		c.undecided("anchor:setExecuteConfig", token.NoPos, "function interp.setExecuteConfig not found")
		return
	}
	for _, fn := range fns {
		fn := fn
		allInstrs(fn, func(in ssa.Instruction) {
			name, val := interpFieldStore(in)
			if want[name] == "" {
				return
			}
			key := "flagstore:" + fnKey(fn) + ":" + name
			if fn != sec {
				c.bad(key, in.Pos(), "field %s (sandbox configuration) is written outside setExecuteConfig, in %s", name, fnKey(fn))
				return
			}
			// source must be config.<Name> (or os.OpenFile for openFile)
			src := ""
			if f, x := loadedField(val); f != nil && isNamed(x.Type(), modPath+"/interp", "Config") {
				src = f.Name()
			}
			if fv, ok := val.(*ssa.ChangeType); ok {
				if g, ok := fv.X.(*ssa.Function); ok && g.String() == "os.OpenFile" {
					src = "os.OpenFile"
				}
			}
			if g, ok := val.(*ssa.Function); ok && g.String() == "os.OpenFile" {
				src = "os.OpenFile"
			}
			if src == want[name] || (name == "openFile" && src == "os.OpenFile") {
				c.ok(key+"<-"+src, in.Pos(), "p.%s assigned from %s", name, src)
			} else {
				c.bad(key+"<-"+src, in.Pos(), "p.%s is assigned from %q, expected Config.%s", name, src, want[name])
			}
		})
	}
	must := mustStoreAtSuccess(sec)
	for _, name := range sortedKeys(want) {
		c.check(must[name], "mustassign:"+name, sec.Pos(), "p."+name+" is assigned on every path of setExecuteConfig that returns nil",
			"p."+name+" is not assigned on some path of setExecuteConfig that returns nil (a stale value from an earlier Execute would survive)")
	}

	// (6) "-" stays available under NoFileReads: each noFileReads test is dominated by the not-"-" side of a comparison with "-"
	nDash := 0
	for _, fn := range fns {
		for _, b := range fn.Blocks {
			if len(b.Instrs) == 0 {
				continue
			}
			ifi, ok := b.Instrs[len(b.Instrs)-1].(*ssa.If)
			if !ok {
				continue
			}
			if name, _ := condField(ifi.Cond); name != "noFileReads" {
				continue
			}
			nDash++
			// dashExcluded: block blk of function f is reached only when a string was compared with "-" and differed
			dashExcluded := func(f *ssa.Function, blk *ssa.BasicBlock) bool {
				for _, d := range f.Blocks {
					if len(d.Instrs) == 0 || !d.Dominates(blk) {
						continue
					}
					di, ok := d.Instrs[len(d.Instrs)-1].(*ssa.If)
					if !ok {
						continue
					}
					bo, ok := di.Cond.(*ssa.BinOp)
					if !ok || (bo.Op != token.EQL && bo.Op != token.NEQ) {
						continue
					}
					isDash := func(v ssa.Value) bool {
						k, ok := v.(*ssa.Const)
						return ok && k.Value != nil && k.Value.ExactString() == `"-"`
					}
					if !isDash(bo.X) && !isDash(bo.Y) {
						continue
					}
					dashSucc := d.Succs[0]
					if bo.Op == token.NEQ {
						dashSucc = d.Succs[1]
					}
					if !reachableAvoiding(dashSucc, d)[blk] {
						return true
					}
				}
				return false
			}
			found := dashExcluded(fn, b)
			if !found {
				// the guard lives in a helper shared by several readers: then every call of the helper must be
				// reached only with a name that was compared with "-" and differed
				sites, okSites := 0, 0
				for _, g := range fns {
					for _, gb := range g.Blocks {
						for _, gin := range gb.Instrs {
							if call, ok := gin.(ssa.CallInstruction); ok && call.Common().StaticCallee() == fn {
								sites++
								if dashExcluded(g, gb) {
									okSites++
								}
							}
						}
					}
				}
				found = sites > 0 && sites == okSites
			}
			c.check(found, "dash-exempt:"+fnKey(fn), ifi.Pos(), "the NoFileReads test is reached only when the name is not \"-\" (standard input stays available)",
				"the NoFileReads test can be reached with the name \"-\": standard input under the name \"-\" would be denied")
		}
	}
	c.atLeast("NoFileReads tests", nDash, 1)
}

// mustStoreAtSuccess: interp fields definitely stored on every path to a `return ..., nil`.
var mustStoreMemo = map[*ssa.Function]map[string]bool{}
var mustStoreBusy = map[*ssa.Function]bool{}

// mustStoreAtSuccess: the interp fields stored on every path of fn that returns normally (a nil error), counting
// the stores of the functions of the package it calls on the way (their own success summaries). A call of a
// local function g also yields the pseudo-fact "call:g".
func mustStoreAtSuccess(fn *ssa.Function) map[string]bool {
	if r, ok := mustStoreMemo[fn]; ok {
		return copySet(r)
	}
	if mustStoreBusy[fn] {
		return map[string]bool{}
	}
	mustStoreBusy[fn] = true
	defer func() { delete(mustStoreBusy, fn) }()
	res := mustStoreAtSuccess0(fn)
	mustStoreMemo[fn] = res
	return copySet(res)
}

func mustStoreAtSuccess0(fn *ssa.Function) map[string]bool {
	out := mustStoreOut(fn)
	var res map[string]bool
	for _, b := range fn.Blocks {
		if len(b.Instrs) == 0 {
			continue
		}
		ret, ok := b.Instrs[len(b.Instrs)-1].(*ssa.Return)
		if !ok {
			continue
		}
		if rr := retResults(ret); len(rr) > 0 && !isNilConst(rr[len(rr)-1]) {
			continue // error return
		}
		if res == nil {
			res = copySet(out[b])
		} else {
			res = intersect(res, out[b])
		}
	}
	if res == nil {
		res = map[string]bool{}
	}
	return res
}

// mustStoreOut: forward must-dataflow over SSA blocks; fact = interp fields stored.
func mustStoreOut(fn *ssa.Function) map[*ssa.BasicBlock]map[string]bool {
	gen := map[*ssa.BasicBlock]map[string]bool{}
	for _, b := range fn.Blocks {
		g := map[string]bool{}
		for _, in := range b.Instrs {
			if names, _, _ := interpFieldStores(in); len(names) > 0 {
				for _, name := range names {
					g[name] = true
				}
			}
			// a function of the package called here: what it definitely stores when it succeeds
			if call, ok := in.(*ssa.Call); ok {
				if cal := call.Call.StaticCallee(); cal != nil && cal.Pkg == fn.Pkg && len(cal.Blocks) > 0 && cal != fn {
					g["call:"+cal.Name()] = true
					for k := range mustStoreAtSuccess(cal) {
						g[k] = true
					}
				}
			}
			// clearing idioms handled by callers that need them (R-RESET uses its own AST pass)
		}
		gen[b] = g
	}
	out := map[*ssa.BasicBlock]map[string]bool{}
	// initialise to "top" (nil = all) except entry
	changed := true
	top := map[*ssa.BasicBlock]bool{}
	for _, b := range fn.Blocks {
		top[b] = true
	}
	// under a binding of boolean parameters to constants (a helper entered from a call site that passes true or false)
	// only the blocks that can run are considered
	live := liveUnderParamBind(fn)
	for changed {
		changed = false
		for _, b := range fn.Blocks {
			if live != nil && !live[b] {
				continue
			}
			var in map[string]bool
			first := true
			if len(b.Preds) == 0 {
				in = map[string]bool{}
				first = false
			}
			for _, p := range b.Preds {
				if top[p] {
					continue
				}
				if live != nil && deadEdgeUnderParamBind(p, b) {
					continue // the branch in p cannot take this edge under the binding
				}
				if first {
					in = copySet(out[p])
					first = false
				} else {
					in = intersect(in, out[p])
				}
			}
			if first {
				continue // all preds still top
			}
			no := copySet(in)
			for k := range gen[b] {
				no[k] = true
			}
			if top[b] || !sameSet(no, out[b]) {
				out[b] = no
				top[b] = false
				changed = true
			}
		}
	}
	return out
}

func copySet(s map[string]bool) map[string]bool {
	o := map[string]bool{}
	for k := range s {
		o[k] = true
	}
	return o
}
func intersect(a, b map[string]bool) map[string]bool {
	o := map[string]bool{}
	for k := range a {
		if b[k] {
			o[k] = true
		}
	}
	return o
}
func sameSet(a, b map[string]bool) bool {
	if len(a) != len(b) {
		return false
	}
	for k := range a {
		if !b[k] {
			return false
		}
	}
	return true
}
func keys(m map[string]bool) []string {
	var o []string
	for k := range m {
		o = append(o, k)
	}
	sort.Strings(o)
	return o
}
func sortedKeys(m map[string]string) []string {
	var o []string
	for k := range m {
		o = append(o, k)
	}
	sort.Strings(o)
	return o
}

// curParamBind: boolean parameters known to be constants during a descent into a helper (set by the caller of the
// must-store analyses for the duration of the descent).
var curParamBind map[*ssa.Parameter]bool

// liveUnderParamBind: the blocks of fn reachable from its entry when branches on a bound boolean parameter take only
// their possible edge; nil when no parameter of fn is bound.
func liveUnderParamBind(fn *ssa.Function) map[*ssa.BasicBlock]bool {
	any := false
	for _, p := range fn.Params {
		if _, ok := curParamBind[p]; ok {
			any = true
		}
	}
	if !any || len(fn.Blocks) == 0 {
		return nil
	}
	val := func(v ssa.Value) (bool, bool) {
		neg := false
		for {
			if u, ok := v.(*ssa.UnOp); ok && u.Op == token.NOT {
				v, neg = u.X, !neg
				continue
			}
			break
		}
		if p, ok := v.(*ssa.Parameter); ok {
			if b, ok := curParamBind[p]; ok {
				return b != neg, true
			}
		}
		return false, false
	}
	live := map[*ssa.BasicBlock]bool{}
	var walk func(b *ssa.BasicBlock)
	walk = func(b *ssa.BasicBlock) {
		if live[b] {
			return
		}
		live[b] = true
		if len(b.Instrs) > 0 {
			if iff, ok := b.Instrs[len(b.Instrs)-1].(*ssa.If); ok {
				if v, known := val(iff.Cond); known {
					if v {
						walk(b.Succs[0])
					} else {
						walk(b.Succs[1])
					}
					return
				}
			}
		}
		for _, s := range b.Succs {
			walk(s)
		}
	}
	walk(fn.Blocks[0])
	return live
}

// deadEdgeUnderParamBind: block p ends in a branch on a bound boolean parameter and the edge to b is the one not taken.
func deadEdgeUnderParamBind(p, b *ssa.BasicBlock) bool {
	if len(p.Instrs) == 0 {
		return false
	}
	iff, ok := p.Instrs[len(p.Instrs)-1].(*ssa.If)
	if !ok || len(p.Succs) != 2 || p.Succs[0] == p.Succs[1] {
		return false
	}
	v, neg := iff.Cond, false
	for {
		if u, ok := v.(*ssa.UnOp); ok && u.Op == token.NOT {
			v, neg = u.X, !neg
			continue
		}
		break
	}
	prm, ok := v.(*ssa.Parameter)
	if !ok {
		return false
	}
	val, ok := curParamBind[prm]
	if !ok {
		return false
	}
	taken := p.Succs[1]
	if val != neg {
		taken = p.Succs[0]
	}
	return b != taken
}
