package main

import (
	"fmt"
	"go/token"
	"sort"
)

func init() {
	register("R-VMDUMP", "developer aid: print the VM model", func(c *Ctx) {
		m := buildVMModel(c)
		for _, is := range m.issues {
			c.undecided("model", token.NoPos, "%s", is)
		}
		var names []string
		for n := range m.ops {
			names = append(names, n)
		}
		sort.Strings(names)
		for h, d := range m.helpers {
			c.ok("helper:"+h, token.NoPos, "delta %s", d)
		}
		for _, n := range names {
			s := m.ops[n]
			if len(s.Issues) > 0 {
				c.undecided("op:"+n, s.Pos, "%v", s.Issues)
			}
			c.ok("op:"+n, s.Pos, "operands %d+%s reads-ok=%v effect %s leaves=%v normal=%v jumps=%v", s.NOper, s.VarOper, s.ReadsOK, s.effectString(), s.Leaves, s.HasNormal, s.Jumps)
		}
	})
	register("R-STACK", "stack effect of every code template: (1) each VM handler clause has a net stack effect that is a function of its operands only (abstract interpretation of the clause, stack helpers summarised from their bodies); (2) every path of every emitting method of the compiler, with each emitted opcode contributing its VM effect under the operands emitted and recursive calls contributing their specification (expr:+1, index:+1, stmt/stmts:0, condition: pushes K and returns a jump popping K), meets the method's own specification; (3) forward-jump marks are patched, and backward jumps land, at equal stack heights, and loop bodies, break targets and continue targets of one loop are at one height", ruleStack)
}

func ruleStack(c *Ctx) {
	vm := buildVMModel(c)
	for _, is := range vm.issues {
		c.undecided("vm-model", token.NoPos, "%s", is)
	}
	nh := 0
	for h, d := range vm.helpers {
		nh++
		c.ok("vm:helper:"+h, token.NoPos, "stack helper delta derived from its body: %s", d)
	}
	c.atLeast("stack helpers", nh, 6)
	var names []string
	for n := range vm.ops {
		names = append(names, n)
	}
	sort.Strings(names)
	for _, n := range names {
		s := vm.ops[n]
		if len(s.Issues) > 0 {
			for i, is := range s.Issues {
				c.bad(fmt.Sprintf("vm:effect:%s:%d", n, i), s.Pos, "handler of %s: %s", n, is)
			}
			continue
		}
		if !s.HasNormal {
			c.ok("vm:effect:"+n, s.Pos, "always leaves the block; consumes %d operands", s.NOper)
		} else {
			c.ok("vm:effect:"+n, s.Pos, "net stack effect %s on every fall-through path; %d operands", s.effectString(), s.NOper)
		}
	}
	c.atLeast("VM handler clauses", len(names), 90)
	m := buildCompModel(c)
	for i, is := range m.issues {
		c.undecided(fmt.Sprintf("compiler-model:%d", i), token.NoPos, "%s", is)
	}
	// merge duplicates: one obligation per key; violated wins
	type agg struct {
		ob compOb
		n  int
	}
	byKey := map[string]*agg{}
	var order []string
	for _, o := range m.obs {
		a := byKey[o.key]
		if a == nil {
			byKey[o.key] = &agg{ob: o, n: 1}
			order = append(order, o.key)
			continue
		}
		a.n++
		if !o.ok && a.ob.ok {
			a.ob = o
		}
	}
	sort.Strings(order)
	nt := 0
	for _, k := range order {
		a := byKey[k]
		switch {
		case a.ob.undec:
			c.undecided(k, a.ob.pos, "%s", a.ob.detail)
		case a.ob.ok:
			nt++
			c.ok(k, a.ob.pos, "%s", a.ob.detail)
		default:
			c.bad(k, a.ob.pos, "%s", a.ob.detail)
		}
	}
	c.stat("emission-sites", m.sites)
	c.atLeast("compiler template paths and joins verified", nt, 100)
	for _, a := range compAssumptions {
		c.trivial("assumption:"+a[:2], token.NoPos, "%s", a)
	}
}
