package main

// Abstract interpretation of the bytecode compiler: every path of every emitting
// method is walked, summing the VM stack effects of the opcodes it emits, with
// recursive calls replaced by their specifications (assume/guarantee).

import (
	"fmt"
	"go/ast"
	"go/constant"
	"go/token"
	"go/types"
	"sort"
	"strings"

	"golang.org/x/tools/go/packages"
)

type cKind int

const (
	cvOpaque cKind = iota
	cvExpr         // reference to an AST node of the program being compiled (symbolic id)
	cvConst        // integer constant (opcode, token, scope, builtin op, bool as 0/1)
	cvLin          // integer linear form (len(x), counters)
	cvMark         // result of jumpForward
	cvLabel        // result of labelBackward
	cvCond         // result of c.condition(): a jump opcode that pops K
	cvClosure
	cvFunc  // compiled function record
	cvSlice // local slice with tracked length
	cvNil
	cvTuple // the results of an inlined helper with several results
	cvTable // a struct or map value with known fields / entries (a composite literal, or a package-level table never written)
)

type cVal struct {
	k      cKind
	id     string // cvExpr: canonical text; cvCond: K atom; cvFunc: index atom
	typ    string // cvExpr: known dynamic type ("" unknown)
	c      int64
	lin    Lin
	bottom bool // cvMark: recorded at an unreachable point
	lit    *ast.FuncLit
	cenv   *cEnv
	tup    []cVal
	tab    map[string]cVal // cvTable: field name or constant key -> value
}

type cEnv struct {
	vars   map[types.Object]cVal
	parent *cEnv
	frame  int // non-zero: the root scope of an inlined method (identifies it across clones)
}

var frameCtr int

func (e *cEnv) get(o types.Object) (cVal, bool) {
	for x := e; x != nil; x = x.parent {
		if v, ok := x.vars[o]; ok {
			return v, true
		}
	}
	return cVal{}, false
}

func (e *cEnv) set(o types.Object, v cVal) {
	for x := e; x != nil; x = x.parent {
		if _, ok := x.vars[o]; ok {
			x.vars[o] = v
			return
		}
	}
	e.vars[o] = v
}

func (e *cEnv) cloneDeep() *cEnv {
	if e == nil {
		return nil
	}
	n := &cEnv{vars: map[types.Object]cVal{}, parent: e.parent.cloneDeep(), frame: e.frame}
	for k, v := range e.vars {
		n.vars[k] = v
	}
	return n
}

type cState struct {
	h        Lin
	bottom   bool
	env      *cEnv
	types    map[string]string // expr id -> dynamic type
	lits     []Lit             // facts over atoms
	frameHs  []Lin             // heights at c.stmts(body)/patchBreaks/patchContinues inside a loop template
	inLoop   bool
	pending  *Lin // variadic operands still to be emitted
	trace    []string
	retVal   *cVal
	returned bool
}

func (s *cState) clone() *cState {
	n := &cState{h: s.h.clone(), bottom: s.bottom, env: s.env.cloneDeep(), types: map[string]string{}, inLoop: s.inLoop, returned: s.returned}
	for k, v := range s.types {
		n.types[k] = v
	}
	n.lits = append([]Lit(nil), s.lits...)
	n.frameHs = append([]Lin(nil), s.frameHs...)
	n.trace = append([]string(nil), s.trace...)
	if s.pending != nil {
		p := s.pending.clone()
		n.pending = &p
	}
	if s.retVal != nil {
		r := *s.retVal
		n.retVal = &r
	}
	return n
}

type compModel struct {
	c      *Ctx
	vm     *vmModel
	pkg    *packages.Package
	info   *types.Info
	specs  map[string]Lin // method name -> net effect spec
	issues []string
	kctr   int
	sites  int
	emits  map[string]int // opcode -> number of emission sites
	obs    []compOb
	inlinedOnly []string // helper methods verified only where they are called
	recvObjs map[*types.Var]bool // the receiver variables of the methods of type compiler
	loopTrips map[string]loopTrip // loop id -> its trip count and the number of distinct iteration kinds
	recs   []emitRec // every emission of a known opcode, with what its path knows
}

// loopTrip: the iterations of a loop whose body has several distinct effects are counted by one atom per kind of
// iteration; together they make up the trip count.
type loopTrip struct {
	trip Lin
	n    int
}

// emitRec: one emission of an opcode on one path of the walk: the operands it was given and the facts and node types
// the path had established. The token -> opcode and token -> operand tables of the compiler are read off these records
// (whatever form the dispatch takes: switch, if chain, lookup table, helper).
type emitRec struct {
	method   string
	op       string
	operands []cVal
	lits     []Lit
	types    map[string]string
	pos      token.Pos
}

// under reports whether the path of the record is possible when the Op attribute of the node of AST type ownerType
// equals tok, and whether the path has pinned it to that value.
func (r *emitRec) under(ownerType string, tok int64) (possible, pinned bool) {
	possible = true
	for _, l := range r.lits {
		if !strings.HasSuffix(l.Atom, ".Op") || l.L != nil {
			continue
		}
		if r.types[strings.TrimSuffix(l.Atom, ".Op")] != ownerType {
			continue
		}
		if !l.evalConst(tok) {
			possible = false
		}
		if l.Rel == "==" && l.Val == tok {
			pinned = true
		}
	}
	return
}

// emittedUnder: what the compiler method `method` emits for a node of type ownerType whose Op is tok: the opcodes of the
// records whose path pins Op to tok or (for a default branch) is at least possible under it while having tested Op.
func (m *compModel) emittedUnder(method, ownerType string, tok int64, keep func(r *emitRec) bool) []*emitRec {
	var out []*emitRec
	for i := range m.recs {
		r := &m.recs[i]
		if r.method != method || (keep != nil && !keep(r)) {
			continue
		}
		tested := false
		for _, l := range r.lits {
			if strings.HasSuffix(l.Atom, ".Op") && l.L == nil && r.types[strings.TrimSuffix(l.Atom, ".Op")] == ownerType {
				tested = true
			}
		}
		if !tested {
			continue
		}
		if possible, _ := r.under(ownerType, tok); possible {
			out = append(out, r)
		}
	}
	return out
}

type compOb struct {
	key    string
	pos    token.Pos
	ok     bool
	undec  bool
	detail string
}

// declared assumptions (each justified by a checked fact elsewhere; listed in the evidence)
var compAssumptions = []string{
	"A1: at a user call the number of scalar arguments does not exceed the callee's scalar parameters (resolver rejects calls with more arguments than parameters; Arrays[i] partitions the parameters)",
	"A2: index lists are non-empty (the parser builds IndexExpr/InExpr/DeleteStmt-with-index/GetlineExpr targets only from a non-empty expression list)",
	"A3: nested execute() of statement code and of function bodies is stack-neutral (this is the very specification being verified inductively)",
}

const nilVal = -9999

type cWalker struct {
	inlineDepth int
	m       *compModel
	method  string
	recv    types.Object
	done    []*cState // finished paths (returned or fell off the end)
	depth   int
	pathTag string
}

// isRecv: the identifier denotes the compiler being walked: the receiver of the method under the walker, or (inside
// a closure handed to an inlined helper) the receiver of the method that built the closure - there is one compiler
// per walk, calls on anything else are not evaluated in place (see notInlined).
func (w *cWalker) isRecv(id *ast.Ident) bool {
	o := w.m.info.Uses[id]
	if o == nil {
		return false
	}
	if o == w.recv {
		return true
	}
	v, ok := o.(*types.Var)
	return ok && !v.IsField() && w.m.recvObjs[v]
}

func (m *compModel) issue(format string, args ...interface{}) {
	m.issues = append(m.issues, fmt.Sprintf(format, args...))
}

func buildCompModel(c *Ctx) *compModel {
	if m, ok := c.memo["compmodel"].(*compModel); ok {
		return m
	}
	m := &compModel{c: c, vm: buildVMModel(c), pkg: c.pkg("internal/compiler"), emits: map[string]int{}}
	m.info = m.pkg.TypesInfo
	c.memo["compmodel"] = m
	m.specs = map[string]Lin{"expr": linC(1), "index": linC(1), "stmt": linC(0), "stmts": linC(0)}
	// the primitive layer: the emitters and jump helpers modelled by name (their own shape is checked by R-JUMP /
	// R-LOOPSTACK), the pure helpers, and every method whose only callers are in that layer (a helper extracted
	// from a primitive is part of the primitive: it is interpreted where R-JUMP enters it)
	prim := map[string]bool{}
	for _, n := range []string{"add", "finish", "jumpForward", "patchForward", "labelBackward", "jumpBackward", "patchBreaks", "patchContinues",
		"numIndex", "strIndex", "regexIndex", "scalarInfo", "arrayInfo"} {
		prim[n] = true
	}
	callers := map[string]map[string]bool{}
	notInlined := map[string]bool{}
	for _, fd := range c.allFuncDecls("internal/compiler") {
		if fd.Recv == nil || recvTypeName(fd.Recv.List[0].Type) != "compiler" || fd.Body == nil {
			continue
		}
		from := fd.Name.Name
		var recvObj types.Object
		if len(fd.Recv.List[0].Names) > 0 {
			recvObj = m.info.Defs[fd.Recv.List[0].Names[0]]
		}
		calledFuns := map[ast.Expr]bool{}
		ast.Inspect(fd.Body, func(n ast.Node) bool {
			if call, ok := n.(*ast.CallExpr); ok {
				calledFuns[call.Fun] = true
				if f := calleeOf(m.info, call); f != nil && f.Pkg() == m.pkg.Types {
					if sig, ok := f.Type().(*types.Signature); ok && sig.Recv() != nil {
						if callers[f.Name()] == nil {
							callers[f.Name()] = map[string]bool{}
						}
						callers[f.Name()][from] = true
						// only calls on the method's own receiver are evaluated in place by the walker
						se, _ := call.Fun.(*ast.SelectorExpr)
						id, _ := func() (*ast.Ident, bool) {
							if se == nil {
								return nil, false
							}
							i, ok := se.X.(*ast.Ident)
							return i, ok
						}()
						if id == nil || recvObj == nil || m.info.Uses[id] != recvObj {
							notInlined[f.Name()] = true
						}
					}
				}
			}
			return true
		})
		// a method value (c.helper used without calling it) escapes the walker too
		ast.Inspect(fd.Body, func(n ast.Node) bool {
			if se, ok := n.(*ast.SelectorExpr); ok && !calledFuns[se] {
				if sel := m.info.Selections[se]; sel != nil && sel.Kind() == types.MethodVal && sel.Obj().Pkg() == m.pkg.Types {
					notInlined[sel.Obj().Name()] = true
				}
			}
			return true
		})
	}
	for changed := true; changed; {
		changed = false
		for callee, from := range callers {
			if prim[callee] || len(from) == 0 {
				continue
			}
			all := true
			for f := range from {
				if !prim[f] || f == "finish" {
					all = false
				}
			}
			if all {
				prim[callee] = true
				changed = true
			}
		}
	}
	m.recvObjs = map[*types.Var]bool{}
	for _, fd := range c.allFuncDecls("internal/compiler") {
		if fd.Recv != nil && recvTypeName(fd.Recv.List[0].Type) == "compiler" && len(fd.Recv.List[0].Names) > 0 {
			if v, ok := m.info.Defs[fd.Recv.List[0].Names[0]].(*types.Var); ok {
				m.recvObjs[v] = true
			}
		}
	}
	// verify each method of type compiler that emits code
	for _, fd := range c.allFuncDecls("internal/compiler") {
		if fd.Recv == nil || recvTypeName(fd.Recv.List[0].Type) != "compiler" || fd.Body == nil {
			continue
		}
		if prim[fd.Name.Name] {
			continue
		}
		// a helper without a specification of its own whose every use is a call on the receiver from another method
		// is evaluated in place at each of those calls, with the arguments passed there: walking it once more with
		// unknown arguments would decide nothing further
		if _, hasSpec := m.specs[fd.Name.Name]; !hasSpec && fd.Name.Name != "condition" && len(callers[fd.Name.Name]) > 0 && !notInlined[fd.Name.Name] && !callers[fd.Name.Name][fd.Name.Name] {
			m.inlinedOnly = append(m.inlinedOnly, fd.Name.Name)
			continue
		}
		m.verifyMethod(fd)
	}
	return m
}

func (m *compModel) newWalker(fd *ast.FuncDecl) (*cWalker, *cState) {
	w := &cWalker{m: m, method: fd.Name.Name}
	st := &cState{h: linC(0), env: &cEnv{vars: map[types.Object]cVal{}}, types: map[string]string{}}
	if fd.Recv != nil && len(fd.Recv.List[0].Names) > 0 {
		w.recv = m.info.Defs[fd.Recv.List[0].Names[0]]
	}
	for _, f := range fd.Type.Params.List {
		for _, nm := range f.Names {
			o := m.info.Defs[nm]
			t := m.info.TypeOf(f.Type)
			st.env.vars[o] = m.paramVal(nm.Name, t)
		}
	}
	return w, st
}

func (m *compModel) paramVal(name string, t types.Type) cVal {
	if isASTNodeType(t) {
		return cVal{k: cvExpr, id: name, typ: concreteASTType(t)}
	}
	if sl, ok := t.Underlying().(*types.Slice); ok && isASTNodeType(sl.Elem()) {
		return cVal{k: cvExpr, id: name}
	}
	return cVal{k: cvOpaque, id: name}
}

func isASTNodeType(t types.Type) bool {
	n := named(t)
	return n != nil && n.Obj().Pkg() != nil && n.Obj().Pkg().Path() == modPath+"/internal/ast"
}

func concreteASTType(t types.Type) string {
	if p, ok := t.(*types.Pointer); ok {
		if n, ok := p.Elem().(*types.Named); ok {
			return n.Obj().Name()
		}
	}
	return ""
}

// verifyMethod walks one method and checks every path against its spec (if it has one).
func (m *compModel) verifyMethod(fd *ast.FuncDecl) {
	w, st := m.newWalker(fd)
	name := fd.Name.Name
	out := w.stmts(fd.Body.List, []*cState{st})
	w.done = append(w.done, out...)
	spec, hasSpec := m.specs[name]
	npaths := 0
	for _, p := range w.done {
		npaths++
		if p.retVal != nil && p.retVal.id == "panic" {
			continue // internal-error panic: no code is produced on this path
		}
		key := fmt.Sprintf("template:%s:%s", name, strings.Join(p.trace, ">"))
		if p.pending != nil {
			m.obs = append(m.obs, compOb{key: key, pos: fd.Pos(), detail: "path ends with variadic operands announced but not emitted: " + p.pending.String()})
			continue
		}
		// loop frames
		frameOK := true
		for i := 1; i < len(p.frameHs); i++ {
			if !p.frameHs[i].Eq(p.frameHs[0]) {
				frameOK = false
			}
		}
		if !frameOK {
			m.obs = append(m.obs, compOb{key: key, pos: fd.Pos(), detail: fmt.Sprintf("loop body, break targets and continue targets are at different stack heights: %v", p.frameHs)})
			continue
		}
		if name == "condition" {
			m.checkConditionPath(fd, key, p)
			continue
		}
		if !hasSpec {
			// helper inlined at its call sites; verified there
			continue
		}
		if p.bottom {
			m.obs = append(m.obs, compOb{key: key, pos: fd.Pos(), ok: true, detail: "path ends after an unconditional jump (no fall-through)"})
			continue
		}
		d := m.normalise(p.h.Sub(spec), p)
		if d.IsZero() {
			m.obs = append(m.obs, compOb{key: key, pos: fd.Pos(), ok: true, detail: fmt.Sprintf("net stack effect %s = specification of %s", p.h.String(), name)})
		} else {
			m.obs = append(m.obs, compOb{key: key, pos: fd.Pos(), detail: fmt.Sprintf("code template leaves the stack at %s, specification of %s is %s (difference %s)", p.h.String(), name, spec.String(), d.String())})
		}
	}
	if npaths == 0 {
		m.issue("method %s has no analysable path", name)
	}
}

// checkConditionPath: condition() pushed h values and returns jump opcodes that must pop exactly h.
func (m *compModel) checkConditionPath(fd *ast.FuncDecl, key string, p *cState) {
	if p.retVal == nil {
		m.obs = append(m.obs, compOb{key: key, pos: fd.Pos(), undec: true, detail: "condition() path without a returned opcode"})
		return
	}
	v := *p.retVal
	if v.k != cvConst {
		m.obs = append(m.obs, compOb{key: key, pos: fd.Pos(), undec: true, detail: "condition() returns a non-constant opcode"})
		return
	}
	name := m.opName(v.c)
	m.emits[name]++
	s := m.vm.ops[name]
	if s == nil || len(s.Effects) != 1 || len(s.Jumps) == 0 {
		m.obs = append(m.obs, compOb{key: key, pos: fd.Pos(), detail: fmt.Sprintf("condition() returns %s, which is not a jump opcode with a fixed stack effect", name)})
		return
	}
	d := m.normalise(p.h.Add(s.Effects[0].SP), p)
	if d.IsZero() {
		m.obs = append(m.obs, compOb{key: key, pos: fd.Pos(), ok: true, detail: fmt.Sprintf("pushes %s, returns %s which pops %s", p.h.String(), name, s.Effects[0].SP.Scale(-1).String())})
	} else {
		m.obs = append(m.obs, compOb{key: key, pos: fd.Pos(), detail: fmt.Sprintf("condition() pushes %s but the returned %s pops %s", p.h.String(), name, s.Effects[0].SP.Scale(-1).String())})
	}
}

func (m *compModel) opName(v int64) string {
	for n, x := range m.vm.opVals {
		if x == v {
			return n
		}
	}
	return fmt.Sprintf("Opcode(%d)", v)
}

// normalise uses the path facts and declared assumptions to pin atoms to constants / equalities.
func (m *compModel) normalise(d Lin, p *cState) Lin {
	r := m.normalise0(d, p)
	if r.IsZero() {
		return r
	}
	// second attempt: the kinds of iteration of one loop add up to its trip count - eliminate one kind's atom (each in
	// turn) and try again
	for id, lt := range m.loopTrips {
		if lt.n < 2 {
			continue
		}
		for elim := 0; elim < lt.n; elim++ {
			atom := fmt.Sprintf("iter(%s:%d)", id, elim)
			if k, ok := d.T[atom]; !ok || k == 0 {
				continue
			}
			repl := lt.trip
			for i := 0; i < lt.n; i++ {
				if i != elim {
					repl = repl.Sub(linAtom(fmt.Sprintf("iter(%s:%d)", id, i)))
				}
			}
			if r2 := m.normalise0(d.Subst(map[string]Lin{atom: repl}, nil), p); r2.IsZero() {
				return r2
			}
		}
	}
	return r
}

func (m *compModel) normalise0(d Lin, p *cState) Lin {
	if d.IsZero() {
		return d
	}
	// atoms with lb == ub become constants
	sub := map[string]Lin{}
	for a := range d.T {
		lb, ub, hasL, hasU := int64(0), int64(0), false, false
		if strings.HasPrefix(a, "len(") && (strings.HasSuffix(a, ".Index)") || a == "len(index)") {
			lb, hasL = 1, true // A2
		}
		if strings.HasPrefix(a, "len(") && strings.HasSuffix(a, ".Args)") {
			base := strings.TrimSuffix(strings.TrimPrefix(a, "len("), ".Args)")
			for _, l := range p.lits {
				if l.Atom == base+".Func" && l.Rel == "==" {
					if ar, ok := m.builtinArity()[l.Val]; ok {
						lb, hasL = int64(ar[0]), true
						if ar[1] >= 0 {
							ub, hasU = int64(ar[1]), true
						}
					}
				}
			}
		}
		for _, l := range p.lits {
			if l.Atom != a {
				continue
			}
			switch l.Rel {
			case "==":
				lb, ub, hasL, hasU = l.Val, l.Val, true, true
			case "<=":
				if !hasU || l.Val < ub {
					ub, hasU = l.Val, true
				}
			case "<":
				if !hasU || l.Val-1 < ub {
					ub, hasU = l.Val-1, true
				}
			case ">=":
				if !hasL || l.Val > lb {
					lb, hasL = l.Val, true
				}
			case ">":
				if !hasL || l.Val+1 > lb {
					lb, hasL = l.Val+1, true
				}
			}
		}
		if hasL && hasU && lb == ub {
			sub[a] = linC(int(lb))
		}
	}
	d = d.Subst(sub, nil)
	if d.IsZero() {
		return d
	}
	// A1: sigma(scalar args) - NumScalars(f) with the path fact sigma >= NumScalars
	// (both compared after eliminating the first kind of iteration of every loop through the trip-count identity, so
	// that a fact stated about the array arguments - len(args) - arrays - speaks about the scalar ones)
	canon := func(x Lin) Lin {
		for id, lt := range m.loopTrips {
			if lt.n < 2 {
				continue
			}
			atom := fmt.Sprintf("iter(%s:0)", id)
			if k, ok := x.T[atom]; ok && k != 0 {
				repl := lt.trip
				for i := 1; i < lt.n; i++ {
					repl = repl.Sub(linAtom(fmt.Sprintf("iter(%s:%d)", id, i)))
				}
				x = x.Subst(map[string]Lin{atom: repl}, nil)
			}
		}
		return x
	}
	d = canon(d)
	if len(d.T) == 2 && d.C == 0 {
		var sig, ns string
		for a, k := range d.T {
			if strings.HasPrefix(a, "iter(") && k == 1 {
				sig = a
			}
			if strings.HasPrefix(a, "NumScalars(") && k == -1 {
				ns = a
			}
		}
		if sig != "" && ns != "" {
			for _, l := range p.lits {
				if l.Rel == "lin>=0" && l.L != nil && (l.L.Eq(d) || canon(*l.L).Eq(d)) {
					return linC(0) // path fact d >= 0; with A1 (scalar args <= NumScalars) d <= 0
				}
			}
		}
	}
	return d
}

// ---------------------------------------------------------------- statements

func (w *cWalker) tr(st *cState, s string) { st.trace = append(st.trace, s) }

func (w *cWalker) stmts(list []ast.Stmt, in []*cState) []*cState {
	cur := in
	for _, s := range list {
		if len(cur) == 0 {
			return nil
		}
		var next []*cState
		for _, st := range cur {
			if st.returned {
				next = append(next, st)
				continue
			}
			next = append(next, w.stmt(s, st)...)
		}
		cur = next
	}
	return cur
}

func (w *cWalker) objOf(id *ast.Ident) types.Object {
	if o := w.m.info.Defs[id]; o != nil {
		return o
	}
	return w.m.info.Uses[id]
}

func (w *cWalker) stmt(s ast.Stmt, st *cState) []*cState {
	info := w.m.info
	switch s := s.(type) {
	case nil, *ast.EmptyStmt:
		return []*cState{st}
	case *ast.BlockStmt:
		return w.stmts(s.List, []*cState{st})
	case *ast.DeclStmt:
		gd, ok := s.Decl.(*ast.GenDecl)
		if !ok {
			return []*cState{st}
		}
		cur := []*cState{st}
		for _, sp := range gd.Specs {
			vs, ok := sp.(*ast.ValueSpec)
			if !ok {
				continue
			}
			for i, nm := range vs.Names {
				var next []*cState
				for _, x := range cur {
					if i < len(vs.Values) {
						for _, r := range w.eval(vs.Values[i], x) {
							r.st.env.vars[info.Defs[nm]] = r.v
							next = append(next, r.st)
						}
					} else {
						t := info.TypeOf(nm)
						v := cVal{k: cvOpaque}
						if _, isSl := t.Underlying().(*types.Slice); isSl {
							v = cVal{k: cvSlice, lin: linC(0)}
						}
						if b, isB := t.Underlying().(*types.Basic); isB && b.Info()&types.IsInteger != 0 {
							v = cVal{k: cvLin, lin: linC(0)}
						}
						if _, isFn := t.Underlying().(*types.Signature); isFn {
							v = cVal{k: cvNil} // the zero value of a function variable
						}
						x.env.vars[info.Defs[nm]] = v
						next = append(next, x)
					}
				}
				cur = next
			}
		}
		return cur
	case *ast.ExprStmt:
		var out []*cState
		for _, r := range w.eval(s.X, st) {
			out = append(out, r.st)
		}
		return out
	case *ast.IncDecStmt:
		if id, ok := s.X.(*ast.Ident); ok {
			if v, ok := st.env.get(w.objOf(id)); ok && v.k == cvLin {
				d := 1
				if s.Tok == token.DEC {
					d = -1
				}
				v.lin = v.lin.Add(linC(d))
				st.env.set(w.objOf(id), v)
			}
		}
		return []*cState{st}
	case *ast.AssignStmt:
		return w.assign(s, st)
	case *ast.ReturnStmt:
		cur := []*cState{st}
		var out []*cState
		if len(s.Results) == 0 {
			st.returned = true
			return []*cState{st}
		}
		if len(s.Results) > 1 {
			// several results: evaluated left to right into a tuple
			type part struct {
				st *cState
				vs []cVal
			}
			parts := []part{{st, nil}}
			for _, re := range s.Results {
				var next []part
				for _, pt := range parts {
					for _, r := range w.eval(re, pt.st) {
						next = append(next, part{r.st, append(append([]cVal(nil), pt.vs...), r.v)})
					}
				}
				parts = next
			}
			for _, pt := range parts {
				v := cVal{k: cvTuple, tup: pt.vs}
				pt.st.retVal = &v
				pt.st.returned = true
				out = append(out, pt.st)
			}
			return out
		}
		for _, x := range cur {
			for _, r := range w.eval(s.Results[0], x) {
				v := r.v
				r.st.retVal = &v
				r.st.returned = true
				out = append(out, r.st)
			}
		}
		return out
	case *ast.IfStmt:
		cur := []*cState{st}
		if s.Init != nil {
			cur = w.stmt(s.Init, st)
		}
		var out []*cState
		for _, x := range cur {
			for _, br := range w.branch(s.Cond, x) {
				if br.taken {
					w.tr(br.st, "if("+condText(s.Cond)+")")
					out = append(out, w.stmts(s.Body.List, []*cState{br.st})...)
				} else if s.Else != nil {
					out = append(out, w.stmt(s.Else, br.st)...)
				} else {
					out = append(out, br.st)
				}
			}
		}
		return out
	case *ast.TypeSwitchStmt:
		return w.typeSwitch(s, st)
	case *ast.SwitchStmt:
		return w.switchStmt(s, st)
	case *ast.ForStmt:
		return w.forStmt(s, st)
	case *ast.RangeStmt:
		return w.rangeStmt(s, st)
	case *ast.BranchStmt:
		// break/continue inside analysed loop bodies end the iteration; handled by marking
		if s.Tok == token.CONTINUE || s.Tok == token.BREAK {
			st.returned = true // ends this body path; the loop handler resets it
			st.trace = append(st.trace, s.Tok.String())
		}
		return []*cState{st}
	}
	w.m.issue("%s: statement %T not understood at %s", w.method, s, w.m.c.relPos(s.Pos()))
	return []*cState{st}
}

func condText(e ast.Expr) string {
	s := types.ExprString(e)
	if len(s) > 40 {
		s = s[:40]
	}
	return s
}

type cBranch struct {
	st    *cState
	taken bool
}

// branch evaluates a condition: returns the feasible (state, taken) pairs with facts added.
func (w *cWalker) branch(cond ast.Expr, st *cState) []cBranch {
	info := w.m.info
	cond = stripParens(cond)
	// logical operators: short-circuit forks
	if be, ok := cond.(*ast.BinaryExpr); ok {
		switch be.Op {
		case token.LAND:
			var out []cBranch
			for _, a := range w.branch(be.X, st) {
				if !a.taken {
					out = append(out, a)
					continue
				}
				out = append(out, w.branch(be.Y, a.st)...)
			}
			return out
		case token.LOR:
			var out []cBranch
			for _, a := range w.branch(be.X, st) {
				if a.taken {
					out = append(out, a)
					continue
				}
				out = append(out, w.branch(be.Y, a.st)...)
			}
			return out
		}
	}
	if ue, ok := cond.(*ast.UnaryExpr); ok && ue.Op == token.NOT {
		var out []cBranch
		for _, a := range w.branch(ue.X, st) {
			a.taken = !a.taken
			out = append(out, a)
		}
		return out
	}
	// comparison  X rel const / nil
	if be, ok := cond.(*ast.BinaryExpr); ok {
		switch be.Op {
		case token.EQL, token.NEQ, token.LSS, token.LEQ, token.GTR, token.GEQ:
			var out []cBranch
			for _, l := range w.eval(be.X, st) {
				for _, r := range w.eval(be.Y, l.st) {
					lit, ok := w.litOf(l.v, be.Op.String(), r.v)
					if ok {
						if len(lit.Atom) == 0 {
							// fully constant
							out = append(out, cBranch{r.st, lit.Val == 1})
							continue
						}
						switch w.decide(lit, r.st) {
						case 1:
							out = append(out, cBranch{r.st, true})
						case -1:
							out = append(out, cBranch{r.st, false})
						default:
							t, f := r.st.clone(), r.st
							t.lits = append(t.lits, lit)
							f.lits = append(f.lits, lit.negate())
							out = append(out, cBranch{t, true}, cBranch{f, false})
						}
						continue
					}
					// linear comparison  A rel B  => remember, on each side, the linear form that is >= 0 there
					if la, okA := linOf(l.v); okA {
						if lb, okB := linOf(r.v); okB && (l.v.k == cvLin || r.v.k == cvLin) {
							var tf, ff *Lin
							amb, bma := la.Sub(lb), lb.Sub(la)
							switch be.Op {
							case token.LSS: // A < B
								x, y := bma.Sub(linC(1)), amb
								tf, ff = &x, &y
							case token.LEQ:
								x, y := bma, amb.Sub(linC(1))
								tf, ff = &x, &y
							case token.GTR:
								x, y := amb.Sub(linC(1)), bma
								tf, ff = &x, &y
							case token.GEQ:
								x, y := amb, bma.Sub(linC(1))
								tf, ff = &x, &y
							}
							if tf != nil {
								t, f := r.st.clone(), r.st
								t.lits = append(t.lits, Lit{Atom: tf.String(), Rel: "lin>=0", L: tf})
								f.lits = append(f.lits, Lit{Atom: ff.String(), Rel: "lin>=0", L: ff})
								out = append(out, cBranch{t, true}, cBranch{f, false})
								continue
							}
						}
					}
					t, f := r.st.clone(), r.st
					out = append(out, cBranch{t, true}, cBranch{f, false})
				}
			}
			return out
		}
	}
	// `v, ok := x.(T); ok` patterns are handled in assign (ok bound to a type test)
	if id, ok := cond.(*ast.Ident); ok {
		if v, ok := st.env.get(info.Uses[id]); ok && v.k == cvConst {
			return []cBranch{{st, v.c != 0}}
		}
		if v, ok := st.env.get(info.Uses[id]); ok && v.k == cvOpaque && strings.HasPrefix(v.id, "typetest:") {
			// ok from `x, ok := e.(T)`: v.id = "typetest:<exprid>:<T>"
			parts := strings.SplitN(v.id, ":", 3)
			eid, tn := parts[1], parts[2]
			if known, has := st.types[eid]; has {
				return []cBranch{{st, known == tn}}
			}
			t, f := st.clone(), st
			t.types[eid] = tn
			f.types[eid+"!"+tn] = "not"
			return []cBranch{{t, true}, {f, false}}
		}
	}
	// selector bool like e.Pre, f.Arrays[i], funcInfo.Native: opaque fork with a fact on the text
	var out []cBranch
	for _, r := range w.eval(cond, st) {
		atom := "bool:" + types.ExprString(cond)
		lit := Lit{Atom: atom, Rel: "==", Val: 1}
		switch w.decide(lit, r.st) {
		case 1:
			out = append(out, cBranch{r.st, true})
		case -1:
			out = append(out, cBranch{r.st, false})
		default:
			t, f := r.st.clone(), r.st
			t.lits = append(t.lits, lit)
			f.lits = append(f.lits, Lit{Atom: atom, Rel: "==", Val: 0})
			out = append(out, cBranch{t, true}, cBranch{f, false})
		}
	}
	return out
}

// litOf builds a literal from "a rel b" when one side is symbolic and the other constant.
func (w *cWalker) litOf(a cVal, rel string, b cVal) (Lit, bool) {
	atomOf := func(v cVal) (string, bool) {
		switch v.k {
		case cvExpr:
			return v.id, true
		case cvLin:
			if v.lin.C == 0 && len(v.lin.T) == 1 {
				for x, k := range v.lin.T {
					if k == 1 {
						return x, true
					}
				}
			}
		case cvOpaque:
			if v.id != "" {
				return v.id, true
			}
		}
		return "", false
	}
	constOf := func(v cVal) (int64, bool) {
		switch v.k {
		case cvConst:
			return v.c, true
		case cvNil:
			return nilVal, true
		case cvClosure:
			return nilVal + 1, true // a function literal is never nil
		case cvLin:
			if v.lin.IsConst() {
				return int64(v.lin.C), true
			}
		}
		return 0, false
	}
	if ca, ok := constOf(a); ok {
		if cb, ok := constOf(b); ok {
			l := Lit{Rel: rel, Val: cb}
			v := int64(0)
			if l.evalConst(ca) {
				v = 1
			}
			return Lit{Val: v}, true
		}
	}
	if at, ok := atomOf(a); ok {
		if cb, ok := constOf(b); ok {
			return Lit{Atom: at, Rel: rel, Val: cb}, true
		}
	}
	// atom + constant compared with a constant: move the constant over
	if a.k == cvLin && a.lin.C != 0 && len(a.lin.T) == 1 {
		for x, k := range a.lin.T {
			if cb, ok := constOf(b); ok && k == 1 {
				return Lit{Atom: x, Rel: rel, Val: cb - int64(a.lin.C)}, true
			}
		}
	}
	if at, ok := atomOf(b); ok {
		if ca, ok := constOf(a); ok {
			flip := map[string]string{"==": "==", "!=": "!=", "<": ">", ">": "<", "<=": ">=", ">=": "<="}
			return Lit{Atom: at, Rel: flip[rel], Val: ca}, true
		}
	}
	return Lit{}, false
}

// decide: 1 implied by the facts, -1 refuted, 0 unknown.
func (w *cWalker) decide(l Lit, st *cState) int {
	for _, f := range st.lits {
		if f.Atom != l.Atom {
			continue
		}
		if f.String() == l.String() {
			return 1
		}
		if f.contradicts(l) {
			return -1
		}
		if f.Rel == "==" {
			if l.evalConst(f.Val) {
				return 1
			}
			return -1
		}
		// f: x != v, l: x == v handled by contradicts; f: x > 1 implies x != 0 etc.
		if f.Rel == "notin" && l.Rel == "==" {
			for _, s := range f.Set {
				if s == l.Val {
					return -1
				}
			}
		}
		if impliesLit(f, l) {
			return 1
		}
	}
	return 0
}

func impliesLit(f, l Lit) bool {
	// numeric interval reasoning for <,<=,>,>=
	lo, hi := int64(-1<<40), int64(1<<40)
	switch f.Rel {
	case "<":
		hi = f.Val - 1
	case "<=":
		hi = f.Val
	case ">":
		lo = f.Val + 1
	case ">=":
		lo = f.Val
	default:
		return false
	}
	switch l.Rel {
	case "<":
		return hi < l.Val
	case "<=":
		return hi <= l.Val
	case ">":
		return lo > l.Val
	case ">=":
		return lo >= l.Val
	case "!=":
		return l.Val < lo || l.Val > hi
	}
	return false
}

func (w *cWalker) typeSwitch(s *ast.TypeSwitchStmt, st *cState) []*cState {
	info := w.m.info
	// forms: switch x := e.(type)  /  switch e.(type)
	var bindName *ast.Ident
	var subject ast.Expr
	switch a := s.Assign.(type) {
	case *ast.AssignStmt:
		bindName = a.Lhs[0].(*ast.Ident)
		subject = a.Rhs[0].(*ast.TypeAssertExpr).X
	case *ast.ExprStmt:
		subject = a.X.(*ast.TypeAssertExpr).X
	}
	var out []*cState
	for _, r := range w.eval(subject, st) {
		v := r.v
		if v.k != cvExpr {
			w.m.issue("%s: type switch on a non-AST value at %s", w.method, w.m.c.relPos(s.Pos()))
			out = append(out, r.st)
			continue
		}
		known := v.typ
		if known == "" {
			known = r.st.types[v.id]
		}
		matchedAny := false
		var listed []string
		for _, cs := range s.Body.List {
			cc := cs.(*ast.CaseClause)
			for _, te := range cc.List {
				tn := concreteASTType(info.TypeOf(te))
				listed = append(listed, tn)
				if known != "" && known != tn {
					continue
				}
				if r.st.types[v.id+"!"+tn] == "not" {
					continue
				}
				matchedAny = true
				b := r.st.clone()
				b.types[v.id] = tn
				w.tr(b, "case "+tn)
				if bindName != nil {
					if o := info.Implicits[cc]; o != nil {
						nv := v
						if len(cc.List) == 1 {
							nv.typ = tn
						}
						b.env.vars[o] = nv
					}
				}
				out = append(out, w.stmts(cc.Body, []*cState{b})...)
			}
		}
		// default / no case matched
		isListed := false
		for _, t := range listed {
			if t == known {
				isListed = true
			}
		}
		if (known == "" || !isListed) && !w.m.isLValueSet(listed, s) {
			d := r.st.clone()
			for _, t := range listed {
				d.types[v.id+"!"+t] = "not"
			}
			hasDefault := false
			for _, cs := range s.Body.List {
				cc := cs.(*ast.CaseClause)
				if cc.List == nil {
					hasDefault = true
					w.tr(d, "default")
					if bindName != nil {
						if o := info.Implicits[cc]; o != nil {
							d.env.vars[o] = v
						}
					}
					out = append(out, w.stmts(cc.Body, []*cState{d})...)
				}
			}
			if !hasDefault {
				w.tr(d, "nocase")
				out = append(out, d)
			}
		}
		_ = matchedAny
	}
	return out
}

func (w *cWalker) switchStmt(s *ast.SwitchStmt, st *cState) []*cState {
	cur := []*cState{st}
	if s.Init != nil {
		cur = w.stmt(s.Init, st)
	}
	var out []*cState
	for _, x := range cur {
		if s.Tag == nil {
			// switch { case cond: ... }: first true case wins
			rest := []*cState{x}
			for _, cs := range s.Body.List {
				cc := cs.(*ast.CaseClause)
				if cc.List == nil {
					continue
				}
				var nextRest []*cState
				for _, y := range rest {
					for _, br := range w.branch(cc.List[0], y) {
						if br.taken {
							w.tr(br.st, "case("+condText(cc.List[0])+")")
							out = append(out, w.stmts(cc.Body, []*cState{br.st})...)
						} else {
							nextRest = append(nextRest, br.st)
						}
					}
				}
				rest = nextRest
			}
			for _, cs := range s.Body.List {
				cc := cs.(*ast.CaseClause)
				if cc.List == nil {
					for _, y := range rest {
						w.tr(y, "default")
					}
					out = append(out, w.stmts(cc.Body, rest)...)
					rest = nil
				}
			}
			out = append(out, rest...)
			continue
		}
		for _, tv := range w.eval(s.Tag, x) {
			rest := []*cState{tv.st}
			for _, cs := range s.Body.List {
				cc := cs.(*ast.CaseClause)
				if cc.List == nil {
					continue
				}
				var nextRest []*cState
				for _, y := range rest {
					// case a, b: taken if tag == a || tag == b
					remaining := []*cState{y}
					for _, ce := range cc.List {
						var stillNot []*cState
						for _, z := range remaining {
							for _, cv := range w.eval(ce, z) {
								lit, ok := w.litOf(tv.v, "==", cv.v)
								if !ok {
									t, f := cv.st.clone(), cv.st
									w.tr(t, "case "+condText(ce))
									out = append(out, w.stmts(cc.Body, []*cState{t})...)
									stillNot = append(stillNot, f)
									continue
								}
								if lit.Atom == "" {
									if lit.Val == 1 {
										w.tr(cv.st, "case "+condText(ce))
										out = append(out, w.stmts(cc.Body, []*cState{cv.st})...)
									} else {
										stillNot = append(stillNot, cv.st)
									}
									continue
								}
								switch w.decide(lit, cv.st) {
								case 1:
									w.tr(cv.st, "case "+condText(ce))
									out = append(out, w.stmts(cc.Body, []*cState{cv.st})...)
								case -1:
									stillNot = append(stillNot, cv.st)
								default:
									t, f := cv.st.clone(), cv.st
									t.lits = append(t.lits, lit)
									f.lits = append(f.lits, lit.negate())
									w.tr(t, "case "+condText(ce))
									out = append(out, w.stmts(cc.Body, []*cState{t})...)
									stillNot = append(stillNot, f)
								}
							}
						}
						remaining = stillNot
					}
					nextRest = append(nextRest, remaining...)
				}
				rest = nextRest
			}
			handled := false
			for _, cs := range s.Body.List {
				cc := cs.(*ast.CaseClause)
				if cc.List == nil {
					label := "default"
					if rem, ok := w.m.enumRemaining(s, tv.v); ok && len(rem) == 1 {
						label = "case " + rem[0] // the default stands for the single remaining enum value
					}
					for _, y := range rest {
						w.tr(y, label)
					}
					out = append(out, w.stmts(cc.Body, rest)...)
					handled = true
				}
			}
			if !handled && !w.m.enumExhaustive(s, tv.v) {
				for _, y := range rest {
					w.tr(y, "nocase")
				}
				out = append(out, rest...)
			}
		}
	}
	// a `break` inside a switch case only leaves the switch
	for _, o := range out {
		if o.returned && len(o.trace) > 0 && o.trace[len(o.trace)-1] == "break" && o.retVal == nil {
			o.returned = false
		}
	}
	return out
}

// emitting reports whether a statement (sub)tree contains calls on the compiler receiver.
func (w *cWalker) emitting(n ast.Node) bool {
	found := false
	ast.Inspect(n, func(x ast.Node) bool {
		if call, ok := x.(*ast.CallExpr); ok {
			if se, ok := call.Fun.(*ast.SelectorExpr); ok {
				if id, ok := se.X.(*ast.Ident); ok && w.isRecv(id) {
					found = true
				}
			}
			// closures that emit
			if id, ok := call.Fun.(*ast.Ident); ok {
				if _, isVar := w.m.info.Uses[id].(*types.Var); isVar {
					found = true
				}
			}
		}
		return true
	})
	return found
}

// invalidate: variables assigned inside a skipped loop become opaque (slices keep a symbolic length).
func (w *cWalker) invalidate(body ast.Node, st *cState) {
	ast.Inspect(body, func(n ast.Node) bool {
		as, ok := n.(*ast.AssignStmt)
		if !ok {
			return true
		}
		for _, l := range as.Lhs {
			id, ok := l.(*ast.Ident)
			if !ok {
				continue
			}
			o := w.objOf(id)
			if o == nil {
				continue
			}
			t := w.m.info.TypeOf(id)
			if t == nil {
				continue
			}
			if _, isSl := t.Underlying().(*types.Slice); isSl {
				st.env.set(o, cVal{k: cvSlice, lin: linAtom("len(" + id.Name + ")"), id: id.Name})
			} else if isASTNodeType(t) {
				st.env.set(o, cVal{k: cvExpr, id: id.Name + "'"})
			} else {
				st.env.set(o, cVal{k: cvOpaque})
			}
		}
		return true
	})
}

func (w *cWalker) forStmt(s *ast.ForStmt, st *cState) []*cState {
	if !w.emitting(s.Body) {
		w.invalidate(s, st)
		return []*cState{st}
	}
	// counted loops over a slice length:  for i := len(v)-1; i >= 0; i--   /   for i := 0; i < len(v); i++
	cur := []*cState{st}
	if s.Init != nil {
		cur = w.stmt(s.Init, st)
	}
	var out []*cState
	for _, x := range cur {
		trip, ok := w.tripCount(s, x)
		if !ok {
			w.m.issue("%s: emitting loop whose trip count is not recognised at %s", w.method, w.m.c.relPos(s.Pos()))
			out = append(out, x)
			continue
		}
		out = append(out, w.loopBody(s.Body, x, trip, "for")...)
	}
	return out
}

func (w *cWalker) tripCount(s *ast.ForStmt, st *cState) (Lin, bool) {
	cond, ok := s.Cond.(*ast.BinaryExpr)
	if !ok {
		return Lin{}, false
	}
	init, ok := s.Init.(*ast.AssignStmt)
	if !ok || len(init.Lhs) != 1 {
		return Lin{}, false
	}
	iv := init.Lhs[0].(*ast.Ident)
	post, ok := s.Post.(*ast.IncDecStmt)
	if !ok {
		return Lin{}, false
	}
	start, ok1 := w.evalLinExpr(init.Rhs[0], st)
	if !ok1 {
		return Lin{}, false
	}
	if id, ok := cond.X.(*ast.Ident); !ok || id.Name != iv.Name {
		return Lin{}, false
	}
	bound, ok2 := w.evalLinExpr(cond.Y, st)
	if !ok2 {
		return Lin{}, false
	}
	switch {
	case post.Tok == token.INC && cond.Op == token.LSS:
		return bound.Sub(start), true
	case post.Tok == token.DEC && cond.Op == token.GEQ:
		return start.Sub(bound).Add(linC(1)), true
	}
	return Lin{}, false
}

func (w *cWalker) rangeStmt(s *ast.RangeStmt, st *cState) []*cState {
	if !w.emitting(s.Body) {
		w.invalidate(s, st)
		return []*cState{st}
	}
	var out []*cState
	for _, r := range w.eval(s.X, st) {
		var trip Lin
		switch r.v.k {
		case cvExpr:
			trip = linAtom("len(" + r.v.id + ")")
		case cvSlice:
			trip = r.v.lin
		default:
			w.m.issue("%s: range over a value that is not an AST list at %s", w.method, w.m.c.relPos(s.Pos()))
			out = append(out, r.st)
			continue
		}
		// bind key/value
		if id, ok := s.Value.(*ast.Ident); ok && id.Name != "_" {
			elem := cVal{k: cvExpr, id: r.v.id + "[*]"}
			if r.v.k != cvExpr {
				elem = cVal{k: cvOpaque}
			}
			r.st.env.vars[w.objOf(id)] = elem
		}
		if id, ok := s.Key.(*ast.Ident); ok && id.Name != "_" {
			r.st.env.vars[w.objOf(id)] = cVal{k: cvOpaque, id: "rangeidx"}
		}
		out = append(out, w.loopBody(s.Body, r.st, trip, "range "+r.v.id)...)
	}
	return out
}

// loopBody: interpret the body once per path from a relative state; total = sum over paths of iter(k)*delta_k,
// where all iter counts sum to trip. If all paths agree on everything the total is trip*delta.
func (w *cWalker) loopBody(body *ast.BlockStmt, st *cState, trip Lin, tag string) []*cState {
	probe := st.clone()
	probe.h = linC(0)
	probe.trace = nil
	probe.frameHs = nil
	// locals that are counters/slices: snapshot to compute per-iteration increments
	before := map[types.Object]cVal{}
	for e := probe.env; e != nil; e = e.parent {
		for o, v := range e.vars {
			if v.k == cvLin || v.k == cvSlice {
				if _, seen := before[o]; !seen {
					before[o] = v
				}
			}
		}
	}
	res := w.stmts(body.List, []*cState{probe})
	type pathEff struct {
		dh   Lin
		incs map[types.Object]Lin
		tr   string
	}
	var effs []pathEff
	perIter := 0 // operands of a pending variadic tail emitted per iteration
	for _, r := range res {
		if r.retVal != nil || (r.returned && !(len(r.trace) > 0 && (r.trace[len(r.trace)-1] == "continue" || r.trace[len(r.trace)-1] == "break"))) {
			w.m.issue("%s: return inside an emitting loop at %s", w.method, w.m.c.relPos(body.Pos()))
			continue
		}
		if r.pending != nil && st.pending != nil && !r.bottom && len(r.frameHs) == 0 {
			// the loop emits the operands of a pending variadic tail, so many per iteration
			d := st.pending.Sub(*r.pending)
			if d.IsConst() && d.C > 0 && (perIter == 0 || perIter == d.C) {
				perIter = d.C
				r.pending = nil
			}
		}
		if r.bottom || r.pending != nil || len(r.frameHs) > 0 {
			w.m.issue("%s: jump marks or pending operands cross loop iterations at %s", w.method, w.m.c.relPos(body.Pos()))
			continue
		}
		pe := pathEff{dh: r.h, incs: map[types.Object]Lin{}, tr: strings.Join(r.trace, ">")}
		for o, b := range before {
			a, _ := r.env.get(o)
			if a.k == b.k {
				d := a.lin.Sub(b.lin)
				if !d.IsZero() {
					pe.incs[o] = d
				}
			}
		}
		effs = append(effs, pe)
	}
	if len(effs) == 0 {
		return []*cState{st}
	}
	// merge identical path effects
	var uniq []pathEff
	for _, e := range effs {
		dup := false
		for _, u := range uniq {
			if u.dh.Eq(e.dh) && len(u.incs) == len(e.incs) {
				same := true
				for o, d := range e.incs {
					if !u.incs[o].Eq(d) {
						same = false
					}
				}
				if same {
					dup = true
				}
			}
		}
		if !dup {
			uniq = append(uniq, e)
		}
	}
	st.trace = append(st.trace, tag)
	if perIter > 0 && st.pending != nil {
		rest := st.pending.Sub(mulLin(linC(perIter), trip))
		if rest.IsZero() {
			st.pending = nil
			w.m.obs = append(w.m.obs, compOb{key: fmt.Sprintf("arity:%s:variadic-tail:%s", w.method, strings.Join(st.trace, ">")), pos: body.Pos(), ok: true, detail: fmt.Sprintf("variadic operand tail emitted in full by the loop (%d per iteration, %s iterations)", perIter, trip.String())})
		} else {
			st.pending = &rest
		}
	}
	if len(uniq) == 1 {
		u := uniq[0]
		st.h = st.h.Add(mulLin(u.dh, trip))
		for o, d := range u.incs {
			v, _ := st.env.get(o)
			v.lin = v.lin.Add(mulLin(d, trip))
			st.env.set(o, v)
		}
		return []*cState{st}
	}
	w.m.kctr++
	if w.m.loopTrips == nil {
		w.m.loopTrips = map[string]loopTrip{}
	}
	w.m.loopTrips[fmt.Sprintf("%s#%d", w.method, w.m.kctr)] = loopTrip{trip: trip, n: len(uniq)}
	for i, u := range uniq {
		it := fmt.Sprintf("iter(%s#%d:%d)", w.method, w.m.kctr, i)
		st.h = st.h.Add(mulLin(u.dh, linAtom(it)))
		for o, d := range u.incs {
			v, _ := st.env.get(o)
			v.lin = v.lin.Add(mulLin(d, linAtom(it)))
			st.env.set(o, v)
		}
	}
	return []*cState{st}
}

// mulLin multiplies two linear forms when at least one is constant or a single atom.
func mulLin(a, b Lin) Lin {
	if a.IsConst() {
		return b.Scale(a.C)
	}
	if b.IsConst() {
		return a.Scale(b.C)
	}
	if len(b.T) == 1 && b.C == 0 {
		for atom, k := range b.T {
			return a.Scale(k).MulAtom(atom)
		}
	}
	if len(a.T) == 1 && a.C == 0 {
		for atom, k := range a.T {
			return b.Scale(k).MulAtom(atom)
		}
	}
	return linAtom("(" + a.String() + ")*(" + b.String() + ")")
}

func (w *cWalker) assign(s *ast.AssignStmt, st *cState) []*cState {
	info := w.m.info
	// x, ok := e.(T)
	if len(s.Lhs) == 2 && len(s.Rhs) == 1 {
		if ta, ok := s.Rhs[0].(*ast.TypeAssertExpr); ok {
			var out []*cState
			for _, r := range w.eval(ta.X, st) {
				tn := concreteASTType(info.TypeOf(ta.Type))
				if r.v.k == cvExpr {
					nv := r.v
					nv.typ = "" // only valid when ok
					if id, ok := s.Lhs[0].(*ast.Ident); ok && id.Name != "_" {
						bound := r.v
						bound.typ = tn
						r.st.env.set(w.objOf(id), bound)
					}
					if id, ok := s.Lhs[1].(*ast.Ident); ok && id.Name != "_" {
						known := r.v.typ
						if known == "" {
							known = r.st.types[r.v.id]
						}
						if known != "" {
							c := int64(0)
							if known == tn {
								c = 1
							}
							r.st.env.set(w.objOf(id), cVal{k: cvConst, c: c})
						} else {
							r.st.env.set(w.objOf(id), cVal{k: cvOpaque, id: "typetest:" + r.v.id + ":" + tn})
						}
					}
				}
				out = append(out, r.st)
			}
			return out
		}
		// v, ok := table[key]
		if ie, ok := s.Rhs[0].(*ast.IndexExpr); ok {
			if _, isMap := info.TypeOf(ie.X).Underlying().(*types.Map); isMap {
				var out []*cState
				for _, r := range w.eval(ie.X, st) {
					for _, ix := range w.eval(ie.Index, r.st) {
						var rs []tabRes
						if r.v.k == cvTable {
							rs = w.tableIndex(r.v, ix.v, info.TypeOf(ie.X), ix.st)
						} else {
							rs = []tabRes{{ix.st, cVal{k: cvOpaque}, cVal{k: cvOpaque}}}
						}
						for _, tr := range rs {
							for i, v := range []cVal{tr.v, tr.found} {
								if id, ok := s.Lhs[i].(*ast.Ident); ok && id.Name != "_" {
									if s.Tok == token.DEFINE {
										tr.st.env.vars[w.objOf(id)] = v
									} else {
										tr.st.env.set(w.objOf(id), v)
									}
								}
							}
							out = append(out, tr.st)
						}
					}
				}
				return out
			}
		}
		// a, b := call()  (scalarInfo/arrayInfo/LookupVar ...)
		var out []*cState
		for _, r := range w.eval(s.Rhs[0], st) {
			if r.v.k == cvTuple && len(r.v.tup) == len(s.Lhs) {
				for i, l := range s.Lhs {
					if id, ok := l.(*ast.Ident); ok && id.Name != "_" {
						r.st.env.set(w.objOf(id), r.v.tup[i])
					}
				}
				out = append(out, r.st)
				continue
			}
			for i, l := range s.Lhs {
				if id, ok := l.(*ast.Ident); ok && id.Name != "_" {
					nm := id.Name
					if r.v.k == cvOpaque && (r.v.id == "scalarInfo" || r.v.id == "arrayInfo") {
						nm = fmt.Sprintf("%s.%d", r.v.id, i)
					}
					r.st.env.set(w.objOf(id), cVal{k: cvOpaque, id: nm})
				}
			}
			out = append(out, r.st)
		}
		return out
	}
	if len(s.Lhs) == 3 && len(s.Rhs) == 1 {
		var out []*cState
		for _, r := range w.eval(s.Rhs[0], st) {
			for _, l := range s.Lhs {
				if id, ok := l.(*ast.Ident); ok && id.Name != "_" {
					r.st.env.set(w.objOf(id), cVal{k: cvOpaque, id: id.Name})
				}
			}
			out = append(out, r.st)
		}
		return out
	}
	cur := []*cState{st}
	for i, rhs := range s.Rhs {
		if i >= len(s.Lhs) {
			break
		}
		var next []*cState
		for _, x := range cur {
			// x = append(x, a, b...)
			if call, ok := rhs.(*ast.CallExpr); ok && isIdent(call.Fun, "append") && len(call.Args) >= 1 {
				if id, ok := s.Lhs[i].(*ast.Ident); ok {
					if v, ok := x.env.get(w.objOf(id)); ok && v.k == cvSlice && types.ExprString(call.Args[0]) == id.Name {
						// evaluate appended values for their effects
						sts := []*cState{x}
						for _, a := range call.Args[1:] {
							var n2 []*cState
							for _, y := range sts {
								for _, r := range w.eval(a, y) {
									n2 = append(n2, r.st)
								}
							}
							sts = n2
						}
						for _, y := range sts {
							v2, _ := y.env.get(w.objOf(id))
							v2.lin = v2.lin.Add(linC(len(call.Args) - 1))
							y.env.set(w.objOf(id), v2)
							next = append(next, y)
						}
						continue
					}
				}
			}
			for _, r := range w.eval(rhs, x) {
				switch l := s.Lhs[i].(type) {
				case *ast.Ident:
					if l.Name != "_" {
						o := w.objOf(l)
						v := r.v
						if s.Tok == token.ADD_ASSIGN || s.Tok == token.SUB_ASSIGN {
							old, _ := r.st.env.get(o)
							if old.k == cvLin && v.k == cvLin {
								if s.Tok == token.ADD_ASSIGN {
									v.lin = old.lin.Add(v.lin)
								} else {
									v.lin = old.lin.Sub(v.lin)
								}
							} else {
								v = cVal{k: cvOpaque}
							}
						}
						if v.k == cvConst && o != nil {
							if b, ok := o.Type().(*types.Basic); ok && b.Kind() == types.Int {
								v = cVal{k: cvLin, lin: linC(int(v.c))}
							}
						}
						if s.Tok == token.DEFINE {
							r.st.env.vars[o] = v
						} else {
							r.st.env.set(o, v)
						}
					}
				case *ast.SelectorExpr:
					// c.breaks = append(c.breaks, ...) etc: loop frame bookkeeping
					if id, ok := l.X.(*ast.Ident); ok && w.isRecv(id) && isLoopStackType(info.TypeOf(l)) && isAppendCall(rhs) {
						r.st.inLoop = true
					}
				case *ast.IndexExpr:
					// c.breaks[i] = append(c.breaks[i], mark): recording a mark for a later patch at loop level
				}
				next = append(next, r.st)
			}
		}
		cur = next
	}
	return cur
}

// ---------------------------------------------------------------- expressions

type cRes struct {
	st *cState
	v  cVal
}

func one(st *cState, v cVal) []cRes { return []cRes{{st, v}} }

func (w *cWalker) evalLinExpr(e ast.Expr, st *cState) (Lin, bool) {
	rs := w.eval(e, st)
	if len(rs) != 1 {
		return Lin{}, false
	}
	switch rs[0].v.k {
	case cvLin:
		return rs[0].v.lin, true
	case cvConst:
		return linC(int(rs[0].v.c)), true
	}
	return Lin{}, false
}

func (w *cWalker) eval(e ast.Expr, st *cState) []cRes {
	info := w.m.info
	if e == nil {
		return one(st, cVal{k: cvNil})
	}
	if tv, ok := info.Types[e]; ok && tv.Value != nil {
		if v, ok := constInt(info, e); ok {
			return one(st, cVal{k: cvConst, c: v})
		}
		if tv.Value.Kind().String() == "Bool" {
			c := int64(0)
			if tv.Value.ExactString() == "true" {
				c = 1
			}
			return one(st, cVal{k: cvConst, c: c})
		}
		return one(st, cVal{k: cvOpaque})
	}
	switch x := e.(type) {
	case *ast.ParenExpr:
		return w.eval(x.X, st)
	case *ast.Ident:
		if x.Name == "nil" {
			return one(st, cVal{k: cvNil})
		}
		if x.Name == "true" || x.Name == "false" {
			c := int64(0)
			if x.Name == "true" {
				c = 1
			}
			return one(st, cVal{k: cvConst, c: c})
		}
		if v, ok := st.env.get(info.Uses[x]); ok {
			if v.k == cvExpr && v.typ == "" {
				if t, ok := st.types[v.id]; ok && t != "not" {
					v.typ = t
				}
			}
			return one(st, v)
		}
		if init := w.m.c.immutableVarInit(w.m.pkg, info.Uses[x]); init != nil {
			if cl, ok := init.(*ast.CompositeLit); ok {
				if rs := w.compositeLit(cl, st); len(rs) == 1 && rs[0].v.k == cvTable {
					return rs
				}
			}
		}
		return one(st, cVal{k: cvOpaque, id: x.Name})
	case *ast.SelectorExpr:
		var out []cRes
		for _, r := range w.eval(x.X, st) {
			switch r.v.k {
			case cvExpr:
				t := info.TypeOf(e)
				id := r.v.id + "." + x.Sel.Name
				if isASTNodeType(t) {
					out = append(out, cRes{r.st, cVal{k: cvExpr, id: id, typ: func() string {
						if ct := concreteASTType(t); ct != "" {
							return ct
						}
						return r.st.types[id]
					}()}})
				} else if sl, ok := t.Underlying().(*types.Slice); ok && isASTNodeType(sl.Elem()) {
					out = append(out, cRes{r.st, cVal{k: cvExpr, id: id}})
				} else {
					// scalar attribute of a node (Op, Redirect, Pre, Value, Name ...): symbolic atom
					out = append(out, cRes{r.st, cVal{k: cvOpaque, id: id}})
				}
			case cvFunc:
				out = append(out, cRes{r.st, cVal{k: cvLin, lin: linAtom(x.Sel.Name + "(" + r.v.id + ")")}})
				if x.Sel.Name == "Arrays" {
					out[len(out)-1].v = cVal{k: cvOpaque, id: "Arrays(" + r.v.id + ")"}
				}
			case cvTable:
				if fv, ok := r.v.tab[x.Sel.Name]; ok {
					out = append(out, cRes{r.st, fv})
				} else {
					out = append(out, cRes{r.st, cVal{k: cvOpaque}})
				}
			case cvOpaque:
				if r.v.id != "" {
					out = append(out, cRes{r.st, cVal{k: cvOpaque, id: r.v.id + "." + x.Sel.Name}})
				} else {
					out = append(out, cRes{r.st, cVal{k: cvOpaque}})
				}
			default:
				out = append(out, cRes{r.st, cVal{k: cvOpaque}})
			}
		}
		return out
	case *ast.IndexExpr:
		var out []cRes
		for _, r := range w.eval(x.X, st) {
			for _, ix := range w.eval(x.Index, r.st) {
				switch {
				case r.v.k == cvExpr:
					idx := "*"
					if ix.v.k == cvConst {
						idx = fmt.Sprint(ix.v.c)
					} else if ix.v.k == cvOpaque && ix.v.id != "" && ix.v.id != "rangeidx" {
						idx = ix.v.id
					}
					id := r.v.id + "[" + idx + "]"
					out = append(out, cRes{ix.st, cVal{k: cvExpr, id: id, typ: ix.st.types[id]}})
				case r.v.k == cvTable:
					for _, mr := range w.tableIndex(r.v, ix.v, info.TypeOf(x.X), ix.st) {
						out = append(out, cRes{mr.st, mr.v})
					}
				case r.v.k == cvOpaque && strings.HasSuffix(r.v.id, ".Functions"):
					// c.program.Functions[funcInfo.Index]
					atom := "?"
					if ix.v.k == cvOpaque && ix.v.id != "" {
						atom = ix.v.id
					} else if ix.v.k == cvLin {
						atom = ix.v.lin.String()
					}
					out = append(out, cRes{ix.st, cVal{k: cvFunc, id: atom}})
				case r.v.k == cvOpaque && strings.HasPrefix(r.v.id, "Arrays("):
					out = append(out, cRes{ix.st, cVal{k: cvOpaque, id: r.v.id + "[*]"}})
				default:
					out = append(out, cRes{ix.st, cVal{k: cvOpaque}})
				}
			}
		}
		return out
	case *ast.SliceExpr:
		return w.eval(x.X, st)
	case *ast.StarExpr:
		return w.eval(x.X, st)
	case *ast.UnaryExpr:
		if x.Op == token.AND {
			if cl, ok := x.X.(*ast.CompositeLit); ok {
				return w.compositeLit(cl, st)
			}
			return w.eval(x.X, st)
		}
		var out []cRes
		for _, r := range w.eval(x.X, st) {
			v := cVal{k: cvOpaque}
			if x.Op == token.SUB && r.v.k == cvConst {
				v = cVal{k: cvConst, c: -r.v.c}
			}
			if x.Op == token.NOT && r.v.k == cvConst {
				v = cVal{k: cvConst, c: 1 - r.v.c}
			}
			out = append(out, cRes{r.st, v})
		}
		return out
	case *ast.CompositeLit:
		return w.compositeLit(x, st)
	case *ast.FuncLit:
		return one(st, cVal{k: cvClosure, lit: x, cenv: st.env})
	case *ast.TypeAssertExpr:
		var out []cRes
		for _, r := range w.eval(x.X, st) {
			v := r.v
			if v.k == cvExpr {
				v.typ = concreteASTType(info.TypeOf(x.Type))
			}
			out = append(out, cRes{r.st, v})
		}
		return out
	case *ast.BinaryExpr:
		var out []cRes
		for _, l := range w.eval(x.X, st) {
			for _, r := range w.eval(x.Y, l.st) {
				v := cVal{k: cvOpaque}
				la, lok := linOf(l.v)
				ra, rok := linOf(r.v)
				if lok && rok {
					switch x.Op {
					case token.ADD:
						v = cVal{k: cvLin, lin: la.Add(ra)}
					case token.SUB:
						v = cVal{k: cvLin, lin: la.Sub(ra)}
					case token.MUL:
						if la.IsConst() || ra.IsConst() {
							v = cVal{k: cvLin, lin: mulLin(la, ra)}
						}
					case token.QUO:
						if ra.IsConst() && ra.C != 0 {
							okDiv := la.C%ra.C == 0
							for _, k := range la.T {
								if k%ra.C != 0 {
									okDiv = false
								}
							}
							if okDiv {
								d := Lin{C: la.C / ra.C, T: map[string]int{}}
								for a, k := range la.T {
									d.T[a] = k / ra.C
								}
								v = cVal{k: cvLin, lin: d}
							}
						}
					}
				}
				out = append(out, cRes{r.st, v})
			}
		}
		return out
	case *ast.CallExpr:
		return w.call(x, st)
	case *ast.BasicLit:
		return one(st, cVal{k: cvOpaque})
	case *ast.KeyValueExpr:
		return w.eval(x.Value, st)
	}
	return one(st, cVal{k: cvOpaque})
}

type tabRes struct {
	st    *cState
	v     cVal
	found cVal
}

// tableIndex: the value of table[key]. A constant key selects its entry; a symbolic key forks over the entries that
// the facts of the path allow, each fork learning which key it was, plus one fork for a key that is not in the table
// (zero value, found == false).
func (w *cWalker) tableIndex(tab, key cVal, tabType types.Type, st *cState) []tabRes {
	zero := cVal{k: cvOpaque}
	if mt, ok := tabType.Underlying().(*types.Map); ok {
		if b, ok := mt.Elem().Underlying().(*types.Basic); ok && b.Info()&types.IsInteger != 0 {
			zero = cVal{k: cvConst, c: 0}
		}
	}
	yes, no := cVal{k: cvConst, c: 1}, cVal{k: cvConst, c: 0}
	if key.k == cvConst || (key.k == cvLin && key.lin.IsConst()) {
		kc := key.c
		if key.k == cvLin {
			kc = int64(key.lin.C)
		}
		if ev, ok := tab.tab[fmt.Sprint(kc)]; ok {
			return []tabRes{{st, ev, yes}}
		}
		return []tabRes{{st, zero, no}}
	}
	atom := ""
	if key.k == cvOpaque || key.k == cvExpr {
		atom = key.id
	}
	if atom == "" || atom == "rangeidx" {
		return []tabRes{{st, cVal{k: cvOpaque}, cVal{k: cvOpaque}}}
	}
	var keys []int64
	for k := range tab.tab {
		var n int64
		if _, err := fmt.Sscan(k, &n); err != nil {
			return []tabRes{{st, cVal{k: cvOpaque}, cVal{k: cvOpaque}}}
		}
		keys = append(keys, n)
	}
	sort.Slice(keys, func(i, j int) bool { return keys[i] < keys[j] })
	var out []tabRes
	missing := st.clone()
	missingPossible := true
	for _, k := range keys {
		lit := Lit{Atom: atom, Rel: "==", Val: k}
		switch w.decide(lit, st) {
		case 1:
			return []tabRes{{st, tab.tab[fmt.Sprint(k)], yes}}
		case -1:
			continue
		}
		f := st.clone()
		f.lits = append(f.lits, lit)
		out = append(out, tabRes{f, tab.tab[fmt.Sprint(k)], yes})
		missing.lits = append(missing.lits, lit.negate())
	}
	if missingPossible {
		out = append(out, tabRes{missing, zero, no})
	}
	return out
}

func linOf(v cVal) (Lin, bool) {
	switch v.k {
	case cvLin:
		return v.lin, true
	case cvConst:
		return linC(int(v.c)), true
	}
	return Lin{}, false
}

var litCtr int

func (w *cWalker) compositeLit(cl *ast.CompositeLit, st *cState) []cRes {
	t := w.m.info.TypeOf(cl)
	if isASTNodeType(t) {
		litCtr++
		n := named(t)
		id := fmt.Sprintf("lit%s@%s", n.Obj().Name(), w.m.c.relPos(cl.Pos()))
		st.types[id] = n.Obj().Name()
		// fields that are themselves literals get types too (e.g. &ast.FieldExpr{Index: &ast.NumExpr{}})
		for _, el := range cl.Elts {
			if kv, ok := el.(*ast.KeyValueExpr); ok {
				if k, ok := kv.Key.(*ast.Ident); ok {
					if ue, ok := kv.Value.(*ast.UnaryExpr); ok {
						if icl, ok := ue.X.(*ast.CompositeLit); ok {
							if in := named(w.m.info.TypeOf(icl)); in != nil {
								st.types[id+"."+k.Name] = in.Obj().Name()
							}
						}
					}
				}
			}
		}
		return one(st, cVal{k: cvExpr, id: id, typ: n.Obj().Name()})
	}
	if _, ok := t.Underlying().(*types.Slice); ok {
		return one(st, cVal{k: cvSlice, lin: linC(len(cl.Elts))})
	}
	// a struct or map literal whose elements evaluate without forking: a table of known values
	tab := map[string]cVal{}
	elem := func(e ast.Expr) (cVal, bool) {
		rs := w.eval(e, st)
		if len(rs) != 1 || rs[0].st != st {
			return cVal{}, false
		}
		return rs[0].v, true
	}
	switch u := t.Underlying().(type) {
	case *types.Struct:
		for i, el := range cl.Elts {
			name, val := "", el
			if kv, ok := el.(*ast.KeyValueExpr); ok {
				if k, ok := kv.Key.(*ast.Ident); ok {
					name = k.Name
				}
				val = kv.Value
			} else if i < u.NumFields() {
				name = u.Field(i).Name()
			}
			v, ok := elem(val)
			if name == "" || !ok {
				return one(st, cVal{k: cvOpaque})
			}
			tab[name] = v
		}
		for i := 0; i < u.NumFields(); i++ {
			if _, ok := tab[u.Field(i).Name()]; !ok {
				if b, ok := u.Field(i).Type().Underlying().(*types.Basic); ok && b.Info()&types.IsInteger != 0 {
					tab[u.Field(i).Name()] = cVal{k: cvConst, c: 0}
				}
			}
		}
		return one(st, cVal{k: cvTable, tab: tab})
	case *types.Map:
		for _, el := range cl.Elts {
			kv, ok := el.(*ast.KeyValueExpr)
			if !ok {
				return one(st, cVal{k: cvOpaque})
			}
			kc, ok := constInt(w.m.info, kv.Key)
			if !ok {
				return one(st, cVal{k: cvOpaque})
			}
			v, ok := elem(kv.Value)
			if !ok {
				return one(st, cVal{k: cvOpaque})
			}
			tab[fmt.Sprint(kc)] = v
		}
		return one(st, cVal{k: cvTable, tab: tab})
	}
	return one(st, cVal{k: cvOpaque})
}

// evalArgs evaluates arguments left to right (forking).
func (w *cWalker) evalArgs(args []ast.Expr, st *cState) []struct {
	st *cState
	vs []cVal
} {
	type av = struct {
		st *cState
		vs []cVal
	}
	cur := []av{{st, nil}}
	for _, a := range args {
		var next []av
		for _, c := range cur {
			for _, r := range w.eval(a, c.st) {
				vs := append(append([]cVal(nil), c.vs...), r.v)
				next = append(next, av{r.st, vs})
			}
		}
		cur = next
	}
	return cur
}

func (w *cWalker) call(x *ast.CallExpr, st *cState) []cRes {
	info := w.m.info
	// conversions
	if tv, ok := info.Types[x.Fun]; ok && tv.IsType() && len(x.Args) == 1 {
		return w.eval(x.Args[0], st)
	}
	// builtins
	if id, ok := x.Fun.(*ast.Ident); ok {
		if _, isB := info.Uses[id].(*types.Builtin); isB {
			switch id.Name {
			case "len":
				var out []cRes
				for _, r := range w.eval(x.Args[0], st) {
					switch r.v.k {
					case cvExpr:
						out = append(out, cRes{r.st, cVal{k: cvLin, lin: linAtom("len(" + r.v.id + ")")}})
					case cvSlice:
						out = append(out, cRes{r.st, cVal{k: cvLin, lin: r.v.lin}})
					default:
						out = append(out, cRes{r.st, cVal{k: cvOpaque}})
					}
				}
				return out
			case "panic":
				var out []cRes
				for _, a := range w.evalArgs(x.Args, st) {
					a.st.returned = true
					a.st.bottom = true
					a.st.trace = append(a.st.trace, "panic")
					a.st.retVal = &cVal{k: cvOpaque, id: "panic"}
					out = append(out, cRes{a.st, cVal{k: cvOpaque}})
				}
				return out
			case "append", "make", "new", "cap", "copy", "delete":
				var out []cRes
				for _, a := range w.evalArgs(x.Args, st) {
					out = append(out, cRes{a.st, cVal{k: cvOpaque}})
				}
				return out
			}
		}
		// closure call
		if v, ok := st.env.get(info.Uses[id]); ok && v.k == cvClosure {
			return w.callClosure(v, x, st)
		}
		// package-level helper functions
		switch id.Name {
		case "opcodeInt":
			return w.eval(x.Args[0], st)
		}
		// any other plain function of the package (no receiver, so it cannot emit code): evaluated in place,
		// like a closure, so that an opcode chosen by a helper is still a known constant
		if fo, ok := info.Uses[id].(*types.Func); ok && fo.Pkg() == w.m.pkg.Types && w.inlineDepth < 3 {
			if hd := w.m.c.funcDecl("internal/compiler", fo.Name()); hd != nil && hd.Recv == nil && hd.Body != nil {
				w.inlineDepth++
				res := w.callClosure(cVal{k: cvClosure, lit: &ast.FuncLit{Type: hd.Type, Body: hd.Body}}, x, st)
				w.inlineDepth--
				return res
			}
		}
	}
	se, isSel := x.Fun.(*ast.SelectorExpr)
	if isSel {
		if id, ok := se.X.(*ast.Ident); ok && w.isRecv(id) {
			return w.compilerCall(se.Sel.Name, x, st)
		}
	}
	// any other call: evaluate args, opaque result
	var out []cRes
	for _, a := range w.evalArgs(x.Args, st) {
		v := cVal{k: cvOpaque}
		if isSel {
			v.id = "call:" + types.ExprString(x.Fun)
		}
		out = append(out, cRes{a.st, v})
	}
	return out
}

func (w *cWalker) callClosure(cl cVal, x *ast.CallExpr, st *cState) []cRes {
	var out []cRes
	for _, a := range w.evalArgs(x.Args, st) {
		// run the body in the caller's state with a child env
		saved := a.st.env
		child := &cEnv{vars: map[types.Object]cVal{}, parent: a.st.env}
		i := 0
		for _, f := range cl.lit.Type.Params.List {
			for _, nm := range f.Names {
				if i < len(a.vs) {
					child.vars[w.m.info.Defs[nm]] = a.vs[i]
				}
				i++
			}
		}
		a.st.env = child
		savedRet, savedReturned := a.st.retVal, a.st.returned
		a.st.retVal, a.st.returned = nil, false
		res := w.stmts(cl.lit.Body.List, []*cState{a.st})
		for _, r := range res {
			v := cVal{k: cvOpaque}
			if r.retVal != nil {
				v = *r.retVal
			}
			if r.retVal != nil && r.retVal.id == "panic" && r.bottom {
				// panicking path: keep as terminated
				out = append(out, cRes{r, v})
				continue
			}
			// restore the caller's env chain (the child's parent carries the caller's updates)
			r.env = r.env.parentOrSelf(child)
			r.retVal, r.returned = savedRet, savedReturned
			out = append(out, cRes{r, v})
		}
		_ = saved
	}
	return out
}

// parentOrSelf: after running a closure body, drop the closure's own scope.
func (e *cEnv) parentOrSelf(child *cEnv) *cEnv {
	if e.parent != nil {
		return e.parent
	}
	return e
}

// compilerCall handles c.<method>(...) calls.
func (w *cWalker) compilerCall(name string, x *ast.CallExpr, st *cState) []cRes {
	m := w.m
	var out []cRes
	switch name {
	case "expr", "index", "stmt", "stmts":
		for _, a := range w.evalArgs(x.Args, st) {
			if a.st.bottom {
				// code after an unconditional jump: reachable only via a patched mark; height unknown
			}
			if name == "stmts" && a.st.inLoop {
				a.st.frameHs = append(a.st.frameHs, a.st.h)
			}
			a.st.h = a.st.h.Add(m.specs[name])
			w.tr(a.st, name)
			out = append(out, cRes{a.st, cVal{k: cvOpaque}})
		}
		return out
	case "condition":
		for _, a := range w.evalArgs(x.Args, st) {
			m.kctr++
			k := fmt.Sprintf("K%d", m.kctr)
			a.st.h = a.st.h.Add(linAtom(k))
			w.tr(a.st, "condition")
			out = append(out, cRes{a.st, cVal{k: cvCond, id: k}})
		}
		return out
	case "add":
		return w.emit(x, x.Args, st, "add")
	case "jumpForward":
		for _, r := range w.emit(x, x.Args, st, "jumpForward") {
			mark := cVal{k: cvMark, lin: r.st.h, bottom: r.st.bottom}
			if r.v.k == cvConst && r.v.id == "unconditional" {
				r.st.bottom = true
			}
			out = append(out, cRes{r.st, mark})
		}
		return out
	case "jumpBackward":
		// jumpBackward(label, op, args...)
		for _, l := range w.eval(x.Args[0], st) {
			for _, r := range w.emit(x, x.Args[1:], l.st, "jumpBackward") {
				if l.v.k != cvLabel {
					m.issue("%s: jumpBackward to a non-label at %s", w.method, m.c.relPos(x.Pos()))
				} else if !r.st.bottom || true {
					d := m.normalise(r.st.h.Sub(l.v.lin), r.st)
					key := fmt.Sprintf("join:%s:jumpBackward:%s", w.method, strings.Join(r.st.trace, ">"))
					if d.IsZero() {
						m.obs = append(m.obs, compOb{key: key, pos: x.Pos(), ok: true, detail: "backward jump lands at the height of its label: " + l.v.lin.String()})
					} else {
						m.obs = append(m.obs, compOb{key: key, pos: x.Pos(), detail: fmt.Sprintf("backward jump at height %s to a label recorded at height %s", r.st.h, l.v.lin)})
					}
				}
				if r.v.k == cvConst && r.v.id == "unconditional" {
					r.st.bottom = true
				}
				out = append(out, cRes{r.st, cVal{k: cvOpaque}})
			}
		}
		return out
	case "labelBackward":
		return one(st, cVal{k: cvLabel, lin: st.h})
	case "patchForward":
		for _, a := range w.evalArgs(x.Args, st) {
			mk := a.vs[0]
			key := fmt.Sprintf("join:%s:patchForward:%s", w.method, strings.Join(a.st.trace, ">"))
			switch {
			case mk.k != cvMark:
				m.obs = append(m.obs, compOb{key: key, pos: x.Pos(), undec: true, detail: "patchForward of a value that is not a mark from jumpForward"})
			case a.st.bottom:
				a.st.bottom = false
				a.st.h = mk.lin
				m.obs = append(m.obs, compOb{key: key, pos: x.Pos(), ok: true, detail: "fall-through unreachable; height taken from the jump: " + mk.lin.String()})
			default:
				d := m.normalise(a.st.h.Sub(mk.lin), a.st)
				if d.IsZero() {
					m.obs = append(m.obs, compOb{key: key, pos: x.Pos(), ok: true, detail: "jump and fall-through meet at height " + mk.lin.String()})
				} else {
					m.obs = append(m.obs, compOb{key: key, pos: x.Pos(), detail: fmt.Sprintf("forward jump recorded at height %s is patched to a point at height %s", mk.lin, a.st.h)})
				}
			}
			w.tr(a.st, "patch")
			out = append(out, cRes{a.st, cVal{k: cvOpaque}})
		}
		return out
	case "patchBreaks", "patchContinues":
		st.frameHs = append(st.frameHs, st.h)
		if st.bottom {
			// after `jumpBackward(loopStart, Jump)` the only way here is through a break/continue mark
			st.bottom = false
		}
		w.tr(st, name)
		return one(st, cVal{k: cvOpaque})
	case "scalarInfo", "arrayInfo":
		for _, a := range w.evalArgs(x.Args, st) {
			out = append(out, cRes{a.st, cVal{k: cvOpaque, id: name}})
		}
		return out
	case "numIndex", "strIndex", "regexIndex", "finish":
		for _, a := range w.evalArgs(x.Args, st) {
			out = append(out, cRes{a.st, cVal{k: cvOpaque, id: name}})
		}
		return out
	}
	// other methods of compiler: inline their bodies
	fd := m.c.funcDecl("internal/compiler", "compiler."+name)
	if fd == nil || fd.Body == nil || w.depth > 4 {
		m.issue("%s: call of unknown compiler method %s at %s", w.method, name, m.c.relPos(x.Pos()))
		return one(st, cVal{k: cvOpaque})
	}
	for _, a := range w.evalArgs(x.Args, st) {
		// the frame of the inlined method hangs below the caller's, so that a closure built by the caller and called
		// by the helper still finds (and updates) the caller's variables; variables are keyed by their declaration,
		// so the helper's own names never resolve to the caller's
		frameCtr++
		child := &cEnv{vars: map[types.Object]cVal{}, parent: a.st.env, frame: frameCtr}
		i := 0
		for _, f := range fd.Type.Params.List {
			for _, nm := range f.Names {
				if i < len(a.vs) {
					child.vars[m.info.Defs[nm]] = a.vs[i]
				} else {
					child.vars[m.info.Defs[nm]] = cVal{k: cvOpaque}
				}
				i++
			}
		}
		fid := child.frame
		sub := &cWalker{m: m, method: w.method, depth: w.depth + 1}
		if fd.Recv != nil && len(fd.Recv.List[0].Names) > 0 {
			sub.recv = m.info.Defs[fd.Recv.List[0].Names[0]]
		}
		a.st.env = child
		savedRet, savedReturned := a.st.retVal, a.st.returned
		a.st.retVal, a.st.returned = nil, false
		w.tr(a.st, name+"(")
		res := sub.stmts(fd.Body.List, []*cState{a.st})
		for _, r := range res {
			if r.retVal != nil && r.retVal.id == "panic" && r.bottom {
				out = append(out, cRes{r, cVal{k: cvOpaque}})
				continue
			}
			rv := cVal{k: cvOpaque}
			if r.retVal != nil {
				rv = *r.retVal
			}
			// drop the helper's frame: back to the caller's environment as this path left it
			for e := r.env; e != nil; e = e.parent {
				if e.frame == fid {
					r.env = e.parent
					break
				}
			}
			r.retVal, r.returned = savedRet, savedReturned
			w.tr(r, ")")
			out = append(out, cRes{r, rv})
		}
	}
	return out
}

// emit handles c.add(op, args...) and the opcode part of jumpForward/jumpBackward.
func (w *cWalker) emit(call *ast.CallExpr, args []ast.Expr, st *cState, via string) []cRes {
	m := w.m
	var out []cRes
	if len(args) == 0 {
		return one(st, cVal{k: cvOpaque})
	}
	// spread of a slice: c.add(arrayOpcodes...)
	if call.Ellipsis.IsValid() && via == "add" {
		for _, r := range w.eval(args[0], st) {
			key := fmt.Sprintf("arity:%s:variadic-tail:%s", w.method, strings.Join(r.st.trace, ">"))
			if r.v.k != cvSlice {
				m.obs = append(m.obs, compOb{key: key, pos: call.Pos(), undec: true, detail: "spread emission of a value whose length is not tracked"})
			} else if r.st.pending == nil {
				m.obs = append(m.obs, compOb{key: key, pos: call.Pos(), detail: "raw operands emitted without a preceding opcode that announces a variadic tail"})
			} else {
				d := r.st.pending.Sub(r.v.lin)
				if d.IsZero() {
					m.obs = append(m.obs, compOb{key: key, pos: call.Pos(), ok: true, detail: "variadic operand tail has the announced length " + r.v.lin.String()})
				} else {
					m.obs = append(m.obs, compOb{key: key, pos: call.Pos(), detail: fmt.Sprintf("variadic tail has %s operands, the VM consumes %s", r.v.lin, r.st.pending)})
				}
				r.st.pending = nil
			}
			out = append(out, cRes{r.st, cVal{k: cvOpaque}})
		}
		return out
	}
	for _, a := range w.evalArgs(args, st) {
		opv := a.vs[0]
		operands := a.vs[1:]
		m.sites++
		if a.st.pending != nil && opv.k == cvConst {
			m.obs = append(m.obs, compOb{key: fmt.Sprintf("arity:%s:pending:%s", w.method, strings.Join(a.st.trace, ">")), pos: call.Pos(), detail: "an opcode is emitted while the variadic operands of the previous one are still missing"})
			a.st.pending = nil
		}
		switch opv.k {
		case cvCond:
			// opcode returned by condition(): pops K, one operand (the offset, added by jumpForward/jumpBackward)
			if via == "add" {
				m.obs = append(m.obs, compOb{key: "arity:" + w.method + ":cond-via-add", pos: call.Pos(), detail: "a conditional jump opcode is emitted with add(): its offset operand is missing"})
			}
			a.st.h = a.st.h.Sub(linAtom(opv.id))
			w.tr(a.st, "jcond")
			out = append(out, cRes{a.st, cVal{k: cvConst, id: "conditional"}})
			continue
		case cvConst:
		default:
			if a.st.pending != nil && via == "add" {
				// operands of the variadic tail announced by the previous opcode, emitted a few at a time
				// (`for _, a := range arrayArgs { c.add(a.scope, a.index) }`)
				m.sites--
				rest := a.st.pending.Sub(linC(len(a.vs)))
				key := fmt.Sprintf("arity:%s:variadic-tail:%s", w.method, strings.Join(a.st.trace, ">"))
				if rest.IsZero() {
					a.st.pending = nil
					m.obs = append(m.obs, compOb{key: key, pos: call.Pos(), ok: true, detail: "variadic operand tail emitted in full"})
				} else if rest.IsConst() && rest.C < 0 {
					m.obs = append(m.obs, compOb{key: key, pos: call.Pos(), detail: fmt.Sprintf("more raw operands emitted than the %s the VM consumes", a.st.pending)})
					a.st.pending = nil
				} else {
					a.st.pending = &rest
				}
				out = append(out, cRes{a.st, cVal{k: cvOpaque}})
				continue
			}
			m.obs = append(m.obs, compOb{key: fmt.Sprintf("emit:%s:nonconst:%s", w.method, strings.Join(a.st.trace, ">")), pos: call.Pos(), undec: true, detail: "emitted opcode is not a known constant on this path"})
			out = append(out, cRes{a.st, cVal{k: cvOpaque}})
			continue
		}
		name := m.opName(opv.c)
		m.emits[name]++
		sum := m.vm.ops[name]
		{
			ty := make(map[string]string, len(a.st.types))
			for k, v := range a.st.types {
				ty[k] = v
			}
			m.recs = append(m.recs, emitRec{method: w.method, op: name, operands: append([]cVal(nil), operands...), lits: append([]Lit(nil), a.st.lits...), types: ty, pos: call.Pos()})
		}
		w.tr(a.st, name)
		if name == "Nop" {
			out = append(out, cRes{a.st, cVal{k: cvOpaque}})
			continue
		}
		if sum == nil {
			m.obs = append(m.obs, compOb{key: "emit:" + w.method + ":" + name + ":nohandler", pos: call.Pos(), detail: "opcode " + name + " is emitted but the VM has no handler clause for it"})
			out = append(out, cRes{a.st, cVal{k: cvOpaque}})
			continue
		}
		// arity
		nops := len(operands)
		if via != "add" {
			nops++ // the jump offset
		}
		akey := fmt.Sprintf("arity:%s:%s", w.method, name)
		if nops != sum.NOper {
			m.obs = append(m.obs, compOb{key: akey, pos: call.Pos(), detail: fmt.Sprintf("%s is emitted with %d operands, the VM consumes %d", name, nops, sum.NOper)})
		} else {
			m.obs = append(m.obs, compOb{key: akey, pos: call.Pos(), ok: true, detail: fmt.Sprintf("%s emitted with %d operands = VM", name, nops)})
		}
		if via != "add" && len(sum.Jumps) == 0 {
			m.obs = append(m.obs, compOb{key: akey + ":notjump", pos: call.Pos(), detail: name + " is emitted through a jump helper but its handler does not use its last operand as a jump offset"})
		}
		if via == "add" && len(sum.Jumps) > 0 {
			m.obs = append(m.obs, compOb{key: akey + ":jump-via-add", pos: call.Pos(), detail: name + " is a jump but is emitted with add() (offset never patched)"})
		}
		// substitution of operands
		sub := map[string]Lin{}
		ren := map[string]string{}
		consts := map[string]int64{}
		atoms := map[string]string{}
		for i, ov := range operands {
			opn := fmt.Sprintf("op%d", i)
			switch ov.k {
			case cvConst:
				sub[opn] = linC(int(ov.c))
				consts[opn] = ov.c
			case cvLin:
				sub[opn] = ov.lin
				if ov.lin.C == 0 && len(ov.lin.T) == 1 {
					for at, k := range ov.lin.T {
						if k == 1 {
							atoms[opn] = at
						}
					}
				}
				if ov.lin.IsConst() {
					consts[opn] = int64(ov.lin.C)
				}
			case cvOpaque, cvExpr:
				if ov.id != "" {
					sub[opn] = linAtom(ov.id)
					ren[opn] = ov.id
					atoms[opn] = ov.id
				}
			}
		}
		if !sum.VarOper.IsZero() {
			p := sum.VarOper.Subst(sub, ren)
			a.st.pending = &p
		}
		if !sum.HasNormal {
			// Next/Exit/Return...: leaves the code block; what follows is reachable only by jumps
			res := cVal{k: cvConst, id: "leaves"}
			// the popped value of Return/ExitStatus: consumed
			out = append(out, cRes{a.st, res})
			a.st.h = a.st.h.Add(w.leaveEffect(name))
			continue
		}
		// choose the effect(s) whose guards are not refuted
		type cand struct {
			sp   Lin
			lits []Lit
		}
		var cands []cand
		for _, e := range sum.Effects {
			refuted := false
			var need []Lit
			for _, g := range e.Guards {
				if cv, ok := consts[g.Atom]; ok {
					if !g.evalConst(cv) {
						refuted = true
					}
					continue
				}
				at, ok := atoms[g.Atom]
				if !ok {
					need = append(need, g)
					continue
				}
				ng := g
				ng.Atom = at
				switch w.decide(ng, a.st) {
				case -1:
					refuted = true
				case 0:
					need = append(need, ng)
				}
			}
			if !refuted {
				cands = append(cands, cand{e.SP.Subst(sub, ren), need})
			}
		}
		if len(cands) == 0 {
			m.obs = append(m.obs, compOb{key: "effect:" + w.method + ":" + name + ":nocase", pos: call.Pos(), undec: true, detail: "no VM path of " + name + " is compatible with the operands emitted here"})
			out = append(out, cRes{a.st, cVal{k: cvOpaque}})
			continue
		}
		allSame := true
		for _, cnd := range cands[1:] {
			if !cnd.sp.Eq(cands[0].sp) {
				allSame = false
			}
		}
		res := cVal{k: cvConst, id: "conditional"}
		if name == "Jump" {
			res.id = "unconditional"
		}
		if allSame {
			a.st.h = a.st.h.Add(cands[0].sp)
			out = append(out, cRes{a.st, res})
			continue
		}
		for _, cnd := range cands {
			b := a.st.clone()
			b.lits = append(b.lits, cnd.lits...)
			b.h = b.h.Add(cnd.sp)
			out = append(out, cRes{b, res})
		}
	}
	return out
}

// leaveEffect: stack effect of an opcode that always leaves the block (Return pops its value).
func (w *cWalker) leaveEffect(name string) Lin {
	cc := w.m.vm.clauses[name]
	if cc == nil {
		return linC(0)
	}
	// re-walk the clause keeping the leaving paths' sp
	wk := &vmWalker{m: w.m.vm, name: name}
	st := &vmState{sp: linC(0), ipVar: linC(0), jumps: map[int]bool{}, reads: map[int]bool{}, tail: map[int]bool{}, env: map[types.Object]absVal{}}
	wk.stmts(cc.Body, []*vmState{st})
	var sp *Lin
	for _, r := range wk.results {
		if sp == nil {
			x := r.st.sp
			sp = &x
		}
	}
	if sp == nil {
		return linC(0)
	}
	return *sp
}

func sortedObs(obs []compOb) []compOb {
	sort.SliceStable(obs, func(i, j int) bool { return obs[i].key < obs[j].key })
	return obs
}

// isLValueSet: a default-less type switch whose case set is exactly that of ast.IsLValue is exhaustive
// for the positions the parser fills only with lvalues (assumption A5, backed by R-EXH).
func (m *compModel) isLValueSet(listed []string, s *ast.TypeSwitchStmt) bool {
	for _, cs := range s.Body.List {
		if cs.(*ast.CaseClause).List == nil {
			return false
		}
	}
	want := m.lvalueTypes()
	if len(want) == 0 {
		return false
	}
	got := map[string]bool{}
	for _, t := range listed {
		got[t] = true
	}
	if len(got) != len(want) {
		return false
	}
	for t := range want {
		if !got[t] {
			return false
		}
	}
	return true
}

func (m *compModel) lvalueTypes() map[string]bool {
	if v, ok := m.c.memo["lvalueTypes"].(map[string]bool); ok {
		return v
	}
	out := map[string]bool{}
	fd := m.c.funcDecl("internal/ast", "IsLValue")
	if fd != nil {
		info := m.c.pkg("internal/ast").TypesInfo
		ast.Inspect(fd.Body, func(n ast.Node) bool {
			cc, ok := n.(*ast.CaseClause)
			if !ok || cc.List == nil {
				return true
			}
			ret := false
			for _, st := range cc.Body {
				if r, ok := st.(*ast.ReturnStmt); ok && len(r.Results) == 1 && isIdent(r.Results[0], "true") {
					ret = true
				}
			}
			if ret {
				for _, e := range cc.List {
					if t := concreteASTType(info.TypeOf(e)); t != "" {
						out[t] = true
					}
				}
			}
			return true
		})
	}
	m.c.memo["lvalueTypes"] = out
	return out
}

// enumExhaustive: the switch lists every value its tag can take (all constants of the tag's named
// type, or the restricted domain of a tabled producer), so there is no fall-through path.
func (m *compModel) enumExhaustive(s *ast.SwitchStmt, tag cVal) bool {
	rem, ok := m.enumRemaining(s, tag)
	return ok && len(rem) == 0
}

// enumRemaining: the values of a small closed enum tag that no case lists (ok=false when the tag is not such an enum).
func (m *compModel) enumRemaining(s *ast.SwitchStmt, tag cVal) ([]string, bool) {
	t := m.info.TypeOf(s.Tag)
	n, ok := t.(*types.Named)
	if !ok || n.Obj().Pkg() == nil || !strings.HasPrefix(n.Obj().Pkg().Path(), modPath) {
		return nil, false
	}
	domain := map[int64]string{}
	sc := n.Obj().Pkg().Scope()
	for _, nm := range sc.Names() {
		if k, ok := sc.Lookup(nm).(*types.Const); ok && types.Identical(k.Type(), t) {
			if v, ok := constantInt(k); ok {
				domain[v] = nm
			}
		}
	}
	// arrays are never special variables: arrayInfo's scope is Global or Local (assumption A4, see R-SCOPE)
	if tag.k == cvOpaque && tag.id == "arrayInfo.0" {
		for v, nm := range domain {
			if nm == "Special" {
				delete(domain, v)
			}
		}
	}
	if len(domain) == 0 || len(domain) > 8 {
		return nil, false // only small closed enums (Scope); token/opcode enums are open-ended here
	}
	for _, cs := range s.Body.List {
		for _, e := range cs.(*ast.CaseClause).List {
			if v, ok := constInt(m.info, e); ok {
				delete(domain, v)
			}
		}
	}
	var rem []string
	for _, nm := range domain {
		rem = append(rem, n.Obj().Pkg().Name()+"."+nm)
	}
	sort.Strings(rem)
	return rem, true
}

func constantInt(k *types.Const) (int64, bool) {
	if k.Val().Kind() != constant.Int {
		return 0, false
	}
	return constant.Int64Val(k.Val())
}

// builtinArity: token value -> (min,max) number of arguments the parser constructs for that builtin
// (max -1 = unbounded). Derived from the composite literals `&ast.CallExpr{Func: X, Args: ...}` in the parser.
func (m *compModel) builtinArity() map[int64][2]int {
	if v, ok := m.c.memo["builtinArity"].(map[int64][2]int); ok {
		return v
	}
	out := map[int64][2]int{}
	pp := m.c.pkg("parser")
	info := pp.TypesInfo
	for _, fd := range m.c.allFuncDecls("parser") {
		if fd.Body == nil {
			continue
		}
		ast.Inspect(fd.Body, func(n ast.Node) bool {
			cc, ok := n.(*ast.CaseClause)
			if !ok {
				return true
			}
			// tokens of this clause
			var toks []int64
			for _, e := range cc.List {
				if v, ok := constInt(info, e); ok {
					toks = append(toks, v)
				}
			}
			// find CallExpr literals directly in this clause
			ast.Inspect(&ast.BlockStmt{List: cc.Body}, func(x ast.Node) bool {
				if inner, ok := x.(*ast.CaseClause); ok && inner != cc {
					return false
				}
				cl, ok := x.(*ast.CompositeLit)
				if !ok || !isNamed(info.TypeOf(cl), modPath+"/internal/ast", "CallExpr") {
					return true
				}
				var fn []int64
				lo, hi := 0, 0
				for _, el := range cl.Elts {
					kv, ok := el.(*ast.KeyValueExpr)
					if !ok {
						continue
					}
					switch kv.Key.(*ast.Ident).Name {
					case "Func":
						if v, ok := constInt(info, kv.Value); ok {
							fn = []int64{v}
						} else {
							fn = toks // `op := p.tok` inside a multi-token clause
						}
					case "Args":
						lo, hi = argsBounds(info, kv.Value, cc.Body)
					}
				}
				for _, f := range fn {
					if old, ok := out[f]; ok {
						if lo > old[0] {
							lo = old[0]
						}
						if hi != -1 && (old[1] == -1 || old[1] > hi) {
							hi = old[1]
						}
					}
					out[f] = [2]int{lo, hi}
				}
				return true
			})
			return true
		})
	}
	m.c.memo["builtinArity"] = out
	return out
}

// argsBounds: bounds on len(Args) for an Args value that is a slice literal or a local variable
// initialised from a literal / nil and extended by append inside if (max+1) or for (unbounded).
func argsBounds(info *types.Info, e ast.Expr, body []ast.Stmt) (int, int) {
	if cl, ok := e.(*ast.CompositeLit); ok {
		return len(cl.Elts), len(cl.Elts)
	}
	id, ok := e.(*ast.Ident)
	if !ok {
		return 0, -1
	}
	obj := info.Uses[id]
	lo, hi := 0, 0
	var walk func(list []ast.Stmt, cond, loop bool)
	walk = func(list []ast.Stmt, cond, loop bool) {
		for _, s := range list {
			switch s := s.(type) {
			case *ast.AssignStmt:
				for i, l := range s.Lhs {
					lid, ok := l.(*ast.Ident)
					if !ok || (info.Defs[lid] != obj && info.Uses[lid] != obj) || i >= len(s.Rhs) {
						continue
					}
					switch r := s.Rhs[i].(type) {
					case *ast.CompositeLit:
						lo, hi = len(r.Elts), len(r.Elts)
					case *ast.CallExpr:
						if isIdent(r.Fun, "append") {
							n := len(r.Args) - 1
							if loop {
								hi = -1
							} else if hi != -1 {
								hi += n
							}
							if !cond && !loop {
								lo += n
							}
						}
					}
				}
			case *ast.IfStmt:
				walk(s.Body.List, true, loop)
				if b, ok := s.Else.(*ast.BlockStmt); ok {
					walk(b.List, true, loop)
				}
			case *ast.ForStmt:
				walk(s.Body.List, true, true)
			case *ast.BlockStmt:
				walk(s.List, cond, loop)
			}
		}
	}
	walk(body, false, false)
	return lo, hi
}

// isLoopStackType: a slice whose elements are slices, structs or pointers (the per-loop bookkeeping of the compiler;
// R-LOOPSTACK checks that it balances).
func isLoopStackType(t types.Type) bool {
	if t == nil {
		return false
	}
	sl, ok := t.Underlying().(*types.Slice)
	if !ok {
		return false
	}
	switch sl.Elem().Underlying().(type) {
	case *types.Slice, *types.Struct, *types.Pointer:
		return true
	}
	return false
}

func isAppendCall(e ast.Expr) bool {
	call, ok := e.(*ast.CallExpr)
	return ok && isIdent(call.Fun, "append")
}
