package main

import (
	"go/token"
	"go/types"

	"golang.org/x/tools/go/ssa"
)

// assignNotDecidedByRecord (part of R-RECSTATE, C06): assigning a field or $0 is an event, not a comparison: it
// rebuilds $0 with the current OFS (field) or re-splits under the current FS ($0) even when the text assigned equals
// the text that was there. Whether a call of the field/record setters happens may therefore depend on the operands
// of the instruction (the substitution count of sub/gsub, an error) but not on the record's current content: no
// condition that controls such a call is computed from getField or from the record-group fields of the interpreter.
func assignNotDecidedByRecord(c *Ctx) {
	setters := map[string]bool{"setField": true, "setLine": true}
	recFields := map[string]bool{"fields": true, "line": true, "numFields": true}
	n := 0
	for _, fn := range c.srcFuncs("interp") {
		fn := fn
		if setters[fn.Name()] || fn.Name() == "ensureFields" || fn.Name() == "getField" {
			continue
		}
		k := 0
		allInstrs(fn, func(in ssa.Instruction) {
			call, ok := in.(ssa.CallInstruction)
			if !ok {
				return
			}
			cal := call.Common().StaticCallee()
			if cal == nil || !setters[cal.Name()] || cal.Signature.Recv() == nil || !isInterp(cal.Signature.Recv().Type()) {
				return
			}
			n++
			k++
			key := "assign-cond:" + fnKey(fn) + ":" + cal.Name()
			if k > 1 {
				key += "#" + itoa(int64(k))
			}
			blk := in.Block()
			bad := token.NoPos
			why := ""
			for _, d := range fn.Blocks {
				if d == blk || len(d.Instrs) == 0 || !d.Dominates(blk) {
					continue
				}
				iff, ok := d.Instrs[len(d.Instrs)-1].(*ssa.If)
				if !ok {
					continue
				}
				r0, r1 := reachableAvoiding(d.Succs[0], d)[blk], reachableAvoiding(d.Succs[1], d)[blk]
				if r0 == r1 {
					continue // both ways lead to the call (or the block is the call's own loop head)
				}
				// an error met while computing the value to assign legitimately prevents the assignment
				if bo, ok := iff.Cond.(*ssa.BinOp); ok {
					isErrT := func(v ssa.Value) bool { return types.TypeString(v.Type(), nil) == "error" }
					if isErrT(bo.X) || isErrT(bo.Y) {
						continue
					}
				}
				// backward slice of the condition inside the function
				seen := map[ssa.Value]bool{}
				var walk func(v ssa.Value, depth int)
				walk = func(v ssa.Value, depth int) {
					if v == nil || seen[v] || depth > 8 || why != "" {
						return
					}
					seen[v] = true
					if nm := interpFieldLoad(v); recFields[nm] {
						why = "p." + nm
						return
					}
					switch x := v.(type) {
					case *ssa.Call:
						if g := x.Call.StaticCallee(); g != nil && g.Name() == "getField" {
							why = "getField"
							return
						}
						for _, a := range x.Call.Args {
							walk(a, depth+1)
						}
					case *ssa.BinOp:
						walk(x.X, depth+1)
						walk(x.Y, depth+1)
					case *ssa.UnOp:
						walk(x.X, depth+1)
					case *ssa.Phi:
						for _, e := range x.Edges {
							walk(e, depth+1)
						}
					case *ssa.Extract:
						walk(x.Tuple, depth+1)
					case *ssa.Convert:
						walk(x.X, depth+1)
					case *ssa.ChangeType:
						walk(x.X, depth+1)
					case *ssa.MakeInterface:
						walk(x.X, depth+1)
					}
				}
				walk(iff.Cond, 0)
				if why != "" && bad == token.NoPos {
					bad = posOr(iff.Cond.Pos(), in.Pos())
				}
			}
			c.check(bad == token.NoPos, key, posOr(bad, in.Pos()), "whether the assignment happens does not depend on the record's current content",
				fnKey(fn)+" decides whether to call "+cal.Name()+" from the record's current content ("+why+"): an assignment that happens to write the text that is already there is skipped, so $0 is not rebuilt with the current OFS (or not re-split under the current FS) although the program assigned the field - $0, the fields and NF then disagree with what an assignment always produces")
		})
	}
	c.atLeast("calls of the field/record setters outside the record layer", n, 3)
}
