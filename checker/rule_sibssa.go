package main

import (
	"fmt"
	"go/constant"
	"go/token"
	"go/types"
	"sort"
	"strconv"
	"strings"
	"unicode/utf8"

	"golang.org/x/tools/go/ssa"
)

// Sibling predicates on the SSA form (part of R-RECSTATE, C02/C06): the places that use the compiled separator regex
// and the place that compiles it must agree on the separator values for which a regex exists.
//
// Both sides are run, by the SSA path interpreter with concrete strings, on representatives of every class of
// separator value (newline, empty, one byte, one invalid byte, one multi-byte character, several characters, a
// regex): a function that dereferences or hands out the compiled regex is run with the separator text set to the
// representative - if some path reaches the use, assigning that representative to the separator (setSpecial run
// with the special's index and the representative as the new value) must store a compiled regex on every path that
// does not end in an error. Library calls on the concrete text (len, utf8.RuneCountInString, regexp.QuoteMeta,
// regexp.Compile) are computed, helpers are entered: how either side is written does not matter.

type sibSpec struct {
	name      string   // RS / FS
	specConst string   // V_RS
	textField []string // fields holding the separator text where it is used
	reField   []string // fields holding the compiled form
	reps      []string
}

func ssaSiblingPredicates(c *Ctx) {
	ipkg := c.ssaPkg("interp")
	ss := c.ssaFunc("interp", "interp.setSpecial")
	if ipkg == nil || ss == nil {
		c.undecided("sibling-pred", token.NoPos, "package interp / setSpecial not found on the SSA form")
		return
	}
	specs := []sibSpec{
		{"RS", "V_RS", []string{"recordSep"}, []string{"recordSepRegex"}, []string{"\n", "", "x", "\xff", "é", "ab", "é+", "\n\n+"}},
		{"FS", "V_FS", []string{"fieldSep", "savedFieldSep"}, []string{"fieldSepRegex", "savedFieldSepRegex"}, []string{" ", "", ",", "\xff", "é", "ab", "[ ]+", "::"}},
	}
	defaultMode := int64(0)
	if o, ok := c.pkg("interp").Types.Scope().Lookup("DefaultMode").(*types.Const); ok {
		if v, ok := constant.Int64Val(o.Val()); ok {
			defaultMode = v
		}
	}
	specVal := map[string]int64{}
	if ap := c.pkg("internal/ast"); ap != nil {
		for _, n := range ap.Types.Scope().Names() {
			if k, ok := ap.Types.Scope().Lookup(n).(*types.Const); ok && strings.HasPrefix(n, "V_") {
				if v, ok := constant.Int64Val(k.Val()); ok {
					specVal[n] = v
				}
			}
		}
	}
	region := c.exclusiveRegion("interp", ss)
	fns := c.srcFuncs("interp")
	isField := func(v ssa.Value, names []string) bool {
		fa, ok := v.(*ssa.FieldAddr)
		if !ok {
			return false
		}
		f, x := fieldOfAddr(fa)
		if f == nil || !isInterp(x.Type()) {
			return false
		}
		for _, n := range names {
			if f.Name() == n {
				return true
			}
		}
		return false
	}
	loadOf := func(v ssa.Value, names []string) bool {
		u, ok := v.(*ssa.UnOp)
		return ok && u.Op == token.MUL && isField(u.X, names)
	}
	for _, sp := range specs {
		key := "sibling-pred:" + sp.name
		// ---- use sites: the regex's address is handed out, or the regex is the receiver / an argument of a call
		useInstr := map[ssa.Instruction]bool{}
		useFns := map[*ssa.Function]bool{}
		for _, fn := range fns {
			root := fn
			for root.Parent() != nil {
				root = root.Parent()
			}
			if region[root] {
				continue // the assignment side
			}
			fn := fn
			allInstrs(fn, func(in ssa.Instruction) {
				switch x := in.(type) {
				case *ssa.Store:
					if isField(x.Val, sp.reField) {
						useInstr[in], useFns[fn] = true, true
					}
				case ssa.CallInstruction:
					cc := x.Common()
					if f := cc.StaticCallee(); f != nil && f.Name() == "Longest" {
						return
					}
					for _, a := range cc.Args {
						if isField(a, sp.reField) || loadOf(a, sp.reField) {
							useInstr[in], useFns[fn] = true, true
						}
					}
				}
			})
		}
		if len(useFns) == 0 {
			c.undecided(key, token.NoPos, "no place that dereferences or hands out the compiled %s regex (%v) found", sp.name, sp.reField)
			continue
		}
		// a use inside a helper that does not look at the separator text itself is decided where the helper is called
		readsText := func(fn *ssa.Function) bool {
			r := false
			allInstrs(fn, func(in ssa.Instruction) {
				if u, ok := in.(*ssa.UnOp); ok && u.Op == token.MUL && isField(u.X, sp.textField) {
					r = true
				}
			})
			return r
		}
		closureOf := map[*ssa.Function]*ssa.Function{} // bound-method wrapper -> the using method it wraps
		chain := map[*ssa.Function]bool{}            // functions to descend into on the way to a use
		starts := map[*ssa.Function]bool{}
		for f := range useFns {
			chain[f] = true
			cur := []*ssa.Function{f}
			for depth := 0; depth < 3 && len(cur) > 0; depth++ {
				var next []*ssa.Function
				for _, g := range cur {
					if readsText(g) {
						starts[g] = true
						continue
					}
					found := false
					for _, h := range fns {
						calls := false
						allInstrs(h, func(in ssa.Instruction) {
							if ci, ok := in.(ssa.CallInstruction); ok && ci.Common().StaticCallee() == g {
								calls = true
							}
							// the function handed out as a method value (p.scanRecord as a bufio.SplitFunc): whoever makes
							// the value decides that it runs
							if mc, ok := in.(*ssa.MakeClosure); ok {
								if w, ok := mc.Fn.(*ssa.Function); ok && boundMethod(w) == g {
									calls = true
									closureOf[w] = g
								}
							}
						})
						if calls && h != g {
							found = true
							chain[h] = true
							next = append(next, h)
						}
					}
					if !found {
						starts[g] = true
					}
				}
				cur = next
			}
			for _, g := range cur {
				starts[g] = true
			}
		}
		var ufs []*ssa.Function
		for f := range starts {
			ufs = append(ufs, f)
		}
		sort.Slice(ufs, func(i, j int) bool { return fnKey(ufs[i]) < fnKey(ufs[j]) })
		var problems, notes, stale []string
		undecided := ""
		for _, rep := range sp.reps {
			// ---- can a use be reached with this separator text?
			usedIn := ""
			for _, uf := range ufs {
				if usedIn != "" {
					break
				}
				e := &sengine{pkg: ipkg, ctx: c, budget: 60000}
				e.param = func(f *ssa.Function, p *ssa.Parameter) (iv, bool) {
					if isInterp(p.Type()) {
						return ivSym("p"), true
					}
					return iv{}, false
				}
				e.load = func(p *spath, fr *sframe, addr iv, in *ssa.UnOp) (iv, bool) {
					if f, x := fieldOfAddr(in.X); f != nil && isInterp(x.Type()) {
						for _, t := range sp.textField {
							if f.Name() == t {
								return iv{k: 'S', s: rep}, true
							}
						}
						switch f.Name() {
						case "inputMode":
							return ivInt(defaultMode), true
						case "reparseCSV":
							return ivBool(false), true
						case "line":
							return iv{k: 'S', s: "a b"}, true
						}
					}
					return iv{}, false
				}
				e.call = func(p *spath, fr *sframe, call *ssa.Call, callee *ssa.Function, args []iv) (iv, callAction) {
					if useInstr[call] {
						return iv{}, callStop
					}
					return iv{}, callDefault
				}
				e.store = func(p *spath, fr *sframe, x *ssa.Store, addr, val iv) {
					if useInstr[x] {
						p.notes["used"]++
					}
				}
				e.enter = func(callee *ssa.Function, args []iv) bool { return chain[callee] }
				e.startAt(uf, uf.Blocks[0], nil)
				for _, o := range e.outcomes {
					if (o.stopped && o.stopNote != "block") || o.notes["used"] > 0 {
						usedIn = fnKey(uf)
					}
					// a using method handed back as a function value
					if o.ret.k == 'f' && o.ret.fn != nil && closureOf[o.ret.fn] != nil {
						usedIn = fnKey(uf)
					}
					if o.ret.k == 'u' {
						for _, t := range o.ret.tup {
							if t.k == 'f' && t.fn != nil && closureOf[t.fn] != nil {
								usedIn = fnKey(uf)
							}
						}
					}
				}
			}
			if usedIn == "" && sp.name != "RS" {
				continue
			}
			// ---- does assigning this separator definitely store a compiled regex? (for RS this is asked of every
			// representative: an active regex splitter from an earlier RS keeps a pointer to the field, so every
			// assignment of valid text must refresh it and none may clear it)
			e := &sengine{pkg: ipkg, ctx: c, budget: 120000}
			e.param = func(f *ssa.Function, p *ssa.Parameter) (iv, bool) {
				if f == ss {
					if isInterp(p.Type()) {
						return ivSym("p"), true
					}
					if b, ok := p.Type().Underlying().(*types.Basic); ok && b.Info()&types.IsInteger != 0 {
						return ivInt(specVal[sp.specConst]), true
					}
					return ivSym("newvalue"), true
				}
				return iv{}, false
			}
			e.modulePure = true
			e.binop = func(op token.Token, a, b iv) (iv, bool) {
				// a compiled regex / an error value compared with nil
				if (a.k == 's' && b.k == 'n') || (a.k == 'n' && b.k == 's') {
					switch op {
					case token.EQL:
						return ivBool(false), true
					case token.NEQ:
						return ivBool(true), true
					}
				}
				return iv{}, false
			}
			e.call = func(p *spath, fr *sframe, call *ssa.Call, callee *ssa.Function, args []iv) (iv, callAction) {
				if callee != nil && callee.Name() == "toString" && callee.Pkg == ipkg {
					return iv{k: 'S', s: rep}, callHandled
				}
				if callee != nil && (callee.Name() == "newError" || callee.Name() == "Errorf" || callee.String() == "errors.New") {
					return ivSym("error"), callHandled
				}
				return iv{}, callDefault
			}
			e.load = func(p *spath, fr *sframe, addr iv, in *ssa.UnOp) (iv, bool) {
				if f, x := fieldOfAddr(in.X); f != nil && isInterp(x.Type()) && f.Name() == "inputMode" {
					return ivInt(defaultMode), true
				}
				return iv{}, false
			}
			e.store = func(p *spath, fr *sframe, x *ssa.Store, addr, val iv) {
				if f, xx := fieldOfAddr(x.Addr); f != nil && isInterp(xx.Type()) && f.Name() == sp.reField[0] {
					switch {
					case val.k == 'n':
						p.notes["nil-stored"]++
					case val.k == 's':
						p.notes["regex-stored"]++
					default:
						p.notes["unknown-stored"]++
					}
				}
			}
			e.enter = func(callee *ssa.Function, args []iv) bool {
				return region[callee] || (callee.Signature.Recv() == nil && len(callee.Blocks) < 40)
			}
			e.startAt(ss, ss.Blocks[0], nil)
			if len(e.problems) > 0 {
				undecided = fmt.Sprintf("assigning %s = %s could not be evaluated: %v", sp.name, strconv.Quote(rep), e.problems)
				break
			}
			okPaths, badPaths := 0, 0
			for _, o := range e.outcomes {
				if o.panicked {
					continue
				}
				// an error return: the assignment is rejected, nothing is committed
				isErr := false
				switch o.ret.k {
				case 's':
					isErr = true
				case 'u':
					if n := len(o.ret.tup); n > 0 && o.ret.tup[n-1].k == 's' {
						isErr = true
					}
				}
				if isErr {
					continue
				}
				if o.notes["regex-stored"]+o.notes["unknown-stored"] > 0 && o.notes["nil-stored"] == 0 {
					okPaths++
				} else {
					badPaths++
				}
			}
			nilStored := false
			for _, o := range e.outcomes {
				if o.notes["nil-stored"] > 0 {
					nilStored = true
				}
			}
			if usedIn == "" {
				// not used by the splitter selection for this value: only the refresh obligation
				if (okPaths == 0 || badPaths > 0) && utf8.ValidString(rep) || nilStored {
					stale = append(stale, strconv.Quote(rep))
				}
				continue
			}
			if okPaths == 0 || badPaths > 0 {
				problems = append(problems, strconv.Quote(rep)+" (used in "+usedIn+")")
			} else {
				notes = append(notes, strconv.Quote(rep))
			}
		}
		if sp.name == "RS" && undecided == "" {
			c.check(len(stale) == 0, "sibling-pred:RS-regex-assigned", ss.Pos(), "every assignment of valid text to RS (re)assigns the separator regex seen by an active regex splitter, never to nil", "assigning RS = "+strings.Join(stale, ", ")+" does not store a compiled regex (or stores nil): an active regex splitter, which holds a pointer to that field, would keep a stale regex or dereference nil")
		}
		switch {
		case undecided != "":
			c.undecided(key, ss.Pos(), "%s", undecided)
		default:
			c.check(len(problems) == 0, key, ss.Pos(),
				fmt.Sprintf("for every class of %s value for which the compiled regex can be used (%s), assigning that value stores a compiled regex (%d representatives run through %d use site(s) and setSpecial)", sp.name, strings.Join(notes, " "), len(sp.reps), len(ufs)),
				"assigning "+sp.name+" does not definitely store a compiled regex for the values "+strings.Join(problems, ", ")+", for which the splitter uses one: it dereferences a regex that was never compiled (nil) or matches with a stale one")
		}
	}
}
