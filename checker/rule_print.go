package main

import (
	"fmt"
	"go/constant"
	"go/ast"
	"go/token"
	"go/types"
	"regexp"
	"sort"
	"strconv"
	"strings"

	"golang.org/x/tools/go/ssa"
)

// R-PRINT (C20): the program printer against the lexer and parser that read its output back.

func init() {
	register("R-PRINT", "printer/reader agreement: (TOKENS) the text the printer writes for every operator token is read back by the lexer's scan switch as that token, every keyword's text maps back to its token, and each augmented assignment is printed as its base operator's text followed by '=', which the lexer reads as the token the parser maps back to that operator; (QUOTE) string literals are written by a function of package ast whose every backslash form is one the lexer's string reader maps back to the same byte (simple escapes pairwise, numeric escapes at exactly the reader's maximum width), with the quote, the backslash, newline and carriage return always escaped, and no strconv/fmt quoting (their \\u and \\U forms are not what the lexer reads); (REGEX) the regex writer escapes exactly the slash, the one escape the lexer's regex reader removes; (NUM) a number is formatted only when it is known to be finite; (GROUP) the parser builds a grouping node for every parenthesised expression and nothing in the parser or resolver unwraps one (the printer's precedence test alone cannot restore same-level or print-context grouping); (FIELDS) every String method of a syntax node mentions every non-position field of its node; (NIL) the printer writes an action's braces exactly when the compiler treats the action as present (Stmts != nil on both sides)", rulePrint)
}

// ---------------------------------------------------------------- lexer tables

type lexTables struct {
	tokenText map[string]string // token const name -> printed text (tokenNames)
	keyword   map[string]string // keyword text -> token name (keywordTokens)
	scanText  map[string]string // operator text -> token name as read by Lexer.scan
	ok        bool
}

func (c *Ctx) lexTables() *lexTables {
	if v, ok := c.memo["lexTables"]; ok {
		return v.(*lexTables)
	}
	lt := &lexTables{tokenText: map[string]string{}, keyword: map[string]string{}, scanText: map[string]string{}}
	c.memo["lexTables"] = lt
	lp := c.pkg("lexer")
	if lp == nil {
		return lt
	}
	for _, f := range lp.Syntax {
		for _, d := range f.Decls {
			gd, ok := d.(*ast.GenDecl)
			if !ok || gd.Tok != token.VAR {
				continue
			}
			for _, sp := range gd.Specs {
				vs := sp.(*ast.ValueSpec)
				if len(vs.Names) != 1 || len(vs.Values) != 1 {
					continue
				}
				cl, ok := vs.Values[0].(*ast.CompositeLit)
				if !ok {
					continue
				}
				for _, el := range cl.Elts {
					kv, ok := el.(*ast.KeyValueExpr)
					if !ok {
						continue
					}
					switch vs.Names[0].Name {
					case "tokenNames":
						if s, err := strconv.Unquote(litText(kv.Value)); err == nil {
							lt.tokenText[exprName(kv.Key)] = s
						}
					case "keywordTokens":
						if s, err := strconv.Unquote(litText(kv.Key)); err == nil {
							lt.keyword[s] = exprName(kv.Value)
						}
					}
				}
			}
		}
	}
	// scan's switch on the current character
	fd := c.funcDecl("lexer", "Lexer.scan")
	if fd == nil {
		return lt
	}
	var sw *ast.SwitchStmt
	ast.Inspect(fd.Body, func(n ast.Node) bool {
		if s, ok := n.(*ast.SwitchStmt); ok && sw == nil && isIdent(s.Tag, "ch") {
			sw = s
			return false
		}
		return true
	})
	if sw == nil {
		return lt
	}
	var eval func(stmts []ast.Stmt, prefix string)
	evalExpr := func(e ast.Expr, prefix string) {
		switch x := e.(type) {
		case *ast.Ident:
			lt.scanText[prefix] = x.Name
		case *ast.CallExpr:
			if s, ok := x.Fun.(*ast.SelectorExpr); ok && s.Sel.Name == "choice" && len(x.Args) == 3 {
				if ch, err := strconv.Unquote(litText(x.Args[0])); err == nil {
					lt.scanText[prefix] = exprName(x.Args[1])
					lt.scanText[prefix+ch] = exprName(x.Args[2])
				}
			}
		}
	}
	eval = func(stmts []ast.Stmt, prefix string) {
		for _, st := range stmts {
			switch s := st.(type) {
			case *ast.AssignStmt:
				if len(s.Lhs) == 1 && isIdent(s.Lhs[0], "tok") && len(s.Rhs) == 1 {
					evalExpr(s.Rhs[0], prefix)
				}
			case *ast.SwitchStmt:
				if sel, ok := s.Tag.(*ast.SelectorExpr); !ok || sel.Sel.Name != "ch" {
					continue
				}
				for _, cs := range s.Body.List {
					cc := cs.(*ast.CaseClause)
					if cc.List == nil {
						eval(cc.Body, prefix)
						continue
					}
					for _, e := range cc.List {
						if ch, err := strconv.Unquote(litText(e)); err == nil {
							eval(cc.Body, prefix+ch)
						}
					}
				}
			}
		}
	}
	for _, cs := range sw.Body.List {
		cc := cs.(*ast.CaseClause)
		if len(cc.List) != 1 {
			continue
		}
		ch, err := strconv.Unquote(litText(cc.List[0]))
		if err != nil || len(ch) != 1 {
			continue
		}
		eval(cc.Body, ch)
	}
	for k, v := range lt.scanText {
		if v == "ILLEGAL" || v == "" {
			delete(lt.scanText, k)
		}
	}
	lt.ok = len(lt.tokenText) > 40 && len(lt.keyword) > 30 && len(lt.scanText) > 30
	return lt
}

func litText(e ast.Expr) string {
	if b, ok := e.(*ast.BasicLit); ok {
		return b.Value
	}
	return ""
}

var punctRe = regexp.MustCompile(`^[^A-Za-z0-9_<\s]+$|^<=?$`)

// ---------------------------------------------------------------- the rule

func rulePrint(c *Ctx) {
	regexTextSingleLine(c)
	groupingPrinted(c)
	lt := c.lexTables()
	if !lt.ok {
		c.undecided("anchor:lexer-tables", token.NoPos, "tokenNames / keywordTokens / Lexer.scan switch not extractable (%d/%d/%d entries)", len(lt.tokenText), len(lt.keyword), len(lt.scanText))
		return
	}
	n := 0
	// ---------- TOKENS
	var toks []string
	for t := range lt.tokenText {
		toks = append(toks, t)
	}
	sort.Strings(toks)
	nOps := 0
	for _, t := range toks {
		text := lt.tokenText[t]
		if !punctRe.MatchString(text) || t == "NEWLINE" || t == "CONCAT" || t == "ILLEGAL" {
			continue
		}
		nOps++
		n++
		got := lt.scanText[text]
		c.check(got == t, "tokens:op:"+t, token.NoPos, "printed as "+strconv.Quote(text)+", which scan reads as "+t,
			"the printer writes token "+t+" as "+strconv.Quote(text)+" but the lexer's scan reads that text as "+strconv.Quote(got)+": printed operators are not read back")
	}
	c.atLeast("operator tokens", nOps, 38)
	var kws []string
	for k := range lt.keyword {
		kws = append(kws, k)
	}
	sort.Strings(kws)
	seenTok := map[string]string{}
	for _, k := range kws {
		t := lt.keyword[k]
		n++
		// several spellings may map to one token (func/function); the printed one must be among them
		if lt.tokenText[t] == k {
			seenTok[t] = k
		}
	}
	var kwToks []string
	for _, t := range lt.keyword {
		kwToks = append(kwToks, t)
	}
	sort.Strings(kwToks)
	prev := ""
	for _, t := range kwToks {
		if t == prev {
			continue
		}
		prev = t
		c.check(seenTok[t] != "", "tokens:keyword:"+t, token.NoPos, "printed as "+strconv.Quote(lt.tokenText[t])+", a spelling the lexer maps to "+t,
			"keyword token "+t+" is printed as "+strconv.Quote(lt.tokenText[t])+", which the lexer's keyword table does not map back to it")
	}
	c.atLeast("keywords", len(kws), 40)
	// augmented assignment: the parser stores the base operator of X_ASSIGN into AugAssignExpr.Op (evaluated per token
	// on the functions that build the node, gramssa2.go); the printer writes the base operator's text + "="
	{
		cnt := 0
		var byTok map[string][]string
		if g := newGssa(c); g != nil {
			byTok = g.storedByTokenParam("AugAssignExpr.Op")
		}
		var froms []string
		for from := range byTok {
			if strings.HasSuffix(from, "_ASSIGN") {
				froms = append(froms, from)
			}
		}
		sort.Strings(froms)
		var apos token.Pos
		if fd := c.funcDecl("parser", "makeAssign"); fd != nil {
			apos = fd.Pos()
		}
		for _, from := range froms {
			tos := byTok[from]
			cnt++
			n++
			if len(tos) != 1 || tos[0] == "?" {
				c.bad("tokens:augassign:"+from, apos, "for %s the parser stores %v into AugAssignExpr.Op: not a single known operator", from, tos)
				continue
			}
			to := tos[0]
			text := lt.tokenText[to] + "="
			c.check(lt.scanText[text] == from, "tokens:augassign:"+from, apos, strconv.Quote(text)+" is read as "+from+", which the parser maps to "+to,
				"the parser maps "+from+" to "+to+", printed as "+strconv.Quote(text)+", which the lexer reads as "+strconv.Quote(lt.scanText[text]))
		}
		c.atLeast("augmented assignments", cnt, 6)
		// the printer side: AugAssignExpr.String writes Op.String() followed directly by "="
		if sd := c.funcDecl("internal/ast", "AugAssignExpr.String"); sd != nil {
			recv := sd.Recv.List[0].Names[0].Name
			ok := false
			ast.Inspect(sd.Body, func(nd ast.Node) bool {
				b, isB := nd.(*ast.BinaryExpr)
				if !isB || b.Op != token.ADD {
					return true
				}
				// (... + e.Op.String()) + "= "
				if s, err := strconv.Unquote(litText(b.Y)); err == nil && strings.HasPrefix(s, "=") {
					l := b.X
					if lb, isLB := l.(*ast.BinaryExpr); isLB {
						l = lb.Y
					}
					if call, isCall := l.(*ast.CallExpr); isCall {
						if sel, isSel2 := call.Fun.(*ast.SelectorExpr); isSel2 && sel.Sel.Name == "String" && isSel(sel.X, recv, "Op") {
							ok = true
						}
					}
				}
				return true
			})
			n++
			c.check(ok, "tokens:augassign-printer", sd.Pos(), "AugAssignExpr is printed as Op.String() immediately followed by '='",
				"AugAssignExpr.String does not write the operator's text immediately followed by '=': the lexer reads two tokens instead of one")
		} else {
			c.undecided("anchor:AugAssignExpr.String", token.NoPos, "not found")
		}
	}

	n += printQuote(c)
	n += printRegex(c)
	n += printNum(c)
	n += printGroup(c)
	n += printFields(c)
	n += printNil(c)
	n += printPrec(c)
	n += printGreater(c)
	n += printListComplete(c)
	c.atLeast("printer obligations", n, 120)
}

func selName(e ast.Expr) string {
	if s, ok := e.(*ast.SelectorExpr); ok {
		return s.Sel.Name
	}
	return exprName(e)
}

// ---------------------------------------------------------------- QUOTE

// lexEscapes: from lexer.parseString: letter -> (byte value, or -1 numeric with max digits)
type lexEscape struct {
	value     int // byte for simple escapes, -1 for numeric
	maxDigits int
}

func (c *Ctx) lexEscapes() (map[byte]lexEscape, bool) {
	fd := c.funcDecl("lexer", "parseString")
	if fd == nil {
		return nil, false
	}
	out := map[byte]lexEscape{}
	var sw *ast.SwitchStmt
	ast.Inspect(fd.Body, func(n ast.Node) bool {
		if s, ok := n.(*ast.SwitchStmt); ok && sw == nil {
			if call, ok := s.Tag.(*ast.CallExpr); ok && isIdent(call.Fun, "ch") {
				sw = s
				return false
			}
		}
		return true
	})
	if sw == nil {
		return nil, false
	}
	hasDefault := false
	for _, cs := range sw.Body.List {
		cc := cs.(*ast.CaseClause)
		if cc.List == nil {
			hasDefault = true
			continue
		}
		// simple: first statement `c = 'V'`
		simple := -1
		if len(cc.Body) > 0 {
			if as, ok := cc.Body[0].(*ast.AssignStmt); ok && len(as.Lhs) == 1 && isIdent(as.Lhs[0], "c") {
				if s, err := strconv.Unquote(litText(as.Rhs[0])); err == nil && len(s) == 1 {
					simple = int(s[0])
				}
			}
		}
		// numeric: count digit reads outside loops + loop bound
		digits := 0
		if simple < 0 {
			var walk func(n ast.Node, mult int)
			walk = func(n ast.Node, mult int) {
				ast.Inspect(n, func(m ast.Node) bool {
					switch x := m.(type) {
					case *ast.ForStmt:
						bound := 0
						if b, ok := x.Cond.(*ast.BinaryExpr); ok {
							// i < K [&& ...]
							cb := b
							for cb.Op == token.LAND {
								if l, ok := cb.X.(*ast.BinaryExpr); ok {
									cb = l
								} else {
									break
								}
							}
							if cb.Op == token.LSS {
								if k, err := strconv.Atoi(litText(cb.Y)); err == nil {
									bound = k
								}
							}
						}
						if bound == 0 {
							bound = 1000
						}
						// one digit per iteration
						digits += bound * mult
						return false
					case *ast.AssignStmt:
						// c = ch() - '0'  (first octal digit) or digit := hexDigit(ch())
						if len(x.Rhs) == 1 && mult == 1 {
							s := types.ExprString(x.Rhs[0])
							if s == "hexDigit(ch())" || s == "ch() - '0'" {
								digits++
							}
						}
					}
					return true
				})
			}
			for _, st := range cc.Body {
				walk(st, 1)
			}
		}
		for _, e := range cc.List {
			s, err := strconv.Unquote(litText(e))
			if err != nil || len(s) != 1 {
				continue
			}
			if simple >= 0 {
				out[s[0]] = lexEscape{value: simple}
			} else {
				out[s[0]] = lexEscape{value: -1, maxDigits: digits}
			}
		}
	}
	return out, hasDefault && len(out) >= 10
}

func printQuote(c *Ctx) int {
	n := 0
	esc, ok := c.lexEscapes()
	if !ok {
		c.undecided("anchor:parseString", token.NoPos, "escape switch of lexer.parseString not extractable")
		return 0
	}
	ap := c.pkg("internal/ast")
	info := ap.TypesInfo
	// no strconv/fmt quoting anywhere in package ast
	for _, fd := range c.allFuncDecls("internal/ast") {
		if fd.Body == nil {
			continue
		}
		ast.Inspect(fd.Body, func(nd ast.Node) bool {
			call, ok := nd.(*ast.CallExpr)
			if !ok {
				return true
			}
			if sel, ok := call.Fun.(*ast.SelectorExpr); ok {
				if f, ok := info.Uses[sel.Sel].(*types.Func); ok && f.Pkg() != nil {
					full := f.Pkg().Path() + "." + f.Name()
					if f.Pkg().Path() == "strconv" && strings.HasPrefix(f.Name(), "Quote") || strings.HasPrefix(full, "strconv.AppendQuote") {
						n++
						c.bad("quote:strconv:"+declName(fd)+":"+f.Name(), call.Pos(), "%s writes a string literal with strconv.%s: its \\u escape has four digits where the lexer's reads up to eight, and \\U is not an AWK escape, so strings with non-printable runes are read back differently", declName(fd), f.Name())
					}
					if f.Pkg().Path() == "fmt" && len(call.Args) > 0 {
						for _, a := range call.Args {
							if s, err := strconv.Unquote(litText(a)); err == nil && strings.Contains(s, "%q") {
								n++
								c.bad("quote:fmt-q:"+declName(fd), call.Pos(), "%s formats with %%q (Go quoting), which the AWK lexer does not read back", declName(fd))
							}
						}
					}
				}
			}
			return true
		})
	}
	sd := c.funcDecl("internal/ast", "StrExpr.String")
	if sd == nil {
		c.undecided("anchor:StrExpr.String", token.NoPos, "not found")
		return n
	}
	// the non-regex return calls a function of package ast with e.Value
	var q *ast.FuncDecl
	for _, st := range sd.Body.List {
		if r, ok := st.(*ast.ReturnStmt); ok && len(r.Results) == 1 {
			if call, ok := r.Results[0].(*ast.CallExpr); ok {
				if id, ok := call.Fun.(*ast.Ident); ok {
					if f, ok := info.Uses[id].(*types.Func); ok && f.Pkg() == ap.Types {
						q = c.funcDecl("internal/ast", f.Name())
					}
				}
			}
		}
	}
	n++
	if q == nil {
		c.bad("quote:writer", sd.Pos(), "StrExpr.String does not write string literals through a quoting function of package ast whose escape forms can be compared with the lexer's")
		return n
	}
	c.ok("quote:writer", sd.Pos(), "string literals are written by %s", q.Name.Name)
	// the writer works on bytes: ranging over the string decodes it, and a byte that is not valid UTF-8 arrives as
	// U+FFFD - printed as three other bytes instead of its \xNN escape, the literal's contents change
	if qf := c.ssaFunc("internal/ast", q.Name.Name); qf != nil {
		decoded := token.NoPos
		allInstrs(qf, func(in ssa.Instruction) {
			if r, ok := in.(*ssa.Range); ok {
				if b, ok := r.X.Type().Underlying().(*types.Basic); ok && b.Kind() == types.String {
					decoded = posOr(r.Pos(), qf.Pos())
				}
			}
			if cv, ok := in.(*ssa.Convert); ok {
				if sl, ok := cv.Type().Underlying().(*types.Slice); ok {
					if b, ok := sl.Elem().Underlying().(*types.Basic); ok && b.Kind() == types.Int32 {
						decoded = posOr(cv.Pos(), qf.Pos())
					}
				}
			}
		})
		n++
		c.check(decoded == token.NoPos, "quote:bytewise", posOr(decoded, qf.Pos()), q.Name.Name+" reads the literal byte by byte",
			q.Name.Name+" decodes the string it quotes (range over the string, or a conversion to runes): a byte that is not valid UTF-8 on its own - \"\\xfe\", Latin-1 text - arrives as U+FFFD, passes the printable test and is written as EF BF BD instead of its \\x escape, so the printed program contains a different string")
	}
	// clauses `case r == 'V': sb.WriteString(LIT)`
	explicit := map[int]string{}
	accounted := map[*ast.BasicLit]bool{}
	ast.Inspect(q.Body, func(nd ast.Node) bool {
		cc, ok := nd.(*ast.CaseClause)
		if !ok || len(cc.List) != 1 || len(cc.Body) != 1 {
			return true
		}
		// the label is `r == 'V'` (tag-less switch) or just 'V' (switch on the rune)
		var lab ast.Expr = cc.List[0]
		if b, ok := lab.(*ast.BinaryExpr); ok {
			if b.Op != token.EQL {
				return true
			}
			lab = b.Y
		}
		v, err := strconv.Unquote(litText(lab))
		if err != nil || len(v) != 1 {
			return true
		}
		es, ok := cc.Body[0].(*ast.ExprStmt)
		if !ok {
			return true
		}
		call, ok := es.X.(*ast.CallExpr)
		if !ok || len(call.Args) != 1 {
			return true
		}
		lit, ok := call.Args[0].(*ast.BasicLit)
		if !ok {
			return true
		}
		s, err := strconv.Unquote(lit.Value)
		if err != nil || len(s) != 2 || s[0] != '\\' {
			return true
		}
		accounted[lit] = true
		explicit[int(v[0])] = s
		// what does the lexer read for \L ?
		read := int(s[1])
		if le, ok := esc[s[1]]; ok {
			read = le.value
		}
		n++
		c.check(read == int(v[0]), "quote:escape:"+strconv.Quote(v), cc.Pos(), "written as "+s+", which the lexer reads as the same byte",
			"byte "+strconv.Quote(v)+" is written as "+s+", which the lexer's string reader does not map back to it")
		return true
	})
	// the same written as a lookup table: a package-level map from the byte to its two-character escape, never written
	// after its initialisation, that the quoting function consults
	ast.Inspect(q.Body, func(nd ast.Node) bool {
		id, ok := nd.(*ast.Ident)
		if !ok {
			return true
		}
		ct := c.constTableOf(ap.TypesInfo.Uses[id])
		if ct == nil || !ct.isMap || len(ct.strs) == 0 {
			return true
		}
		var keys []int64
		for k := range ct.strs {
			keys = append(keys, k)
		}
		sort.Slice(keys, func(i, j int) bool { return keys[i] < keys[j] })
		for _, k := range keys {
			sv := ct.strs[k]
			if len(sv) != 2 || sv[0] != '\\' || k < 0 || k > 255 {
				continue
			}
			v := string([]byte{byte(k)})
			explicit[int(k)] = sv
			read := int(sv[1])
			if le, ok := esc[sv[1]]; ok {
				read = le.value
			}
			n++
			c.check(read == int(k), "quote:escape:"+strconv.Quote(v), id.Pos(), "written as "+sv+", which the lexer reads as the same byte",
				"byte "+strconv.Quote(v)+" is written as "+sv+", which the lexer's string reader does not map back to it")
		}
		return true
	})
	for _, must := range []byte{'"', '\\', '\n', '\r'} {
		n++
		_, has := explicit[int(must)]
		c.check(has, "quote:must-escape:"+strconv.Quote(string(must)), q.Pos(), "always escaped",
			"the quoting function has no clause escaping "+strconv.Quote(string(must))+": a raw one ends the literal (or is rejected by the lexer)")
	}
	// every other literal containing a backslash must be a fixed-width numeric format the lexer reads at that width
	numRe := regexp.MustCompile(`^\\([a-zA-Z]?)%0(\d)([xXo])$`)
	ast.Inspect(q.Body, func(nd ast.Node) bool {
		lit, ok := nd.(*ast.BasicLit)
		if !ok || lit.Kind != token.STRING || accounted[lit] {
			return true
		}
		s, err := strconv.Unquote(lit.Value)
		if err != nil || !strings.Contains(s, `\`) {
			return true
		}
		n++
		m := numRe.FindStringSubmatch(s)
		key := "quote:numeric:" + s
		if m == nil {
			c.bad(key, lit.Pos(), "the quoting function writes %s, a backslash form the rule cannot match with the lexer's escapes", strconv.Quote(s))
			return true
		}
		width, _ := strconv.Atoi(m[2])
		letter := byte('0')
		if m[1] != "" {
			letter = m[1][0]
		}
		le, has := esc[letter]
		okForm := has && le.value == -1 && le.maxDigits == width && ((letter == '0') == (m[3] == "o"))
		c.check(okForm, key, lit.Pos(), "numeric escape of fixed width "+m[2]+", the most the lexer reads for it",
			"numeric escape "+strconv.Quote(s)+" has width "+m[2]+" but the lexer reads up to "+strconv.Itoa(le.maxDigits)+" digits for it (or does not know it): a following digit character is swallowed into the escape")
		return true
	})
	// char literals written with a backslash other than the delimiters
	return n
}

// ---------------------------------------------------------------- REGEX

func printRegex(c *Ctx) int {
	n := 0
	fd := c.funcDecl("internal/ast", "formatRegex")
	if fd == nil {
		c.undecided("anchor:formatRegex", token.NoPos, "not found")
		return 0
	}
	p := fd.Type.Params.List[0].Names[0].Name
	defs := localDefs(fd)
	got := ""
	for _, st := range fd.Body.List {
		if r, ok := st.(*ast.ReturnStmt); ok && len(r.Results) == 1 {
			got = render(r.Results[0], defs, 0)
		}
	}
	want1 := `(("/"+strings.ReplaceAll(` + p + `,"/",` + "`\\/`" + `))+"/")`
	want2 := `(("/"+strings.ReplaceAll(` + p + `,"/","\\/"))+"/")`
	want3 := `(("/"+strings.Replace(` + p + `,"/",` + "`\\/`" + `,-1))+"/")`
	n++
	c.check(got == want1 || got == want2 || got == want3, "regex:writer", fd.Pos(), "every slash, and nothing else, is escaped between the delimiters",
		"formatRegex returns "+got+" rather than the slash-delimited text with every '/' replaced by '\\/': the lexer's regex reader removes exactly that escape, so any other treatment (skipping a slash after a backslash, escaping other bytes) is read back as a different regex")
	// reader side: in scanRegex, after a backslash, the backslash is kept unless the next char is '/'
	sr := c.funcDecl("lexer", "Lexer.scanRegex")
	ok := false
	if sr != nil {
		ast.Inspect(sr.Body, func(nd ast.Node) bool {
			is, isIf := nd.(*ast.IfStmt)
			if !isIf {
				return true
			}
			if types.ExprString(is.Cond) != `c == '\\'` {
				return true
			}
			for _, st := range is.Body.List {
				if in, isIn := st.(*ast.IfStmt); isIn && types.ExprString(in.Cond) == `l.ch != '/'` && len(in.Body.List) == 1 && in.Else == nil {
					if strings.Contains(types.ExprString(in.Body.List[0].(*ast.AssignStmt).Rhs[0]), `'\\'`) {
						ok = true
					}
				}
			}
			return false
		})
	}
	n++
	c.check(ok, "regex:reader", posOf(sr), "the lexer keeps every backslash except the one before '/'",
		"the lexer's regex reader no longer removes exactly the backslash before '/': the printer's escaping is not its inverse any more")
	return n
}

func posOf(fd *ast.FuncDecl) token.Pos {
	if fd == nil {
		return token.NoPos
	}
	return fd.Pos()
}

// ---------------------------------------------------------------- NUM

func printNum(c *Ctx) int {
	fn := c.ssaFunc("internal/ast", "NumExpr.String")
	if fn == nil {
		c.undecided("anchor:NumExpr.String", token.NoPos, "not found")
		return 0
	}
	n := 0
	var infTrue []*ssa.BasicBlock
	for _, b := range fn.Blocks {
		if len(b.Instrs) == 0 {
			continue
		}
		if iff, ok := b.Instrs[len(b.Instrs)-1].(*ssa.If); ok {
			if call, ok := iff.Cond.(*ssa.Call); ok {
				if f := calleeObj(call); f != nil && funcFullName(f) == "math.IsInf" {
					if k, ok := call.Call.Args[1].(*ssa.Const); ok && k.Int64() == 0 {
						infTrue = append(infTrue, b.Succs[0])
					}
				}
			}
		}
	}
	for _, b := range fn.Blocks {
		for _, in := range b.Instrs {
			call, ok := in.(*ssa.Call)
			if !ok {
				continue
			}
			f := calleeObj(call)
			if f == nil {
				continue
			}
			full := funcFullName(f)
			if full != "fmt.Sprintf" && full != "strconv.FormatFloat" && full != "strconv.FormatInt" && full != "fmt.Sprint" {
				continue
			}
			n++
			guarded := len(infTrue) > 0
			for _, t := range infTrue {
				if t == b || reachableFrom(t)[b] {
					guarded = false
				}
			}
			c.check(guarded, "num:finite:"+full, in.Pos(), "reached only when the value is not infinite",
				"NumExpr.String formats the value with "+full+" without having excluded infinity: a literal too large for a float64 (1e999) is printed as +Inf, which is read back as unary plus applied to a variable")
		}
	}
	if n == 0 {
		c.undecided("num:finite", fn.Pos(), "no formatting call found in NumExpr.String")
		n++
	}
	return n
}

// ---------------------------------------------------------------- GROUP

func printGroup(c *Ctx) int {
	n := 0
	// constructed in the parser's LPAREN clause for a single expression
	built := 0
	for _, pk := range []string{"parser", "internal/resolver"} {
		p := c.pkg(pk)
		if p == nil {
			continue
		}
		for _, fd := range c.allFuncDecls(pk) {
			if fd.Body == nil {
				continue
			}
			ast.Inspect(fd.Body, func(nd ast.Node) bool {
				switch x := nd.(type) {
				case *ast.CompositeLit:
					if t := p.TypesInfo.TypeOf(x); t != nil && isNamed(t, modPath+"/internal/ast", "GroupingExpr") {
						built++
					}
				case *ast.TypeAssertExpr:
					if x.Type != nil {
						if t := p.TypesInfo.TypeOf(x.Type); t != nil && isNamed(deref(t), modPath+"/internal/ast", "GroupingExpr") {
							n++
							c.bad("group:unwrap:"+pk+"."+declName(fd), x.Pos(), "%s.%s looks inside a GroupingExpr: dropping the node loses parentheses the printer cannot restore (same-precedence nesting, a comparison inside print's arguments)", pk, declName(fd))
						}
					}
				case *ast.CaseClause:
					for _, e := range x.List {
						if t := p.TypesInfo.TypeOf(e); t != nil && isNamed(deref(t), modPath+"/internal/ast", "GroupingExpr") {
							if tv, ok := p.TypesInfo.Types[e]; ok && tv.IsType() {
								n++
								c.bad("group:unwrap:"+pk+"."+declName(fd), x.Pos(), "%s.%s has a type-switch clause for GroupingExpr: dropping the node loses parentheses the printer cannot restore (same-precedence nesting, a comparison inside print's arguments)", pk, declName(fd))
							}
						}
					}
				case *ast.SelectorExpr:
					if sel, ok := p.TypesInfo.Selections[x]; ok && sel.Kind() == types.FieldVal {
						if isNamed(deref(sel.Recv()), modPath+"/internal/ast", "GroupingExpr") {
							n++
							c.bad("group:unwrap:"+pk+"."+declName(fd), x.Pos(), "%s.%s reads GroupingExpr.%s", pk, declName(fd), x.Sel.Name)
						}
					}
				}
				return true
			})
		}
	}
	// the construction site: primary(), entered at '(' and with the parenthesised list holding one expression,
	// returns a freshly built GroupingExpr on every path that does not end in an error (per-token evaluation of
	// the parser, gramssa.go)
	fd := c.funcDecl("parser", "parser.primary")
	okSite := false
	got := []string{"?"}
	if g := newGssa(c); g != nil {
		got = g.returnedNodes("primary", "LPAREN", 1)
		okSite = len(got) == 1 && got[0] == "GroupingExpr"
	}
	n++
	c.check(okSite && built == 1, "group:build", posOf(fd), "a parenthesised single expression always becomes a GroupingExpr (one construction site)",
		"the parser's '(' clause does not unconditionally return a GroupingExpr for a single parenthesised expression (it returns "+strings.Join(got, " / ")+"; construction sites: "+itoa(int64(built))+"): the printer's precedence test alone cannot restore the grouping")
	return n
}

// ---------------------------------------------------------------- FIELDS

func printFields(c *Ctx) int {
	n := 0
	ap := c.pkg("internal/ast")
	nodeIface, _ := ap.Types.Scope().Lookup("Node").Type().Underlying().(*types.Interface)
	if nodeIface == nil {
		c.undecided("anchor:ast.Node", token.NoPos, "not found")
		return 0
	}
	names := ap.Types.Scope().Names()
	for _, name := range names {
		tn, ok := ap.Types.Scope().Lookup(name).(*types.TypeName)
		if !ok {
			continue
		}
		st, ok := tn.Type().Underlying().(*types.Struct)
		if !ok || !types.Implements(types.NewPointer(tn.Type()), nodeIface) {
			continue
		}
		fd := c.funcDecl("internal/ast", name+".String")
		if fd == nil {
			continue
		}
		recv := fd.Recv.List[0].Names[0].Name
		used := map[string]bool{}
		ast.Inspect(fd.Body, func(nd ast.Node) bool {
			if s, ok := nd.(*ast.SelectorExpr); ok && isIdent(s.X, recv) {
				used[s.Sel.Name] = true
			}
			return true
		})
		for i := 0; i < st.NumFields(); i++ {
			f := st.Field(i)
			if isNamed(f.Type(), modPath+"/lexer", "Position") {
				continue
			}
			n++
			c.check(used[f.Name()], "fields:"+name+"."+f.Name(), fd.Pos(), "printed",
				name+".String never mentions field "+f.Name()+": that part of the node is missing from the printed program")
		}
	}
	return n
}

// ---------------------------------------------------------------- NIL

func printNil(c *Ctx) int {
	n := 0
	// compiler side: the action is "absent" exactly when Stmts == nil
	comp := false
	for _, fd := range c.allFuncDecls("internal/compiler") {
		if fd.Body == nil {
			continue
		}
		ast.Inspect(fd.Body, func(nd ast.Node) bool {
			if b, ok := nd.(*ast.BinaryExpr); ok && b.Op == token.EQL && isIdent(b.Y, "nil") {
				if s, ok := b.X.(*ast.SelectorExpr); ok && s.Sel.Name == "Stmts" {
					comp = true
				}
			}
			return true
		})
	}
	fd := c.funcDecl("internal/ast", "Action.String")
	if fd == nil {
		c.undecided("anchor:Action.String", token.NoPos, "not found")
		return 0
	}
	recv := fd.Recv.List[0].Names[0].Name
	// every condition in Action.String that mentions recv.Stmts tests it against nil
	conds, good := 0, 0
	ast.Inspect(fd.Body, func(nd ast.Node) bool {
		is, ok := nd.(*ast.IfStmt)
		if !ok {
			return true
		}
		mentions := false
		ast.Inspect(is.Cond, func(m ast.Node) bool {
			if isSel2(m, recv, "Stmts") {
				mentions = true
			}
			return true
		})
		if !mentions {
			return true
		}
		conds++
		// each mention must be the operand of != nil / == nil
		all := true
		ast.Inspect(is.Cond, func(m ast.Node) bool {
			switch x := m.(type) {
			case *ast.BinaryExpr:
				if (x.Op == token.NEQ || x.Op == token.EQL) && isSel2(x.X, recv, "Stmts") && isIdent(x.Y, "nil") {
					return false
				}
			case *ast.SelectorExpr:
				if isSel2(x, recv, "Stmts") {
					all = false
				}
			}
			return true
		})
		if all {
			good++
		}
		return true
	})
	n++
	c.check(comp && conds >= 1 && conds == good, "nil:action", fd.Pos(), "braces are written exactly when Stmts != nil, the test the compiler uses for a present action",
		"Action.String decides whether to write the action's braces by something other than Stmts != nil (the compiler's test): `pattern {}` is printed as a bare pattern, which prints the record, or a bare pattern gains an empty action")
	return n
}

func isSel2(n ast.Node, x, sel string) bool {
	e, ok := n.(ast.Expr)
	return ok && isSel(e, x, sel)
}

// ---------------------------------------------------------------- PREC

// printPrec: the printer's precedence table orders the operators exactly as the parser's level chain does.
func printPrec(c *Ctx) int {
	n := 0
	pp := c.pkg("parser")
	ap := c.pkg("internal/ast")
	if pp == nil || ap == nil {
		return 0
	}
	g := newGssa(c)
	if g == nil {
		c.undecided("anchor:parser-ssa", token.NoPos, "package parser not resolvable for the grammar extraction")
		return 0
	}
	// printer side: token -> precedence constant (BinaryExpr.precedence's switch), plus the fixed node types
	precOf := map[string]int64{}
	precName := map[int64]string{}
	constVal := func(e ast.Expr) (int64, string, bool) {
		if id, ok := e.(*ast.Ident); ok {
			if k, ok := ap.TypesInfo.Uses[id].(*types.Const); ok {
				if v, ok := constantInt(k); ok {
					return v, k.Name(), true
				}
			}
		}
		return 0, "", false
	}
	// BinaryExpr.precedence evaluated on its SSA form for every operator token (a switch, an if chain and a lookup table
	// in a package-level map are the same thing to the evaluator)
	for _, nm := range ap.Types.Scope().Names() {
		if k, ok := ap.Types.Scope().Lookup(nm).(*types.Const); ok && strings.HasPrefix(nm, "prec") {
			if v, ok := constantInt(k); ok {
				precName[v] = nm
			}
		}
	}
	for tk, v := range binaryPrecedences(c) {
		precOf[tk] = v
	}
	fixed := func(typ string, toks ...string) {
		fd := c.funcDecl("internal/ast", typ+".precedence")
		if fd == nil {
			return
		}
		var vals []int64
		ast.Inspect(fd.Body, func(nd ast.Node) bool {
			if r, ok := nd.(*ast.ReturnStmt); ok && len(r.Results) == 1 {
				if v, nm, ok := constVal(r.Results[0]); ok {
					vals = append(vals, v)
					precName[v] = nm
				}
			}
			return true
		})
		if len(vals) == 1 {
			for _, t := range toks {
				precOf[t] = vals[0]
			}
		}
	}
	fixed("AssignExpr", "ASSIGN")
	fixed("AugAssignExpr", "ADD_ASSIGN", "SUB_ASSIGN", "MUL_ASSIGN", "DIV_ASSIGN", "MOD_ASSIGN", "POW_ASSIGN")
	fixed("CondExpr", "QUESTION")
	fixed("InExpr", "IN")
	// post-increment: the value IncrExpr.precedence returns when !Pre
	if fd := c.funcDecl("internal/ast", "IncrExpr.precedence"); fd != nil && len(fd.Body.List) == 2 {
		if r, ok := fd.Body.List[1].(*ast.ReturnStmt); ok && len(r.Results) == 1 {
			if v, nm, ok := constVal(r.Results[0]); ok {
				precOf["INCR"], precOf["DECR"] = v, v
				precName[v] = nm
			}
		}
	}
	// parser side: the general chain
	chain := g.chain("expr", "primary")
	prev := int64(-1)
	prevOps := ""
	levels := 0
	for _, lv := range chain {
		if len(lv.ops) == 0 || (len(lv.ops) == 1 && lv.ops[0] == "PIPE") {
			continue
		}
		ops := strings.Join(lv.ops, ",")
		key := "prec:level:" + ops
		n++
		levels++
		// all operators of one level share one printer precedence
		v, have := int64(0), false
		same := true
		for _, op := range lv.ops {
			p, ok := precOf[op]
			if !ok {
				same = false
				continue
			}
			if have && p != v {
				same = false
			}
			v, have = p, true
		}
		pos := token.NoPos
		if fn := g.methods[lv.fn]; fn != nil {
			pos = fn.Pos()
		}
		switch {
		case !have || !same:
			c.bad(key, pos, "the operators {%s} form one level of the parser (%s) but the printer does not give them one common precedence: parentheses are placed by a different grouping than the one parsed back", ops, lv.fn)
		case v <= prev:
			c.bad(key, pos, "the parser binds {%s} tighter than {%s}, the printer's table (%s) does not: operands are printed without the parentheses the parser needs to rebuild the same tree", ops, prevOps, precName[v])
		default:
			c.ok(key, pos, "parser level %s = printer precedence %s, above {%s}", lv.fn, precName[v], prevOps)
		}
		if have {
			prev, prevOps = v, ops
		}
	}
	c.atLeast("precedence levels compared", levels, 12)
	return n
}

// ---------------------------------------------------------------- GREATER in print context

// printGreater: inside a print statement's argument list the parser does not accept an
// unparenthesised `>` (it is the redirect). `print (a > b, c)` is parsed into a two-argument
// statement whose tree no longer records the parentheses, so the statement printer is the only
// place that can put them back: it must look for a > that no bracket of its own encloses, in
// every node type whose printer can leave a comparison child bare.
func printGreater(c *Ctx) int {
	n := 0
	ap := c.pkg("internal/ast")
	info := ap.TypesInfo
	ps := c.funcDecl("internal/ast", "printString")
	if ps == nil {
		c.undecided("anchor:printString", token.NoPos, "ast.printString not found")
		return 0
	}
	// functions of package ast that look for the GREATER token, and the functions that (transitively) call them:
	// the statement printer may consult the detector directly or through a predicate of its own
	reaches := map[string]bool{}
	var detector *ast.FuncDecl
	for _, fd := range c.allFuncDecls("internal/ast") {
		if fd.Body == nil || fd.Recv != nil {
			continue
		}
		mentions := false
		ast.Inspect(fd.Body, func(m ast.Node) bool {
			if se, ok := m.(*ast.SelectorExpr); ok && se.Sel.Name == "GREATER" {
				mentions = true
			}
			return true
		})
		if mentions {
			reaches[fd.Name.Name] = true
			detector = fd
		}
	}
	for changed := true; changed; {
		changed = false
		for _, fd := range c.allFuncDecls("internal/ast") {
			if fd.Body == nil || fd.Recv != nil || reaches[fd.Name.Name] {
				continue
			}
			ast.Inspect(fd.Body, func(m ast.Node) bool {
				if call, ok := m.(*ast.CallExpr); ok {
					if id, ok := call.Fun.(*ast.Ident); ok && reaches[id.Name] {
						if f, ok := info.Uses[id].(*types.Func); ok && f.Pkg() == ap.Types && !reaches[fd.Name.Name] {
							reaches[fd.Name.Name] = true
							changed = true
						}
					}
				}
				return true
			})
		}
	}
	consults := false
	ast.Inspect(ps.Body, func(nd ast.Node) bool {
		if call, ok := nd.(*ast.CallExpr); ok {
			if id, ok := call.Fun.(*ast.Ident); ok && reaches[id.Name] {
				consults = true
			}
		}
		return true
	})
	if !consults {
		detector = nil
	}
	n++
	if detector == nil {
		c.bad("print-greater:detector", ps.Pos(), "the print/printf statement printer never looks for a `>` comparison among its arguments: `print (a > b, c)` is printed as `print a > b, c`, where the > is a redirect")
		return n
	}
	c.ok("print-greater:detector", detector.Pos(), "printString asks %s whether an argument contains a bare > before writing the list", detector.Name.Name)
	// its result must decide a parenthesised form: an if in printString calling it whose body concatenates "(" and ")"
	wraps := false
	ast.Inspect(ps.Body, func(nd ast.Node) bool {
		is, ok := nd.(*ast.IfStmt)
		if !ok {
			return true
		}
		callsDet := false
		ast.Inspect(is.Cond, func(m ast.Node) bool {
			if call, ok := m.(*ast.CallExpr); ok {
				if id, ok := call.Fun.(*ast.Ident); ok && reaches[id.Name] {
					callsDet = true
				}
			}
			return true
		})
		if !callsDet {
			return true
		}
		open, close := false, false
		ast.Inspect(is.Body, func(m ast.Node) bool {
			if s, err := strconv.Unquote(litText2(m)); err == nil {
				if strings.HasSuffix(s, "(") {
					open = true
				}
				if strings.HasPrefix(s, ")") {
					close = true
				}
			}
			return true
		})
		wraps = wraps || (open && close)
		return true
	})
	n++
	c.check(wraps, "print-greater:wrap", ps.Pos(), "a list with a bare > is written inside ( )", "printString consults "+detector.Name.Name+" but does not write the argument list inside parentheses when it answers yes")
	// node types whose printer can leave a comparison child bare: those with some precedence <= the comparison level
	cmpPrec := int64(-1)
	precs := map[string][]int64{}
	scope := ap.Types.Scope()
	exprI, _ := scope.Lookup("Expr").Type().Underlying().(*types.Interface)
	for _, name := range scope.Names() {
		tn, ok := scope.Lookup(name).(*types.TypeName)
		if !ok {
			continue
		}
		if _, ok := tn.Type().Underlying().(*types.Struct); !ok || exprI == nil || !types.Implements(types.NewPointer(tn.Type()), exprI) {
			continue
		}
		fd := c.funcDecl("internal/ast", name+".precedence")
		if fd == nil {
			continue
		}
		ast.Inspect(fd.Body, func(m ast.Node) bool {
			switch x := m.(type) {
			case *ast.CaseClause:
				isGreater := false
				for _, e := range x.List {
					if selName(e) == "GREATER" {
						isGreater = true
					}
				}
				for _, st := range x.Body {
					if r, ok := st.(*ast.ReturnStmt); ok && len(r.Results) == 1 {
						if id, ok := r.Results[0].(*ast.Ident); ok {
							if k, ok := info.Uses[id].(*types.Const); ok {
								if v, ok := constantInt(k); ok && isGreater {
									cmpPrec = v
								}
							}
						}
					}
				}
			case *ast.ReturnStmt:
				if len(x.Results) == 1 {
					if id, ok := x.Results[0].(*ast.Ident); ok {
						if k, ok := info.Uses[id].(*types.Const); ok {
							if v, ok := constantInt(k); ok {
								precs[name] = append(precs[name], v)
							}
						}
					}
				}
			}
			return true
		})
	}
	// BinaryExpr: evaluated per operator (binaryPrecedences), whatever the shape of its precedence method
	if bp := binaryPrecedences(c); len(bp) > 0 {
		if v, ok := bp["GREATER"]; ok {
			cmpPrec = v
		}
		seen := map[int64]bool{}
		var vals []int64
		for _, v := range bp {
			if !seen[v] {
				seen[v] = true
				vals = append(vals, v)
			}
		}
		sort.Slice(vals, func(i, j int) bool { return vals[i] < vals[j] })
		precs["BinaryExpr"] = vals
	}
	if cmpPrec < 0 {
		c.undecided("print-greater:prec", token.NoPos, "precedence of the > comparison not found in BinaryExpr.precedence")
		return n
	}
	// does the printer of the type print an expression child at all?
	printsChild := func(name string) bool {
		fd := c.funcDecl("internal/ast", name+".String")
		if fd == nil {
			return false
		}
		found := false
		ast.Inspect(fd.Body, func(m ast.Node) bool {
			if call, ok := m.(*ast.CallExpr); ok && isIdent(call.Fun, "parenthesize") {
				found = true
			}
			return true
		})
		return found
	}
	covered := map[string]bool{}
	ast.Inspect(detector.Body, func(m ast.Node) bool {
		if cc, ok := m.(*ast.CaseClause); ok {
			for _, e := range cc.List {
				if t := info.TypeOf(e); t != nil {
					if nm := named(deref(t)); nm != nil {
						covered[nm.Obj().Name()] = true
					}
				}
			}
		}
		return true
	})
	var names []string
	for name := range precs {
		names = append(names, name)
	}
	sort.Strings(names)
	need := 0
	for _, name := range names {
		low := false
		for _, p := range precs[name] {
			if p <= cmpPrec {
				low = true
			}
		}
		if !low || !printsChild(name) {
			continue
		}
		need++
		n++
		c.check(covered[name], "print-greater:covers:"+name, detector.Pos(), name+" is searched (its printer can leave a > child without parentheses)",
			detector.Name.Name+" has no case for "+name+", whose printer writes a child at or below the comparison level without parentheses: a `>` inside it is printed bare in a print argument list")
	}
	c.atLeast("node types that can hold a bare >", need, 4)
	// the other construct the print grammar does not take bare (R-GRAMMAR: the print context has no getline level):
	// `cmd | getline`. In a list of several arguments it needs the list's parentheses just like a > comparison, so the
	// detector, evaluated on its SSA form for a GetlineExpr whose Command is set (and answering "no" for whatever
	// is inside the command), must say yes
	if dfn := c.ssaFunc("internal/ast", detector.Name.Name); dfn != nil && len(dfn.Params) == 1 {
		e := &sengine{pkg: c.ssaPkg("internal/ast"), ctx: c}
		prm := dfn.Params[0]
		e.param = func(f *ssa.Function, p *ssa.Parameter) (iv, bool) {
			if p == prm && f == dfn {
				return ivSym("e"), true
			}
			return iv{}, false
		}
		e.typeAssert = func(fr *sframe, x *ssa.TypeAssert, v iv) (iv, bool) {
			if v.k != 's' || v.s != "e" {
				return iv{}, false
			}
			is := false
			if nm := named(deref(x.AssertedType)); nm != nil && nm.Obj().Name() == "GetlineExpr" {
				is = true
			}
			val := iv{}
			if is {
				val = ivSym("g")
			}
			if x.CommaOk {
				return ivTuple(val, ivBool(is)), true
			}
			return val, is
		}
		e.load = func(p *spath, fr *sframe, addr iv, in *ssa.UnOp) (iv, bool) {
			if addr.k == 'p' && addr.s == "g.Command" {
				return ivSym("cmd"), true
			}
			return iv{}, false
		}
		e.binop = func(op token.Token, a, b iv) (iv, bool) {
			// a set Command compared with nil
			if (a.k == 's' && a.s == "cmd" && b.k == 'n') || (b.k == 's' && b.s == "cmd" && a.k == 'n') {
				return ivBool(op == token.NEQ), op == token.NEQ || op == token.EQL
			}
			return iv{}, false
		}
		e.call = func(p *spath, fr *sframe, call *ssa.Call, callee *ssa.Function, args []iv) (iv, callAction) {
			if callee == dfn {
				return ivBool(false), callHandled // nothing inside the command asks for parentheses
			}
			return iv{}, callDefault
		}
		e.enter = func(callee *ssa.Function, args []iv) bool { return callee != dfn }
		e.startAt(dfn, dfn.Blocks[0], nil)
		yes, other := 0, 0
		for _, o := range e.outcomes {
			if o.panicked {
				continue
			}
			if o.ret.k == 'b' && o.ret.b {
				yes++
			} else {
				other++
			}
		}
		n++
		c.check(yes > 0 && other == 0 && len(e.problems) == 0, "print-greater:pipe-getline", detector.Pos(),
			detector.Name.Name+" answers yes for `cmd | getline` (the list is then written in parentheses)",
			detector.Name.Name+" does not answer yes for a piped getline (GetlineExpr with a Command): `print (\"cmd\" | getline x, y)` is printed as `print \"cmd\" |getline x, y`, where the | is read as print's output pipe - the printed program does not parse or means something else")
	} else {
		c.undecided("print-greater:pipe-getline", detector.Pos(), "the detector %s is not resolvable on the SSA form", detector.Name.Name)
	}
	return n
}

func litText2(n ast.Node) string {
	if b, ok := n.(*ast.BasicLit); ok {
		return b.Value
	}
	return ""
}

// binaryPrecedences: token name -> what BinaryExpr.precedence returns for an expression with that operator, evaluated
// on the SSA form of the method for every token (switch, if chain or lookup table alike). Tokens for which the result
// is not a single known integer are left out.
func binaryPrecedences(c *Ctx) map[string]int64 {
	if m, ok := c.memo["binaryPrecedences"].(map[string]int64); ok {
		return m
	}
	out := map[string]int64{}
	c.memo["binaryPrecedences"] = out
	fn := c.ssaFunc("internal/ast", "BinaryExpr.precedence")
	if fn == nil || len(fn.Params) == 0 {
		return out
	}
	for _, k := range c.constsOfType("lexer", "Token") {
		tv, ok := constantInt(k)
		if !ok {
			continue
		}
		e := &sengine{pkg: c.ssaPkg("internal/ast"), ctx: c}
		recv := fn.Params[0]
		e.param = func(f *ssa.Function, p *ssa.Parameter) (iv, bool) {
			if p == recv {
				return ivSym("e"), true
			}
			return iv{}, false
		}
		e.load = func(p *spath, fr *sframe, addr iv, in *ssa.UnOp) (iv, bool) {
			if addr.k == 'p' && addr.s == "e.Op" {
				return ivInt(tv), true
			}
			return iv{}, false
		}
		e.enter = func(callee *ssa.Function, args []iv) bool { return true }
		e.startAt(fn, fn.Blocks[0], nil)
		val, okv, first := int64(0), true, true
		for _, o := range e.outcomes {
			if o.panicked {
				continue
			}
			if o.ret.k != 'i' {
				okv = false
				break
			}
			if first {
				val, first = o.ret.i, false
			} else if val != o.ret.i {
				okv = false
			}
		}
		if okv && !first && len(e.problems) == 0 {
			out[k.Name()] = val
		}
	}
	return out
}

// printListComplete: a printer never shows only part of a list. In package ast every use of one fixed element F[k] of
// a list-valued node field (statements of a block, indexes, arguments) is made only where the list is known to have
// exactly k+1 elements (a dominating `len(F) == k+1`); everything else goes over the whole list (range, or the list
// handed on as a whole). A path that prints `Else[0]` whenever the list is non-empty silently drops the rest.
func printListComplete(c *Ctx) int {
	n := 0
	for _, fn := range c.srcFuncs("internal/ast") {
		fn := fn
		allInstrs(fn, func(in ssa.Instruction) {
			var base, idx ssa.Value
			switch x := in.(type) {
			case *ssa.IndexAddr:
				base, idx = x.X, x.Index
			case *ssa.Index:
				base, idx = x.X, x.Index
			default:
				return
			}
			k, ok := idx.(*ssa.Const)
			if !ok || k.Value == nil {
				return
			}
			kv, ok := constant.Int64Val(k.Value)
			if !ok {
				return
			}
			f, holder := loadedField(base)
			if f == nil || holder == nil {
				return
			}
			if _, isSl := f.Type().Underlying().(*types.Slice); !isSl {
				return
			}
			if nm := named(deref(holder.Type())); nm == nil || nm.Obj().Pkg() == nil || nm.Obj().Pkg().Path() != modPath+"/internal/ast" {
				return
			}
			n++
			guarded := false
			for _, g := range fn.Blocks {
				if len(g.Instrs) == 0 || !g.Dominates(in.Block()) || g == in.Block() {
					continue
				}
				ifi, ok := g.Instrs[len(g.Instrs)-1].(*ssa.If)
				if !ok {
					continue
				}
				bo, ok := ifi.Cond.(*ssa.BinOp)
				if !ok || bo.Op != token.EQL {
					continue
				}
				lc, ok := bo.X.(*ssa.Call)
				if !ok {
					continue
				}
				if b, isB := lc.Call.Value.(*ssa.Builtin); !isB || b.Name() != "len" || len(lc.Call.Args) != 1 {
					continue
				}
				if lf, lh := loadedField(lc.Call.Args[0]); lf != f || lh != holder {
					continue
				}
				if kk, ok := bo.Y.(*ssa.Const); !ok || kk.Value == nil || kk.Value.ExactString() != fmt.Sprint(kv+1) {
					continue
				}
				// reached through the true edge only
				if reachableAvoiding(g.Succs[1], g)[in.Block()] {
					continue
				}
				guarded = true
			}
			key := fmt.Sprintf("list-complete:%s:%s[%d]", fnKey(fn), f.Name(), kv)
			c.check(guarded, key, in.Pos(), fmt.Sprintf("element %d of %s is used only where the list has exactly %d element(s)", kv, f.Name(), kv+1),
				fmt.Sprintf("%s uses element %d of the list %s without the list being known to have exactly %d element(s): the other elements are not printed on that path, so the printed program is a different program", fnKey(fn), kv, f.Name(), kv+1))
		})
	}
	c.atLeast("fixed-position uses of list fields in package ast", n, 1)
	return n
}
