package main

import (
	"go/types"
	"sort"

	"golang.org/x/tools/go/ssa"
)

// tokensAtCalls: for every parser function that calls target, the tokens that can be current when the call is made
// ("?" when the token is not known there: something advanced the lexer since it was last looked at). Each calling
// function is run from its entry once per token, by the token-specialised path interpreter of the grammar rules, so
// a guard written as a case list, a matches(...) call, a predicate function or a table lookup is all the same.
func (g *gssa) tokensAtCalls(target *ssa.Function) map[*ssa.Function][]string {
	out := map[*ssa.Function]map[string]bool{}
	for _, fn := range g.c.srcFuncs("parser") {
		if len(fn.Blocks) == 0 {
			continue
		}
		calls := false
		allInstrs(fn, func(in ssa.Instruction) {
			if ci, ok := in.(ssa.CallInstruction); ok && ci.Common().StaticCallee() == target {
				calls = true
			}
		})
		if !calls {
			continue
		}
		out[fn] = map[string]bool{}
		g.assumeNoPending = true
		for _, t := range g.tokVals {
			r := &glevelRun{g: g, fn: fn, selfSig: "", prefix: true}
			r.onCall = func(p *gpath, callee *ssa.Function) {
				if callee != target {
					return
				}
				host := p.stack[len(p.stack)-1].fn
				if out[host] == nil {
					out[host] = map[string]bool{}
				}
				if p.tokKnown {
					if n, ok := g.tokName[p.tokVal()]; ok {
						out[host][n] = true
						return
					}
				}
				out[host]["?"] = true
			}
			bottom := &gframe{fn: fn, vals: map[ssa.Value]gv{nil: {k: 'i', i: t}}, blk: fn.Blocks[0]}
			p := &gpath{stack: []*gframe{bottom}, started: true, tokKnown: true, pre: map[*ssa.BasicBlock]bool{}, post: map[*ssa.BasicBlock]bool{}}
			r.run(p)
		}
		g.assumeNoPending = false
	}
	res := map[*ssa.Function][]string{}
	for fn, set := range out {
		var ts []string
		for t := range set {
			ts = append(ts, t)
		}
		sort.Strings(ts)
		res[fn] = ts
	}
	return res
}

// storedByTokenParam: for the parser functions that store into the Token-typed field `key` ("AugAssignExpr.Op") of a
// node and choose the value from a Token-typed parameter, the values stored when the parameter is each token:
// token name -> stored token names ("?" for a value that is not a known token). Functions are run by the
// token-specialised interpreter with the parameter bound, so a switch, a lookup table or a helper are the same.
func (g *gssa) storedByTokenParam(key string) map[string][]string {
	res := map[string]map[string]bool{}
	saved := g.stored
	defer func() { g.stored = saved }()
	for _, fn := range g.c.srcFuncs("parser") {
		if len(fn.Blocks) == 0 || !g.hasTokenStore(fn) {
			continue
		}
		var tokParams []*ssa.Parameter
		for _, prm := range fn.Params {
			if g.tokenT != nil && types.Identical(prm.Type(), g.tokenT) {
				tokParams = append(tokParams, prm)
			}
		}
		if len(tokParams) != 1 {
			continue
		}
		for _, t := range g.tokVals {
			g.stored = map[string]map[string]bool{}
			g.assumeNoPending = true
			r := &glevelRun{g: g, fn: fn, selfSig: "", prefix: true}
			bottom := &gframe{fn: fn, vals: map[ssa.Value]gv{nil: {k: 'i', i: t}, tokParams[0]: {k: 'i', i: t}}, blk: fn.Blocks[0]}
			p := &gpath{stack: []*gframe{bottom}, started: true, tokKnown: true, pre: map[*ssa.BasicBlock]bool{}, post: map[*ssa.BasicBlock]bool{}}
			r.run(p)
			g.assumeNoPending = false
			if set := g.stored[key]; len(set) > 0 {
				name := g.tokName[t]
				if res[name] == nil {
					res[name] = map[string]bool{}
				}
				for v := range set {
					res[name][v] = true
				}
			}
		}
	}
	out := map[string][]string{}
	for k, set := range res {
		var ts []string
		for t := range set {
			ts = append(ts, t)
		}
		sort.Strings(ts)
		out[k] = ts
	}
	return out
}
