package main

import (
	"go/token"
	"go/types"
	"sort"

	"golang.org/x/tools/go/ssa"
)

// R-DENYPROP (C12): "each attempt ends the run with an error".
//
// R-SANDBOX shows that a denied operation is never performed; this rule follows the
// denial error upwards: every function that can return it (the functions containing a
// deny-flag guard, then transitively their callers) is a "may-deny" function, and at
// every call of one the error result must be able to reach the caller's own error
// result, up to the exported entry points. A call site whose error can never leave
// the caller (it is tested and replaced by a status value on every path) is a place
// where a denied attempt is swallowed and the program keeps running.

func init() {
	register("R-DENYPROP", "denial errors end the run: starting from every block that is the denied branch of a NoExec/NoFileWrites/NoFileReads test and returns an error, the containing function and transitively every caller in package interp is a may-deny function; at each call of a may-deny function the returned error must flow (through phis, interface conversions, named-result cells and error-wrapping calls) into an error result of the caller on at least one path, and the chain must reach Execute; a call site whose error cannot leave the caller swallows the denial", ruleDenyProp)
}

func isErrorType(t types.Type) bool {
	n, ok := t.(*types.Named)
	return ok && n.Obj().Pkg() == nil && n.Obj().Name() == "error"
}

// errResultIndex: index of the last result of type error, or -1.
func errResultIndex(sig *types.Signature) int {
	for i := sig.Results().Len() - 1; i >= 0; i-- {
		if isErrorType(sig.Results().At(i).Type()) {
			return i
		}
	}
	return -1
}

// flowsToErrorReturn: can value v (an error) reach an error result of fn's returns?
func flowsToErrorReturn(fn *ssa.Function, v ssa.Value) bool {
	seen := map[ssa.Value]bool{}
	work := []ssa.Value{v}
	for len(work) > 0 {
		x := work[len(work)-1]
		work = work[:len(work)-1]
		if seen[x] {
			continue
		}
		seen[x] = true
		refs := x.Referrers()
		if refs == nil {
			continue
		}
		for _, r := range *refs {
			switch in := r.(type) {
			case *ssa.Return:
				return true
			case *ssa.Phi:
				work = append(work, in)
			case *ssa.MakeInterface:
				work = append(work, in)
			case *ssa.ChangeInterface:
				work = append(work, in)
			case *ssa.ChangeType:
				work = append(work, in)
			case *ssa.TypeAssert:
				work = append(work, in)
			case *ssa.Extract:
				work = append(work, in)
			case *ssa.Store:
				if in.Val != x {
					continue
				}
				// every load of the cell stored to
				if cell, ok := in.Addr.(*ssa.Alloc); ok {
					if crefs := cell.Referrers(); crefs != nil {
						for _, cr := range *crefs {
							if u, ok := cr.(*ssa.UnOp); ok && u.Op == token.MUL {
								work = append(work, u)
							}
						}
					}
					// a named result cell read by the implicit return after rundefers
					for _, b := range fn.Blocks {
						for _, bi := range b.Instrs {
							if ret, ok := bi.(*ssa.Return); ok {
								for _, rv := range ret.Results {
									if u, ok := rv.(*ssa.UnOp); ok && u.X == ssa.Value(cell) {
										return true
									}
								}
							}
						}
					}
				}
			case *ssa.Call:
				// wrapping: the error is an argument of a call that returns an error (fmt.Errorf, newError...)
				if errResultIndex(in.Call.Signature()) >= 0 || isErrorType(in.Type()) {
					isArg := false
					for _, a := range in.Call.Args {
						if a == x {
							isArg = true
						}
					}
					if isArg {
						work = append(work, in)
					}
				}
			case *ssa.Slice, *ssa.IndexAddr:
				// variadic packing of the error into an []interface{} for a wrapping call
				if val, ok := r.(ssa.Value); ok {
					work = append(work, val)
				}
			}
		}
	}
	return false
}

func ruleDenyProp(c *Ctx) {
	denyErrorIsFatal(c)
	flags := map[string]bool{"noExec": true, "noFileWrites": true, "noFileReads": true}
	mayDeny := map[*ssa.Function]string{} // fn -> why
	var order []*ssa.Function
	fns := c.srcFuncs("interp")
	for _, fn := range fns {
		for _, b := range fn.Blocks {
			if len(b.Instrs) == 0 {
				continue
			}
			iff, ok := b.Instrs[len(b.Instrs)-1].(*ssa.If)
			if !ok {
				continue
			}
			name, pos := condField(iff.Cond)
			if !flags[name] {
				continue
			}
			denied := b.Succs[0]
			if !pos {
				denied = b.Succs[1]
			}
			if okk, _ := returnsOnlyErrors(denied); okk && errResultIndex(fn.Signature) >= 0 {
				if _, have := mayDeny[fn]; !have {
					mayDeny[fn] = "contains the " + name + " guard"
					order = append(order, fn)
				}
			}
		}
	}
	c.atLeast("functions with a deny guard", len(order), 3)
	// callers, to a fixpoint
	type site struct {
		caller *ssa.Function
		call   ssa.CallInstruction
		callee *ssa.Function
	}
	checked := map[ssa.Instruction]bool{}
	nSites := 0
	for changed := true; changed; {
		changed = false
		for _, g := range fns {
			for _, b := range g.Blocks {
				for _, in := range b.Instrs {
					call, ok := in.(ssa.CallInstruction)
					if !ok || checked[in] {
						continue
					}
					callee := call.Common().StaticCallee()
					if callee == nil {
						continue
					}
					if _, is := mayDeny[callee]; !is {
						continue
					}
					checked[in] = true
					nSites++
					key := "deny-propagates:" + fnKey(g) + "<-" + fnKey(callee)
					cv, isVal := in.(*ssa.Call)
					if !isVal {
						c.bad(key, in.Pos(), "%s calls %s (which can return a sandbox denial) with go/defer: its error is discarded", fnKey(g), fnKey(callee))
						continue
					}
					if errResultIndex(g.Signature) < 0 {
						c.bad(key, in.Pos(), "%s calls %s, which can return a sandbox denial, but has no error result of its own: the denied attempt cannot end the run", fnKey(g), fnKey(callee))
						continue
					}
					// the error value of the call
					var errv ssa.Value = cv
					if cv.Call.Signature().Results().Len() > 1 {
						errv = nil
						idx := errResultIndex(cv.Call.Signature())
						if refs := cv.Referrers(); refs != nil {
							for _, r := range *refs {
								if ex, ok := r.(*ssa.Extract); ok && ex.Index == idx {
									errv = ex
								}
							}
						}
					}
					if errv == nil {
						c.bad(key, in.Pos(), "%s ignores the error result of %s, which can be a sandbox denial", fnKey(g), fnKey(callee))
						continue
					}
					if flowsToErrorReturn(g, errv) {
						c.ok(key, in.Pos(), "the error of %s (%s) can reach %s's own error result", fnKey(callee), mayDeny[callee], fnKey(g))
						if _, have := mayDeny[g]; !have {
							mayDeny[g] = "propagates " + fnKey(callee)
							order = append(order, g)
							changed = true
						}
					} else {
						c.bad(key, in.Pos(), "the error returned by %s (%s) can never leave %s: on every path it is tested and replaced by a status value, so a denied attempt is swallowed and the program keeps running instead of ending with an error", fnKey(callee), mayDeny[callee], fnKey(g))
					}
				}
			}
		}
	}
	c.atLeast("calls of may-deny functions", nSites, 8)
	// the chain reaches the exported entry points
	var roots []string
	for fn := range mayDeny {
		if fn.Object() != nil && fn.Object().Exported() && fn.Signature.Recv() != nil || (fn.Object() != nil && fn.Object().Exported()) {
			roots = append(roots, fnKey(fn))
		}
	}
	sort.Strings(roots)
	hasExec := false
	for _, r := range roots {
		if r == "(*interp.Interpreter).ExecuteContext" || r == "(*interp.Interpreter).Execute" || r == "interp.ExecProgram" {
			hasExec = true
		}
	}
	c.check(hasExec, "deny-reaches-api", token.NoPos, "denial errors reach the exported entry points "+joinStrs(roots), "no exported entry point of package interp is reached by the denial errors (reached: "+joinStrs(roots)+")")
}

func joinStrs(xs []string) string {
	out := ""
	for i, x := range xs {
		if i > 0 {
			out += ", "
		}
		out += x
	}
	return out
}

// denyErrorIsFatal (part of R-DENYPROP, C12): the error a sandbox guard answers with is an *interp.Error (built by
// newError). The getline path treats any other error of the input layer as "could not read" and lets the program carry
// on with -1; a denial that comes back as a plain errors.New value is therefore no longer the end of the run.
func denyErrorIsFatal(c *Ctx) {
	deny := map[string]bool{"noExec": true, "noFileReads": true, "noFileWrites": true}
	n := 0
	for _, fn := range c.srcFuncs("interp") {
		fn := fn
		k := 0
		for _, b := range fn.Blocks {
			if len(b.Instrs) == 0 {
				continue
			}
			iff, ok := b.Instrs[len(b.Instrs)-1].(*ssa.If)
			if !ok {
				continue
			}
			name, pos := condField(iff.Cond)
			if !deny[name] {
				continue
			}
			edge := 0
			if !pos {
				edge = 1
			}
			// returns that only the denying edge reaches
			for _, rb := range fn.Blocks {
				if len(rb.Instrs) == 0 {
					continue
				}
				ret, ok := rb.Instrs[len(rb.Instrs)-1].(*ssa.Return)
				if !ok || !(b.Succs[edge] == rb || edgeDominates(b, edge, rb)) {
					continue
				}
				for _, rv := range ret.Results {
					if types.TypeString(rv.Type(), nil) != "error" {
						continue
					}
					if kc, isK := rv.(*ssa.Const); isK && kc.Value == nil {
						continue
					}
					n++
					k++
					good := false
					switch x := rv.(type) {
					case *ssa.Call:
						if cal := x.Call.StaticCallee(); cal != nil && cal.Name() == "newError" {
							good = true
						}
					case *ssa.MakeInterface:
						good = isNamed(deref(x.X.Type()), modPath+"/interp", "Error")
					}
					key := "deny-error-type:" + fnKey(fn) + ":" + name
					if k > 1 {
						key += "#" + itoa(int64(k))
					}
					c.check(good, key, posOr(ret.Pos(), fn.Pos()), "the denial is an *interp.Error (newError)",
						fnKey(fn)+" answers the "+name+" guard with an error that is not an *interp.Error (a package-level errors.New value, fmt.Errorf): the getline path treats only *Error as fatal, so a plain getline that reaches a denied file operand returns -1 and the program carries on - the attempt no longer ends the run with an error")
				}
			}
		}
	}
	c.atLeast("returns of a sandbox guard's denial", n, 4)
}
