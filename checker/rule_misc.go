package main

import (
	"fmt"
	"go/ast"
	"go/token"
	"go/types"
	"sort"
	"strings"

	"golang.org/x/tools/go/ssa"
)

// Small repository-specific rules: R-ERRUSE, R-PAIR, R-PARSEPOS, R-REGEX-LONGEST, R-RESOLVE-OWNER.

func init() {
	register("R-ERRUSE", "a nillable value returned together with an error (regexp.Compile, the configurable open function, ...) is not stored, cached or dereferenced on a path where the error has not been tested: every such use is dominated by the `err == nil` side of a test of the accompanying error (returning both up the stack together is fine)", ruleErrUse)
	register("R-PAIR", "parser nesting counters are balanced: in every parser method, on every path from entry to a normal return, the net change of each integer field of the parser that the method increments (loop depth) is zero, so an early return cannot leave the parser believing it is still inside a loop (paths that panic with a parse error abort the parse and are exempt)", rulePair)
	register("R-PARSEPOS", "every AST node the parser constructs gets its source positions: each composite literal of an internal/ast node type in package parser assigns every field of type lexer.Position, so resolver and compiler errors about that node carry a position inside the source instead of 0:0", ruleParsePos)
	register("R-REGEX-LONGEST", "leftmost-longest: every regexp compiled from script-controlled text (regexp.Compile / MustCompile results that are stored, cached, returned or otherwise escape) has Longest() called on it on every path before it escapes, and its source is wrapped by AddRegexFlags or QuoteMeta", ruleRegexLongest)
	register("R-RESOLVE-OWNER", "type inference bookkeeping: every update of the resolver's variable-type table made during the fixpoint iteration (in code reachable from a tree visitor) is followed by incrementing the change counter that drives the iteration and is written into the scope the variable was found in; set-up and finalisation code (the rest of package resolver) writes outside the iteration; every pass walks the function bodies, BEGIN, the actions and END unconditionally and Resolve never changes the visitor between passes; one iteration of the loop over a user call's arguments, evaluated on the SSA form for a variable argument (callee native / not native), records a type or raises the conflict on every path", ruleResolveOwner)
}

func isNillable(t types.Type) bool {
	switch t.Underlying().(type) {
	case *types.Pointer, *types.Map, *types.Slice, *types.Interface, *types.Chan, *types.Signature:
		return true
	}
	return false
}

func ruleErrUse(c *Ctx) {
	n := 0
	for _, short := range []string{"interp", "parser", "internal/compiler", "internal/resolver", "lexer", "internal/cover", "internal/parseutil"} {
		for _, fn := range c.srcFuncs(short) {
			fn := fn
			allInstrs(fn, func(in ssa.Instruction) {
				call, ok := in.(*ssa.Call)
				if !ok {
					return
				}
				tup, ok := call.Type().(*types.Tuple)
				if !ok || tup.Len() < 2 || types.TypeString(tup.At(tup.Len()-1).Type(), nil) != "error" || !isNillable(tup.At(0).Type()) {
					return
				}
				var val, errv *ssa.Extract
				for _, r := range *call.Referrers() {
					if ex, ok := r.(*ssa.Extract); ok {
						if ex.Index == 0 {
							val = ex
						}
						if ex.Index == tup.Len()-1 {
							errv = ex
						}
					}
				}
				if val == nil {
					return
				}
				callee := "dynamic call"
				if f := call.Call.StaticCallee(); f != nil {
					callee = f.String()
				} else if call.Call.IsInvoke() {
					callee = call.Call.Method.FullName()
				}
				callee = strings.ReplaceAll(callee, modPath+"/", "")
				// blocks where err is known nil
				okBlocks := func(b *ssa.BasicBlock) bool {
					if errv == nil {
						return false
					}
					for _, r := range *errv.Referrers() {
						bo, ok := r.(*ssa.BinOp)
						if !ok || (bo.Op != token.NEQ && bo.Op != token.EQL) || !(isNilConst(bo.X) || isNilConst(bo.Y)) {
							continue
						}
						for _, r2 := range *bo.Referrers() {
							ifi, ok := r2.(*ssa.If)
							if !ok {
								continue
							}
							nilSucc := 1
							if bo.Op == token.EQL {
								nilSucc = 0
							}
							ib := ifi.Block()
							if ib.Dominates(b) && !reachableAvoiding(ib.Succs[1-nilSucc], ib)[b] {
								return true
							}
							// errors.Is(err, X) style sub-tests inside the error branch are irrelevant
						}
					}
					return false
				}
				for _, r := range *val.Referrers() {
					use, ok := r.(ssa.Instruction)
					if !ok {
						continue
					}
					risky := ""
					switch u := use.(type) {
					case *ssa.Store:
						if u.Val == ssa.Value(val) {
							if _, isLocal := u.Addr.(*ssa.Alloc); !isLocal {
								risky = "stored"
							}
						}
					case *ssa.MapUpdate:
						if u.Value == ssa.Value(val) {
							risky = "cached in a map"
						}
					case ssa.CallInstruction:
						cc := u.Common()
						if len(cc.Args) > 0 && cc.Args[0] == ssa.Value(val) && cc.Signature().Recv() != nil {
							risky = "used as a method receiver"
						} else if cc.IsInvoke() && cc.Value == ssa.Value(val) {
							risky = "used as a method receiver"
						}
					case *ssa.MakeInterface, *ssa.ChangeInterface:
						// wrapped into an interface (e.g. passed to a stream constructor): treated as escaping
						risky = "passed on"
					}
					if risky == "" {
						continue
					}
					n++
					key := fmt.Sprintf("erruse:%s:%s:%s", fnKey(fn), callee, risky)
					// value and error handed up together: `x.f, err = call(); return x, err`
					returnedTogether := false
					if errv != nil {
						for _, r2 := range *errv.Referrers() {
							if ret, ok := r2.(*ssa.Return); ok && ret.Block() == use.Block() {
								returnedTogether = true
							}
							// named result with a deferred function: the error is spilled to its result cell and the block returns
							if st, ok := r2.(*ssa.Store); ok && st.Block() == use.Block() {
								if _, isCell := st.Addr.(*ssa.Alloc); isCell {
									if _, endsInRet := use.Block().Instrs[len(use.Block().Instrs)-1].(*ssa.Return); endsInRet {
										returnedTogether = true
									}
								}
							}
						}
					}
					if returnedTogether {
						c.ok(key, use.Pos(), "result of %s is %s and returned to the caller together with its error", callee, risky)
						continue
					}
					if okBlocks(use.Block()) {
						c.ok(key, use.Pos(), "result of %s is %s only where its error is known to be nil", callee, risky)
					} else {
						c.bad(key, use.Pos(), "in %s the result of %s is %s on a path where the accompanying error has not been tested: after a failed call the value is nil (a later use panics) or meaningless", fnKey(fn), callee, risky)
					}
				}
			})
		}
	}
	c.atLeast("uses of (value, error) results", n, 8)
}

func rulePair(c *Ctx) {
	named, st := c.structType("parser", "parser")
	if st == nil {
		c.undecided("anchor:parser", token.NoPos, "type parser.parser not found")
		return
	}
	_ = named
	nFn := 0
	for _, fn := range c.srcFuncs("parser") {
		if fn.Parent() != nil {
			continue
		}
		// deltas per block for int fields
		type delta struct {
			field string
			d     int
		}
		per := map[*ssa.BasicBlock][]delta{}
		fields := map[string]bool{}
		for _, b := range fn.Blocks {
			for _, in := range b.Instrs {
				s, ok := in.(*ssa.Store)
				if !ok {
					continue
				}
				f, x := fieldOfAddr(s.Addr)
				if f == nil || !isNamed(x.Type(), modPath+"/parser", "parser") {
					continue
				}
				if bt, ok := f.Type().(*types.Basic); !ok || bt.Kind() != types.Int {
					continue
				}
				bo, ok := s.Val.(*ssa.BinOp)
				if !ok || (bo.Op != token.ADD && bo.Op != token.SUB) {
					continue
				}
				k, ok := bo.Y.(*ssa.Const)
				if !ok || k.Value == nil || k.Value.ExactString() != "1" {
					continue
				}
				if lf, _ := loadedField(bo.X); lf != f {
					continue
				}
				d := 1
				if bo.Op == token.SUB {
					d = -1
				}
				per[b] = append(per[b], delta{f.Name(), d})
				fields[f.Name()] = true
			}
		}
		if len(fields) == 0 {
			continue
		}
		nFn++
		for fld := range fields {
			// forward dataflow of the set of possible net deltas
			out := map[*ssa.BasicBlock]map[int]bool{}
			work := []*ssa.BasicBlock{fn.Blocks[0]}
			in0 := map[*ssa.BasicBlock]map[int]bool{fn.Blocks[0]: {0: true}}
			for len(work) > 0 {
				b := work[0]
				work = work[1:]
				cur := map[int]bool{}
				for v := range in0[b] {
					d := v
					for _, x := range per[b] {
						if x.field == fld {
							d += x.d
						}
					}
					if d > 8 || d < -8 {
						continue
					}
					cur[d] = true
				}
				changed := false
				if out[b] == nil {
					out[b] = map[int]bool{}
				}
				for v := range cur {
					if !out[b][v] {
						out[b][v] = true
						changed = true
					}
				}
				if !changed {
					continue
				}
				for _, s := range b.Succs {
					if in0[s] == nil {
						in0[s] = map[int]bool{}
					}
					for v := range out[b] {
						in0[s][v] = true
					}
					work = append(work, s)
				}
			}
			bad := ""
			for _, b := range fn.Blocks {
				if len(b.Instrs) == 0 {
					continue
				}
				if _, ok := b.Instrs[len(b.Instrs)-1].(*ssa.Return); !ok {
					continue
				}
				for v := range out[b] {
					if v != 0 {
						bad = fmt.Sprintf("net %+d at the return at %s", v, c.relPos(b.Instrs[len(b.Instrs)-1].Pos()))
					}
				}
			}
			key := "pair:" + fnKey(fn) + ":" + fld
			c.check(bad == "", key, fn.Pos(), fnKey(fn)+" leaves "+fld+" balanced on every normal return", fnKey(fn)+" changes parser."+fld+" by "+bad+": the counter leaks, so a later construct is parsed as if still nested (e.g. a stray break/continue outside any loop is accepted and crashes the compiler)")
		}
	}
	c.atLeast("parser methods that adjust a nesting counter", nFn, 1)
}

func ruleParsePos(c *Ctx) {
	pp := c.pkg("parser")
	info := pp.TypesInfo
	n := 0
	for _, fd := range c.allFuncDecls("parser") {
		if fd.Body == nil {
			continue
		}
		idx := map[string]int{}
		ast.Inspect(fd.Body, func(nd ast.Node) bool {
			cl, ok := nd.(*ast.CompositeLit)
			if !ok {
				return true
			}
			nt := named(info.TypeOf(cl))
			if nt == nil || nt.Obj().Pkg() == nil || nt.Obj().Pkg().Path() != modPath+"/internal/ast" {
				return true
			}
			st, ok := nt.Underlying().(*types.Struct)
			if !ok {
				return true
			}
			var posFields []string
			for i := 0; i < st.NumFields(); i++ {
				if isNamed(st.Field(i).Type(), modPath+"/lexer", "Position") {
					posFields = append(posFields, st.Field(i).Name())
				}
			}
			if len(posFields) == 0 {
				return true
			}
			set := map[string]bool{}
			for _, el := range cl.Elts {
				if kv, ok := el.(*ast.KeyValueExpr); ok {
					if id, ok := kv.Key.(*ast.Ident); ok {
						set[id.Name] = true
					}
				}
			}
			var missing []string
			for _, f := range posFields {
				if !set[f] {
					missing = append(missing, f)
				}
			}
			n++
			idx[nt.Obj().Name()]++
			key := fmt.Sprintf("pos:%s:%s#%d", declName(fd), nt.Obj().Name(), idx[nt.Obj().Name()])
			c.check(len(missing) == 0, key, cl.Pos(), nt.Obj().Name()+" literal sets "+strings.Join(posFields, ","), declName(fd)+" builds an ast."+nt.Obj().Name()+" without setting "+strings.Join(missing, ",")+": errors reported for this node (by the resolver or compiler) carry position 0:0, which is not a position in the source (the command line tool then indexes line -1)")
			return true
		})
	}
	c.atLeast("AST literals with position fields in the parser", n, 8)
}

func ruleRegexLongest(c *Ctx) {
	n := 0
	for _, short := range []string{"interp", "internal/compiler", "parser"} {
		for _, fn := range c.srcFuncs(short) {
			fn := fn
			allInstrs(fn, func(in ssa.Instruction) {
				call, ok := in.(*ssa.Call)
				if !ok || call.Call.StaticCallee() == nil {
					return
				}
				name := call.Call.StaticCallee().String()
				if name != "regexp.Compile" && name != "regexp.MustCompile" {
					return
				}
				var re ssa.Value = call
				if name == "regexp.Compile" {
					re = nil
					for _, r := range *call.Referrers() {
						if ex, ok := r.(*ssa.Extract); ok && ex.Index == 0 {
							re = ex
						}
					}
				}
				key := "longest:" + fnKey(fn)
				if re == nil {
					n++
					c.ok(key+":validation-only", in.Pos(), "compiled only to validate the pattern; the regexp itself is discarded")
					return
				}
				if fn.Name() == "init" {
					n++
					c.ok(key+":package-const", in.Pos(), "package-level constant pattern (anchored, no alternation): leftmost-longest is irrelevant")
					return
				}
				var escapes, longests []ssa.Instruction
				for _, r := range *re.Referrers() {
					switch u := r.(type) {
					case *ssa.Store:
						if u.Val == re {
							if _, isLocal := u.Addr.(*ssa.Alloc); !isLocal {
								escapes = append(escapes, u)
							}
						}
					case *ssa.MapUpdate:
						escapes = append(escapes, u)
					case *ssa.Return:
						escapes = append(escapes, u)
					case ssa.CallInstruction:
						cc := u.Common()
						if f := cc.StaticCallee(); f != nil && f.String() == "(*regexp.Regexp).Longest" {
							longests = append(longests, u)
						} else if b, ok := cc.Value.(*ssa.Builtin); ok && b.Name() == "append" {
							escapes = append(escapes, u)
						}
					}
				}
				if len(escapes) == 0 {
					n++
					c.ok(key+":local", in.Pos(), "compiled regexp does not escape %s", fnKey(fn))
					return
				}
				for i, e := range escapes {
					n++
					covered := false
					for _, l := range longests {
						if l.Block() == e.Block() && instrIndex(l.Block(), l) < instrIndex(e.Block(), e) {
							covered = true
						}
						if l.Block() != e.Block() && l.Block().Dominates(e.Block()) {
							covered = true
						}
					}
					// `p.f = re; p.f.Longest()` in one block: same object, made leftmost-longest before any other use
					if st, ok := e.(*ssa.Store); ok && !covered {
						if f, _ := fieldOfAddr(st.Addr); f != nil {
							after := false
							for _, i2 := range e.Block().Instrs {
								if i2 == e {
									after = true
									continue
								}
								if !after {
									continue
								}
								if c2, ok := i2.(ssa.CallInstruction); ok {
									cc := c2.Common()
									if g := cc.StaticCallee(); g != nil && g.String() == "(*regexp.Regexp).Longest" && len(cc.Args) == 1 {
										if lf, _ := loadedField(cc.Args[0]); lf == f {
											covered = true
										}
									}
								}
							}
						}
					}
					k := fmt.Sprintf("%s:escape#%d", key, i+1)
					c.check(covered, k, e.Pos(), "Longest() is called before the compiled regexp is stored/returned", fnKey(fn)+" lets a compiled regexp escape (stored, cached or returned) on a path where Longest() has not been called: matches there are leftmost-first, so match()/sub()/split() and RS/FS regexes pick a shorter alternative than other awks")
				}
				// source wrapped
				if len(call.Call.Args) == 1 {
					src := call.Call.Args[0]
					wrapped := false
					if sc, ok := src.(*ssa.Call); ok && sc.Call.StaticCallee() != nil {
						switch sc.Call.StaticCallee().Name() {
						case "AddRegexFlags", "QuoteMeta":
							wrapped = true
						}
					}
					if ph, ok := src.(*ssa.Phi); ok {
						wrapped = true
						for _, e := range ph.Edges {
							if sc, ok := e.(*ssa.Call); !ok || sc.Call.StaticCallee() == nil || (sc.Call.StaticCallee().Name() != "AddRegexFlags" && sc.Call.StaticCallee().Name() != "QuoteMeta") {
								wrapped = false
							}
						}
					}
					c.check(wrapped, key+":flags", in.Pos(), "pattern is wrapped by AddRegexFlags (dot matches newline) or QuoteMeta (literal)", fnKey(fn)+" compiles a pattern that is neither wrapped by AddRegexFlags nor quoted: `.` would not match a newline as in other awks")
				}
			})
		}
	}
	c.atLeast("regexp compile sites and escapes", n, 4)
}

func ruleResolveOwner(c *Ctx) {
	lookupOrder(c)
	_, st := c.structType("internal/resolver", "resolver")
	if st == nil {
		c.undecided("anchor:resolver", token.NoPos, "type resolver.resolver not found")
		return
	}
	// values derived from the varInfo field (or from the local `varInfo` map that becomes the field in Resolve)
	isVarInfoMap := func(v ssa.Value) bool {
		for depth := 0; depth < 6; depth++ {
			switch x := v.(type) {
			case *ssa.UnOp:
				if f, _ := fieldOfAddr(x.X); f != nil && f.Name() == "varInfo" {
					return true
				}
				return false
			case *ssa.Lookup:
				v = x.X
			case *ssa.Extract:
				v = x.Tuple
			case *ssa.Phi:
				return false
			default:
				return false
			}
		}
		return false
	}
	// two kinds of writer, told apart by role: code that runs during the fixpoint iteration (everything the
	// tree visitors can call) must count each change; set-up and finalisation code (the rest of the package:
	// Resolve and the helpers it is split into) runs outside the iteration
	owners := map[string]bool{"Resolve": true, "recordVar": true}
	iter := map[*ssa.Function]bool{}
	var markIter func(fn *ssa.Function)
	markIter = func(fn *ssa.Function) {
		if iter[fn] {
			return
		}
		iter[fn] = true
		allInstrs(fn, func(in ssa.Instruction) {
			if call, ok := in.(ssa.CallInstruction); ok {
				if cal := call.Common().StaticCallee(); cal != nil && cal.Pkg == fn.Pkg {
					markIter(cal)
				}
			}
		})
	}
	for _, fn := range c.srcFuncs("internal/resolver") {
		if fn.Name() == "Visit" && fn.Signature.Recv() != nil {
			markIter(fn)
		}
	}
	n := 0
	for _, fn := range c.srcFuncs("internal/resolver") {
		fn := fn
		allInstrs(fn, func(in ssa.Instruction) {
			mu, ok := in.(*ssa.MapUpdate)
			if !ok {
				return
			}
			// map type map[string]VarInfo or map[string]map[string]VarInfo
			ts := types.TypeString(mu.Map.Type(), func(*types.Package) string { return "" })
			if !strings.Contains(ts, "VarInfo") {
				return
			}
			n++
			root := fn
			for root.Parent() != nil {
				root = root.Parent()
			}
			key := "varinfo-write:" + fnKey(fn)
			if iter[root] {
				// followed in the same block by updates++
				bumped := false
				seen := false
				for _, i2 := range in.Block().Instrs {
					if i2 == ssa.Instruction(mu) {
						seen = true
						continue
					}
					if !seen {
						continue
					}
					if s, ok := i2.(*ssa.Store); ok {
						if f, _ := fieldOfAddr(s.Addr); f != nil && f.Name() == "updates" {
							bumped = true
						}
					}
				}
				c.check(bumped, key, in.Pos(), "a type-table update made during the iteration is followed by updates++", fnKey(fn)+" changes the type table during the fixpoint iteration (it is reachable from a tree visitor) without incrementing the update counter: the iteration can stop before the change has propagated (an accepted program then fails at run time with an internal 'found array when expecting scalar' panic)")
				// the scope written is the scope the variable was found in: the outer key is the constant
				// global scope (a new global) or the scope name lookupVar reported, never a parameter
				if lk, ok := mu.Map.(*ssa.Lookup); ok {
					scopeOK, what := false, "an unrecognised value"
					switch k := lk.Index.(type) {
					case *ssa.Const:
						scopeOK, what = true, "the constant global scope"
					case *ssa.Extract:
						if call, ok := k.Tuple.(*ssa.Call); ok {
							if cal := call.Call.StaticCallee(); cal != nil && cal.Name() == "lookupVar" {
								res := cal.Signature.Results()
								if k.Index < res.Len() && res.At(k.Index).Type().String() == "string" {
									scopeOK, what = true, "the scope reported by lookupVar"
								}
							}
						}
					case *ssa.Parameter:
						what = "the parameter " + k.Name() + " (the function being resolved)"
					}
					c.check(scopeOK, key+":scope", in.Pos(), "entry written into "+what,
						"recordVar writes the updated entry into "+what+" rather than into the scope lookupVar found the variable in: a global used inside a function gets a phantom local entry while the real global stays untyped, so the inferred scalar/array kinds differ from what the program needs")
				} else {
					c.undecided(key+":scope", in.Pos(), "the type table is not updated through varInfo[scope][name]")
				}
				return
			}
			c.ok(key, in.Pos(), "type table written by set-up / finalisation code (%s is not reachable from a tree visitor)", root.Name())
			_ = isVarInfoMap
		})
	}
	c.atLeast("writes to the variable-type table", n, 5)
	resolvePasses(c)
	var names []string
	for k := range owners {
		names = append(names, k)
	}
	sort.Strings(names)
}
