package main

import (
	"go/token"

	"golang.org/x/tools/go/ssa"
)

// varOperandMatchedRaw (part of R-INPUT, C11): a command-line operand is recognised as var=value on its raw text, and
// only the captured value is unescaped afterwards. Unescaping first turns `\n` into a newline before the pattern
// (whose `.` does not match a newline) sees it: the value is cut at the first escaped newline.
func varOperandMatchedRaw(c *Ctx) {
	n := 0
	for _, fn := range c.srcFuncs("interp") {
		fn := fn
		allInstrs(fn, func(in ssa.Instruction) {
			call, ok := in.(*ssa.Call)
			if !ok {
				return
			}
			f := calleeObj(call)
			if f == nil || len(call.Call.Args) < 2 {
				return
			}
			switch funcFullName(f) {
			case "(*regexp.Regexp).FindStringSubmatch", "(*regexp.Regexp).MatchString", "(*regexp.Regexp).FindStringSubmatchIndex":
			default:
				return
			}
			// the regexp is the package-level pattern for var=value operands
			ld, ok := call.Call.Args[0].(*ssa.UnOp)
			if !ok {
				return
			}
			g, ok := ld.X.(*ssa.Global)
			if !ok || g.Name() != "varRegex" {
				return
			}
			n++
			bad := token.NoPos
			seen := map[ssa.Value]bool{}
			var walk func(v ssa.Value, d int)
			walk = func(v ssa.Value, d int) {
				if v == nil || seen[v] || d > 5 {
					return
				}
				seen[v] = true
				switch x := v.(type) {
				case *ssa.Extract:
					walk(x.Tuple, d+1)
				case *ssa.Call:
					if cal := x.Call.StaticCallee(); cal != nil && cal.Name() == "Unescape" {
						bad = posOr(x.Pos(), in.Pos())
					}
				case *ssa.Phi:
					for _, e := range x.Edges {
						walk(e, d+1)
					}
				}
			}
			walk(call.Call.Args[1], 0)
			c.check(bad == token.NoPos, "operand:match-raw:"+fnKey(fn), posOr(bad, in.Pos()), "a var=value operand is recognised on its raw text",
				fnKey(fn)+" matches the var=value pattern against the operand after unescaping it: an escaped newline in the value becomes a real one before the pattern (whose `.` stops at a newline) sees it, so `x=a\\\\nb` assigns only `a`")
		})
	}
	c.atLeast("matches of the var=value operand pattern", n, 1)
}
