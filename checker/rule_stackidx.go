package main

import (
	"go/ast"
	"go/token"
	"go/types"
	"strconv"
	"strings"
)

// R-STACKIDX (C02): every index into the VM's value stack is below its length.
//
// All indexing of interp.stack happens in the small stack helpers. Each helper is
// interpreted symbolically with integer-linear forms over the atoms SP (p.sp on
// entry), LEN (len(p.stack) on entry) and the helper's int parameters, under the
// invariant SP <= LEN, which every helper must re-establish on exit. Growth
// statements (append in an if or in a loop, by one element or by make(n)) update
// the symbolic length; each index p.stack[E] (or slice bound) needs E < length
// to follow from the path's facts by adding at most two of them. R-STACK shows the
// complementary lower bound (the stack never underflows).

func init() {
	register("R-STACKIDX", "stack index bounds: under the invariant p.sp <= len(p.stack), which every stack helper re-establishes, each index expression into the value stack in package interp is provably below the (possibly just grown) length on every path of its helper; the proof is linear arithmetic over p.sp, len(p.stack) and the helper's parameters, with the growth statements (append under an if, append in a loop until the negated loop condition holds, append of make(n)) interpreted exactly; any index of the stack outside these helpers, or a helper whose statements are outside this small language, is reported", ruleStackIdx)
}

type sxFact struct{ l Lin } // l <= 0

type sxState struct {
	env    map[string]Lin // locals
	spNow  Lin            // current value of p.sp
	lenNow Lin            // current len(p.stack)
	facts  []sxFact
	fresh  *int
}

func (s *sxState) clone() *sxState {
	o := &sxState{env: map[string]Lin{}, spNow: s.spNow, lenNow: s.lenNow, fresh: s.fresh}
	for k, v := range s.env {
		o.env[k] = v
	}
	o.facts = append(o.facts, s.facts...)
	return o
}

// implies: do the facts imply g <= 0 ?
func (s *sxState) implies(g Lin) bool {
	if g.IsConst() {
		return g.C <= 0
	}
	fs := append([]sxFact{{linC(0)}}, s.facts...)
	for i := range fs {
		for j := i; j < len(fs); j++ {
			d := g.Sub(fs[i].l)
			if j != i || i == 0 {
				if j != i {
					d = d.Sub(fs[j].l)
				}
			} else {
				// the same fact twice is not needed
			}
			if d.IsConst() && d.C <= 0 {
				return true
			}
		}
	}
	return false
}

type sxCtx struct {
	stackVar, spVar *types.Var
	c     *Ctx
	info  *types.Info
	recv  string
	fn    string
	obls  int
	fails []string
	undec []string
	exits []Lin // p.sp at each exit, relative to its value on entry
}

// stackHelperDelta: the net change of p.sp made by a stack helper, the same on every exit, as a linear form
// over its integer parameters (arg0, arg1, ...). Uses the symbolic interpretation of R-STACKIDX, which follows
// local copies of p.sp, compound assignments and counted loops.
func stackHelperDelta(c *Ctx, info *types.Info, fd *ast.FuncDecl) (Lin, string) {
	if fd.Recv == nil || len(fd.Recv.List) != 1 || len(fd.Recv.List[0].Names) != 1 {
		return Lin{}, "no named receiver"
	}
	x := &sxCtx{c: c, info: info, recv: fd.Recv.List[0].Names[0].Name, fn: declName(fd)}
	x.stackVar, x.spVar = valueStackFields(c)
	fresh := 0
	s0 := &sxState{env: map[string]Lin{}, spNow: linAtom("SP"), lenNow: linAtom("LEN"), fresh: &fresh}
	s0.facts = append(s0.facts, sxFact{linAtom("SP").Sub(linAtom("LEN"))})
	subst := map[string]Lin{}
	i := 0
	for _, f := range fd.Type.Params.List {
		for _, nm := range f.Names {
			if b, ok := info.TypeOf(f.Type).Underlying().(*types.Basic); ok && b.Info()&types.IsInteger != 0 {
				s0.env[nm.Name] = linAtom("P_" + nm.Name)
				s0.facts = append(s0.facts, sxFact{linAtom("P_" + nm.Name).Scale(-1)})
				subst["P_"+nm.Name] = linAtom("arg" + itoa(int64(i)))
			}
			i++
		}
	}
	out := x.run([]*sxState{s0}, fd.Body.List)
	for _, s := range out {
		x.exit(s, fd.Body.Rbrace)
	}
	if len(x.undec) > 0 {
		return Lin{}, joinStrs(x.undec)
	}
	if len(x.exits) == 0 {
		return Lin{}, "no exit"
	}
	d := x.exits[0]
	for _, e := range x.exits[1:] {
		if !e.Eq(d) {
			return Lin{}, "p.sp changes by " + d.String() + " on one exit and by " + e.String() + " on another"
		}
	}
	d = d.Subst(subst, nil)
	for atom := range d.T {
		if !strings.HasPrefix(atom, "arg") {
			return Lin{}, "the change of p.sp (" + d.String() + ") is not a linear form over the helper's parameters"
		}
	}
	return d, ""
}

func (x *sxCtx) isStack(e ast.Expr) bool { return selIsField(x.info, e, x.stackVar) }
func (x *sxCtx) isSP(e ast.Expr) bool    { return selIsField(x.info, e, x.spVar) }

// selIsField: e selects the given struct field (directly or through promotion).
func selIsField(info *types.Info, e ast.Expr, f *types.Var) bool {
	se, ok := stripParens(e).(*ast.SelectorExpr)
	if !ok || f == nil {
		return false
	}
	if sel, ok := info.Selections[se]; ok {
		return sel.Obj() == types.Object(f)
	}
	return false
}

// valueStackFields: the value stack of the VM by role: a []value field and an int field of the same struct (the
// interpreter or a component struct of it) such that the slice is indexed or sliced by an expression that mentions
// the int field - the pair used most often.
func valueStackFields(c *Ctx) (stack, sp *types.Var) {
	if r, ok := c.memo["valueStackFields"].([2]*types.Var); ok {
		return r[0], r[1]
	}
	ip := c.pkg("interp")
	if ip == nil {
		return nil, nil
	}
	info := ip.TypesInfo
	type pair struct{ a, b *types.Var }
	count := map[pair]int{}
	for _, fd := range c.allFuncDecls("interp") {
		if fd.Body == nil {
			continue
		}
		ast.Inspect(fd.Body, func(n ast.Node) bool {
			var base ast.Expr
			var idx []ast.Expr
			switch e := n.(type) {
			case *ast.IndexExpr:
				base, idx = e.X, []ast.Expr{e.Index}
			case *ast.SliceExpr:
				base, idx = e.X, []ast.Expr{e.Low, e.High}
			default:
				return true
			}
			se, ok := base.(*ast.SelectorExpr)
			if !ok {
				return true
			}
			sel, ok := info.Selections[se]
			if !ok {
				return true
			}
			fv, ok := sel.Obj().(*types.Var)
			if !ok || !fv.IsField() {
				return true
			}
			sl, ok := fv.Type().Underlying().(*types.Slice)
			if !ok || !isNamed(sl.Elem(), modPath+"/interp", "value") || !isInterp(sel.Recv()) {
				return true
			}
			for _, ie := range idx {
				if ie == nil {
					continue
				}
				ast.Inspect(ie, func(m ast.Node) bool {
					if s2, ok := m.(*ast.SelectorExpr); ok {
						if sel2, ok := info.Selections[s2]; ok {
							if gv, ok := sel2.Obj().(*types.Var); ok && gv.IsField() && isInterp(sel2.Recv()) {
								if b, ok := gv.Type().Underlying().(*types.Basic); ok && b.Kind() == types.Int {
									count[pair{fv, gv}]++
								}
							}
						}
					}
					return true
				})
			}
			return true
		})
	}
	best, bestN := pair{}, 0
	for p, n := range count {
		if n > bestN || (n == bestN && best.a != nil && p.a.Name() < best.a.Name()) {
			best, bestN = p, n
		}
	}
	c.memo["valueStackFields"] = [2]*types.Var{best.a, best.b}
	return best.a, best.b
}

func (x *sxCtx) lin(s *sxState, e ast.Expr) (Lin, bool) {
	switch v := e.(type) {
	case *ast.ParenExpr:
		return x.lin(s, v.X)
	case *ast.BasicLit:
		if n, err := strconv.Atoi(v.Value); err == nil {
			return linC(n), true
		}
	case *ast.Ident:
		if l, ok := s.env[v.Name]; ok {
			return l, true
		}
	case *ast.SelectorExpr:
		if x.isSP(v) {
			return s.spNow, true
		}
	case *ast.CallExpr:
		if isIdent(v.Fun, "len") && len(v.Args) == 1 && x.isStack(v.Args[0]) {
			return s.lenNow, true
		}
	case *ast.BinaryExpr:
		a, ok1 := x.lin(s, v.X)
		b, ok2 := x.lin(s, v.Y)
		if ok1 && ok2 {
			switch v.Op {
			case token.ADD:
				return a.Add(b), true
			case token.SUB:
				return a.Sub(b), true
			}
		}
	}
	return Lin{}, false
}

// cond: the facts for cond being true, and for it being false (each a single linear fact)
func (x *sxCtx) cond(s *sxState, e ast.Expr) (tf, ff Lin, ok bool) {
	b, isB := e.(*ast.BinaryExpr)
	if !isB {
		return
	}
	l, ok1 := x.lin(s, b.X)
	r, ok2 := x.lin(s, b.Y)
	if !ok1 || !ok2 {
		return
	}
	d := l.Sub(r) // l - r
	switch b.Op {
	case token.GEQ: // l >= r : r - l <= 0 ; false: l - r + 1 <= 0
		return d.Scale(-1), d.Add(linC(1)), true
	case token.GTR: // l > r : r - l + 1 <= 0 ; false: l - r <= 0
		return d.Scale(-1).Add(linC(1)), d, true
	case token.LEQ:
		return d, d.Scale(-1).Add(linC(1)), true
	case token.LSS:
		return d.Add(linC(1)), d.Scale(-1), true
	}
	return
}

// appendGrowth: `p.stack = append(p.stack, ...)` -> how many elements are appended
func (x *sxCtx) appendGrowth(s *sxState, st ast.Stmt) (Lin, bool) {
	as, ok := st.(*ast.AssignStmt)
	if !ok || len(as.Lhs) != 1 || len(as.Rhs) != 1 || !x.isStack(as.Lhs[0]) {
		return Lin{}, false
	}
	call, ok := as.Rhs[0].(*ast.CallExpr)
	if !ok || !isIdent(call.Fun, "append") || len(call.Args) < 2 || !x.isStack(call.Args[0]) {
		return Lin{}, false
	}
	if !call.Ellipsis.IsValid() {
		return linC(len(call.Args) - 1), true
	}
	// append(p.stack, make([]value, n)...)
	if mk, ok := call.Args[1].(*ast.CallExpr); ok && isIdent(mk.Fun, "make") && len(mk.Args) == 2 {
		return x.lin(s, mk.Args[1])
	}
	return Lin{}, false
}

func (x *sxCtx) need(s *sxState, idx Lin, what string, pos token.Pos, strict bool) {
	x.obls++
	g := idx.Sub(s.lenNow)
	if strict {
		g = g.Add(linC(1)) // idx < len  <=>  idx - len + 1 <= 0
	}
	if !s.implies(g) {
		x.fails = append(x.fails, x.c.relPos(pos)+": "+what+": cannot show "+g.String()+" <= 0")
	}
}

// indexUses: check every p.stack[...] / p.stack[a:b] inside an expression
func (x *sxCtx) indexUses(s *sxState, n ast.Node) {
	ast.Inspect(n, func(m ast.Node) bool {
		switch e := m.(type) {
		case *ast.IndexExpr:
			if x.isStack(e.X) {
				if l, ok := x.lin(s, e.Index); ok {
					x.need(s, l, "index "+types.ExprString(e), e.Pos(), true)
				} else {
					x.undec = append(x.undec, x.c.relPos(e.Pos())+": index "+types.ExprString(e.Index)+" is not linear in p.sp, len(p.stack) and the parameters")
				}
			}
		case *ast.SliceExpr:
			if x.isStack(e.X) {
				for _, b := range []ast.Expr{e.Low, e.High} {
					if b == nil {
						continue
					}
					if l, ok := x.lin(s, b); ok {
						x.need(s, l, "slice bound "+types.ExprString(b), e.Pos(), false)
					} else {
						x.undec = append(x.undec, x.c.relPos(e.Pos())+": slice bound "+types.ExprString(b)+" is not linear")
					}
				}
			}
		}
		return true
	})
}

// run interprets a statement list on every path; returns the states that fall through.
func (x *sxCtx) run(states []*sxState, list []ast.Stmt) []*sxState {
	for _, st := range list {
		var next []*sxState
		for _, s := range states {
			next = append(next, x.stmt(s, st)...)
		}
		states = next
	}
	return states
}

func (x *sxCtx) stmt(s *sxState, st ast.Stmt) []*sxState {
	switch v := st.(type) {
	case *ast.AssignStmt:
		// growth?
		if g, ok := x.appendGrowth(s, v); ok {
			s.lenNow = s.lenNow.Add(g)
			return []*sxState{s}
		}
		if len(v.Lhs) == 1 && len(v.Rhs) == 1 {
			x.indexUses(s, v.Rhs[0])
			// store into the stack
			if ix, ok := v.Lhs[0].(*ast.IndexExpr); ok && x.isStack(ix.X) {
				x.indexUses(s, ix)
				return []*sxState{s}
			}
			if r, ok := x.lin(s, v.Rhs[0]); ok {
				var cur Lin
				var have bool
				target := ""
				if x.isSP(v.Lhs[0]) {
					cur, have, target = s.spNow, true, "#sp"
				} else if id, isId := v.Lhs[0].(*ast.Ident); isId {
					cur, have = s.env[id.Name]
					target = id.Name
				}
				if target != "" {
					switch v.Tok {
					case token.ASSIGN, token.DEFINE:
						cur = r
					case token.ADD_ASSIGN:
						if !have {
							break
						}
						cur = cur.Add(r)
					case token.SUB_ASSIGN:
						if !have {
							break
						}
						cur = cur.Sub(r)
					}
					if target == "#sp" {
						s.spNow = cur
					} else {
						s.env[target] = cur
					}
					return []*sxState{s}
				}
			}
			if x.isSP(v.Lhs[0]) || x.isStack(v.Lhs[0]) {
				x.undec = append(x.undec, x.c.relPos(v.Pos())+": assignment to "+types.ExprString(v.Lhs[0])+" not understood")
			}
		}
		return []*sxState{s}
	case *ast.IncDecStmt:
		d := 1
		if v.Tok == token.DEC {
			d = -1
		}
		if x.isSP(v.X) {
			s.spNow = s.spNow.Add(linC(d))
		} else if id, ok := v.X.(*ast.Ident); ok {
			if cur, have := s.env[id.Name]; have {
				s.env[id.Name] = cur.Add(linC(d))
			}
		}
		return []*sxState{s}
	case *ast.ReturnStmt:
		for _, r := range v.Results {
			x.indexUses(s, r)
		}
		x.exit(s, v.Pos())
		return nil
	case *ast.ExprStmt:
		x.indexUses(s, v.X)
		return []*sxState{s}
	case *ast.IfStmt:
		if v.Init != nil {
			out := x.stmt(s, v.Init)
			if len(out) != 1 {
				return out
			}
			s = out[0]
		}
		tf, ff, ok := x.cond(s, v.Cond)
		if !ok {
			x.undec = append(x.undec, x.c.relPos(v.Pos())+": condition "+types.ExprString(v.Cond)+" is not a linear comparison")
			return []*sxState{s}
		}
		ts := s.clone()
		ts.facts = append(ts.facts, sxFact{tf})
		fs := s.clone()
		fs.facts = append(fs.facts, sxFact{ff})
		out := x.run([]*sxState{ts}, v.Body.List)
		if v.Else != nil {
			if blk, ok := v.Else.(*ast.BlockStmt); ok {
				out = append(out, x.run([]*sxState{fs}, blk.List)...)
			} else {
				out = append(out, x.stmt(fs, v.Else)...)
			}
		} else {
			out = append(out, fs)
		}
		return out
	case *ast.ForStmt:
		// (a) growth loop: for COND { p.stack = append(p.stack, X) }
		if v.Init == nil && v.Post == nil && v.Cond != nil && len(v.Body.List) == 1 {
			if g, ok := x.appendGrowth(s, v.Body.List[0]); ok && g.IsConst() && g.C >= 1 {
				// after the loop: a length LEN2 >= the old one for which the condition is false
				*s.fresh++
				old := s.lenNow
				s.lenNow = linAtom("LEN" + strconv.Itoa(*s.fresh))
				_, ff, ok := x.cond(s, v.Cond)
				if !ok {
					x.undec = append(x.undec, x.c.relPos(v.Pos())+": growth loop condition "+types.ExprString(v.Cond)+" is not a linear comparison")
					return []*sxState{s}
				}
				s.facts = append(s.facts, sxFact{ff}, sxFact{old.Sub(s.lenNow)})
				return []*sxState{s}
			}
		}
		// (b) counted write loop: for i := 0; i < N; i++ { p.stack[sp] = X; sp++ }
		if n, ok := x.countedLoop(s, v); ok {
			if len(v.Body.List) == 2 {
				as, ok1 := v.Body.List[0].(*ast.AssignStmt)
				inc, ok2 := v.Body.List[1].(*ast.IncDecStmt)
				if ok1 && ok2 && len(as.Lhs) == 1 && inc.Tok == token.INC {
					if ix, ok := as.Lhs[0].(*ast.IndexExpr); ok && x.isStack(ix.X) {
						if id, ok := ix.Index.(*ast.Ident); ok && isIdent(inc.X, id.Name) {
							if start, have := s.env[id.Name]; have {
								// when the loop runs at all (N >= 1) the largest index is start+N-1
								x.need(s, start.Add(n).Sub(linC(1)), "last index of the fill loop "+types.ExprString(ix), ix.Pos(), true)
								s.env[id.Name] = start.Add(n)
								return []*sxState{s}
							}
						}
					}
				}
			}
		}
		x.undec = append(x.undec, x.c.relPos(v.Pos())+": loop is neither a growth loop nor a counted fill loop")
		return []*sxState{s}
	case *ast.DeclStmt, *ast.EmptyStmt:
		return []*sxState{s}
	}
	x.undec = append(x.undec, x.c.relPos(st.Pos())+": statement not understood")
	return []*sxState{s}
}

func (x *sxCtx) countedLoop(s *sxState, v *ast.ForStmt) (Lin, bool) {
	init, ok := v.Init.(*ast.AssignStmt)
	if !ok || len(init.Lhs) != 1 || litText(init.Rhs[0]) != "0" {
		return Lin{}, false
	}
	i := exprName(init.Lhs[0])
	c, ok := v.Cond.(*ast.BinaryExpr)
	if !ok || c.Op != token.LSS || !isIdent(c.X, i) {
		return Lin{}, false
	}
	post, ok := v.Post.(*ast.IncDecStmt)
	if !ok || post.Tok != token.INC || !isIdent(post.X, i) {
		return Lin{}, false
	}
	return x.lin(s, c.Y)
}

// exit: the invariant sp <= len holds again
func (x *sxCtx) exit(s *sxState, pos token.Pos) {
	x.exits = append(x.exits, s.spNow.Sub(linAtom("SP")))
	x.obls++
	if !s.implies(s.spNow.Sub(s.lenNow)) {
		x.fails = append(x.fails, x.c.relPos(pos)+": on exit cannot show p.sp <= len(p.stack): "+s.spNow.Sub(s.lenNow).String()+" <= 0")
	}
}

func ruleStackIdx(c *Ctx) {
	ip := c.pkg("interp")
	if ip == nil {
		c.undecided("anchor:interp", token.NoPos, "package interp not loaded")
		return
	}
	info := ip.TypesInfo
	stackVar, spVar := valueStackFields(c)
	if stackVar == nil || spVar == nil {
		c.undecided("anchor:interp.stack", token.NoPos, "the value stack of the interpreter (a []value field indexed through an int field of the same struct) was not found")
		return
	}
	helpers, totalObls := 0, 0
	countParams := map[string]bool{}
	for _, fd := range c.allFuncDecls("interp") {
		if fd.Body == nil {
			continue
		}
		// does the function index or slice the stack field?
		uses := false
		ast.Inspect(fd.Body, func(n ast.Node) bool {
			var base ast.Expr
			switch e := n.(type) {
			case *ast.IndexExpr:
				base = e.X
			case *ast.SliceExpr:
				base = e.X
			}
			if se, ok := base.(*ast.SelectorExpr); ok {
				if sel, ok := info.Selections[se]; ok && sel.Obj() == types.Object(stackVar) {
					uses = true
				}
			}
			return true
		})
		if !uses {
			continue
		}
		key := "stackidx:" + declName(fd)
		if fd.Recv == nil || len(fd.Recv.List) != 1 || len(fd.Recv.List[0].Names) != 1 || len(fd.Body.List) > 12 {
			c.bad(key, fd.Pos(), "%s indexes the value stack but is not one of the small stack helpers: its index is outside the bounds argument", declName(fd))
			continue
		}
		helpers++
		x := &sxCtx{c: c, info: info, recv: fd.Recv.List[0].Names[0].Name, fn: declName(fd), stackVar: stackVar, spVar: spVar}
		fresh := 0
		s0 := &sxState{env: map[string]Lin{}, spNow: linAtom("SP"), lenNow: linAtom("LEN"), fresh: &fresh}
		s0.facts = append(s0.facts, sxFact{linAtom("SP").Sub(linAtom("LEN"))}) // invariant
		for _, f := range fd.Type.Params.List {
			if b, ok := info.TypeOf(f.Type).Underlying().(*types.Basic); ok && b.Info()&types.IsInteger != 0 {
				for _, nm := range f.Names {
					s0.env[nm.Name] = linAtom("P_" + nm.Name)
					// count parameters are non-negative: checked at the call sites below
					s0.facts = append(s0.facts, sxFact{linAtom("P_" + nm.Name).Scale(-1)})
					countParams[fd.Name.Name] = true
				}
			}
		}
		out := x.run([]*sxState{s0}, fd.Body.List)
		for _, s := range out {
			x.exit(s, fd.Body.Rbrace)
		}
		totalObls += x.obls
		switch {
		case len(x.undec) > 0:
			c.undecided(key, fd.Pos(), "%s: %s", declName(fd), joinStrs(x.undec))
		case len(x.fails) > 0:
			c.bad(key, fd.Pos(), "%s: %s - an index at or beyond the stack's length panics the interpreter on programs that grow the stack there", declName(fd), joinStrs(x.fails))
		default:
			c.ok(key, fd.Pos(), "%d index/exit obligations proved from p.sp <= len(p.stack) by linear arithmetic", x.obls)
		}
	}
	// call sites of helpers with a count parameter: the argument is a non-negative constant, a bytecode
	// operand (code[...] possibly converted), or the NumScalars field of a compiled function
	nCalls := 0
	for _, fd := range c.allFuncDecls("interp") {
		if fd.Body == nil {
			continue
		}
		defs := localDefs(fd)
		ast.Inspect(fd.Body, func(n ast.Node) bool {
			call, ok := n.(*ast.CallExpr)
			if !ok || len(call.Args) != 1 {
				return true
			}
			se, ok := call.Fun.(*ast.SelectorExpr)
			if !ok || !countParams[se.Sel.Name] {
				return true
			}
			if f, ok := info.Uses[se.Sel].(*types.Func); !ok || f.Pkg() != ip.Types {
				return true
			}
			nCalls++
			arg := call.Args[0]
			why := ""
			var classify func(e ast.Expr, depth int) bool
			classify = func(e ast.Expr, depth int) bool {
				if depth > 4 {
					return false
				}
				switch v := e.(type) {
				case *ast.ParenExpr:
					return classify(v.X, depth+1)
				case *ast.BasicLit:
					if k, err := strconv.Atoi(v.Value); err == nil && k >= 0 {
						why = "constant"
						return true
					}
				case *ast.CallExpr: // int(x)
					if len(v.Args) == 1 {
						if tv, ok := info.Types[v.Fun]; ok && tv.IsType() {
							return classify(v.Args[0], depth+1)
						}
					}
				case *ast.IndexExpr:
					if isIdent(v.X, "code") {
						why = "bytecode operand"
						return true
					}
				case *ast.SelectorExpr:
					if v.Sel.Name == "NumScalars" {
						why = "compiled function's scalar count"
						return true
					}
					// a count kept in a field of a small struct of the package: every value written to that field
					// (in a composite literal or by assignment) must itself be such a count
					if fv, ok := info.Uses[v.Sel].(*types.Var); ok && fv.IsField() && fv.Pkg() == ip.Types {
						nW, allOK := 0, true
						for _, fd2 := range c.allFuncDecls("interp") {
							if fd2.Body == nil {
								continue
							}
							ast.Inspect(fd2.Body, func(m ast.Node) bool {
								switch w := m.(type) {
								case *ast.KeyValueExpr:
									if id, ok := w.Key.(*ast.Ident); ok && info.Uses[id] == types.Object(fv) {
										nW++
										if !classify(w.Value, depth+1) {
											allOK = false
										}
									}
								case *ast.AssignStmt:
									for i, l := range w.Lhs {
										if se, ok := l.(*ast.SelectorExpr); ok && info.Uses[se.Sel] == types.Object(fv) && i < len(w.Rhs) && len(w.Lhs) == len(w.Rhs) {
											nW++
											if !classify(w.Rhs[i], depth+1) {
												allOK = false
											}
										}
									}
								}
								return true
							})
						}
						if nW > 0 && allOK {
							why = "field that only ever holds a " + why
							return true
						}
					}
				case *ast.Ident:
					if d, ok := defs[v.Name]; ok && d.idx < 0 {
						return classify(d.e, depth+1)
					}
					// a parameter of this helper: at every call of the helper in the package the argument is a constant
					// or a bytecode operand (possibly held in a local defined once from one)
					if pobj, ok := info.Uses[v].(*types.Var); ok {
						pidx := -1
						i := 0
						for _, fl := range fd.Type.Params.List {
							for _, nm := range fl.Names {
								if info.Defs[nm] == types.Object(pobj) {
									pidx = i
								}
								i++
							}
						}
						if pidx >= 0 {
							var simple func(e ast.Expr, hd *ast.FuncDecl, d int) bool
							simple = func(e ast.Expr, hd *ast.FuncDecl, d int) bool {
								if d > 4 {
									return false
								}
								switch x := e.(type) {
								case *ast.ParenExpr:
									return simple(x.X, hd, d+1)
								case *ast.BasicLit:
									k, err := strconv.Atoi(x.Value)
									return err == nil && k >= 0
								case *ast.CallExpr:
									if len(x.Args) == 1 {
										if tv, ok := info.Types[x.Fun]; ok && tv.IsType() {
											return simple(x.Args[0], hd, d+1)
										}
									}
								case *ast.IndexExpr:
									return isIdent(x.X, "code")
								case *ast.Ident:
									// a local of the caller defined exactly once
									obj := info.Uses[x]
									var def ast.Expr
									n := 0
									ast.Inspect(hd.Body, func(m ast.Node) bool {
										if as, ok := m.(*ast.AssignStmt); ok && len(as.Lhs) == len(as.Rhs) {
											for i, l := range as.Lhs {
												if id, ok := l.(*ast.Ident); ok && obj != nil && (info.Defs[id] == obj || (as.Tok != token.DEFINE && info.Uses[id] == obj)) {
													def = as.Rhs[i]
													n++
												}
											}
										}
										return true
									})
									if n == 1 {
										return simple(def, hd, d+1)
									}
								}
								return false
							}
							nSites, all := 0, true
							for _, hd := range c.allFuncDecls("interp") {
								if hd.Body == nil {
									continue
								}
								ast.Inspect(hd.Body, func(m ast.Node) bool {
									c2, ok := m.(*ast.CallExpr)
									if !ok {
										return true
									}
									if g := calleeOf(info, c2); g != nil && info.Defs[fd.Name] == types.Object(g) && pidx < len(c2.Args) {
										nSites++
										if !simple(c2.Args[pidx], hd, 0) {
											all = false
										}
									}
									return true
								})
							}
							if nSites > 0 && all {
								why = "parameter that is a constant or a bytecode operand at every call"
								return true
							}
						}
					}
					// a name declared several times in different clauses: resolve by object
					obj := info.Uses[v]
					var def ast.Expr
					nDefs := 0
					ast.Inspect(fd.Body, func(m ast.Node) bool {
						as, ok := m.(*ast.AssignStmt)
						if !ok || len(as.Lhs) != len(as.Rhs) {
							return true
						}
						for i, l := range as.Lhs {
							if id, ok := l.(*ast.Ident); ok && (info.Defs[id] == obj || (as.Tok != token.DEFINE && info.Uses[id] == obj)) && obj != nil {
								def = as.Rhs[i]
								nDefs++
							}
						}
						return true
					})
					if nDefs == 1 {
						return classify(def, depth+1)
					}
				}
				return false
			}
			key := "stackidx:count-arg:" + declName(fd) + ":" + se.Sel.Name + "(" + types.ExprString(arg) + ")"
			if classify(arg, 0) {
				c.ok(key, call.Pos(), "count argument is a %s", why)
			} else {
				c.undecided(key, call.Pos(), "the count passed to %s is not a constant, a bytecode operand or NumScalars: the helper's bounds proof assumes it is non-negative", se.Sel.Name)
			}
			return true
		})
	}
	c.atLeast("count-argument call sites", nCalls, 8)
	c.atLeast("stack helpers", helpers, 12)
	c.atLeast("stack index obligations", totalObls, 30)
}
