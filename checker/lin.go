package main

import (
	"fmt"
	"sort"
	"strings"
)

// Lin is an integer-linear form c0 + sum ci*atom over opaque atoms.
type Lin struct {
	C int
	T map[string]int
}

func linC(c int) Lin { return Lin{C: c} }
func linAtom(a string) Lin {
	return Lin{T: map[string]int{a: 1}}
}

func (a Lin) clone() Lin {
	o := Lin{C: a.C, T: map[string]int{}}
	for k, v := range a.T {
		o.T[k] = v
	}
	return o
}

func (a Lin) Add(b Lin) Lin {
	o := a.clone()
	o.C += b.C
	for k, v := range b.T {
		o.T[k] += v
		if o.T[k] == 0 {
			delete(o.T, k)
		}
	}
	return o
}

func (a Lin) Scale(k int) Lin {
	o := Lin{C: a.C * k, T: map[string]int{}}
	if k == 0 {
		return o
	}
	for n, v := range a.T {
		o.T[n] = v * k
	}
	return o
}

func (a Lin) Sub(b Lin) Lin { return a.Add(b.Scale(-1)) }

func (a Lin) IsConst() bool { return len(a.T) == 0 }
func (a Lin) IsZero() bool  { return a.C == 0 && len(a.T) == 0 }
func (a Lin) Eq(b Lin) bool { return a.Sub(b).IsZero() }

// MulAtom multiplies by an atom; only defined when a is constant or the product stays "linear" in a fresh product atom.
func (a Lin) MulAtom(atom string) Lin {
	o := Lin{T: map[string]int{}}
	if a.C != 0 {
		o.T[atom] = a.C
	}
	for n, v := range a.T {
		o.T[n+"*"+atom] = v
	}
	return o
}

func (a Lin) String() string {
	var ks []string
	for k := range a.T {
		ks = append(ks, k)
	}
	sort.Strings(ks)
	var sb strings.Builder
	first := true
	if a.C != 0 || len(ks) == 0 {
		fmt.Fprintf(&sb, "%d", a.C)
		first = false
	}
	for _, k := range ks {
		v := a.T[k]
		switch {
		case v == 1 && first:
			sb.WriteString(k)
		case v == 1:
			sb.WriteString("+" + k)
		case v == -1:
			sb.WriteString("-" + k)
		case v > 0 && !first:
			fmt.Fprintf(&sb, "+%d*%s", v, k)
		default:
			fmt.Fprintf(&sb, "%d*%s", v, k)
		}
		first = false
	}
	return sb.String()
}

// Subst replaces atoms by linear forms; atoms whose name contains a substituted
// atom inside parentheses (e.g. NumScalars(op0)) are renamed textually.
func (a Lin) Subst(m map[string]Lin, rename map[string]string) Lin {
	o := linC(a.C)
	for k, v := range a.T {
		if r, ok := m[k]; ok {
			o = o.Add(r.Scale(v))
			continue
		}
		nk := k
		for from, to := range rename {
			nk = strings.ReplaceAll(nk, "("+from+")", "("+to+")")
			nk = strings.ReplaceAll(nk, "["+from+"]", "["+to+"]")
		}
		o = o.Add(linAtom(nk).Scale(v))
	}
	return o
}
