package main

import (
	"go/constant"
	"go/token"
	"go/types"

	"golang.org/x/tools/go/ssa"
)

// coverFlags2: the FLAGS clause of R-COVER, independent of which function of package cover opens the
// profile. Every os.OpenFile call of the package is classified by the conditions under which it runs -
// "file does not exist" (a test of os.IsNotExist) and "append requested" (a test of the Cover.append field,
// or of a bool parameter that every caller feeds from that field) - and its constant flag set must fit:
// O_CREATE when the file is missing; O_APPEND without O_TRUNC when appending; O_TRUNC otherwise. The mode
// header is written unless the profile is appended to an existing file.
func coverFlags2(c *Ctx) int {
	var oAppend, oCreate, oTrunc int64
	cp := c.pkg("internal/cover")
	if cp == nil {
		return 0
	}
	for _, imp := range cp.Types.Imports() {
		if imp.Path() != "os" {
			continue
		}
		for name, dst := range map[string]*int64{"O_APPEND": &oAppend, "O_CREATE": &oCreate, "O_TRUNC": &oTrunc} {
			if k, ok := imp.Scope().Lookup(name).(*types.Const); ok {
				*dst, _ = constant.Int64Val(k.Val())
			}
		}
	}
	if oAppend == 0 || oCreate == 0 || oTrunc == 0 {
		c.undecided("anchor:os-flags", token.NoPos, "os.O_APPEND/O_CREATE/O_TRUNC not resolvable")
		return 0
	}
	fns := c.srcFuncs("internal/cover")
	n := 0
	// is value v "the append setting" in function f?
	isAppendCond := func(f *ssa.Function, v ssa.Value) bool {
		if fv, _ := loadedField(v); fv != nil && fv.Name() == "append" {
			return true
		}
		par, ok := v.(*ssa.Parameter)
		if !ok {
			return false
		}
		idx := -1
		for i, p := range f.Params {
			if p == par {
				idx = i
			}
		}
		if idx < 0 {
			return false
		}
		sites, okSites := 0, 0
		for _, g := range fns {
			allInstrs(g, func(in ssa.Instruction) {
				call, ok := in.(ssa.CallInstruction)
				if !ok || call.Common().StaticCallee() != f {
					return
				}
				sites++
				args := call.Common().Args
				if idx < len(args) {
					if fv, _ := loadedField(args[idx]); fv != nil && fv.Name() == "append" {
						okSites++
					}
				}
			})
		}
		return sites > 0 && sites == okSites
	}
	type ctxInfo struct {
		appendIfs, notExistIfs []*ssa.BasicBlock
	}
	infoOf := map[*ssa.Function]*ctxInfo{}
	ctxOf := func(f *ssa.Function) *ctxInfo {
		if ci, ok := infoOf[f]; ok {
			return ci
		}
		ci := &ctxInfo{}
		infoOf[f] = ci
		for _, b := range f.Blocks {
			if len(b.Instrs) == 0 {
				continue
			}
			iff, ok := b.Instrs[len(b.Instrs)-1].(*ssa.If)
			if !ok {
				continue
			}
			if isAppendCond(f, iff.Cond) {
				ci.appendIfs = append(ci.appendIfs, b)
			}
			if call, ok := iff.Cond.(*ssa.Call); ok {
				if fo := calleeObj(call); fo != nil && funcFullName(fo) == "os.IsNotExist" {
					ci.notExistIfs = append(ci.notExistIfs, b)
				}
			}
		}
		return ci
	}
	under := func(ifs []*ssa.BasicBlock, b *ssa.BasicBlock) bool {
		for _, ib := range ifs {
			if b != ib && (edgeDominates(ib, 0, b) || ib.Succs[0] == b && len(b.Preds) == 1) {
				return true
			}
		}
		return false
	}
	type vcase struct {
		v      int64
		append bool
	}
	var cases func(f *ssa.Function, v ssa.Value, blk *ssa.BasicBlock, depth int) ([]vcase, bool)
	cases = func(f *ssa.Function, v ssa.Value, blk *ssa.BasicBlock, depth int) ([]vcase, bool) {
		ci := ctxOf(f)
		if depth > 6 {
			return nil, false
		}
		switch x := v.(type) {
		case *ssa.Const:
			if is := constInts(x, 0); len(is) == 1 {
				return []vcase{{is[0], under(ci.appendIfs, blk)}}, true
			}
			if x.Value != nil {
				if x.Value.String() == "true" {
					return []vcase{{1, under(ci.appendIfs, blk)}}, true
				}
				if x.Value.String() == "false" {
					return []vcase{{0, under(ci.appendIfs, blk)}}, true
				}
			}
		case *ssa.Phi:
			var out []vcase
			for i, e := range x.Edges {
				cs, ok := cases(f, e, x.Block().Preds[i], depth+1)
				if !ok {
					return nil, false
				}
				out = append(out, cs...)
			}
			return out, true
		case *ssa.BinOp:
			if x.Op != token.OR {
				return nil, false
			}
			xs, ok1 := cases(f, x.X, blk, depth+1)
			ys, ok2 := cases(f, x.Y, blk, depth+1)
			if !ok1 || !ok2 {
				return nil, false
			}
			var out []vcase
			for _, a := range xs {
				for _, b := range ys {
					out = append(out, vcase{a.v | b.v, a.append || b.append || under(ci.appendIfs, x.Block())})
				}
			}
			return out, true
		}
		return nil, false
	}
	opens := 0
	sawTrunc, sawAppend := false, false
	for _, f := range fns {
		ci := ctxOf(f)
		for _, b := range f.Blocks {
			for _, in := range b.Instrs {
				call, ok := in.(*ssa.Call)
				if !ok {
					continue
				}
				fo := calleeObj(call)
				if fo == nil {
					continue
				}
				full := funcFullName(fo)
				if full == "os.Create" || full == "os.Open" {
					c.bad("flags:open:"+full, in.Pos(), "package cover opens the profile with %s, whose flags do not depend on append", full)
					n++
					continue
				}
				if full != "os.OpenFile" {
					continue
				}
				opens++
				key := "flags:open#" + itoa(int64(opens))
				cs, ok := cases(f, call.Call.Args[1], b, 0)
				n++
				if !ok {
					c.undecided(key, in.Pos(), "flag argument of os.OpenFile is not a constant expression over append")
					continue
				}
				if under(ci.notExistIfs, b) {
					good := true
					for _, cv := range cs {
						if cv.v&oCreate == 0 {
							good = false
						}
					}
					c.check(good, key, in.Pos(), "missing file: opened with O_CREATE", "the open on the file-does-not-exist path lacks O_CREATE")
					continue
				}
				good, why := true, ""
				for _, cv := range cs {
					if cv.append {
						if cv.v&oAppend == 0 || cv.v&oTrunc != 0 {
							good, why = false, "with append set the flags are "+hexs(cv.v)+" (need O_APPEND without O_TRUNC)"
						}
						sawAppend = true
					} else {
						if cv.v&oTrunc == 0 {
							good, why = false, "without append the flags are "+hexs(cv.v)+", lacking O_TRUNC: a shorter profile written over a longer one leaves the old tail in place"
						}
						sawTrunc = true
					}
				}
				c.check(good, key, in.Pos(), "existing file: O_TRUNC unless append, O_APPEND only then", "os.OpenFile on the existing-file path: "+why)
			}
		}
	}
	n++
	c.check(opens > 0 && sawTrunc && sawAppend, "flags:depend-on-append", token.NoPos, "an existing profile is opened with O_TRUNC or with O_APPEND depending on the append setting",
		"the flags used to open an existing profile do not depend on the append setting (truncating open seen: "+boolStr(sawTrunc)+", appending open seen: "+boolStr(sawAppend)+"): -coverappend has no effect, or every run appends")
	// header
	wp := c.ssaFunc("internal/cover", "Cover.WriteProfile")
	if wp == nil {
		c.undecided("anchor:WriteProfile-ssa", token.NoPos, "Cover.WriteProfile not found")
		return n
	}
	hdr := false
	for _, b := range wp.Blocks {
		if len(b.Instrs) == 0 {
			continue
		}
		iff, ok := b.Instrs[len(b.Instrs)-1].(*ssa.If)
		if !ok {
			continue
		}
		writes := false
		for _, in := range b.Succs[0].Instrs {
			if call, ok := in.(*ssa.Call); ok {
				if fo := calleeObj(call); fo != nil && funcFullName(fo) == "fmt.Fprintf" {
					writes = true
				}
			}
		}
		if !writes {
			continue
		}
		// the condition: a phi of constants here, or a result of a helper of the package
		type hcase struct {
			isNew    bool
			append   bool
			notExist bool
		}
		var hs []hcase
		okCases := false
		switch cv := iff.Cond.(type) {
		case *ssa.Phi:
			ci := ctxOf(wp)
			okCases = true
			var flat func(ph *ssa.Phi, depth int)
			flat = func(ph *ssa.Phi, depth int) {
				for i, e := range ph.Edges {
					pred := ph.Block().Preds[i]
					switch k := e.(type) {
					case *ssa.Const:
						if k.Value == nil {
							okCases = false
							continue
						}
						hs = append(hs, hcase{k.Value.String() == "true", under(ci.appendIfs, pred), under(ci.notExistIfs, pred)})
					case *ssa.Phi:
						if depth < 4 {
							flat(k, depth+1)
						} else {
							okCases = false
						}
					default:
						okCases = false
					}
				}
			}
			flat(cv, 0)
		case *ssa.Extract:
			if call, isCall := cv.Tuple.(*ssa.Call); isCall {
				if h := call.Call.StaticCallee(); h != nil && h.Pkg == wp.Pkg && len(h.Blocks) > 0 {
					ci := ctxOf(h)
					okCases = true
					for _, hb := range h.Blocks {
						if len(hb.Instrs) == 0 {
							continue
						}
						ret, isRet := hb.Instrs[len(hb.Instrs)-1].(*ssa.Return)
						if !isRet {
							continue
						}
						rr := retResults(ret)
						if cv.Index >= len(rr) {
							okCases = false
							continue
						}
						// a return that hands back no file is the error path: its flag does not matter
						if len(rr) > 0 && isNilConst(rr[0]) {
							continue
						}
						k, isK := rr[cv.Index].(*ssa.Const)
						if !isK || k.Value == nil {
							okCases = false
							continue
						}
						hs = append(hs, hcase{k.Value.String() == "true", under(ci.appendIfs, hb), under(ci.notExistIfs, hb)})
					}
				}
			}
		}
		if !okCases || len(hs) < 2 {
			continue
		}
		hdr = true
		good, sawFalse := true, false
		for _, h := range hs {
			if !h.isNew {
				sawFalse = true
				if !h.append || h.notExist {
					good = false
				}
			}
			if h.isNew && h.append && !h.notExist {
				good = false
			}
		}
		n++
		c.check(good && sawFalse, "flags:header", iff.Cond.Pos(), "the mode header is skipped exactly when appending to an existing file",
			"the mode header is written (or skipped) on the wrong paths: an appended profile gets a second header, or a fresh one none")
	}
	if !hdr {
		n++
		c.bad("flags:header", wp.Pos(), "no `if <new file> { write mode header }` found in WriteProfile whose condition is decided by append and file existence")
	}
	return n
}

func boolStr(b bool) string {
	if b {
		return "yes"
	}
	return "no"
}
